"""C04 - volatile data removal never deletes a file that is still needed."""
from checks.files_common import run_files, ASSUMPTIONS


def run(tier, replay=None):
    return run_files("C04", tier, replay, ASSUMPTIONS)

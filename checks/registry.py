"""What MANIFEST.json is generated from (bin/mkmanifest)."""

HOOK_COMMITS = ["c4c2ecd", "2f67f21", "e5d0013", "7bf7f92", "553dd8c", "dbfa6a8"]

ENGINES = [
    {"name": "tlc", "path": "/verif/lib/vlib.py", "serves_properties": ["C01", "C02", "C03", "C04", "C05", "C06", "C08", "C09", "C10", "C11", "C12", "C14", "C17", "C18"],
     "kind_free_text": "TLC runner (exhaustive, simulation), TLA+ value parser, evidence writer"},
    {"name": "psrun", "path": "/verif/lib/psprops.py", "serves_properties": ["C01", "C02", "C03", "C04", "C06", "C11", "C14"],
     "kind_free_text": "abstract programs (catalogue + seeded generator) -> MroSem table by TLC -> real pipestances under forced schedules -> PsTrace monitors by TLC"},
    {"name": "procdrv", "path": "/verif/lib/procdrv.py", "serves_properties": ["C05"],
     "kind_free_text": "real mrp/mrjob (tag verif) + table-driven vstage; SIGKILL/SIGTERM/SIGINT at the k-th effect; restart"},
    {"name": "vh", "path": "/verif/harness", "serves_properties": ["C01", "C02", "C03", "C04", "C05", "C06", "C08", "C09", "C10", "C11", "C12", "C14", "C17", "C18"],
     "kind_free_text": "Go conformance harness built with -tags verif against /repo's working tree"},
]

_RT_NOTE = ("programs: hand catalogue + fixed generated corpus (one mapped level per call chain; deeper nestings of run-time map calls are outside the corpus, see DESIGN.md); "
            "jobs run through the verif-tagged callback job manager with table-driven stage code; renderer, driver and hook placement are trusted; "
            "known findings (known_findings.json) are printed as KNOWN-FINDING")

CHECKS = [
    {"id": "C17", "engine": "tlc+vh",
     "technique": "TLA+ transcription of Assignable/Valid/Filter with the statement's theorems checked by TLC over bounded type and value universes; every row replayed through the real Type methods",
     "text": "MroTypes.tla states assignability, clean validation and filtering per type as the code does; TLC checks null-validity, reflexivity, array/typed-map congruence, idempotence of filtering and that filtering valid values reports nothing, over 35 types and ~2,600 (type, value) rows incl. near misses, and computes the conversions that are unsound in the model; each row is replayed in three byte renderings through IsValidJson, FilterJson (value, error, fatal flag, second application) and IsAssignableFrom; every assignable pair is also checked for 'valid for s => filtered to t validates for t'.",
     "ref": "DESIGN.md 5 C17",
     "note": "bounded universe (array dim <= 2, nesting <= 2, width <= 3); number printing beyond the listed literals is not covered; types come from one compiled AST"},
    {"id": "C18", "engine": "tlc+vh",
     "technique": "TLA+ model of the quoting function and of the POSIX double-quote reader; theorem checked by TLC on all short strings; every row replayed through the real function and the real /bin/sh",
     "text": "ShQuote.tla states Quote as the code does it and ShRead as POSIX 2.2.3; TLC proves ShRead(Quote(s)) = s for all strings over a 23-class alphabet up to length 3 (specials up to 5) and emits the rows; each row is quoted by the real appendShellSafeQuote, evaluated by the real /bin/sh and compared with the original string; whole job scripts from RemoteJobManager.jobScript are executed with a probe command (argument, environment value, placeholder-looking value, path).",
     "ref": "DESIGN.md 5 C18",
     "note": "class alphabet with one representative per class; /bin/sh of the sandbox (dash); invalid UTF-8 bytes are a recorded finding pinned by an existing test"},
    {"id": "C01", "engine": "tlc+psrun+vh",
     "technique": "TLA+ reference semantics (MroSem) evaluated by TLC as oracle; real pipestance runs under forced schedules; TLC monitors on recorded traces",
     "text": "For every program of the corpus TLC evaluates spec/MroSem.tla (denotational MRO semantics) to the table of stage invocations with their arguments, chunk outputs and the top-level outputs; the real runtime executes the rendered program under seeded and adversarial schedules; each job compares the _args/_chunk_outs it reads with the table, and spec/PsTrace.tla (TLC) judges every StageBegin and the final outputs.",
     "ref": "DESIGN.md 5 C01, Appendix A", "note": _RT_NOTE},
    {"id": "C02", "engine": "tlc+psrun+vh",
     "technique": "dependency relation from TLA+ semantics (MroSem provenance); slow-producer and random schedules forced on the real run loop; TLC trace monitors",
     "text": "Deps (per job: the stage instances whose outputs flow into its arguments, disabling conditions, map sources, plus enclosing preflights) is computed by TLC from MroSem; every producer in turn is held back while everything else runs; PsTrace (TLC) requires at every StageBegin that all dependencies' last jobs have ended ok and split < chunks < join.",
     "ref": "DESIGN.md 5 C02", "note": _RT_NOTE},
    {"id": "C11", "engine": "tlc+psrun+vh",
     "technique": "TLA+ model of key encoding, journal-name construction and the journal regular expression as a parser, theorems checked by TLC; rows replayed through the real functions; TLC trace monitors for routing on real mapped pipestances incl. stale attempts",
     "text": "ForkNames.tla: TLC checks that fork directory and journal names are injective on keys and that Parse(JournalName(node, fork, chunk, uniquifier, file)) returns its parts for all keys up to length 2 over a 16-character alphabet (thorough: length 4 over 8), node names chosen to confuse the parser, chunk counts crossing decimal widths; every key row is replayed through makeKeySafe / encodeJournalName / parseRunFilename. Real pipestances mapped over adversarial key sets run under forced schedules; PsTrace (TLC) requires that every accepted notification lands on the directory of the job that wrote it, that no two jobs share a directory or journal name, and that the call returns exactly the input keys; restart runs with surviving orphan jobs check that stale attempts are never attributed.",
     "ref": "DESIGN.md 5 C11", "note": _RT_NOTE + "; journal names for the unit replay are assembled in the harness from the real encoders"},
    {"id": "C05", "engine": "tlc+procdrv+vh",
     "technique": "TLA+ crash/restart model (MrpRun) checked exhaustively; crash-point enumeration on the real mrp/mrjob binaries; TLC trace monitors",
     "text": "MrpRun with Crash (any state, jobs dying or surviving as orphans) and Restart is model-checked for NoRedoOfRecorded, BeliefSound and StartsAfterDeps; the real mrp (hooks on) kills or signals itself right after its k-th file-system effect, is restarted on the same directory and must complete with the outputs of an uninterrupted run without re-executing jobs whose _complete was on disk; a handled signal must leave no _lock. PsTrace (TLC) judges the concatenated multi-process trace.",
     "ref": "DESIGN.md 5 C05", "note": "real binaries, stages under mrjob; local jobs die with mrp on this platform (PDEATHSIG) so surviving orphans are covered by the model only; crash points are mrp's own effects (job-side crash points are not enumerated); quick samples ~18 points per program, thorough takes every effect"},
    {"id": "C06", "engine": "tlc+psrun+vh",
     "technique": "fault enumeration on real runs chosen from the TLA+ job table; restart with the fault removed; TLC trace monitors",
     "text": "For jobs of every program (table from MroSem) each failure manifestation the stage code can produce (_errors, _assert, truncated _outs, missing key, wrong JSON type, malformed _stage_defs) is injected under seeded schedules; PsTrace (TLC) requires: the incarnation ends failed and names the failing stage, no job depending on the failed call starts; after mrp's exit a fresh runtime re-attaches with the fault removed and must complete with the reference outputs without re-executing recorded work.",
     "ref": "DESIGN.md 5 C06", "note": _RT_NOTE + "; exit-code-only and signal deaths need real processes (process driver)"},
    {"id": "C03", "engine": "tlc+psrun+vh",
     "technique": "expected job set from TLA+ semantics; execution counting on real runs; TLC trace monitors",
     "text": "ExpectedJobs = MroSem.Invocations(p) (forks per element/key, chunks as returned by split, nothing for disabled or empty/null mapped calls); PsTrace (TLC) flags any job executed twice, any job not in the table, any expected job never executed and any run that stalls.",
     "ref": "DESIGN.md 5 C03", "note": _RT_NOTE},
    {"id": "C08", "engine": "tlc+vh",
     "technique": "TLA+ model of the scanner (Lex.tla) evaluated by TLC on all short class strings, token cuts compared with the real scanner; every string, boundary representatives and all single-token edits of real programs pushed through the real parser entry points under a totality oracle",
     "text": "Lex.tla transcribes tokenizer.go (keyword/word-boundary rule, string, float, int, identifier expressions with their backtracking, comments ending at invalid UTF-8, Unicode spaces) over 23 byte classes; TLC checks that every token makes progress and the cuts partition the input, and writes the predicted cuts of all strings up to length 3 (full alphabet), 5 (numeric and string alphabets) - thorough 4 / 6 / 6; each string is cut by the real scanner (verif export) and parsed by ParseValExp, UncheckedParse, ParseSourceBytes, FormatSrcBytes in several contexts with recover and a deadline; plus numerals around the int64/float64/float32 limits, every escape form incl. truncated ones, every byte value, empty strings in every string position, nesting up to 10^4, inputs up to 2 MB, and every single-token deletion, duplication, swap, substitution, keyword-for-identifier and truncation of real programs.",
     "ref": "DESIGN.md 5 C08",
     "note": "class alphabet, not uniform bytes; memory is not measured; time is judged by a fixed deadline (formatting is quadratic in nesting depth because of indentation: recorded, not judged)"},
    {"id": "C09", "engine": "tlc+vh",
     "technique": "TLA+ model of comment attachment and placement (Fmt.tla) with the no-loss / exactly-once / fixed-point theorems checked by TLC on all short layouts; every layout replayed through the real formatter for nine construct families; whole-program oracle on an abstraction of the real syntax tree; include-expanded form recompiled",
     "text": "Fmt.tla transcribes lexer.go attachComments/compileComments and formatter.go printComments for one scope; TLC proves on all layouts of up to 7 (thorough 8) comment/blank/element lines, with and without construct-level separators, that no comment is lost, comments followed by an element are kept exactly once in order, and Format(Format(x)) = Format(x); each layout is rendered as stage parameters, struct fields, call / return bindings, array elements, map entries, retain lists, calls and declarations, formatted by the real FormatSrcBytes, and the layout of the real output must equal the model's. Whole programs (repository .mro files, rendered corpus, literal catalogue, both modifier syntaxes, comments everywhere, include diamonds with wildcard bindings): output parses, same abstract program, no comment lost, fixed point; ParseSourceBytes' combined source compiles alone to the same program and call graph.",
     "ref": "DESIGN.md 5 C09",
     "note": "one scope per layout (nesting is covered by the whole-program corpus only); numbers only through the literal catalogue; abstraction harness/absast is trusted"},
    {"id": "C10", "engine": "tlc+vh",
     "technique": "TLA+ specification of the single admissible emission order (Order.tla) checked total by TLC and used as oracle in the first run; R repetitions in each of P fresh processes compared byte for byte",
     "text": "Order.tla defines the byte-wise order of keys and proves it total and transitive on the key universe, so Sorted(S) is a function of the set; TLC writes the expected order of every 3-subset (thorough: 4-subset) of 56 keys; programs with those keys in shuffled source order must show them in exactly that order in the formatted text, the include-expanded source and the call graph JSON. Together with programs with 16-key literals, three split arguments over typed maps, whole mapped sub-pipeline results merged from different forked stages, duplicate retain entries, several compile errors at once and the formatter corpus, every artefact (formatted text, combined source, error messages, call graph JSON, retain order) is produced 20 times in each of 3 processes (thorough 200 x 10) and must be byte-identical; fork directories of real pipestances mapped over typed maps are compared across schedules.",
     "ref": "DESIGN.md 5 C10",
     "note": "map iteration order cannot be forced: detection of an unordered emission that happens to be sorted relies on repetition; per-fork _invocation files are not compared"},
    {"id": "C04", "engine": "tlc+psrun+vh",
     "technique": "TLA+ model of the VDR keep-alive protocol (Vdr.tla) checked exhaustively with the cleanup goroutines racing the run loop; file facts from the TLA+ semantics (MroSem.FileFacts); real pipestances writing files under every VDR mode; TLC trace monitors on removal events",
     "text": "Vdr.tla (fileArgs, filePostNodes, fileParamMap; one action per storage-lock critical section, asynchronous cache/kill halves of the doComplete goroutine, inline calls of the run loop, final sweep) is model-checked for NothingNeededRemoved, FinalClean, ReportExact over 78 small programs x 3 modes. For the file-passing catalogue TLC computes from MroSem which job writes each file, which jobs are handed it and whether a top-level output or retain names it; the real runtime runs the programs with table-driven stage code that writes and opens those files, under rolling / post / strict, slow-instance and random schedules, jittered cleanup goroutines and pipestances below a symbolic link; PsTrace (TLC) judges every VdrRemove (hook before os.RemoveAll), every consumer start and the final tree.",
     "ref": "DESIGN.md 5 C04", "note": _RT_NOTE + "; file shapes are a hand catalogue (18 programs); pass-through of upstream paths is outside the contract"},
    {"id": "C14", "engine": "tlc+psrun+vh",
     "technique": "same runs as C04; TLC monitors on the final tree and the kill reports, accounting compared with measurements taken at the removal hook; Vdr.tla invariants FinalClean / ReportExact model-checked",
     "text": "At completion (final VDR sweep and post-processing done as in cmd/mrp) PsTrace (TLC) requires: no per-job temporary directory with content, no file of a chunk of a splitting stage, no file (referenced, unreferenced, name-extending sibling) of a volatile stage - in strict mode of any stage - unless named by a top-level output or a retain; every path in the pipestance kill report is gone; its count and size equal the directory entries and bytes measured under each path when mrp removed it; no removal outside the pipestance.",
     "ref": "DESIGN.md 5 C14", "note": _RT_NOTE + "; interruption between partial and final cleanup is not yet driven"},
    {"id": "C12", "engine": "tlc+vh",
     "technique": "TLA+ model of ResourceSemaphore checked by TLC; TLC behaviours replayed against the real object",
     "text": "ResSem.tla (one action per critical section of resource_semaphore.go) is model-checked exhaustively for WithinLimits, GrantFits, Fifo, NoLostWakeup and progress; seeded TLC behaviours are replayed against the real core.ResourceSemaphore and the same guards are judged on the real object's observable state after every step.",
     "ref": "DESIGN.md 5 C12",
     "note": "small-scope bounds (3-4 clients, maxSize 4-6); verdicts only from the exported API of the real object; model mismatches that do not violate a guard are reported as NOTE model-drift"},
]

_PENDING = "check not built yet in this session (planned: see DESIGN.md section 5); not claimed until it exists"
NOT_APPLICABLE = [{"property_id": "C%02d" % i, "reason": _PENDING}
                  for i in range(1, 20) if "C%02d" % i not in [c["id"] for c in CHECKS]]

"""What MANIFEST.json is generated from (bin/mkmanifest)."""

HOOK_COMMITS = ["c4c2ecd", "2f67f21"]

ENGINES = [
    {"name": "tlc", "path": "/verif/lib/vlib.py", "serves_properties": ["C12"],
     "kind_free_text": "TLC runner (exhaustive, simulation), TLA+ value parser, evidence writer"},
    {"name": "vh", "path": "/verif/harness", "serves_properties": ["C12"],
     "kind_free_text": "Go conformance harness built with -tags verif against /repo's working tree"},
]

CHECKS = [
    {"id": "C12", "engine": "tlc+vh",
     "technique": "TLA+ model of ResourceSemaphore checked by TLC; TLC behaviours replayed against the real object",
     "text": "ResSem.tla (one action per critical section of resource_semaphore.go) is model-checked exhaustively for WithinLimits, GrantFits, Fifo, NoLostWakeup and progress; seeded TLC behaviours are replayed against the real core.ResourceSemaphore and the same guards are judged on the real object's observable state after every step.",
     "ref": "DESIGN.md 5 C12",
     "note": "small-scope bounds (3-4 clients, maxSize 4-6); verdicts only from the exported API of the real object; model mismatches that do not violate a guard are reported as NOTE model-drift"},
]

_PENDING = "check not built yet in this session (planned: see DESIGN.md section 5); not claimed until it exists"
NOT_APPLICABLE = [{"property_id": "C%02d" % i, "reason": _PENDING}
                  for i in range(1, 20) if "C%02d" % i not in [c["id"] for c in CHECKS]]

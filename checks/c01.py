"""C01 - stage arguments and pipeline outputs equal the MRO dataflow semantics."""
from checks.rt_common import run_rt, COMMON_ASSUMPTIONS


def run(tier, replay=None):
    return run_rt("C01", tier, replay, "deps", COMMON_ASSUMPTIONS + [
        "arguments read by each job (_args, _chunk_outs) and the top-level _outs are compared with MroSem as JSON values; null / empty collection / collection of nulls are identified only where MroSem predicts a nullish value (disabled or empty mapped call)",
    ], mc=())

"""C08 - the parser/compiler is total: any input yields a tree or a located error.

1. spec/Lex.tla (the scanner as tokenizer.go has it, over a class alphabet):
   TLC checks Progress on every string up to length N and writes the predicted
   token cuts; each string is concretised, cut by the real scanner (verif export)
   and compared, and pushed through ParseValExp / UncheckedParse /
   ParseSourceBytes in several contexts with recover and a deadline.
2. boundary representatives (numerals around the 64-bit / float ranges, every
   escape form, truncated escapes, invalid UTF-8, all 256 bytes, empty strings in
   every string position), deep nesting and long inputs.
3. every single-token edit (delete, duplicate, swap, substitute, keyword in
   identifier position, truncation between and inside tokens) of real programs.
Oracle: a tree, or an error whose text carries a position; never a panic, never
longer than the deadline.
"""
import glob
import json
import os
import subprocess
import time

import fshapes
import lexcases
import mro
import shapes
import vlib

CFGS = {"quick": ["Lex3", "LexNum5", "LexStr5"], "thorough": ["Lex4", "LexNum6", "LexStr6"]}
CORPUS = ["martian/syntax/testdata/formatter_test.mro", "martian/syntax/testdata/map_call_edge_cases.mro",
          "martian/core/testdata/struct_pipeline.mro", "test/retain_test/pipeline.mro", "test/fork_test/pipeline.mro",
          "martian/syntax/testdata/disable_pipeline.mro", "martian/syntax/testdata/resolve_test.mro",
          "test/files_test/pipeline.mro", "test/split_test/pipeline.mro"]


def vh(args, timeout=3000):
    p = subprocess.run([os.path.join(vlib.BUILD, "bin", "vh")] + args, stdout=subprocess.PIPE, stderr=subprocess.PIPE,
                       text=True, env=vlib.GOENV, timeout=timeout)
    return p


def run(tier, replay=None):
    t0 = time.time()
    thorough = tier == "thorough"
    vlib.go_build()
    wd = vlib.scratch("c08")
    viols = []
    cov = {"lex_rows": 0, "lex_cases": 0, "lex_drift": 0, "configs": []}
    counts = {}
    states = 0

    def take(rep, what):
        for k, v in (rep.get("counts") or {}).items():
            counts[k] = counts.get(k, 0) + v
        for v in rep.get("violations") or []:
            viols.append({"key": "C08:%s:%s%s" % (v["entry"], v["class"], ":" + v["id"] if v["id"].startswith("slow:") else ""),
                          "what": "%s on %s input %s: %s (%s)" % (v["kind"], entries_name(v["entry"]), v["src_q"][:160],
                                                                   v["text"][:200].replace("\n", " "), what),
                          "replay": {"case.json": json.dumps({"entry": v["entry"], "src_q": v["src_q"], "id": v["id"]}),
                                     "outcome.txt": v["kind"] + "\n" + v["text"]}})

    if replay:
        c = json.load(open(os.path.join(replay, "case.json")))
        src = eval("b" + c["src_q"]) if not c["src_q"].startswith("b") else eval(c["src_q"])
        lexcases.write([lexcases.case(c["id"], c["entry"], src)], os.path.join(wd, "r.ndjson"))
        p = vh(["parse-cases", os.path.join(wd, "r.ndjson"), os.path.join(wd, "r.json")])
        rep = json.load(open(os.path.join(wd, "r.json")))
        take(rep, "replay")
        for v in viols:
            print("VIOLATION property=C08 replay=%s" % replay)
            print("  " + v["what"])
        return 1 if viols else 0

    # 1. Lex rows
    for cfg in CFGS[tier]:
        r = vlib.run_tlc("Lex", cfg + ".cfg", workdir=wd, workers=1, timeout=3000)
        if not r.ok:
            raise vlib.Infra("Lex %s: %s" % (cfg, r.out[-1500:]))
        rows = os.path.join(wd, "lex_rows.ndjson")
        out = os.path.join(wd, "lex_%s.json" % cfg)
        p = vh(["lex-replay", rows, out])
        if p.returncode != 0:
            raise vlib.Infra("lex-replay %s: rc=%d %s" % (cfg, p.returncode, p.stderr[-1500:]))
        rep = json.load(open(out))
        cov["lex_rows"] += rep["rows"]
        cov["lex_cases"] += rep["cases"]
        cov["lex_drift"] += rep["drift"]
        cov["configs"].append("%s: %d strings, TLC %.1fs, %d parser calls, %d token-cut differences" % (
            cfg, rep["rows"], r.wall, rep["cases"], rep["drift"]))
        for ex in (rep.get("drift_examples") or [])[:3]:
            print("NOTE model-drift the real scanner cuts differently from spec/Lex.tla: %s" % ex[:300])
        take(rep, "Lex row, " + cfg)
        states += rep["rows"]
        os.remove(rows)
    # 2. boundary representatives
    lexcases.write(lexcases.boundary_cases(), os.path.join(wd, "b.ndjson"))
    p = vh(["parse-cases", os.path.join(wd, "b.ndjson"), os.path.join(wd, "b.json")])
    if p.returncode != 0:
        raise vlib.Infra("parse-cases: rc=%d %s" % (p.returncode, p.stderr[-1500:]))
    rep = json.load(open(os.path.join(wd, "b.json")))
    cov["boundary_cases"] = rep["cases"]
    take(rep, "boundary representative")
    # 3. nesting and long inputs; one process per depth (a stack overflow kills the process)
    times = []
    for depth in ([10, 100, 1000, 3000] if not thorough else [10, 100, 1000, 3000, 10000]):
        cs = lexcases.nesting_cases([depth])
        lexcases.write(cs, os.path.join(wd, "n.ndjson"))
        try:
            p = vh(["parse-cases", os.path.join(wd, "n.ndjson"), os.path.join(wd, "n.json")], timeout=900)
            rc, err = p.returncode, p.stderr
        except subprocess.TimeoutExpired:
            rc, err = -1, "timeout"
        if rc != 0:
            viols.append({"key": "C08:process:crash at depth %d" % depth,
                          "what": "the process died on nested / long inputs of size %d: %s" % (depth, err[-400:].replace("\n", " ")),
                          "replay": {"depth.txt": str(depth), "stderr.txt": err[-4000:]}})
            continue
        rep = json.load(open(os.path.join(wd, "n.json")))
        take(rep, "nesting / length %d" % depth)
        times += rep.get("times") or []
    cov["nesting_depths"] = "up to %d" % depth
    # 3b. type depths around the 16-bit boundaries, and include graphs (one process each)
    groups = [("type depth %d" % n, lexcases.typedepth_cases(n)) for n in (3, 300, 32766, 32767, 32768, 65535, 65536, 70000)]
    groups += [("include graph " + c["id"], [c]) for c in lexcases.graph_cases()]
    groups += [("pipelines calling each other " + c["id"], [c]) for c in lexcases.recursion_cases()]
    groups += [("time in proportion " + c["id"], [c]) for c in lexcases.slow_cases()]
    ngr = 0
    for label, cs in groups:
        lexcases.write(cs, os.path.join(wd, "g.ndjson"))
        try:
            p = vh(["parse-cases", os.path.join(wd, "g.ndjson"), os.path.join(wd, "g.json")], timeout=300)
            rc, err = p.returncode, p.stderr
        except subprocess.TimeoutExpired:
            rc, err = -1, "timeout"
        if rc != 0:
            head = err[:300].replace("\n", " ")
            viols.append({"key": "C08:process:crash on %s" % label,
                          "what": "the process died on %s: %s" % (label, head),
                          "replay": {"cases.ndjson": open(os.path.join(wd, "g.ndjson")).read()[:200000], "stderr.txt": err[:4000]}})
            continue
        rep = json.load(open(os.path.join(wd, "g.json")))
        ngr += rep["cases"]
        take(rep, label)
    cov["type_depth_and_include_graph_cases"] = ngr
    # 3c. include sequences of spec/Incl.tla: every pattern of good / missing / broken / nested
    # included files; the model says which are accepted, the oracle is judged on the real message
    r = vlib.run_tlc("Incl", "Incl3.cfg" if not thorough else "Incl4.cfg", workdir=wd, workers=1, timeout=1800)
    if not r.ok:
        raise vlib.Infra("Incl: " + r.out[-1500:])
    irows = [json.loads(l) for l in open(os.path.join(wd, "incl_rows.ndjson"))]
    lexcases.write([lexcases.incl_case(i, x) for i, x in enumerate(irows)], os.path.join(wd, "i.ndjson"))
    p = vh(["parse-cases", os.path.join(wd, "i.ndjson"), os.path.join(wd, "i.json")], timeout=1800)
    if p.returncode != 0:
        viols.append({"key": "C08:process:crash on include sequences",
                      "what": "the process died on the include sequences of Incl.tla: %s" % p.stderr[:300].replace("\n", " "),
                      "replay": {"stderr.txt": p.stderr[:4000]}})
    else:
        rep = json.load(open(os.path.join(wd, "i.json")))
        take(rep, "include sequence of Incl.tla")
        cov["include_sequences"] = rep["cases"]
        cov["include_sequences_outcome_differs_from_model"] = len(rep.get("wrong") or [])
        for w in (rep.get("wrong") or [])[:3]:
            print("NOTE model-drift include sequence %s: spec/Incl.tla says %s" % (w["id"], w["class"]))
        states += len(irows)
    cov["timings_ms_of_large_inputs"] = times[:40]
    # 4. token edits
    srcs = []
    repo = os.environ.get("VERIF_REPO", "/repo")
    for f in CORPUS:
        try:
            srcs.append({"id": os.path.basename(os.path.dirname(f)) + "/" + os.path.basename(f),
                         "src": open(os.path.join(repo, f)).read()})
        except OSError:
            pass
    progs = shapes.catalogue() + fshapes.catalogue()
    for p_ in progs[:: (1 if thorough else 4)]:
        srcs.append({"id": p_["name"], "src": mro.render(p_)})
    if not thorough:
        srcs = srcs[:3] + srcs[9:]
    with open(os.path.join(wd, "e.ndjson"), "w") as f:
        for s in srcs:
            f.write(json.dumps(s) + "\n")
    p = vh(["token-edits", os.path.join(wd, "e.ndjson"), os.path.join(wd, "e.json")] + (["full"] if thorough else []))
    if p.returncode != 0:
        raise vlib.Infra("token-edits: rc=%d %s" % (p.returncode, p.stderr[-1500:]))
    rep = json.load(open(os.path.join(wd, "e.json")))
    if rep.get("invalid_originals"):
        raise vlib.Infra("corpus program not accepted by the parser: %s" % rep["invalid_originals"][:2])
    cov["edit_programs"] = rep["programs"]
    cov["edit_cases"] = rep["cases"]
    take(rep, "single-token edit")
    rc, nunk, hit = vlib.conclude("C08", viols)
    total = cov["lex_cases"] + cov["boundary_cases"] + cov["edit_cases"]
    vlib.write_evidence("C08", tier, "model_checking", dict(cov, **{
        "states": states, "transitions": total, "exhaustive": False,
        "traces_validated_against_impl": cov["lex_rows"],
        "parser_calls": total, "outcomes": counts,
        "samples": [{"string": "1e9 ", "model_tokens": ["NUM_FLOAT 3", "SKIP 1"]}],
        "known_findings_hit": hit,
    }), [
        "class alphabet with one representative per class of bytes the scanner's rules distinguish (23 classes; keywords represented by `as`); the 19-digit cap, other keywords and every byte value are covered by the concrete boundary list, not by the model",
        "oracle: tree, or an error whose text carries 'at <file>:<line>' / 'line <n>'; the two whole-input messages 'Expected: expression, got mro instead' and 'Expected: includes or stage or pipeline or call.' are accepted without a position (weaker reading)",
        "deadline 5 s (Lex rows) / 10 s per call; memory is not measured; formatting deeply nested collections is quadratic because of indentation (recorded in timings, inputs capped at depth 10,000)",
        "entry points: Parser.ParseValExp, UncheckedParse, ParseSourceBytes (compile, no include paths), FormatSrcBytes",
        "differences between spec/Lex.tla and the real scanner are reported as NOTE model-drift, not as violations",
    ], time.time() - t0, violations=nunk)
    return rc


def entries_name(e):
    return {"valexp": "ParseValExp", "unchecked": "UncheckedParse", "compile": "ParseSourceBytes", "format": "FormatSrcBytes"}.get(e, e)

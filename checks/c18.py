"""C18 - cluster job scripts reproduce commands, paths and environment values.

ShQuote.tla: the quoting function as the code does it and the POSIX shell's
double-quote reader; TLC checks ShRead(Quote(s)) = s on the model for every
string over the character-class alphabet up to length N and emits the table;
every row is replayed: real appendShellSafeQuote vs the model, real /bin/sh vs
the original string (verdict) and vs the model's reader; whole job scripts
(RemoteJobManager.jobScript + formatArgs) are executed with a probe command.
"""
import json
import os
import time

import vlib


def run(tier, replay=None):
    t0 = time.time()
    cfgs = ["ShQuote3.cfg"] + (["ShQuote4.cfg"] if tier == "thorough" else [])
    vlib.go_build()
    viols = []
    nrows = 0
    shell_runs = scripts = 0
    samples = []
    drift = []
    tlc_info = []
    for cfg in cfgs:
        wd = vlib.scratch("shq")
        r = vlib.run_tlc("ShQuote", cfg, workdir=wd, workers=1, timeout=1500)
        rows = os.path.join(wd, "shquote_rows.ndjson")
        if replay:
            rows = os.path.join(replay, "rows.ndjson")
        work = os.path.join(wd, "work")
        os.makedirs(work)
        p = vlib.run_harness(["sh-replay", rows, work], timeout=1800)
        rep = json.loads(p.stdout)
        nrows += rep["rows"]
        shell_runs += rep["shell_runs"]
        scripts += rep["scripts"]
        samples = samples or rep["samples"]
        drift += rep["drift"]
        tlc_info.append("%s: %d rows, theorem ShRead(Quote(s)) = s checked by TLC in %.1fs" % (cfg, rep["rows"], r.wall))
        rowtext = {}
        for v in rep["violations"]:
            viols.append({
                "key": "C18:%s:%s" % (v["kind"], "thread-env" if v["got"].startswith("thread-count") else
                                      "special-resource" if v["got"].startswith("the stage's special") else v["class"]),
                "what": ("%s (job with the argument %s): %s (%s)" if v["got"].startswith(("thread-count", "the stage's special"))
                         else "%s: the string %s comes back from /bin/sh as %s (%s)") % (v["kind"], v["s"], v["got"], v["detail"][:300]),
                "replay": {"rows.ndjson": json.dumps({"s": cs(v["s"]), "q": [], "r": [], "ok": True}) + "\n"},
            })
        if replay:
            break
    for d in drift[:5]:
        print("NOTE model-drift property=C18 %s: %s -> %s (%s)" % (d["kind"], d["s"], d["got"], d["detail"]))
    # scripts of jobs submitted concurrently: a real RemoteJobManager with --maxjobs renders the
    # scripts of all chunks / forks dispatched in one pass from parallel goroutines; each job's
    # script (kept next to its metadata) must name its own directories and nobody else's
    ncluster = nscripts = nconc = 0
    if not replay:
        import random
        import psrun
        import shapes
        rng = random.Random(vlib.seed())
        progs = [q for q in shapes.catalogue() if q["name"] in ("split10", "map_dyn2", "map_keys", "diamond")]
        sem, _ = psrun.semantics(progs)
        specs = []
        for q in progs:
            for n in range(3 if tier == "quick" else 20):
                specs.append(psrun.make_spec(q, sem[q["name"]], {"kind": "random", "seed": rng.randrange(1 << 30), "penv": rng.choice([0.3, 0.6])},
                                             name="%s#s%d" % (q["name"], n), maxjobs=rng.choice([4, 8, 16])))
        res = psrun.run_specs(specs, nproc=8)
        for sp, r_ in zip(specs, res):
            ncluster += 1
            nscripts += r_.get("script_checked") or 0
            for b in (r_.get("script_bad") or [])[:2]:
                viols.append({"key": "C18:concurrent-job-script:%s" % sp["name"].split("#")[0],
                              "what": "cluster mode, --maxjobs=%d, program %s: %s" % (sp["maxjobs"], sp["name"], b[:500]),
                              "replay": {"spec.json": json.dumps(sp)}})
        if nscripts == 0:
            raise vlib.Infra("no job scripts were found in the cluster-mode runs")
        # the same on the rendering function alone: 8 goroutines on one job manager
        p = vlib.run_harness(["sh-concurrent"], timeout=600)
        crep = json.loads(p.stdout)
        nconc = crep["renderings"]
        if crep["differ"]:
            ex = crep["examples"][0]
            viols.append({"key": "C18:concurrent-job-script:rendering",
                          "what": "%d of %d job scripts rendered concurrently on one job manager differ from the script of the same job rendered alone, e.g. job %s: %s" % (
                              crep["differ"], crep["renderings"], ex["Job"], ex["Got"][:300].replace("\n", " ; ")),
                          "replay": {"example.json": json.dumps(ex)}})
    rc, nunk, hit = vlib.conclude("C18", viols)
    vlib.write_evidence("C18", tier, "model_checking", {
        "states": nrows, "transitions": nrows,
        "traces_validated_against_impl": nrows,
        "samples": samples[:5],
        "exhaustive": True,
        "rows_replayed": nrows, "shell_processes": shell_runs, "job_scripts_executed": scripts,
        "cluster_mode_runs": ncluster, "concurrently_rendered_job_scripts_checked": nscripts, "concurrent_renderings_compared": nconc,
        "model_drift": len(drift), "tlc_runs": tlc_info, "known_findings_hit": hit,
        "alphabet": "a SP \" ' $ ` \\ NL * ! # ; & | ( ~ { TAB é <FF> 7 = _ (length <= 3); specials only for length <= 5 (thorough)",
    }, [
        "characters are classes with one representative each; <FF> stands for a byte that is not valid UTF-8",
        "the shell is the sandbox's /bin/sh (dash) with LC_ALL=C; the model of its double-quote reader is itself validated against it on every row",
        "job scripts are rendered by job managers with and without the debug setting of mrp --debug; they use a minimal template with __MRO_CMD__, __MRO_STDOUT__, __MRO_STDERR__, __MRO_JOB_WORKDIR__, __MRO_JOB_NAME__; the string is used as argument, environment value (also one containing a placeholder name) and inside the metadata path",
    ], time.time() - t0, violations=nunk)
    return rc


def cs(goquoted):
    """Go-quoted string back to the model's character list (for replays)."""
    import ast
    try:
        b = ast.literal_eval("b" + goquoted) if goquoted.startswith('"') else goquoted.encode()
    except Exception:
        return [goquoted]
    out = []
    i = 0
    while i < len(b):
        c = b[i]
        if c == 0xff:
            out.append("<FF>")
            i += 1
        elif c == 0x80:
            out.append("<80>")
            i += 1
        elif c < 0x80:
            out.append(chr(c))
            i += 1
        else:
            j = i + 1
            while j < len(b) and (b[j] & 0xC0) == 0x80:
                j += 1
            out.append(b[i:j].decode("utf8", "replace"))
            i = j
    return out

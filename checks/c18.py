"""C18 - cluster job scripts reproduce commands, paths and environment values.

ShQuote.tla: the quoting function as the code does it and the POSIX shell's
double-quote reader; TLC checks ShRead(Quote(s)) = s on the model for every
string over the character-class alphabet up to length N and emits the table;
every row is replayed: real appendShellSafeQuote vs the model, real /bin/sh vs
the original string (verdict) and vs the model's reader; whole job scripts
(RemoteJobManager.jobScript + formatArgs) are executed with a probe command.
"""
import json
import os
import time

import vlib


def run(tier, replay=None):
    t0 = time.time()
    cfgs = ["ShQuote3.cfg"] + (["ShQuote4.cfg"] if tier == "thorough" else [])
    vlib.go_build()
    viols = []
    nrows = 0
    shell_runs = scripts = 0
    samples = []
    drift = []
    tlc_info = []
    for cfg in cfgs:
        wd = vlib.scratch("shq")
        r = vlib.run_tlc("ShQuote", cfg, workdir=wd, workers=1, timeout=1500)
        rows = os.path.join(wd, "shquote_rows.ndjson")
        if replay:
            rows = os.path.join(replay, "rows.ndjson")
        work = os.path.join(wd, "work")
        os.makedirs(work)
        p = vlib.run_harness(["sh-replay", rows, work], timeout=1800)
        rep = json.loads(p.stdout)
        nrows += rep["rows"]
        shell_runs += rep["shell_runs"]
        scripts += rep["scripts"]
        samples = samples or rep["samples"]
        drift += rep["drift"]
        tlc_info.append("%s: %d rows, theorem ShRead(Quote(s)) = s checked by TLC in %.1fs" % (cfg, rep["rows"], r.wall))
        rowtext = {}
        for v in rep["violations"]:
            viols.append({
                "key": "C18:%s:%s" % (v["kind"], v["class"]),
                "what": "%s: the string %s comes back from /bin/sh as %s (%s)" % (v["kind"], v["s"], v["got"], v["detail"][:300]),
                "replay": {"rows.ndjson": json.dumps({"s": cs(v["s"]), "q": [], "r": [], "ok": True}) + "\n"},
            })
        if replay:
            break
    for d in drift[:5]:
        print("NOTE model-drift property=C18 %s: %s -> %s (%s)" % (d["kind"], d["s"], d["got"], d["detail"]))
    rc, nunk, hit = vlib.conclude("C18", viols)
    vlib.write_evidence("C18", tier, "model_checking", {
        "states": nrows, "transitions": nrows,
        "traces_validated_against_impl": nrows,
        "samples": samples[:5],
        "exhaustive": True,
        "rows_replayed": nrows, "shell_processes": shell_runs, "job_scripts_executed": scripts,
        "model_drift": len(drift), "tlc_runs": tlc_info, "known_findings_hit": hit,
        "alphabet": "a SP \" ' $ ` \\ NL * ! # ; & | ( ~ { TAB é <FF> 7 = _ (length <= 3); specials only for length <= 5 (thorough)",
    }, [
        "characters are classes with one representative each; <FF> stands for a byte that is not valid UTF-8",
        "the shell is the sandbox's /bin/sh (dash) with LC_ALL=C; the model of its double-quote reader is itself validated against it on every row",
        "job scripts use a minimal template with __MRO_CMD__, __MRO_STDOUT__, __MRO_STDERR__, __MRO_JOB_WORKDIR__, __MRO_JOB_NAME__; the string is used as argument, environment value (also one containing a placeholder name) and inside the metadata path",
    ], time.time() - t0, violations=nunk)
    return rc


def cs(goquoted):
    """Go-quoted string back to the model's character list (for replays)."""
    import ast
    try:
        b = ast.literal_eval("b" + goquoted) if goquoted.startswith('"') else goquoted.encode()
    except Exception:
        return [goquoted]
    out = []
    i = 0
    while i < len(b):
        c = b[i]
        if c == 0xff:
            out.append("<FF>")
            i += 1
        elif c == 0x80:
            out.append("<80>")
            i += 1
        elif c < 0x80:
            out.append(chr(c))
            i += 1
        else:
            j = i + 1
            while j < len(b) and (b[j] & 0xC0) == 0x80:
                j += 1
            out.append(b[i:j].decode("utf8", "replace"))
            i = j
    return out

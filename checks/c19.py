"""C19 - semantic edits (mro edit) preserve behaviour.

Every applicable refactoring operation on every callable / parameter of the
base programs is applied with the real `mro edit -w`; the result must compile;
it is abstracted from the real syntax tree (harness/absast), given the stage
behaviour of the original (constants keyed by original stage / output names)
and evaluated by TLC with the reference semantics spec/MroSem.tla next to the
original program.  The two evaluations - stage invocations with arguments,
outputs, dependencies, and the top-level outputs - must be equal up to the
renamed identifiers or the removed unused elements.  Renaming X to Y and back
must restore the original program."""
import json
import os
import subprocess
import time

import absconv
import mro
import psrun
import refcorpus
import vlib


def rules_for(orig, info):
    """rules of the edited program: (stage', out') -> rule of the original"""
    cren = dict([info["callable"]]) if "callable" in info else {}
    if "callable2" in info:
        cren.update(dict([info["callable2"]]))
    oren = {}
    if "output" in info:
        n, o, o2 = info["output"]
        oren[(n, o)] = o2
    rules = {}
    for st in orig["stages"]:
        for r in st["rules"]:
            rules[(cren.get(st["name"], st["name"]), oren.get((st["name"], r["n"]), r["n"]))] = r["r"]
    chunks = {cren.get(st["name"], st["name"]): st["chunks"] for st in orig["stages"]}
    return rules, chunks


def ren_inst(name, m):
    """rename call-path components of an instance name TOP.A.B[i]"""
    path, idx = name.split("[", 1)
    return ".".join(m.get(c, c) for c in path.split(".")) + "[" + idx


def jobs_of(sem, inst_map, key_map_args, key_map_outs, drop_args, drop_outs):
    out = {}
    for i in sem["inv"]:
        inst = ren_inst(i["inst"], inst_map)
        st = i.get("stage", "")
        args = mro.untag(i["args"]) if i["args"]["k"] != "null" else None
        outs = mro.untag(i["outs"]) if i["outs"]["k"] != "null" else None
        if isinstance(args, dict):
            args = {key_map_args.get((st, k), k): v for k, v in args.items() if (st, k) not in drop_args}
        if isinstance(outs, dict):
            outs = {key_map_outs.get((st, k), k): v for k, v in outs.items() if (st, k) not in drop_outs}
        deps = sorted(ren_inst(d.lstrip("~"), inst_map) for d in i["deps"])
        out[(inst, i["kind"], i["chunk"])] = {"args": args, "outs": outs, "deps": deps}
    return out


def translator(orig, ep, positional):
    """maps an instance name of the original to the name the same call has in the
    edited program: calls are matched by position within their pipeline when a
    callable was renamed (the call may or may not change its name), by name otherwise"""
    opl = {q["name"]: q for q in orig["pipelines"]}
    epl = {q["name"]: q for q in ep["pipelines"]}

    def tr(name):
        path, idx = name.split("[", 1)
        comps = path.split(".")
        o, e = opl.get(orig["top"]["callee"]), epl.get(ep["top"]["callee"])
        out = [ep["top"]["callee"]]
        for c in comps[1:]:
            if o is None or e is None:
                out.append(c)
                continue
            oc = [x for x in o["calls"]]
            ec = [x for x in e["calls"]]
            j = next((k for k, x in enumerate(oc) if x["id"] == c), None)
            if positional and j is not None and len(oc) == len(ec):
                tgt = ec[j]
            else:
                tgt = next((x for x in ec if x["id"] == c), None)
            if j is None or tgt is None:
                out.append(c)
                o = e = None
                continue
            out.append(tgt["id"])
            o, e = opl.get(oc[j]["callee"]), epl.get(tgt["callee"])
        return ".".join(out) + "[" + idx
    return tr


def compare(orig, ep, osem, esem, info):
    """differences between the evaluation of the original and of the edited program"""
    d = []
    tr = translator(orig, ep, "callable" in info)
    topname = orig["top"]["callee"]
    rin = info.get("input")
    rout = info.get("output")
    oj, ost = {}, {}
    for i in osem["inv"]:
        k = (tr(i["inst"]), i["kind"], i["chunk"])
        oj[k] = i
        ost[k] = i.get("stage", "")
    ej = {(i["inst"], i["kind"], i["chunk"]): i for i in esem["inv"]}
    removed = set(oj) - set(ej)
    for k in sorted(set(ej) - set(oj))[:3]:
        d.append("the edited program runs a job the original does not: %s/%s/%d" % k)
    if removed and not info.get("unused"):
        d.append("jobs disappeared: " + ", ".join("%s/%s/%d" % k for k in sorted(removed)[:3]))
    removed_insts = {k[0] for k in removed}

    stage_of = {i["inst"]: i.get("stage", "") for i in osem["inv"]}

    def files(v, original):
        """file values name the instance and the output that wrote them: for the original
        program they are spelled the way the edited program spells them"""
        if isinstance(v, dict):
            if set(v) == {"#file"} and isinstance(v["#file"], str) and original:
                parts = v["#file"].split("|")
                if len(parts) == 3:
                    if rout and stage_of.get(parts[0]) == rout[0] and parts[2] == rout[1]:
                        parts[2] = rout[2]
                    parts[0] = tr(parts[0])
                return {"#file": "|".join(parts)}
            return {k_: files(x, original) for k_, x in v.items()}
        if isinstance(v, list):
            return [files(x, original) for x in v]
        return v

    def val(v, original=False):
        return files(mro.untag(v), original) if v["k"] != "null" else None

    for k in sorted(set(ej) & set(oj)):
        a, b, st = oj[k], ej[k], ost[k]
        oa, ea = val(a["args"], True), val(b["args"])
        if isinstance(oa, dict) and isinstance(ea, dict):
            if rin and rin[0] == st:
                ea = {(rin[1] if x == rin[2] else x): v for x, v in ea.items()}
            if "removed_input" in info and info["removed_input"][0] == st:
                oa = {x: v for x, v in oa.items() if x != info["removed_input"][1]}
        if oa != ea:
            d.append("arguments of %s/%s/%d changed: %s -> %s" % (k + (json.dumps(oa)[:120], json.dumps(ea)[:120])))
        oo, eo = val(a["outs"], True), val(b["outs"])
        if isinstance(oo, dict) and isinstance(eo, dict):
            if rout and rout[0] == st:
                eo = {(rout[1] if x == rout[2] else x): v for x, v in eo.items()}
            if "removed_output" in info and info["removed_output"][0] == st:
                oo = {x: v for x, v in oo.items() if x != info["removed_output"][1]}
            if info.get("unused"):
                oo = {x: v for x, v in oo.items() if x in eo}
        if oo != eo:
            d.append("outputs of %s/%s/%d changed: %s -> %s" % (k + (json.dumps(oo)[:120], json.dumps(eo)[:120])))
        od = sorted({tr(x.lstrip("~")) for x in a["deps"]} - removed_insts)
        ed = sorted({x.lstrip("~") for x in b["deps"]})
        if "removed_input" in info and info["removed_input"][0] == st:
            if not set(ed) <= set(od):
                d.append("dependencies of %s/%s/%d grew: %s -> %s" % (k + (od, ed)))
        elif od != ed:
            d.append("dependencies of %s/%s/%d changed: %s -> %s" % (k + (od, ed)))
    otop = val(osem["outs"], True)
    etop = val(esem["outs"])
    if rout and rout[0] == topname:
        etop = {(rout[1] if x == rout[2] else x): v for x, v in etop.items()}
    if otop != etop:
        d.append("top-level outputs changed: %s -> %s" % (json.dumps(otop)[:200], json.dumps(etop)[:200]))
    return d


def split_files(src, top):
    """the program text spread over lib.mro (everything before the top-level pipeline),
    top1.mro (top-level pipeline and call) and other.mro (a second file using the same
    definitions); None if the text is not laid out definitions-first"""
    i = src.find("\npipeline %s(" % top)
    if i < 0:
        return None
    lib, rest = src[:i + 1], src[i + 1:]
    if "\nstage " in rest or "\nstruct " in rest or "\nfiletype " in rest or rest.count("\npipeline ") > 0 or not lib.strip():
        return None
    return {"lib.mro": lib, "top1.mro": '@include "lib.mro"\n\n' + rest, "other.mro": '@include "lib.mro"\n\nfiletype zzother;\n'}


def run(tier, replay=None):
    t0 = time.time()
    vlib.go_build()
    wd = vlib.scratch("c19")
    repo = os.environ.get("VERIF_REPO", "/repo")
    mrobin = os.path.join(vlib.BUILD, "bin", "mro_vf")
    p = subprocess.run(["go", "build", "-o", mrobin, "./cmd/mro"], cwd=repo, env=vlib.GOENV, stdout=subprocess.PIPE,
                       stderr=subprocess.STDOUT, text=True, timeout=900)
    if p.returncode != 0:
        raise vlib.Infra("go build ./cmd/mro failed: " + p.stdout[-1500:])
    progs = refcorpus.base_programs()
    # programs given as text: abstracted from what the real compiler makes of them
    sd = os.path.join(wd, "sources")
    os.makedirs(sd)
    with open(os.path.join(wd, "s.ndjson"), "w") as f:
        for name, text, vals in refcorpus.SOURCES:
            os.makedirs(os.path.join(sd, name))
            open(os.path.join(sd, name, "p.mro"), "w").write(text)
            f.write(json.dumps({"Id": name, "Dir": os.path.join(sd, name), "Top": "p.mro"}) + "\n")
    p = subprocess.run([os.path.join(vlib.BUILD, "bin", "vh"), "ast-batch", os.path.join(wd, "s.ndjson"), os.path.join(wd, "sabs.ndjson")],
                       stdout=subprocess.PIPE, stderr=subprocess.PIPE, text=True, env=vlib.GOENV, timeout=600)
    if p.returncode != 0:
        raise vlib.Infra("ast-batch (sources): rc=%d %s" % (p.returncode, p.stderr[-1000:]))
    sabs = {json.loads(l)["id"]: json.loads(l) for l in open(os.path.join(wd, "sabs.ndjson"))}
    for name, text, vals in refcorpus.SOURCES:
        a = sabs[name]
        if not a["ok"]:
            raise vlib.Infra("source program %s does not compile: %s" % (name, a.get("error")))
        q = absconv.to_program(name, a["abs"], {k: mro.const(v) for k, v in vals.items()})
        q["src"] = text
        progs.append(q)
    byname = {q["name"]: q for q in progs}
    cases = []

    def edit(d, flags):
        return subprocess.run([mrobin, "edit", "-w"] + flags + ["p.mro"], cwd=d, env=dict(os.environ, MROPATH=d),
                              stdout=subprocess.PIPE, stderr=subprocess.PIPE, text=True, timeout=120)

    for q in progs:
        src = q.get("src") or mro.render(q, stage_lang="comp", stage_src="s")
        for label, flags, info in refcorpus.ops(q):
            d = os.path.join(wd, "%s_%d" % (q["name"], len(cases)))
            os.makedirs(d)
            open(os.path.join(d, "p.mro"), "w").write(src)
            r = edit(d, flags)
            cases.append({"id": "%s:%s" % (q["name"], label), "dir": d, "rc": r.returncode, "err": r.stderr[-400:],
                          "prog": q["name"], "info": info, "flags": flags, "src": src})
            if "callable" in info and not info.get("combined"):
                # and back again
                d2 = d + "_back"
                os.makedirs(d2)
                open(os.path.join(d2, "p.mro"), "w").write(open(os.path.join(d, "p.mro")).read())
                old, new = info["callable"]
                r2 = edit(d2, ["--rename", "%s=%s" % (new, old)])
                cases.append({"id": "%s:%s:back" % (q["name"], label), "dir": d2, "rc": r2.returncode, "err": r2.stderr[-400:],
                              "prog": q["name"], "info": {}, "flags": flags + ["then", "--rename", "%s=%s" % (new, old)], "src": src,
                              "back": True, "renamed": (old, new)})
    # the same operations on the program spread over several files, all of them named to
    # `mro edit`: definitions in lib.mro, the top-level pipeline and call in top1.mro, and
    # a second top-level file that includes the same definitions
    nmulti = 0
    for q in progs:
        src = q.get("src") or mro.render(q, stage_lang="comp", stage_src="s")
        parts = split_files(src, q["top"]["callee"])
        if parts is None:
            continue
        for label, flags, info in refcorpus.ops(q):
            # (every file of the set is named: the tool rewrites the files it is given)
            orders = [["top1.mro", "lib.mro", "other.mro"]]
            if info.get("unused"):
                orders += [["other.mro", "top1.mro", "lib.mro"], ["lib.mro", "other.mro", "top1.mro"]]
            for oi, order in enumerate(orders):
                d = os.path.join(wd, "%s_%d" % (q["name"], len(cases)))
                os.makedirs(d)
                for fn, text in parts.items():
                    open(os.path.join(d, fn), "w").write(text)
                r = subprocess.run([mrobin, "edit", "-w"] + flags + order, cwd=d, env=dict(os.environ, MROPATH=d),
                                   stdout=subprocess.PIPE, stderr=subprocess.PIPE, text=True, timeout=120)
                now = "".join(open(os.path.join(d, fn)).read() for fn in sorted(parts))
                cases.append({"id": "%s:%s:files%d" % (q["name"], label, oi), "dir": d, "rc": r.returncode, "err": r.stderr[-400:],
                              "prog": q["name"], "info": info, "flags": flags + order, "src": src, "top": "top1.mro",
                              "unchanged": now == "".join(parts[fn] for fn in sorted(parts)),
                              "files": {fn: open(os.path.join(d, fn)).read() for fn in sorted(parts)}})
                nmulti += 1
    # ... and with every definition in defs.mro and the top-level call alone in invoke.mro,
    # the declaring file named before the invoking one and the other way round
    for q in progs:
        src = q.get("src") or mro.render(q, stage_lang="comp", stage_src="s")
        i = src.rfind("\ncall ")
        if i < 0:
            continue
        parts = {"defs.mro": src[:i + 1], "invoke.mro": '@include "defs.mro"\n' + src[i:]}
        for label, flags, info in refcorpus.ops(q):
            for oi, order in enumerate((["defs.mro", "invoke.mro"], ["invoke.mro", "defs.mro"])):
                d = os.path.join(wd, "%s_%d" % (q["name"], len(cases)))
                os.makedirs(d)
                for fn, text in parts.items():
                    open(os.path.join(d, fn), "w").write(text)
                r = subprocess.run([mrobin, "edit", "-w"] + flags + order, cwd=d, env=dict(os.environ, MROPATH=d),
                                   stdout=subprocess.PIPE, stderr=subprocess.PIPE, text=True, timeout=120)
                now = "".join(open(os.path.join(d, fn)).read() for fn in sorted(parts))
                cases.append({"id": "%s:%s:two%d" % (q["name"], label, oi), "dir": d, "rc": r.returncode, "err": r.stderr[-400:],
                              "prog": q["name"], "info": info, "flags": flags + order, "src": src, "top": "invoke.mro",
                              "unchanged": now == "".join(parts[fn] for fn in sorted(parts)),
                              "files": {fn: open(os.path.join(d, fn)).read() for fn in sorted(parts)}})
                nmulti += 1
    with open(os.path.join(wd, "b.ndjson"), "w") as f:
        for c in cases:
            f.write(json.dumps({"Id": c["id"], "Dir": c["dir"], "Top": c.get("top", "p.mro")}) + "\n")
    p = subprocess.run([os.path.join(vlib.BUILD, "bin", "vh"), "ast-batch", os.path.join(wd, "b.ndjson"), os.path.join(wd, "abs.ndjson")],
                       stdout=subprocess.PIPE, stderr=subprocess.PIPE, text=True, env=vlib.GOENV, timeout=1200)
    if p.returncode != 0:
        raise vlib.Infra("ast-batch: rc=%d %s" % (p.returncode, p.stderr[-1000:]))
    absd = {json.loads(l)["id"]: json.loads(l) for l in open(os.path.join(wd, "abs.ndjson"))}
    viols = []

    def add(c, kind, what, edited=""):
        viols.append({"key": "C19:%s:%s" % (kind, c["id"].split(":", 1)[1][:60]),
                      "what": "%s (program %s, mro edit %s): %s" % (kind, c["prog"], " ".join(c["flags"]), what[:400]),
                      "replay": {"original.mro": c["src"], "edited.mro": edited, "flags.txt": " ".join(c["flags"])}})

    sem_in = list(progs)
    todo = []
    notes = []
    for c in cases:
        a = absd[c["id"]]
        edited = a.get("text") or ""
        if c["rc"] != 0:
            now = open(os.path.join(c["dir"], "p.mro")).read() if "files" not in c else None
            if (c["unchanged"] if "files" in c else now == c["src"]) or c.get("back"):
                add(c, "edit-fails", "mro edit exits with %s: %s" % (c["rc"], c["err"].replace("\n", " ")))
                continue
            # the files were rewritten before the tool stopped: they are what is judged; the
            # exit status is not part of the property
            notes.append("mro edit %s on %s rewrote the files and then exited with %s: %s" % (
                " ".join(c["flags"]), c["prog"], c["rc"], c["err"].strip().split("\n")[-1][:160]))
        if not a["ok"]:
            kind = "does-not-compile"
            if "map call" in (a.get("error") or "") and "remove_input" in c["id"]:
                kind = "does-not-compile-mapped-input-removed"
            if "callable2" in c["info"]:
                kind = "does-not-compile-two-renames-in-one-invocation"
            prm = (c["info"].get("input") or c["info"].get("output") or ("", "", ""))
            if "* =" in c["src"] and "ArgumentNotSuppliedError" in (a.get("error") or "") and prm[1] and \
                    ("'%s'" % prm[1] in a["error"] or "'%s'" % prm[2] in a["error"]):
                kind = "does-not-compile-renamed-parameter-bound-by-wildcard"
            add(c, kind, (a.get("error") or "").replace("\n", " "),
                open(os.path.join(c["dir"], "p.mro")).read() if "files" not in c else json.dumps(c["files"], indent=1))
            continue
        try:
            rules, chunks = rules_for(byname[c["prog"]], c["info"])
            ep = absconv.to_program("E%d" % len(todo), a["abs"], rules, chunks)
        except Exception as e:
            add(c, "cannot-interpret", "the edited program cannot be converted back: %r" % (e,), edited)
            continue
        # what a pipeline named as a top-level call returns is in use: it keeps every output
        for tname in c["info"].get("tops") or []:
            o0 = [x["n"] for x in mro.callable_of(byname[c["prog"]], tname)["outs"]]
            try:
                o1 = [x["n"] for x in mro.callable_of(ep, tname)["outs"]]
            except Exception:
                o1 = []
            gone = [x for x in o0 if x not in o1]
            if gone:
                add(c, "top-call-output-removed", "pipeline %s is named as a top-level call and lost its output(s) %s" % (tname, ", ".join(gone)), edited)
        sem_in.append(ep)
        todo.append((c, ep, edited))
    for n_ in sorted(set(notes))[:5]:
        print("NOTE " + n_)
    sem, semres = psrun.semantics(sem_in)
    for c, ep, edited in todo:
        diffs = compare(byname[c["prog"]], ep, sem[c["prog"]], sem[ep["name"]], c["info"])
        if diffs:
            kind = "behaviour-changed"
            if c.get("back"):
                kind = "rename-there-and-back-differs"
                old, new = c["renamed"]
                if any(x["callee"] == old and x["id"] == new for q_ in byname[c["prog"]]["pipelines"] for x in q_["calls"]):
                    kind = "rename-back-loses-alias"   # the new name was an alias of the renamed callable
            add(c, kind, "; ".join(diffs[:3]), edited)
    rc, nunk, hit = vlib.conclude("C19", viols)
    kinds = sorted({c["id"].split(":")[1] for c in cases})
    vlib.write_evidence("C19", tier, "model_checking", {
        "states": len(sem_in), "transitions": len(cases), "exhaustive": True,
        "traces_validated_against_impl": len(cases),
        "programs": len(progs), "program_names": [q["name"] for q in progs], "edits_applied": len(cases), "edits_on_several_files": nmulti, "edit_kinds": kinds,
        "edited_programs_evaluated_by_tlc": len(todo), "semantics_wall_s": round(semres.wall, 1),
        "samples": [{"edit": cases[0]["id"], "flags": cases[0]["flags"]}], "known_findings_hit": hit,
    }, [
        "real `mro edit -w` (cmd/mro) on single-file programs and on the same programs spread over three files named to the tool in several orders; one operation at a time, plus rename there and back and combined operations",
        "stage behaviour is a constant per (stage, output) of the original program, carried over the renames; the edited program is abstracted from the compiled real syntax tree (harness/absast, lib/absconv.py)",
        "equality of behaviour = equal MroSem evaluation (stage invocations with arguments / outputs / dependencies, top-level outputs) up to the operation's renaming or removal; calls keep or change their name with a renamed callable (alias), both are accepted",
        "--remove-input is applied to stage inputs only (as its documentation says); --remove-output only to outputs nothing refers to",
        "wildcard bindings are outside the abstract corpus",
    ], time.time() - t0, violations=nunk)
    return rc

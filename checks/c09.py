"""C09 - formatting is idempotent and preserves the program (incl. the
include-expanded form).

1. spec/Fmt.tla: comment attachment (lexer.go) and placement (formatter.go) on
   abstract layouts; TLC checks on all layouts up to N lines that no comment is
   lost, each comment followed by an element is kept exactly once, order is
   kept and Format(Format(x)) = Format(x); the rows are concretised for nine
   construct families and run through the real formatter, whose output layout
   must equal the model's and satisfy the same claims on the real text.
2. whole programs (repository files, rendered corpus, literal catalogue, both
   modifier syntaxes, comments in every position, include graphs): the output
   parses, denotes the same program up to dependency reordering of calls, loses
   no comment, is a fixed point; the include-expanded rendering compiles alone
   to the same program and call graph.
"""
import json
import os
import subprocess
import time

import fmtcorpus
import vlib

CFGS = {"quick": [("Fmt7_0", 0), ("Fmt7_1", 1)], "thorough": [("Fmt8_0", 0), ("Fmt8_1", 1)]}


def vh(args, timeout=3000):
    return subprocess.run([os.path.join(vlib.BUILD, "bin", "vh")] + args, stdout=subprocess.PIPE, stderr=subprocess.PIPE,
                          text=True, env=vlib.GOENV, timeout=timeout)


def run(tier, replay=None):
    t0 = time.time()
    vlib.go_build()
    wd = vlib.scratch("c09")
    viols = []
    cov = {"configs": [], "layout_rows": 0, "layout_cases": 0, "layout_drift": 0}

    def take(rep, what):
        for v in rep.get("violations") or []:
            viols.append({"key": "C09:%s:%s" % (v["kind"], v["family"].split(":")[0][:40]),
                          "what": "%s (%s %s): %s" % (v["kind"], what, v["family"], v["detail"][:300].replace("\n", "\\n")),
                          "replay": {"source.mro": v["src"], "formatted.mro": v["out"], "detail.txt": v["detail"],
                                     "case.json": json.dumps({"family": v["family"], "kind": v["kind"]})}})

    if replay:
        src = open(os.path.join(replay, "source.mro")).read()
        with open(os.path.join(wd, "c.ndjson"), "w") as f:
            f.write(json.dumps({"id": "replay", "files": {"p.mro": src}, "top": "p.mro"}) + "\n")
        p = vh(["fmt-programs", os.path.join(wd, "c.ndjson"), os.path.join(wd, "r.json"), wd])
        take(json.load(open(os.path.join(wd, "r.json"))), "replay")
        for v in viols:
            print("VIOLATION property=C09 replay=%s" % replay)
            print("  " + v["what"])
        return 1 if viols else 0

    states = 0
    for cfg, sep in CFGS[tier]:
        r = vlib.run_tlc("Fmt", cfg + ".cfg", workdir=wd, workers=1, timeout=3000)
        if not r.ok:
            raise vlib.Infra("Fmt %s: the model itself violates a theorem (specification problem): %s" % (cfg, r.out[-800:]))
        out = os.path.join(wd, "fmt_%s.json" % cfg)
        p = vh(["fmt-replay", os.path.join(wd, "fmt_rows.ndjson"), out, str(sep)])
        if p.returncode != 0:
            raise vlib.Infra("fmt-replay %s: rc=%d %s" % (cfg, p.returncode, p.stderr[-1500:]))
        rep = json.load(open(out))
        cov["layout_rows"] += rep["rows"]
        cov["layout_cases"] += rep["cases"]
        cov["layout_drift"] += rep["drift"]
        cov["configs"].append("%s: %d layouts (theorems checked by TLC in %.1fs), %d formatter runs %s, %d layout differences" % (
            cfg, rep["rows"], r.wall, rep["cases"], json.dumps(rep["counts"]), rep["drift"]))
        for ex in (rep.get("drift_examples") or [])[:3]:
            print("NOTE model-drift the real formatter places comments differently from spec/Fmt.tla: %s" % ex[:300])
        take(rep, "layout family")
        states += rep["rows"]
    cs = fmtcorpus.corpus(tier, os.environ.get("VERIF_REPO", "/repo"))
    with open(os.path.join(wd, "c.ndjson"), "w") as f:
        for c in cs:
            f.write(json.dumps(c) + "\n")
    p = vh(["fmt-programs", os.path.join(wd, "c.ndjson"), os.path.join(wd, "p.json"), wd])
    if p.returncode != 0:
        raise vlib.Infra("fmt-programs: rc=%d %s" % (p.returncode, p.stderr[-1500:]))
    rep = json.load(open(os.path.join(wd, "p.json")))
    take(rep, "program")
    rc, nunk, hit = vlib.conclude("C09", viols)
    vlib.write_evidence("C09", tier, "model_checking", dict(cov, **{
        "states": states, "transitions": cov["layout_cases"] + rep["counts"].get("files", 0), "exhaustive": False,
        "traces_validated_against_impl": cov["layout_cases"],
        "programs": rep["programs"], "program_counts": rep["counts"],
        "samples": [{"layout": ["e", "c", "b", "e"], "formatted": ["e", "c", "b", "e"]}],
        "known_findings_hit": hit,
    }), [
        "layouts are sequences of comment / blank / element lines of ONE scope; nine construct families (stage parameters, struct fields, call bindings, return bindings, array elements, map entries, retain lists, calls in a pipeline, top-level declarations)",
        "where comments after the last element of a scope go is not compared with the model (only 'not lost' is required of them, as in the statement)",
        "program equality is judged on an abstraction of the real syntax tree (harness/absast): declarations, parameters, types, help/out names, bindings, literal values, modifiers (both syntaxes folded), resources, retains; calls compared as a set plus a check that the printed order respects references; a float literal with an integral value and the integer of the same value are the same literal",
        "fixed point and exactly-once are only required of sources without dangling comments (a comment whose next line is a closing bracket or the end of the file)",
        "digit-level printing of numbers is exercised through the literal catalogue only",
    ], time.time() - t0, violations=nunk)
    return rc

"""C10 - compilation, formatting and call-graph resolution are deterministic.

spec/Order.tla fixes the single admissible emission order of unordered
collections (byte-wise order of keys); TLC checks that it is a total order on
the key universe and writes the expected order of every K-subset.  Programs
built from those rows (keys shuffled in the source) plus a corpus with many
literal keys, several split arguments, mapped sub-pipelines merged from
different forked stages, duplicate retain entries and several errors at once
are compiled, formatted and call-graph-serialised R times in each of P fresh
processes: all artefacts byte-identical, and the emitted key order equal to
the model's already in the first run.  Fork directories of calls mapped over
typed maps are compared between real pipestance runs under different schedules
and with the model's order."""
import json
import os
import random
import subprocess
import time
from concurrent.futures import ThreadPoolExecutor

import detcorpus
import psrun
import shapes
import vlib

RP = {"quick": (20, 3, "Order3"), "thorough": (200, 10, "Order4")}


def run(tier, replay=None):
    t0 = time.time()
    R, P, cfg = RP[tier]
    vlib.go_build()
    wd = vlib.scratch("c10")
    rng = random.Random(vlib.seed())
    r = vlib.run_tlc("Order", cfg + ".cfg", workdir=wd, workers=1, timeout=3000)
    if not r.ok:
        raise vlib.Infra("Order: " + r.out[-1000:])
    rows = [json.loads(l) for l in open(os.path.join(wd, "order_rows.ndjson"))]
    cases = detcorpus.corpus(tier, rows, rng, os.environ.get("VERIF_REPO", "/repo"))
    if replay:
        cases = [json.load(open(os.path.join(replay, "case.json")))]
        R, P = 200, 4
    inp = os.path.join(wd, "c.ndjson")
    with open(inp, "w") as f:
        for c in cases:
            f.write(json.dumps(c) + "\n")

    def proc(k):
        out = os.path.join(wd, "rep%d.json" % k)
        work = os.path.join(wd, "w%d" % k)
        os.makedirs(work, exist_ok=True)
        p = subprocess.run([os.path.join(vlib.BUILD, "bin", "vh"), "det-run", inp, out, str(R), work],
                           stdout=subprocess.PIPE, stderr=subprocess.PIPE, text=True, env=vlib.GOENV, timeout=3000)
        if p.returncode != 0:
            raise vlib.Infra("det-run: rc=%d %s" % (p.returncode, p.stderr[-1500:]))
        return json.load(open(out))

    with ThreadPoolExecutor(min(P, 8)) as ex:
        reps = list(ex.map(proc, range(P)))
    by_id = {c["id"]: c for c in cases}
    viols = []

    def add(cid, kind, detail):
        c = by_id[cid]
        fam = cid.rstrip("0123456789") if cid.startswith("order") else cid
        viols.append({"key": "C10:%s:%s" % (kind.split(":")[0], fam[:50]),
                      "what": "%s (program %s): %s" % (kind, cid, detail[:400]),
                      "replay": {"case.json": json.dumps(c), "program.mro": c["files"][c["top"]], "detail.txt": detail}})

    for rep in reps:
        for v in rep.get("violations") or []:
            add(v["id"], v["kind"], v["detail"])
    base = reps[0]["digests"]
    for k, rep in enumerate(reps[1:], 1):
        for cid, d in rep["digests"].items():
            for art in ("format", "combined", "error", "graph", "retains", "strict", "fixinc", "dot"):
                if d[art] != base[cid][art]:
                    add(cid, "differs-between-processes: " + art,
                        "process 0 and process %d produce different %s%s" % (
                            k, art, (": %r vs %r" % (base[cid]["error_text"][:200], d["error_text"][:200])) if art == "error" else ""))
    # fork directories of mapped calls on real runs
    nforks = 0
    if not replay:
        progs = [p for p in shapes.catalogue() if p["name"] in ("map_keys", "keys_suffix", "keys_encoded", "keys_dots", "keys_fork", "map_static",
                                                                 "map_projkeys", "map_dynkeys_split", "nest_arr_map")]
        sem, _ = psrun.semantics(progs)
        specs = []
        for p in progs:
            for s in range(5):
                specs.append(psrun.make_spec(p, sem[p["name"]], {"kind": "random", "seed": rng.randrange(1 << 30), "penv": [0.2, 0.5, 0.9, 0.4, 0.7][s]},
                                             name="%s#%d" % (p["name"], s)))
        res = psrun.run_specs(specs, nproc=6)
        first = {}
        for s, r_ in zip(specs, res):
            name = s["name"].split("#")[0]
            fd = json.dumps(r_.get("fork_dirs"), sort_keys=True)
            nforks += sum(len(v) for v in (r_.get("fork_dirs") or {}).values())
            if name in first and first[name] != fd:
                by_id[name] = {"id": name, "files": {"p.mro": s["mro"]}, "top": "p.mro"}
                add(name, "differs-between-runs: fork directories", "%s vs %s" % (first[name][:300], fd[:300]))
            first.setdefault(name, fd)
    seen = set()
    uniq = []
    for v in viols:
        if v["what"] not in seen:
            seen.add(v["what"])
            uniq.append(v)
    rc, nunk, hit = vlib.conclude("C10", uniq)
    vlib.write_evidence("C10", tier, "model_checking", {
        "states": len(rows), "transitions": len(cases) * R * P, "exhaustive": False,
        "order_rows": len(rows), "order_config": cfg, "order_rows_replayed": sum(1 for c in cases if c["id"].startswith("order")),
        "traces_validated_against_impl": len(cases),
        "programs": len(cases), "repetitions_per_process": R, "processes": P,
        "artefacts": ["formatted text", "include-expanded source", "error messages", "call graph JSON", "stage retain order"],
        "fork_directories_compared": nforks,
        "samples": [{"program": cases[0]["id"], "digests": {k: v for k, v in base[cases[0]["id"]].items() if k != "error_text"}}],
        "known_findings_hit": hit,
    }, [
        "Go's map iteration order cannot be forced; the model supplies the one admissible order (checked in the first run), repetition and fresh processes remove the remaining luck",
        "key universe: 56 keys of length <= 2 over {A, Z, a, b, 1, _, é}; all K-subsets by TLC, a seeded sample of them rendered with shuffled source order",
        "the scratch directory name is masked in error messages and graphs before comparison",
        "per-fork _invocation files and the key order inside _args are not compared",
    ], time.time() - t0, violations=nunk)
    return rc

"""C12 - resource limits are never exceeded and never stall the pipestance.

1. TLC, exhaustive: ResSem (MC_Sem safety, MC_SemLive progress).
2. Direction B: TLC behaviours of ResSem (simulation, seeded) replayed against
   the real core.ResourceSemaphore; property guards judged on the real object.
"""
import glob
import json
import os
import time

import vlib


def behaviours_from_tlc(cfg, num, depth, maxsize):
    wd = vlib.scratch("semsim")
    r = vlib.run_tlc("MC_Sem", cfg, workdir=wd, workers=1, timeout=600,
                     simulate="file=%s/b,num=%d" % (wd, num), depth=depth,
                     extra=["-seed", str(vlib.seed())])
    out = []
    for k, f in enumerate(sorted(glob.glob(os.path.join(wd, "b_*")))):
        states = vlib.parse_sim_file(f)
        steps = []
        cur = None
        for st in states[1:]:
            a = st["last"]["a"]
            if a in ("Grant", "RunDone"):
                if cur is None:
                    continue
                if a == "RunDone":
                    cur["post"] = post(st)
                    steps.append(cur)
                    cur = None
                continue
            if cur is not None:
                # previous macro step complete only if model not running
                cur = None
            step = {"a": a, "c": st["last"].get("c", 0), "n": st["last"].get("n", 0),
                    "m": st["last"].get("m", 0)}
            if st["running"]:
                cur = step
            else:
                step["post"] = post(st)
                steps.append(step)
        if steps:
            out.append({"id": k, "max": maxsize, "steps": steps})
    return r, out


def post(st):
    return {"cur": st["cur"], "reserved": st["reserved"],
            "waiters": [w["c"] for w in st["waiters"]],
            "holding": sorted(h["c"] for h in st["holding"]["#set"])}


def slot_behaviours(cfg, limit, num, depth, base):
    """environment actions of simulated behaviours of spec/SlotSem.tla"""
    wd = vlib.scratch("slotsim")
    r = vlib.run_tlc("SlotSem", cfg, workdir=wd, workers=1, timeout=600,
                     simulate="file=%s/b,num=%d" % (wd, num), depth=depth, extra=["-seed", str(vlib.seed())])
    out = []
    for k, f in enumerate(sorted(glob.glob(os.path.join(wd, "b_*")))):
        steps = [{"a": st["hist"]["a"], "j": st["hist"]["j"]} for st in vlib.parse_sim_file(f)[1:]]
        if any(s["a"] == "Cancel" for s in steps) or k % 3 == 0:
            out.append({"id": base + k, "limit": limit, "jobs": 4, "steps": steps})
    return r, out


def slot_semaphore(tier, viols, tlc_cmds):
    """spec/SlotSem.tla exhaustively (the code's signalling, and the variant that must stall),
    then its behaviours - of both variants - on the real MaxJobsSemaphore"""
    ok = vlib.run_tlc("SlotSem", "SlotSem.cfg", workers=8, timeout=1200)
    if not ok.ok:
        raise vlib.Infra("SlotSem violates %s (specification problem)" % ok.violation)
    bad = vlib.run_tlc("SlotSem", "SlotSemBad.cfg", workers=4, timeout=600)
    if bad.ok or bad.violation != "NoStall":
        raise vlib.Infra("SlotSemBad (signal only after a successful acquisition) does not violate NoStall: vacuous (%s)" % bad.violation)
    tlc_cmds.append("SlotSem.cfg: %d distinct states, WithinLimit, OnlyLive, NoStall and the liveness property Admitted hold (4 jobs, 2 slots, 2 cancellations); the variant without the deferred signal violates NoStall after %d states" % (ok.distinct, bad.generated))
    num, depth = (150, 40) if tier == "quick" else (1500, 60)
    behs = []
    for i, (cfg, lim) in enumerate((("SlotSemSim.cfg", 2), ("SlotSemSim1.cfg", 1), ("SlotSemBadSim.cfg", 2), ("SlotSemBadSim1.cfg", 1))):
        r, b = slot_behaviours(cfg, lim, num, depth, i * 100000)
        behs += b
    wd = vlib.scratch("slotrep")
    path = os.path.join(wd, "b.ndjson")
    with open(path, "w") as f:
        for b in behs:
            f.write(json.dumps(b) + "\n")
    p = vlib.run_harness(["slot-replay", path, wd], timeout=1500)
    rep = json.loads(p.stdout)
    if rep["infra"]:
        raise vlib.Infra("slot-replay: %s" % rep["infra"][:3])
    by_id = {b["id"]: b for b in behs}
    for v in rep["violations"]:
        b = by_id[v["behaviour"]]
        env = [s for s in b["steps"] if s["a"] in ("Call", "Cancel", "Release", "End", "FindDone")]
        viols.append({"key": "slots:%s:limit%d" % (v["kind"], b["limit"]),
                      "what": "MaxJobsSemaphore %s (limit %d): %s; after %s" % (v["kind"], b["limit"], v["detail"],
                                                                            " ".join("%s(%s)" % (s["a"], s["j"]) for s in env[-12:])),
                      "replay": {"behaviour.ndjson": json.dumps(b) + "\n"}})
    return {"slot_behaviours_replayed": rep["behaviours"], "slot_actions": rep["actions"], "slot_goroutines_parked": rep["goroutines_parked"],
            "slot_states": ok.distinct}


def local_limit_runs(tier, viols):
    """Real mrp / mrjob processes with stages that declare thread and memory requests, under
    --localcores / --localmem smaller than what the stages could use together.  Between the
    job manager's ProcStart and ProcExit events a job holds what mrp recorded in its _jobinfo;
    at every start the reservations of the jobs in that window must fit the limits, and the
    pipestance must complete."""
    import procdrv
    import psrun
    from mro import call, const, pipeline, program, ref, self_, stage
    root = procdrv.build_root()
    base = vlib.scratch("c12local")
    configs = [  # (name, per-stage resources, cores, mem)
        ("two_of_three", [{"threads": 2, "mem_gb": 1}] * 4, 3, 4),
        ("mem_bound", [{"threads": 1, "mem_gb": 2}] * 4, 4, 3),
        ("mixed", [{"threads": 1, "mem_gb": 1}, {"threads": 2, "mem_gb": 2}, {"threads": 3, "mem_gb": 1}, {"threads": 1, "mem_gb": 3}], 3, 3),
        ("over_limit", [{"threads": 8, "mem_gb": 1}, {"threads": 2.5, "mem_gb": 9}, {"threads": 1, "mem_gb": 1}, {"threads": 0.5, "mem_gb": 1}], 2, 2),
        ("fractional", [{"threads": 0.5, "mem_gb": 1}] * 4, 1, 4),
        # hundredths of a core that are not exact in binary, then a job that needs every core
        ("fraction_then_all", [{"threads": 1.15, "mem_gb": 1}, {"threads": 0.29, "mem_gb": 1}, {"threads": 0.57, "mem_gb": 1}, {"threads": 1.1, "mem_gb": 1}], 3, 4),
        # jobs that ask for the whole --localmem (exactly, and more: clamped), one after the other
        ("whole_mem", [{"threads": 1, "mem_gb": 2}, {"threads": 1, "mem_gb": 6}, {"threads": 1, "mem_gb": 1}, {"threads": 1, "mem_gb": 2}], 2, 2),
        # requests given in an --overrides file (not validated when it is read): above the
        # limits, negative ("as much as there is") and zero
        ("overrides", [{"threads": 1, "mem_gb": 1}] * 4, 2, 2),
        # --localvmem: two jobs map more address space than was reserved for them (7 GB against
        # 1 GB + the 3 GB every job is given on top) for a few refreshes of the free resources;
        # the jobs after them fit the limit again
        ("vmem_overuse", [{"threads": 1, "mem_gb": 1}] * 4, 1, 4),
        # an address space limit that is no whole number of GB (--localvmem=8 under ulimit -v 7000 MB, less what
        # mrp itself maps; the ulimit alone is not looked at without --localvmem) and a job whose request
        # (4 GB + the 3 GB every job is given on top) lies above it: clamped, not refused
        ("vmem_uneven", [{"threads": 1, "mem_gb": 4}, {"threads": 1, "mem_gb": 1}, {"threads": 1, "mem_gb": 1}, {"threads": 1, "mem_gb": 1}], 2, 8),
    ]
    OVERRIDES = {"TOP.W0": {"chunk.threads": 8}, "TOP.W1": {"chunk.mem_gb": 9, "chunk.threads": 1.5}, "TOP.W2": {"chunk.threads": -1, "chunk.mem_gb": -1},
                 "TOP.W3": {"chunk.threads": 0, "chunk.mem_gb": 0}}
    if tier == "quick":
        configs = configs[:3] + configs[-5:]
    report = []
    progs = []
    for name, ress, cores, mem in configs:
        stages = [stage("W%d" % i, "int x", "int y", {"y": const(i)}, res=r) for i, r in enumerate(ress)]
        stages.append(stage("SINK", "int a, int b, int c, int d", "int s", {"s": const(1)},
                            res=({"threads": cores, "mem_gb": 1} if name == "fraction_then_all" else None)))
        calls = [call("W%d" % i, binds={"x": self_("x")}) for i in range(len(ress))]
        calls.append(call("SINK", binds={k: ref("W%d" % i, "y") for i, k in enumerate("abcd")}))
        progs.append(program("lim_" + name, [], stages, [pipeline("TOP", "int x", "int s", calls, {"s": ref("SINK", "s")})], "TOP", {"x": 1}))
    sem, _ = psrun.semantics(progs)
    for (name, ress, cores, mem), q in zip(configs, progs):
        for rep in range(1 if tier == "quick" else 4):
            c = procdrv.Cycle(root, os.path.join(base, "%s_%d" % (name, rep)), q, sem[q["name"]], name, delay_ms=120,
                              cores=cores, mem=mem,
                              vmap=({"TOP.W0[]/main/0": 7000, "TOP.W1[]/main/0": 7000} if name == "vmem_overuse" else None),
                              delays=({"TOP.W0[]/main/0": 7000, "TOP.W1[]/main/0": 7000} if name == "vmem_overuse" else None),
                              extra_args=(["--localvmem=8"] if name in ("vmem_overuse", "vmem_uneven") else ()),
                              rlimit_as_mb=(7000 if name == "vmem_uneven" else 0))
            if name == "overrides":
                json.dump(OVERRIDES, open(os.path.join(c.wd, "overrides.json"), "w"))
                c.extra.append("--overrides=" + os.path.join(c.wd, "overrides.json"))
            rc_, dt = c.run(timeout=(60 if name in ("fraction_then_all", "whole_mem", "overrides", "vmem_uneven") else 90 if name == "vmem_overuse" else 180))
            evs = c.events()
            running = {}
            peak_t = peak_m = 0.0
            nstart = 0
            out = ""
            try:
                out = open(os.path.join(c.wd, "mrp.out"), errors="replace").read()
            except OSError:
                pass
            rp = {"program.mro": c.mro, "limits.txt": "--localcores=%d --localmem=%d%s" % (cores, mem, " --localvmem=8, under ulimit -v %d (kB)" % (7000 * 1024) if name == "vmem_uneven" else ""), "mrp.out": out[-3000:]}
            if name == "overrides":
                rp["overrides.json"] = json.dumps(OVERRIDES)
            for e in evs:
                if e.get("ev") == "ProcStart":
                    try:
                        ji = json.load(open(os.path.join(e["md"], "_jobinfo")))
                    except (OSError, ValueError):
                        continue
                    running[e["md"]] = (float(ji.get("threads") or 0), float(ji.get("memGB") or 0))
                    nstart += 1
                    t_ = sum(v[0] for v in running.values())
                    m_ = sum(v[1] for v in running.values())
                    peak_t, peak_m = max(peak_t, t_), max(peak_m, m_)
                    if t_ > cores + 1e-9 or m_ > mem + 1e-9:
                        viols.append({"key": "local:%s:over-limit" % name,
                                      "what": "local mode, --localcores=%d --localmem=%d: when %s started, the jobs between process start and exit held %.2f threads and %.2f GB (%s)" % (
                                          cores, mem, os.path.basename(os.path.dirname(e["md"])) + "/" + os.path.basename(e["md"]), t_, m_,
                                          ", ".join("%s: %g threads %g GB" % (os.path.relpath(k, c.psdir), v[0], v[1]) for k, v in running.items())),
                                      "replay": rp})
                elif e.get("ev") == "ProcExit":
                    running.pop(e.get("md"), None)
            if rc_ != 0:
                viols.append({"key": "local:%s:does-not-finish" % name,
                              "what": "local mode, --localcores=%d --localmem=%d, stages asking for %s: mrp ended with %s instead of completing: %s" % (
                                  cores, mem, json.dumps(ress), rc_, out[-300:].replace("\n", " ")), "replay": rp})
            report.append({"config": name, "cores": cores, "mem": mem, "mrp_exit": rc_, "process_starts": nstart,
                           "peak_threads": peak_t, "peak_mem_gb": peak_m, "seconds": round(dt, 1)})
            c.cleanup()
    return report


def run(tier, replay=None):
    t0 = time.time()
    thorough = tier == "thorough"
    states = trans = 0
    tlc_cmds = []
    cov = {}
    # 1. exhaustive model checking
    for cfg in (["MC_Sem.cfg", "MC_SemLive.cfg"] + (["MC_SemBig.cfg"] if thorough else [])):
        r = vlib.run_tlc("MC_Sem", cfg, workers=8, timeout=1500, coverage=(cfg == "MC_Sem.cfg"))
        if not r.ok:
            raise vlib.Infra("specification %s violates %s: the model is wrong or the design is; no verdict about the code\n%s"
                             % (cfg, r.violation, r.out[-2000:]))
        states += r.distinct
        trans += r.generated
        tlc_cmds.append(cfg + ": %d distinct / %d generated, depth %d, %.1fs" % (r.distinct, r.generated, r.depth, r.wall))
        cov.update({k: v[1] for k, v in r.coverage.items()})
    dead = [k for k, v in cov.items() if v == 0 and k.split(".")[1] in
            ("AcquireFast", "AcquireReject", "AcquireEnqueue", "Release", "Grant", "RunDone", "SetCur")]
    if dead:
        raise vlib.Infra("vacuous model: actions never taken: %s" % dead)
    # 2. replay
    vlib.go_build()
    num, depth = (3000, 60) if thorough else (600, 40)
    r, behs = behaviours_from_tlc("MC_SemSim.cfg", num, depth, 4)
    if replay:
        behs = [json.loads(l) for l in open(os.path.join(replay, "behaviour.ndjson"))]
    wd = vlib.scratch("semrep")
    path = os.path.join(wd, "b.ndjson")
    with open(path, "w") as f:
        for b in behs:
            f.write(json.dumps(b) + "\n")
    p = vlib.run_harness(["sem-replay", path], timeout=1500)
    rep = json.loads(p.stdout)
    if rep["infra"]:
        raise vlib.Infra("replay driver problem: %s" % rep["infra"][:3])
    viols = []
    by_id = {b["id"]: b for b in behs}
    for v in rep["violations"]:
        b = by_id[v["behaviour"]]
        prefix = b["steps"][:v["step"] + 1]
        viols.append({
            "key": "sem:%s:%s" % (v["kind"], "/".join("%s(%s,%s)" % (s["a"], s["n"], s["m"]) for s in prefix[-4:])),
            "what": "ResourceSemaphore %s: %s (after %d steps of behaviour %d)" % (v["kind"], v["detail"], v["step"] + 1, v["behaviour"]),
            "replay": {"behaviour.ndjson": json.dumps(dict(b, steps=prefix)) + "\n"},
        })
    for d in rep["drift"][:5]:
        print("NOTE model-drift property=C12 %s" % d["detail"])
    # 2b. what a job is given for its request (spec/SysReqs.tla): clamped to the limits
    wd2 = vlib.scratch("sysreqs")
    sr = vlib.run_tlc("SysReqs", "SysReqs.cfg", workdir=wd2, workers=1, timeout=600)
    if not sr.ok:
        raise vlib.Infra("SysReqs: the model violates its own theorem: %s" % sr.out[-800:])
    p = vlib.run_harness(["sysreqs-replay", os.path.join(wd2, "sysreqs_rows.ndjson")], timeout=600)
    srep = json.loads(p.stdout)
    for v in srep["violations"] or []:
        r_ = v["row"]
        viols.append({"key": "sysreqs:%s:cores=%d,mem=%d,threads=%s,mem_mb=%d" % (v["kind"], r_["cores"], r_["mem"], r_["tc"] / 100, r_["mm"]),
                      "what": "GetSystemReqs %s: %s" % (v["kind"], v["detail"]),
                      "replay": {"row.json": json.dumps(r_)}})
    for d in (srep["drift"] or [])[:3]:
        print("NOTE model-drift property=C12 GetSystemReqs: %s %s" % (json.dumps(d["row"]), d["detail"]))
    tlc_cmds.append("SysReqs.cfg: Clamped holds for every request of the grid and limits 1/2/4 cores, 1/2/4 GB; %d rows replayed through LocalJobManager.GetSystemReqs (%d differ from the model)" % (
        srep["rows"], len(srep["drift"] or [])))
    # 2c. admission of local jobs (spec/LocalJM.tla), and real mrp processes under small limits
    lj = vlib.run_tlc("LocalJM", "LocalJM.cfg", workers=8, timeout=900)
    if not lj.ok:
        raise vlib.Infra("LocalJM violates %s (specification problem)" % lj.violation)
    states += lj.distinct
    trans += lj.generated
    tlc_cmds.append("LocalJM.cfg: %d distinct states, WithinLimits, RunningHold and the liveness property AllDone hold for every assignment of 4 requests" % lj.distinct)
    local_report = local_limit_runs(tier, viols)
    slot_cov = slot_semaphore(tier, viols, tlc_cmds)
    states += slot_cov["slot_states"]
    # 3. cluster mode: --maxjobs with a real RemoteJobManager, the driver plays the
    #    cluster; plain runs and runs in which mrp exits and is restarted while jobs
    #    are queued or running on the cluster (MaxJobs.tla's Exit / Restart)
    mj = vlib.run_tlc("MaxJobs", "MaxJobs.cfg", workers=4, timeout=600)
    if not mj.ok:
        raise vlib.Infra("MaxJobs violates %s (specification problem)" % mj.violation)
    old = vlib.run_tlc("MaxJobs", "MaxJobsOld.cfg", workers=1, timeout=600)
    states += mj.distinct
    trans += mj.generated
    tlc_cmds.append("MaxJobs.cfg: %d states, WithinLimit / SemCovers hold; with re-attach not counting running jobs TLC finds %s" % (
        mj.distinct, " ; ".join(x["_action"].split(" line")[0].lstrip("<") for x in old.error_trace[1:])))
    import random
    import psprops
    import psrun
    import shapes
    rng = random.Random(vlib.seed())
    progs = [q for q in shapes.catalogue() if q["name"] in ("split10", "map_dyn2", "diamond", "split2", "chain", "map_keys")]
    sem, _ = psrun.semantics(progs)
    cspecs = []
    nper = 6 if not thorough else 40
    for q in progs:
        jobs = [j["key"] for j in psprops.expected_jobs(sem[q["name"]])]
        for n in range(nper):
            cspecs.append(psrun.make_spec(q, sem[q["name"]], {"kind": "random", "seed": rng.randrange(1 << 30), "penv": rng.choice([0.3, 0.6, 0.9])},
                                          name="%s#c%d" % (q["name"], n), maxjobs=rng.choice([1, 2, 3])))
            cspecs.append(psrun.make_spec(q, sem[q["name"]], {"kind": "random", "seed": rng.randrange(1 << 30), "penv": rng.choice([0.3, 0.6, 0.9])},
                                          name="%s#r%d" % (q["name"], n), maxjobs=rng.choice([1, 2, 3]),
                                          faults={rng.choice(jobs): "errors"}, restart=True))
    # a splitting stage with more chunks than slots: the failing job is a chunk in the middle, so
    # that at the restart chunks on the cluster and chunks still waiting for a slot are mixed
    for q in progs:
        if q["name"] != "split10":
            continue
        mid = [j["key"] for j in psprops.expected_jobs(sem[q["name"]]) if j["kind"] == "main" and j["split"] and 3 <= j["chunk"] <= 8]
        for n in range(12 if not thorough else 60):
            cspecs.append(psrun.make_spec(q, sem[q["name"]], {"kind": "random", "seed": rng.randrange(1 << 30), "penv": rng.choice([0.2, 0.4, 0.6])},
                                          name="%s#m%d" % (q["name"], n), maxjobs=rng.choice([2, 3]),
                                          faults={rng.choice(mid): "errors"}, restart=True))
    # while a chunk runs, a notification of a superseded attempt of the same chunk arrives: the
    # running job keeps its slot
    for q in progs:
        if q["name"] not in ("split10", "map_dyn2"):
            continue
        mains = [j["key"] for j in psprops.expected_jobs(sem[q["name"]]) if j["kind"] == "main"]
        for n in range(4 if not thorough else 20):
            cspecs.append(psrun.make_spec(q, sem[q["name"]], {"kind": "random", "seed": rng.randrange(1 << 30), "penv": rng.choice([0.2, 0.4])},
                                          name="%s#st%d" % (q["name"], n), maxjobs=rng.choice([1, 2]),
                                          stale_entries=rng.sample(mains, min(3, len(mains)))))
    cres = psrun.run_specs(cspecs, nproc=16)
    recs = []
    for sp, r_ in zip(cspecs, cres):
        recs += psprops.monitor_records(sp, sem[sp["name"].split("#")[0]], r_)
    cbad, ctlc = psprops.run_monitor(recs)
    cby = {sp["name"]: (sp, r_) for sp, r_ in zip(cspecs, cres)}
    rechecked = {}
    for b in cbad:
        if b["prop"] != "C12":
            continue
        sp, r_ = cby[b["run"]]
        if sp.get("restart"):
            # after the restart the goroutines of the runtime that "exited" are still in this
            # process (a real mrp takes them with it); under heavy load one of them has been seen
            # to submit a job late.  A violation in a restarted run is reported if the same run,
            # repeated alone three times, shows it again at least once
            if sp["name"] not in rechecked:
                a_specs = [dict(sp, name=sp["name"] + "#again%d" % k_) for k_ in range(3)]
                a_res = psrun.run_specs(a_specs, nproc=3)
                a_recs = []
                for as_, ar_ in zip(a_specs, a_res):
                    a_recs += psprops.monitor_records(as_, sem[sp["name"].split("#")[0]], ar_)
                a_bad, _ = psprops.run_monitor(a_recs)
                rechecked[sp["name"]] = any(x["prop"] == "C12" for x in a_bad)
            if not rechecked[sp["name"]]:
                print("NOTE the restarted run %s exceeded the limit in the batch (%s) and in none of three repetitions alone: not reported" % (sp["name"], b["what"][:80]))
                continue
        viols.append({"key": "maxjobs:%s:%s" % (sp["name"].split("#")[0], "restart" if sp.get("restart") else "run"),
                      "what": "cluster mode, --maxjobs=%d%s: %s (program %s)" % (
                          sp["maxjobs"], ", after mrp was restarted" if sp.get("restart") else "", b["what"], sp["name"]),
                      "replay": {"spec.json": json.dumps(dict(sp, sched={"kind": "script", "script": r_["script"]})),
                                 "trace.ndjson": "\n".join(json.dumps(e) for e in r_["trace"]) + "\n"}})
    stuck = [sp["name"] for sp, r_ in zip(cspecs, cres) if r_["states"][-1] != "complete"]
    for name in stuck[:3]:
        sp, r_ = cby[name]
        # a stall is only reported if the same run stalls again when repeated alone (in this
        # driver the goroutines of the runtime that "exited" live on in the process; under load
        # they were once seen to disturb the restarted one - an artefact of the harness, a real
        # mrp takes them with it)
        again = psrun.run_specs([dict(sp, name=sp["name"] + "#again%d" % k_) for k_ in range(3)], nproc=3)
        if not all(a_["states"][-1] != "complete" for a_ in again):
            print("NOTE the run %s did not complete (%s) in the batch but does when repeated alone: not reported" % (name, r_["states"]))
            continue
        viols.append({"key": "maxjobs:%s:stalled" % name.split("#")[0],
                      "what": "cluster mode, --maxjobs=%d: the pipestance did not complete (%s) (program %s)" % (sp["maxjobs"], r_["states"], name),
                      "replay": {"spec.json": json.dumps(sp)}})
    nsub = sum(1 for r_ in cres for e in r_["trace"] if e["ev"] == "ClusterSubmit")
    peak = max([e["inflight"] for r_ in cres for e in r_["trace"] if e["ev"] == "ClusterSubmit"] or [0])
    rc, nunk, hit = vlib.conclude("C12", viols)
    nontrivial = sum(1 for b in behs if any(s["a"] == "AcquireEnqueue" for s in b["steps"]))
    vlib.write_evidence("C12", tier, "model_checking", {
        "states": states, "transitions": trans,
        "traces_validated_against_impl": rep["behaviours"],
        "samples": [behs[0]["steps"][:8]] if behs else [],
        "exhaustive": True,
        "replayed_steps": rep["steps"],
        "replayed_actions": rep["actions"],
        "behaviours_with_queueing": nontrivial,
        "per_action": cov,
        "model_drift": len(rep["drift"]),
        "tlc_runs": tlc_cmds,
        "cluster_runs": len(cspecs), "cluster_runs_with_restart": sum(1 for x in cspecs if x.get("restart")),
        "cluster_submissions_observed": nsub, "peak_jobs_on_cluster": peak,
        "local_limit_runs": local_report,
        "slot_semaphore": slot_cov,
        "known_findings_hit": hit,
    }, [
        "local mode under limits: real mrp and mrjob processes, stages with declared threads / mem_gb (also above the limits and fractional), --localcores / --localmem 1..4; the reservations are the ones mrp wrote to each job's _jobinfo, the window is the job manager's ProcStart .. ProcExit (inside the reservation); LocalJM.tla is the design-level statement of the same invariant plus termination",
        "cluster mode: a real RemoteJobManager (template file, submit command that prints a job id, --maxjobs 1..3); the driver plays the cluster: a job is on the cluster from the SendJob hook until its process ends; after a failure mrp exits, the cluster jobs live on, a fresh runtime re-attaches (Reset, RestartLocalJobs with the cluster job mode, as cmd/mrp does); PsTrace (TLC) judges every submission",
        "SlotSem.tla makes the condition variable of maxjobs_semaphore.go explicit; behaviours of the model (of the code's signalling and of the variant that swallows wake-ups) are replayed as Call / Cancel / Release / End / FindDone on the real MaxJobsSemaphore with one goroutine per Acquire; a stall is only reported after all goroutines have been quiet for 300 ms with a free slot and a live waiter",
        "ResSem.tla transcribes resource_semaphore.go one action per critical section; MaxSize 4, 3 clients, amounts {0,1,2,3,5}, updates from {-1,0,2,4,6}",
        "replay drives the exported ResourceSemaphore API, one goroutine per blocked Acquire; verdicts only from the real object's Reserved/CurrentSize/QueueLength and which Acquire calls returned",
        "UpdateSize is only explored with values <= maxSize (the only caller passes rlimit cur <= max)",
    ], time.time() - t0, violations=nunk)
    return rc

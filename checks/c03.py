"""C03 - every enabled job runs exactly once; disabled calls never run."""
from checks.rt_common import run_rt, COMMON_ASSUMPTIONS


def run(tier, replay=None):
    return run_rt("C03", tier, replay, "all", COMMON_ASSUMPTIONS + [
        "ExpectedJobs = MroSem.Invocations(p): one fork per element/key, chunk count as returned by split, nothing for disabled or empty/null mapped calls",
        "a run that reaches quiescence without completing counts as a skipped job",
    ], mc=("Sched", "Dyn", "Dis"))

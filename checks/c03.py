"""C03 - every enabled job runs exactly once; disabled calls never run."""
import shapes
from checks.rt_common import run_rt, corpus, COMMON_ASSUMPTIONS


def run(tier, replay=None):
    # the corpus of the run-time checks plus statically nested arrays whose inner arrays differ
    # in length, are empty or null (per combination for nested mapped calls)
    progs = None if replay else corpus(tier) + shapes.nested_nonuniform() + shapes.mixed_static_dynamic_flags()
    return run_rt("C03", tier, replay, "all", COMMON_ASSUMPTIONS + [
        "ExpectedJobs = MroSem.Invocations(p): one fork per element/key, chunk count as returned by split, nothing for disabled or empty/null mapped calls",
        "a run that reaches quiescence without completing counts as a skipped job",
    ], progs=progs, mc=("Sched", "Dyn", "Dis"))

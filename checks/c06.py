"""C06 - a failing job fails the pipestance, blocks only its dependents, is
reported; after removing the fault a restart redoes only the failed work."""
import json
import random
import time

import psprops
import psrun
import shapes
import vlib
from checks.rt_common import COMMON_ASSUMPTIONS

KINDS = {"main": ["errors", "assert", "trunc-outs", "missing-key", "wrong-type", "garbage-outs"],
         "join": ["errors", "assert", "trunc-outs", "missing-key", "wrong-type", "garbage-outs"],
         "split": ["errors", "assert", "bad-stage-defs", "stale-defs", "badres-defs"]}


def fault_specs(progs, sem, tier, rng):
    specs = []
    per_prog = {"quick": 6, "thorough": 40}[tier]
    for p in progs:
        jobs = [i for i in sem[p["name"]]["inv"] if not i.get("ghost")]
        split_insts = {i["inst"] for i in jobs if i["kind"] == "split"}
        cases = []
        for i in jobs:
            key = "%s/%s/%d" % (i["inst"], i["kind"], i["chunk"])
            chunk_of_split = i["kind"] == "main" and i["inst"] in split_insts
            for k in KINDS[i["kind"]]:
                # invalid outputs are only injected where the outputs leave the
                # stage (fork-level _outs); what chunks hand to their own join is
                # the stage's internal contract and not validated by default
                if k in ("missing-key", "wrong-type") and (not has_outs(i) or chunk_of_split):
                    continue
                if k in ("trunc-outs", "garbage-outs") and (not has_outs(i) or chunk_of_split):
                    continue
                cases.append((key, k))
        rng.shuffle(cases)
        # every fault kind at least once per program where possible
        chosen, seen = [], set()
        for c in cases:
            if c[1] not in seen:
                chosen.append(c)
                seen.add(c[1])
        for c in cases:
            if len(chosen) >= per_prog:
                break
            if c not in chosen:
                chosen.append(c)
        # the call most others depend on fails while everything else is free to move
        ndeps = {}
        for i in jobs:
            for d in i["deps"]:
                if not d.startswith("~") and d != i["inst"]:
                    ndeps[d] = ndeps.get(d, 0) + 1
        if ndeps:
            hub = max(sorted(ndeps), key=lambda d: ndeps[d])
            hj = [i for i in jobs if i["inst"] == hub]
            if hj:
                i = hj[-1]
                specs.append(psrun.make_spec(p, sem[p["name"]], {"kind": "slow", "slow": hub, "seed": rng.randrange(1 << 30), "penv": 0.9},
                                             name="%s#hub" % p["name"], faults={"%s/%s/%d" % (i["inst"], i["kind"], i["chunk"]): "errors"},
                                             restart=True))
        # the stage a call is mapped over fails with unusable outputs whose arrays are longer
        # than they are once the fault is gone
        if p["name"] == "map_dyn_two_outs":
            for n in range({"quick": 2, "thorough": 8}[tier]):
                specs.append(psrun.make_spec(p, sem[p["name"]], {"kind": "random", "seed": rng.randrange(1 << 30), "penv": rng.choice([0.4, 0.8])},
                                             name="%s#sc%d" % (p["name"], n), faults={"TOP.G[]/main/0": "stale-collection"}, restart=True))
        # a job that sends a heartbeat and then dies without a trace: only the heartbeat
        # time-out (the driver lets 61 minutes pass once nothing moves) can fail it
        if p["name"] in ("chain", "split2", "map_dyn2", "diamond", "subpipe", "map_dynkeys_split") and jobs:
            for n in range({"quick": 2, "thorough": 10}[tier]):
                i = rng.choice(jobs)
                specs.append(psrun.make_spec(p, sem[p["name"]], {"kind": "random", "seed": rng.randrange(1 << 30), "penv": rng.choice([0.4, 0.8])},
                                             name="%s#hb%d" % (p["name"], n),
                                             faults={"%s/%s/%d" % (i["inst"], i["kind"], i["chunk"]): "vanish-heartbeat"}, restart=True))
            # cluster mode with a queue query (grace period 3000 s): the job dies without ever
            # having sent a heartbeat; the cluster's queue no longer lists it
            for n in range({"quick": 2, "thorough": 10}[tier]):
                i = rng.choice(jobs)
                specs.append(psrun.make_spec(p, sem[p["name"]], {"kind": "random", "seed": rng.randrange(1 << 30), "penv": rng.choice([0.4, 0.8])},
                                             name="%s#qv%d" % (p["name"], n), maxjobs=3, queue_check=True,
                                             faults={"%s/%s/%d" % (i["inst"], i["kind"], i["chunk"]): "vanish"}, restart=True))
        # a later fork of a mapped stage has failed while an earlier fork is still running (the
        # call counts as running); mrp exits because an independent stage fails too, the running
        # job dies with it; the restart has to run the failed fork again
        if p["name"] == "map_and_indep":
            for call_, first, later in (("A", "TOP.A[0]/main/0", "TOP.A[1]/main/0"), ("D", "TOP.D[0]/main/0", "TOP.D[2]/main/0"),
                                        ("D", "TOP.D[1]/main/0", "TOP.D[2]/main/0")):
                for n in range({"quick": 2, "thorough": 8}[tier]):
                    specs.append(psrun.make_spec(p, sem[p["name"]], {"kind": "random", "seed": rng.randrange(1 << 30), "penv": rng.choice([0.5, 0.8])},
                                                 name="%s#hf%s%s%d" % (p["name"], call_, first[6], n),
                                                 faults={later: "errors", "TOP.B[]/main/0": "errors"}, hold=[first], restart=True))
        # cluster mode: a stage called with `local = true` is running on the submit host when mrp
        # exits because another stage has failed; it dies with mrp (the cluster jobs live on) and
        # the restarted mrp has to run it again
        if p["name"] == "local_stages":
            for held in ("TOP.L[]/main/0", "TOP.LS[]/split/0", "TOP.LS[]/main/1", "TOP.LS[]/join/0"):
                for n in range({"quick": 2, "thorough": 6}[tier]):
                    # (the failing stage is the slow one: the held job has begun by the time it fails)
                    specs.append(psrun.make_spec(p, sem[p["name"]], {"kind": "slow", "slow": "TOP.B[]", "seed": rng.randrange(1 << 30), "penv": rng.choice([0.8, 0.95])},
                                                 name="%s#cl%s%d" % (p["name"], held.split("/")[0][-4:-2] + held.split("/")[1], n), maxjobs=2,
                                                 faults={"TOP.B[]/main/0": "errors"}, hold=[held], restart=True))
        for n, (key, kind) in enumerate(chosen[:max(per_prog, len(seen))]):
            sc = {"kind": "random", "seed": rng.randrange(1 << 30), "penv": rng.choice([0.3, 0.6, 0.9])}
            specs.append(psrun.make_spec(p, sem[p["name"]], sc, name="%s#f%d" % (p["name"], n),
                                         faults={key: kind}, restart=True, freeze=(n % 2 == 0)))
    return specs


def retry_runs(tier, viols, rng):
    import os
    import procdrv
    from concurrent.futures import ThreadPoolExecutor
    root = procdrv.build_root()
    q = [x for x in shapes.catalogue() if x["name"] == "chain"][0]
    qsem, _ = psrun.semantics([q])
    keys = ["TOP.A[]/main/0", "TOP.B[]/main/0"]
    wd = vlib.scratch("retry")
    cases = []
    states = 0
    for n in (0, 1, 2):
        r = vlib.run_tlc("Retry", "Retry%d.cfg" % n, workdir=wd, workers=2, timeout=600)
        if not r.ok:
            raise vlib.Infra("Retry%d: %s" % (n, r.violation))
        states += r.distinct
        rows = [json.loads(l) for l in open(os.path.join(wd, "retry_rows_%d.ndjson" % n))]
        # one representative per behaviour class: a job that never fails is the same whatever its kind
        seen = set()
        for row in rows:
            sig = tuple((f["n"], f["transient"] if f["n"] else None) for f in row["fails"])
            if sig in seen:
                continue
            seen.add(sig)
            cases.append((n, row))
    if tier == "quick":
        rng.shuffle(cases)
        keep = [c for c in cases if c[1]["status"] == 0 and sum(c[1]["execs"]) > 2][:4]
        keep += [c for c in cases if c not in keep][:8]
        cases = keep
    base = vlib.scratch("c06r")

    def one(i):
        n, row = cases[i]
        faults = {}
        for key, f in zip(keys, row["fails"]):
            if f["n"]:
                faults[key] = "%s*%d" % ("signal" if f["transient"] else "exit", f["n"])
        c = procdrv.Cycle(root, os.path.join(base, "r%d" % i), q, qsem[q["name"]], "retry%d" % i, delay_ms=5, faults=faults,
                          extra_args=["--autoretry=%d" % n, "--retry-wait=1"])
        rc_, dt = c.run(timeout=150)
        evs = c.events()
        execs = [sum(1 for e in evs if e.get("ev") == "StageBegin" and e.get("job") == k) for k in keys]
        out = ""
        try:
            out = open(os.path.join(c.wd, "mrp.out"), errors="replace").read()[-2500:]
        except OSError:
            pass
        c.cleanup()
        return rc_, execs, out, c.mro, faults

    with ThreadPoolExecutor(8) as ex:
        results = list(ex.map(one, range(len(cases))))
    report = []
    for (n, row), (rc_, execs, out, mrosrc, faults) in zip(cases, results):
        ok_status = (rc_ == 0) == (row["status"] == 0)
        report.append({"autoretry": n, "fails": row["fails"], "model": [row["status"], row["execs"]], "mrp_exit": rc_, "executions": execs})
        if rc_ == "timeout" or not ok_status or execs != row["execs"]:
            viols.append({"key": "C06:retry:autoretry=%d:%s" % (n, json.dumps(faults, sort_keys=True)),
                          "what": "mrp --autoretry=%d with jobs failing as %s: exit status %s, executions %s; the retry rules give status %d, executions %s" % (
                              n, json.dumps(faults, sort_keys=True), rc_, execs, row["status"], row["execs"]),
                          "replay": {"program.mro": mrosrc, "faults.json": json.dumps(faults), "mrp.out": out}})
    return report, states


def has_outs(inv):
    o = inv.get("outs") or {}
    return o.get("k") == "obj" and isinstance(o.get("o"), dict) and len(o["o"]) > 0


def run(tier, replay=None):
    t0 = time.time()
    if replay:
        bad, r = psprops.replay_spec(replay)
        mine = [b for b in bad if b["prop"] == "C06"]
        for b in mine:
            print("VIOLATION property=C06 replay=%s" % replay)
            print("  [%s] %s" % (b["job"], b["what"]))
        return 1 if mine else 0
    import gen
    from checks.rt_common import model_check
    mstates, mtrans, mruns = model_check(("Fail",))
    # how mrp learns of a job that died without a word (spec/Watch.tla): the code's handling of
    # the "not in the queue" mark, local mode (heartbeat only), and the variant that forgets
    # the mark on every refresh, which must violate the liveness property
    for cfg in ("Watch.cfg", "WatchLocal.cfg"):
        r = vlib.run_tlc("Watch", cfg, workers=4, timeout=900)
        if not r.ok:
            raise vlib.Infra("Watch %s violates %s (specification problem)" % (cfg, r.violation))
        mstates += r.distinct
        mtrans += r.generated
        mruns.append("%s: %d distinct states, NoFalseFailure and the liveness property VanishedFails hold" % (cfg, r.distinct))
    r = vlib.run_tlc("Watch", "WatchBad.cfg", workers=4, timeout=900)
    if r.ok or r.violation != "VanishedFails":
        raise vlib.Infra("WatchBad (the mark forgotten on every refresh) does not violate VanishedFails: vacuous (%s)" % r.violation)
    mruns.append("WatchBad.cfg: VanishedFails violated, as it must be (ClearMark = always); the real runs with vanished cluster jobs let the query interval and then the grace period pass and require the failure")
    rng = random.Random(vlib.seed())
    n = {"quick": 12, "thorough": 120}[tier]
    # map_nested is left out: its top-level outputs are wrong even without a fault
    # (recorded finding of C01), which would only be reported again here
    progs = [p for p in shapes.catalogue() if not p["name"].startswith(("map_nested", "map_dyn_static"))] + [gen.gen_program(s) for s in range(n)]
    sem, semres = psrun.semantics(progs)
    vlib.go_build()
    specs = fault_specs(progs, sem, tier, rng)
    results = psrun.run_specs(specs, nproc=16)
    records = []
    for s, r in zip(specs, results):
        records += psprops.monitor_records(s, sem[s["name"].split("#")[0]], r)
    bad, tlc = psprops.run_monitor(records)
    by = {s["name"]: (s, r) for s, r in zip(specs, results)}
    viols = []
    for b in bad:
        if b["prop"] != "C06":
            continue
        s, r = by[b["run"]]
        prog = s["name"].split("#")[0]
        fk, fv = list(s["faults"].items())[0]
        # programs with a merge over an unforked producer (C02 finding): the run fails in the
        # merge itself, whatever was injected
        um = ":unforked-merge" if sem[prog].get("weak") and not b["what"].startswith("unforked-merge") else ""
        if "stuck-running" in b["what"]:
            # a run that came to rest without failing or completing: in cluster mode the failure
            # of a vanished job is found by operations that run beside the loop (the queue query is
            # a process), and after an in-process restart work of the runtime goes on in goroutines;
            # under heavy machine load the driver has been seen to judge such a run at rest too
            # early (three runs of one thorough tier, none of which came to rest when repeated).
            # Reported only if the same schedule comes to rest again, three times out of three, alone
            again = psrun.run_specs([dict(s, name=s["name"] + "#again%d" % k_, sched={"kind": "script", "script": r["script"]})
                                     for k_ in range(3)], nproc=3)
            if not all(a_["states"] == r["states"] for a_ in again):
                print("NOTE the run %s came to rest (%s) in the batch but not when repeated alone (%s): not reported" % (
                    s["name"], r["states"], [a_["states"] for a_ in again]))
                continue
        viols.append({
            "key": "C06:%s:%s:%s:%s%s" % (prog, fk, fv, b["what"].split(":")[0][:60], um),
            "what": "C06 fault %s at %s (program %s): [%s] %s" % (fv, fk, prog, b["job"], b["what"]),
            "replay": {"spec.json": json.dumps(dict(s, sched={"kind": "script", "script": r["script"]})),
                       "program.mro": s["mro"],
                       "trace.ndjson": "\n".join(json.dumps(e) for e in r["trace"]) + "\n"},
        })
    # the retry budget (spec/Retry.tla): the model's table of exit status and executions per job,
    # for a chain of two jobs with every failure profile, against real mrp processes
    retry_report, retry_states = retry_runs(tier, viols, rng)
    # real processes: exit-status-only and signal deaths, with mrp's automatic retry
    # (cmd/mrp attemptRetry): a job that dies the same way every time must still
    # end the pipestance failed, naming the stage, with mrp exiting non-zero
    import os
    import procdrv
    root = procdrv.build_root()
    pprogs = [q for q in shapes.catalogue() if q["name"] in ("chain", "split2")]
    psem, _ = psrun.semantics(pprogs)
    proc_report = []
    pbase = vlib.scratch("c06p")
    for q in pprogs:
        jobs = [j["key"] for j in psprops.expected_jobs(psem[q["name"]]) if j["kind"] != "split"]
        for fault in ("signal", "exit"):
            key = jobs[rng.randrange(len(jobs))]
            c = procdrv.Cycle(root, os.path.join(pbase, "%s_%s" % (q["name"], fault)), q, psem[q["name"]], "retry",
                              delay_ms=5, faults={key: fault})
            rc_, dt = c.run(timeout=120)
            evs = c.events()
            execs = sum(1 for e in evs if e.get("ev") == "StageBegin" and e.get("job") == key)
            out = ""
            try:
                out = open(os.path.join(c.wd, "mrp.out"), errors="replace").read()
            except OSError:
                pass
            call = key.split("[")[0].split(".")[-1]
            proc_report.append({"program": q["name"], "job": key, "fault": fault, "mrp_exit": rc_, "executions": execs,
                                "seconds": round(dt, 1), "locked_after": c.locked()})
            rp = {"report.json": json.dumps(proc_report[-1]), "program.mro": c.mro, "mrp.out": out[-3000:]}
            if rc_ == "timeout":
                viols.append({"key": "C06:process:%s:never-ends" % fault,
                              "what": "a job that dies every time (%s, %s in %s) was executed %d times and mrp did not end the pipestance within 120 s" % (
                                  fault, key, q["name"], execs), "replay": rp})
            elif rc_ == 0:
                viols.append({"key": "C06:process:%s:exit-zero" % fault,
                              "what": "mrp exited with status 0 although job %s dies every time (%s)" % (key, fault), "replay": rp})
            elif ("." + call) not in out and call not in out:
                viols.append({"key": "C06:process:%s:not-named" % fault,
                              "what": "mrp's error report does not name the failing stage %s: %s" % (call, out[-300:].replace("\n", " ")), "replay": rp})
            elif c.locked():
                viols.append({"key": "C06:process:%s:left-locked" % fault,
                              "what": "mrp exited after the failure but left the pipestance locked", "replay": rp})
            c.cleanup()
    rc, nunk, hit = vlib.conclude("C06", viols)
    kinds = {}
    for s in specs:
        for v in s["faults"].values():
            kinds[v] = kinds.get(v, 0) + 1
    states = {}
    for r in results:
        k = "->".join(r.get("states") or [r["state"]])
        states[k] = states.get(k, 0) + 1
    vlib.write_evidence("C06", tier, "model_checking", {
        "states": mstates + tlc.distinct, "transitions": mtrans + tlc.generated,
        "exhaustive_model_runs": mruns,
        "traces_validated_against_impl": len(specs),
        "samples": [{"program": specs[0]["name"], "fault": specs[0]["faults"],
                     "schedule": results[0]["script"][:40], "states": results[0].get("states")}],
        "exhaustive": False,
        "programs": len(progs), "fault_runs": len(specs), "fault_kinds": kinds,
        "incarnation_outcomes": states,
        "monitor_records": len(records), "known_findings_hit": hit,
        "process_runs_with_persistent_faults": proc_report, "retry_table_runs": retry_report, "retry_model_states": retry_states,
    }, COMMON_ASSUMPTIONS + [
        "fault manifestations injected by the table-driven stage code: a job that sends a heartbeat and vanishes (the driver lets the heartbeat time-out pass through the verif export VerifAgeHeartbeats), a cluster job that vanishes from the queue (real RemoteJobManager with a queue query command answered by the driver, grace period 3000 s; the driver lets the query interval and then the grace period pass through VerifAgeQueueCheck), _errors, _assert, truncated _outs, missing output key, wrong JSON type, malformed _stage_defs; exit-status-only and signal deaths are produced by real stage processes under mrjob with the real mrp and its default automatic retry (4 process runs)",
        "after the failure mrp's exit is modelled as in cmd/mrp: Unlock, local jobs die; then a fresh Runtime re-attaches (ReattachToPipestance, Reset, RestartLocalJobs) with the fault removed",
        "'independent calls are unaffected' is checked in its minimal reading: results recorded before the failure are not executed again and the restarted run completes with the reference outputs",
    ], time.time() - t0, violations=nunk)
    return rc

"""C15 - re-attach is refused iff the invocation's meaning changed; one writer.

1. spec/Equiv.tla: the normal form of what an invocation means; TLC evaluates
   Same(original, edited) for every pair of the corpus (one cosmetic or one
   semantic edit at every applicable site of the transitive closure).  Each pair
   is replayed on the real runtime: InvokePipeline with the original
   definitions, that mrp unlocks, the definitions are edited, and a fresh
   runtime calls ReattachToPipestance (checkSrc, for writing).  Accepted must
   equal Same.
2. spec/PsLock.tla: the _lock protocol, model-checked for OneWriter over all
   orders of attach attempts and exits; the interleaving that breaks a
   check-then-write lock (found by TLC with Atomic = FALSE) is replayed on the
   real code with a hook between the check and the write, as are the
   sequential orders and attach attempts while a live mrp holds the lock.
"""
import json
import os
import subprocess
import time

import equivcorpus
import vlib


def vh(args, timeout=3000):
    return subprocess.run([os.path.join(vlib.BUILD, "bin", "vh")] + args, stdout=subprocess.PIPE, stderr=subprocess.PIPE,
                          text=True, env=vlib.GOENV, timeout=timeout)


def run(tier, replay=None):
    t0 = time.time()
    vlib.go_build()
    wd = vlib.scratch("c15")
    viols = []
    # ---- lock
    lk = vlib.run_tlc("PsLock", "PsLock.cfg", workers=2, timeout=600)
    if not lk.ok:
        raise vlib.Infra("PsLock violates %s (specification problem)" % lk.violation)
    old = vlib.run_tlc("PsLock", "PsLockOld.cfg", workers=1, timeout=600)
    race_trace = [s["_action"].split(" line")[0].lstrip("<") for s in old.error_trace][1:]
    insp = vlib.run_tlc("PsLock", "PsLockInspect.cfg", workers=1, timeout=600)
    if insp.ok:
        raise vlib.Infra("PsLockInspect: a refused inspector that removes the lock should break OneWriter (vacuous model)")
    insp_trace = [s["_action"].split(" line")[0].lstrip("<") for s in insp.error_trace][1:]
    loads = vlib.run_tlc("PsLock", "PsLockLoads.cfg", workers=1, timeout=600)
    if loads.ok or loads.violation != "OneWriter":
        raise vlib.Infra("PsLockLoads: an inspector that caches the owner's lock should break OneWriter (vacuous model): %s" % loads.violation)
    p = vh(["lock-race", os.path.join(wd, "lock.json"), wd])
    if p.returncode != 0:
        raise vlib.Infra("lock-race: rc=%d %s" % (p.returncode, p.stderr[-1000:]))
    lock = json.load(open(os.path.join(wd, "lock.json")))
    for o in lock:
        if o["held"] > 1:
            viols.append({"key": "C15:lock:%s" % o["order"],
                          "what": "two mrp instances attached for writing at the same time (order %s: %s): both hold the pipestance" % (
                              o["order"], " ; ".join(race_trace) if o["order"] == "race" else "one after the other"),
                          "replay": {"lock.json": json.dumps(o), "model_trace.txt": "\n".join(race_trace)}})
    # ---- two real mrp processes on one pipestance
    import threading
    import procdrv
    import psrun
    import shapes
    root = procdrv.build_root()
    prog = [q for q in shapes.catalogue() if q["name"] == "chain"][0]
    sem, _ = psrun.semantics([prog])
    pw = os.path.join(wd, "proc")
    c1 = procdrv.Cycle(root, pw, prog, sem["chain"], "lock1", delay_ms=900)
    out1 = {}
    th = threading.Thread(target=lambda: out1.update(rc=c1.run()[0]))
    th.start()
    t_wait = time.time()
    while not c1.locked() and time.time() - t_wait < 20:
        time.sleep(0.05)
    held_before = c1.locked()
    c2 = procdrv.Cycle(root, pw, prog, sem["chain"], "lock2", delay_ms=900)
    rc2, _ = c2.run(timeout=60)
    held_after = c1.locked()
    still_running = th.is_alive()
    th.join()
    proc_report = {"first_mrp_exit": out1.get("rc"), "second_mrp_exit": rc2, "lock_before_second": held_before,
                   "lock_after_second_exited": held_after, "first_still_running_then": still_running}
    if held_before and still_running:
        if rc2 == 0:
            viols.append({"key": "C15:lock:second-process-attached",
                          "what": "a second mrp process attached to a pipestance a live mrp holds (exit status 0)",
                          "replay": {"report.json": json.dumps(proc_report)}})
        if not held_after:
            viols.append({"key": "C15:lock:refused-process-removed-lock",
                          "what": "a second mrp process was refused but removed the _lock of the live mrp when it exited",
                          "replay": {"report.json": json.dumps(proc_report)}})
    else:
        print("NOTE the first mrp had finished before the second started; the two-process lock test did not apply")
    c1.cleanup()
    # ---- an instance that has given the pipestance up stays alive (mrp --noexit after a failure:
    # it unlocks on every turn of its loop); a second instance attaches, takes the lock and runs:
    # its lock must stay for as long as it runs
    jobs_ = ["%s/%s/%d" % (i["inst"], i["kind"], i["chunk"]) for i in sem["chain"]["inv"]]
    pw3 = os.path.join(wd, "proc3")
    cn1 = procdrv.Cycle(root, pw3, prog, sem["chain"], "noexit1", faults={jobs_[0]: "errors"}, extra_args=["--noexit"], delay_ms=50)
    on1 = {}
    tn1 = threading.Thread(target=lambda: on1.update(rc=cn1.run(timeout=45)[0]))
    tn1.start()
    t_wait = time.time()
    while time.time() - t_wait < 25 and not any(e.get("ev") == "Unlock" for e in cn1.events()):
        time.sleep(0.1)
    gave_up = any(e.get("ev") == "Unlock" for e in cn1.events()) and not cn1.locked()
    noexit_report = {"first_failed_and_unlocked": gave_up}
    if gave_up:
        cn2 = procdrv.Cycle(root, pw3, prog, sem["chain"], "noexit2", delay_ms=2500)
        on2 = {}
        tn2 = threading.Thread(target=lambda: on2.update(rc=cn2.run(timeout=60)[0]))
        tn2.start()
        t_wait = time.time()
        while not cn2.locked() and time.time() - t_wait < 20:
            time.sleep(0.05)
        took = cn2.locked()
        hist = []
        while tn2.is_alive() and len(hist) < 60:
            hist.append(cn2.locked())
            time.sleep(0.25)
        tn2.join()
        # (the last samples may fall into the second instance's own exit)
        lost = took and len(hist) > 6 and not all(hist[:-3])
        noexit_report.update({"second_took_the_lock": took, "lock_seen_while_second_ran": "".join("L" if h else "-" for h in hist),
                              "second_exit": on2.get("rc")})
        if lost:
            viols.append({"key": "C15:lock:given-up-instance-removed-the-lock-of-the-next",
                          "what": "an mrp that had failed and given the pipestance up (--noexit keeps it alive) removed the _lock of the mrp that attached after it, while that one was running (lock seen every 0.25 s: %s)" % noexit_report["lock_seen_while_second_ran"],
                          "replay": {"report.json": json.dumps(noexit_report), "program.mro": cn2.mro}})
    else:
        print("NOTE the --noexit test did not apply: the first mrp did not fail and unlock in time")
    tn1.join()
    cn1.cleanup()
    # ---- creation of a new pipestance by several instances (spec/PsCreate.tla): exhaustive
    # with the repaired behaviour (OneHolder, HolderIntact, SomeoneFinishes); the behaviour as
    # found (the refused instance removes the directory) must violate HolderIntact
    pc_ok = vlib.run_tlc("PsCreate", "PsCreate.cfg", workers=2, timeout=600)
    if not pc_ok.ok:
        raise vlib.Infra("PsCreate: %s %s" % (pc_ok.violation, pc_ok.out[-800:]))
    pc_bad = vlib.run_tlc("PsCreate", "PsCreateBad.cfg", workers=1, timeout=600)
    if pc_bad.ok or pc_bad.violation != "HolderIntact":
        raise vlib.Infra("PsCreateBad (the refused instance removes the directory) does not violate HolderIntact: vacuous (%s)" % pc_bad.violation)
    create_trace = [s_["_action"].split(" line")[0].lstrip("<") for s_ in pc_bad.error_trace][1:]
    # ---- two mrp processes started on a new pipestance at the same moment: both find the
    # directory empty; one is held there (it stops itself) until the other has created the
    # pipestance, taken the lock and started jobs
    import signal
    pw2 = os.path.join(wd, "proc2")
    cp = procdrv.Cycle(root, os.path.join(wd, "proc2probe"), prog, sem["chain"], "simP", delay_ms=5)
    cp.run(timeout=60)
    k_inv = next((e["seq"] for e in cp.events() if e.get("ev") == "InvokeChecked"), 0)
    cp.cleanup()
    if not k_inv:
        raise vlib.Infra("no InvokeChecked event in a run of mrp: the hook is missing")
    ca = procdrv.Cycle(root, pw2, prog, sem["chain"], "simA", delay_ms=700)
    outa = {}
    tha = threading.Thread(target=lambda: outa.update(rc=ca.run(signal_at=(int(k_inv), int(signal.SIGSTOP)), timeout=90)[0]))
    tha.start()
    t_wait = time.time()
    pid_a = None
    while pid_a is None and time.time() - t_wait < 20:
        for e in ca.events():
            if e.get("ev") == "InvokeChecked":
                pid_a = int(e["w"].split(":")[1])
        time.sleep(0.05)
    sim_report = {"first_stopped_after_finding_the_directory_empty": pid_a is not None}
    if pid_a is None:
        print("NOTE the simultaneous-start test did not apply: the first mrp did not stop at InvokeChecked")
        tha.join()
    else:
        cb = procdrv.Cycle(root, pw2, prog, sem["chain"], "simB", delay_ms=700)
        outb = {}
        thb = threading.Thread(target=lambda: outb.update(rc=cb.run(timeout=90)[0]))
        thb.start()
        t_wait = time.time()
        while not cb.locked() and time.time() - t_wait < 20:
            time.sleep(0.05)
        began = False
        while not began and time.time() - t_wait < 30:
            began = any(e.get("ev") == "StageBegin" for e in cb.events())
            time.sleep(0.05)
        held = cb.locked()
        os.kill(pid_a, signal.SIGCONT)
        tha.join()
        b_alive = thb.is_alive()
        intact = all(os.path.exists(os.path.join(cb.psdir, f)) for f in ("_lock", "_invocation", "_mrosource"))
        thb.join()
        outs_b = cb.top_outs()
        # direction A: what the two processes did, as a behaviour of PsCreate (repaired variant)
        lines = []
        wmap = {}
        for e in cb.events():
            w = e.get("w", "")
            if not w.startswith("mrp:"):
                continue
            m_ = wmap.setdefault(w, "ab"[len(wmap)] if len(wmap) < 2 else "x")
            if e.get("ev") == "InvokeChecked":
                lines.append({"a": "CheckEmpty", "m": m_, "look": False, "dir": [], "pc": "empty"})
            elif e.get("ev") == "LockCheck":
                lines.append({"a": "MakeNodes", "m": m_, "look": False, "dir": []})
            elif e.get("ev") == "LockCreated":
                lines.append({"a": "Lock", "m": m_, "look": False, "dir": [], "pc": "holding"})
                lines.append({"a": "WriteMeta", "m": m_, "look": False, "dir": []})
        loser = wmap.get("mrp:%d" % pid_a, "a")
        lines.append({"a": "MakeNodes", "m": loser, "look": False, "dir": []})
        lines.append({"a": "Lock", "m": loser, "look": False, "dir": [], "pc": "refused"})
        lines.append({"a": "Cleanup", "m": loser, "look": True, "dir": ["nodes", "lock", "meta"] if intact else []})
        tw = vlib.scratch("psctrace")
        with open(os.path.join(tw, "psc_trace.ndjson"), "w") as f:
            for ln in lines:
                f.write(json.dumps(ln) + "\n")
        try:
            tv = vlib.run_tlc("PsCreateTrace", "PsCreateTrace.cfg", workdir=tw, workers=1, timeout=300)
            accepted, why = bool(tv.ok), (tv.violation or "trace not accepted")
        except vlib.Infra as e:
            accepted, why = False, "trace not accepted" if "TraceAccepted" in str(e) else str(e)[-300:]
        sim_report["steps_validated_against_PsCreate"] = len(lines)
        sim_report["accepted_by_PsCreate"] = accepted
        if not accepted and intact and outb.get("rc") == 0:
            print("NOTE model-drift: the steps of the two processes are not a behaviour of spec/PsCreate.tla (%s)" % why)
        sim_report.update({"second_held_the_lock": held, "first_exit": outa.get("rc"), "second_alive_when_first_exited": b_alive,
                           "pipestance_intact_then": intact, "second_exit": outb.get("rc")})
        if held and b_alive:
            if outa.get("rc") == 0:
                viols.append({"key": "C15:lock:simultaneous-start-both-ran",
                              "what": "two mrp processes started on a new pipestance at the same moment both ran it (exit status 0 for the one that came second to the lock)",
                              "replay": {"report.json": json.dumps(sim_report)}})
            if not intact or outb.get("rc") != 0:
                tail = ""
                try:
                    tail = open(os.path.join(pw2, "mrp.out"), errors="replace").read()[-600:].replace("\n", " ")
                except OSError:
                    pass
                viols.append({"key": "C15:lock:simultaneous-start-loser-destroyed-the-pipestance",
                              "what": "two mrp processes started on a new pipestance at the same moment (both found the directory empty): the one that lost the lock removed files of the pipestance the other holds locked and runs (_lock / _invocation / _mrosource present afterwards: %s; the holder then ended with status %s): %s" % (
                                  intact, outb.get("rc"), tail),
                              "replay": {"report.json": json.dumps(sim_report), "program.mro": cb.mro}})
        else:
            print("NOTE the simultaneous-start test did not apply: the second mrp was not running when the first continued")
    ca.cleanup()
    # ---- equivalence
    ps = equivcorpus.pairs(tier)
    if replay:
        ps = [json.load(open(os.path.join(replay, "pair.json")))]
    with open(os.path.join(wd, "pairs.ndjson"), "w") as f:
        for q in ps:
            f.write(json.dumps({"id": q["id"], "a": q["a"], "b": q["b"]}) + "\n")
    r = vlib.run_tlc("Equiv", "Equiv.cfg", workdir=wd, workers=1, timeout=1800)
    if not r.ok:
        raise vlib.Infra("Equiv: " + r.out[-1000:])
    same = {json.loads(l)["id"]: json.loads(l)["same"] for l in open(os.path.join(wd, "equiv_out.ndjson"))}
    with open(os.path.join(wd, "run.ndjson"), "w") as f:
        for q in ps:
            f.write(json.dumps({k: q[k] for k in ("id", "files_a", "files_b", "inv_a", "inv_b")}) + "\n")
    p = vh(["equiv-run", os.path.join(wd, "run.ndjson"), os.path.join(wd, "out.ndjson"), wd])
    if p.returncode != 0:
        raise vlib.Infra("equiv-run: rc=%d %s" % (p.returncode, p.stderr[-1000:]))
    res = {}
    for l in open(os.path.join(wd, "out.ndjson")):
        o = json.loads(l)
        res[o["id"]] = o
    counts = {}
    notes = 0
    by = {q["id"]: q for q in ps}
    for q in ps:
        o = res[q["id"]]
        if o["invoke"]:
            raise vlib.Infra("the original program of pair %s does not start: %s" % (q["id"], o["invoke"][:300]))
        kind = q["id"].split(":")[1]
        if kind == "rename_filetype":
            # does the renamed type occur inside a collection-typed parameter or member
            ft = q["id"].split(":")[2]
            decls = [x for st in q["a"]["stages"] for x in st["ins"] + st["outs"]] + \
                    [x for pl in q["a"]["pipelines"] for x in pl["ins"] + pl["outs"]] + \
                    [x for sd in q["a"].get("structs", []) for x in sd["fields"]]
            if any(x["t"]["b"] == ft and (x["t"]["a"] > 0 or x["t"]["m"] > 0) for x in decls):
                kind = "rename_filetype_used_in_collection"
        exp_same = same[q["id"]]
        got = o["reattach"]
        counts["%s:%s" % ("same" if exp_same else "changed", got)] = counts.get("%s:%s" % ("same" if exp_same else "changed", got), 0) + 1
        rp = {"pair.json": json.dumps(q), "result.json": json.dumps(o),
              "original.mro": q["files_a"]["defs.mro"], "edited.mro": "\n".join("# file %s\n%s" % kv for kv in q["files_b"].items())}
        if exp_same and got != "accepted":
            if got == "error" and not o["compiles_b"]:
                notes += 1
                if notes <= 3:
                    print("NOTE corpus a cosmetic edit produced a program that does not compile (%s): %s" % (q["id"], o["detail"][:200].replace("\n", " ")))
                continue
            viols.append({"key": "C15:refused-though-same:%s" % kind,
                          "what": "re-attach was refused (%s) although the invocation means the same: edit %s; %s" % (
                              got, q["id"], o["detail"][:200].replace("\n", " ")), "replay": rp})
        if not exp_same and got == "accepted":
            viols.append({"key": "C15:accepted-though-changed:%s" % kind,
                          "what": "re-attach was accepted although what would run changed: edit %s" % q["id"], "replay": rp})
        if o.get("inspector_wrote"):
            viols.append({"key": "C15:lock:inspector-writes",
                          "what": "an instance attached read-only (--inspect) next to the live owner of the pipestance wrote to it while running its loop: %s (pair %s)" % (
                              ", ".join(o["inspector_wrote"][:6]), q["id"]), "replay": rp})
        if o.get("locked_after_ro") == "accepted":
            viols.append({"key": "C15:lock:attach-while-held-after-inspection",
                          "what": "after a read-only attach with edited definitions (%s) a second mrp attached for writing while the first still held the lock (pair %s)" % (
                              o.get("edited_ro"), q["id"]), "replay": rp})
        counts["inspect:%s" % o.get("edited_ro")] = counts.get("inspect:%s" % o.get("edited_ro"), 0) + 1
        if o["locked_rw"] == "accepted":
            viols.append({"key": "C15:lock:attach-while-held",
                          "what": "a second mrp attached for writing while the first held the lock (pair %s)" % q["id"], "replay": rp})
        if o["second_held"] == "accepted":
            viols.append({"key": "C15:lock:attach-while-held",
                          "what": "a second mrp attached for writing while the re-attached one held the lock (pair %s)" % q["id"], "replay": rp})
    rc, nunk, hit = vlib.conclude("C15", viols)
    kinds = sorted({q["id"].split(":")[1] for q in ps})
    vlib.write_evidence("C15", tier, "model_checking", {
        "states": lk.distinct + len(ps), "transitions": lk.generated + len(ps), "exhaustive": False,
        "exhaustive_model_runs": ["PsLock (3 instances, Atomic, read-only inspectors that stay and run their loop): %d states, OneWriter (one holder, one instance that believes it may write) holds" % lk.distinct,
                                  "PsLock with an inspector that reads the owner's lock file into its own cache: OneWriter violated - on the real code every accepted read-only attach runs four loop iterations next to the owner and must leave the directory untouched",
                                  "PsLock with a refused inspector that removes _lock: OneWriter violated by %s - the same sequence (owner, refused read-only attach with edited definitions, write attach) is run on the real code for every pair" % " ; ".join(insp_trace),
                                  "PsLock (2 instances, check-then-write): OneWriter violated by %s - replayed on the real code" % " ; ".join(race_trace)],
        "traces_validated_against_impl": len(ps) + len(lock),
        "pairs": len(ps), "edit_kinds": kinds, "outcomes": counts,
        "lock_orders_replayed": lock, "two_process_lock_test": proc_report, "simultaneous_start_test": sim_report, "given_up_instance_test": noexit_report,
        "creation_model": "PsCreate.cfg: %d distinct states, OneHolder, HolderIntact and SomeoneFinishes hold; PsCreateBad.cfg violates HolderIntact by %s" % (pc_ok.distinct, " ; ".join(create_trace)),
        "attach_while_locked_attempts": 2 * len(ps),
        "samples": [{"pair": ps[0]["id"], "model_same": same[ps[0]["id"]], "real": res[ps[0]["id"]]["reattach"]}],
        "known_findings_hit": hit,
    }, [
        "the edited program replaces the INCLUDED definitions; the invocation text itself (call + @include) is kept byte-identical for cosmetic edits because reattachToPipestance compares it byte for byte before anything else (edits of the invocation's own layout are therefore out of scope)",
        "edits: 9 base programs x (reorder declarations / calls, rename file type, toggle volatile, stage volatile / retain, rename callable behind an alias, add unused stage, comments, spacing, stage source, resources, help strings, include structure | rename call, change literal, add / remove / change disabled, toggle local, add / remove call, change return, add input / output, make splitting, change output type, change invocation argument)",
        "a semantic edit that no longer compiles counts as refused",
        "in-process runtimes stand for separate mrp processes (the lock is a file); jobs are never started",
    ], time.time() - t0, violations=nunk)
    return rc

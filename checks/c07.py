"""C07 - accepted programs are type-safe at run time; ill-typed bindings are rejected.

1. spec/WellTyped.tla (on top of MroTypes): for every consumer parameter type t
   and every producer expression - a reference of type s, a projection of a
   struct member through arrays and typed maps, the result of a call mapped over
   an array or a typed map - whether t can take it; every literal of the value
   universe with whether it validates for t.  Each row is rendered as a program
   and compiled by the real compiler: what the model calls ill-typed must be
   rejected with an error naming the line of the binding (or of its call); a
   literal the compiler accepts must validate.  30 single-point ill-typed
   mutants (unknown / missing parameter, non-existent output, wrong base type,
   array depth, array versus map, struct fields, inconsistent split collections,
   ...) must be rejected and located.
2. run time: every accepted reference / projection row is executed on the real
   runtime at the strictest enforcement level with the producer returning each
   valid value of its declared type; the run must complete (no type error, no
   binding-resolution error) and the consumer must receive the converted value
   MroSem predicts.  The C01 corpus is executed in strict mode as well.
"""
import json
import os
import random
import re
import subprocess
import time

import gen
import invcorpus
import mro
import psprops
import psrun
import shapes
import vlib
import wtcorpus

INTEGRAL = ('"1.0"', '"2.0"', '"-3.0"')


def run(tier, replay=None):
    t0 = time.time()
    vlib.go_build()
    wd = vlib.scratch("c07")
    rng = random.Random(vlib.seed())
    r = vlib.run_tlc("WellTyped", "WellTyped.cfg", workdir=wd, workers=1, timeout=1800)
    if not r.ok:
        raise vlib.Infra("WellTyped: " + r.out[-1000:])
    rows = [json.loads(l) for l in open(os.path.join(wd, "wt_rows.ndjson"))]
    lits = [json.loads(l) for l in open(os.path.join(wd, "wt_lits.ndjson"))]
    values = {}
    for l in open(os.path.join(wd, "types_values.ndjson")):
        o = json.loads(l)
        # (the table-driven stage code of the run-time part writes numbers through float64:
        # integers beyond 2^53 are left to the C16 / C17 tables)
        if o["valid"] and '"zz"' not in json.dumps(o["v"]) and '"big"' not in json.dumps(o["v"]):
            values.setdefault(json.dumps(o["t"], sort_keys=True), []).append(o["v"])
    cases = []
    for i, x in enumerate(rows):
        src, bl, cl = wtcorpus.ref_program(x)
        cases.append({"Id": "r%d" % i, "Src": src, "exp": x["ok"], "lines": [bl, cl], "row": x})
        if x["kind"] in ("maparr", "mapmap"):
            src, bl, cl = wtcorpus.rev_program(x)
            cases.append({"Id": "v%d" % i, "Src": src, "exp": x["ok"], "lines": [bl, cl], "row": dict(x, kind=x["kind"] + "-reversed")})
        if x["kind"] == "ref" and not x.get("path"):
            src, ln = wtcorpus.wildself_program(x)
            cases.append({"Id": "w%d" % i, "Src": src, "exp": x["ok"], "lines": ln, "row": dict(x, kind="wildcard-self")})
        if wtcorpus.shorthand_ok(x):
            src, bl, cl = wtcorpus.shorthand_program(x)
            cases.append({"Id": "s%d" % i, "Src": src, "exp": x["ok"], "lines": [bl, cl], "row": dict(x, kind="shorthand")})
    for i, x in enumerate(lits):
        src, bl, cl = wtcorpus.lit_program(x)
        cases.append({"Id": "l%d" % i, "Src": src, "valid": x["valid"], "lines": [bl, cl], "row": x})
    arity = [json.loads(l) for l in open(os.path.join(wd, "wt_arity.ndjson"))]
    for i, x in enumerate(arity):
        src, ln = wtcorpus.arity_program(x)
        cases.append({"Id": "a%d" % i, "Src": src, "exp": x["ok"], "lines": ln, "row": x})
    for mid, src, ln in wtcorpus.mutants():
        cases.append({"Id": "m:" + mid, "Src": src, "exp": False, "lines": ln, "row": {"kind": "mutant", "id": mid}})
    with open(os.path.join(wd, "c.ndjson"), "w") as f:
        for c in cases:
            f.write(json.dumps({"Id": c["Id"], "Src": c["Src"]}) + "\n")
    p = subprocess.run([os.path.join(vlib.BUILD, "bin", "vh"), "compile-batch", os.path.join(wd, "c.ndjson"),
                        os.path.join(wd, "o.ndjson")], stdout=subprocess.PIPE, stderr=subprocess.PIPE, text=True,
                       env=vlib.GOENV, timeout=3000, cwd=wd)
    if p.returncode != 0:
        raise vlib.Infra("compile-batch: rc=%d %s" % (p.returncode, p.stderr[-1000:]))
    res = {json.loads(l)["id"]: json.loads(l) for l in open(os.path.join(wd, "o.ndjson"))}
    viols = []
    counts = {}

    def describe(x):
        if x["kind"] == "mutant":
            return "mutant " + x["id"]
        if x["kind"] == "arity":
            return "%s statement binding (%s) where (%s) %s declared" % (x["where"], ", ".join(x["given"]), ", ".join(x["decl"]), "are" if len(x["decl"]) != 1 else "is")
        if x["kind"] == "lit":
            return "literal %s for %s" % (json.dumps(mro.untag(x["v"]) if '"file"' not in json.dumps(x["v"]) else x["v"])[:80], wtcorpus.ts(x["t"]))
        if x["kind"] == "ref-through-pipeline":
            return "ref %s -> (pipeline output declared %s) -> %s" % (wtcorpus.ts(x["s"]), wtcorpus.ts(x["via"]), wtcorpus.ts(x["t"]))
        return "%s %s%s -> %s" % (x["kind"], wtcorpus.ts(x["s"]), "".join("." + q for q in x["path"]), wtcorpus.ts(x["t"]))

    def add(c, kind, what):
        x = c["row"]
        fam = x["kind"] if x["kind"] != "mutant" else x["id"]
        viols.append({"key": "C07:%s:%s:%s" % (kind, fam, describe(x)[:70]),
                      "what": "%s: %s; %s" % (kind, describe(x), what[:300].replace("\n", " ")),
                      "replay": {"program.mro": c["Src"], "row.json": json.dumps(x)}})

    accepted_rows = []
    for c in cases:
        o = res[c["Id"]]
        x = c["row"]
        if "exp" in c:
            counts["%s:model_%s:compiler_%s" % (x["kind"], "ok" if c["exp"] else "ill", "accepts" if o["ok"] else "rejects")] = \
                counts.get("%s:model_%s:compiler_%s" % (x["kind"], "ok" if c["exp"] else "ill", "accepts" if o["ok"] else "rejects"), 0) + 1
            if not c["exp"] and o["ok"]:
                add(c, "ill-typed-accepted", "the compiler accepts it")
            elif not c["exp"]:
                lns = [int(v) for v in re.findall(r"p\.mro:(\d+)", o["error"])]
                if not any(l in c["lines"] for l in lns):
                    add(c, "error-not-located", "the error names line(s) %s, the binding is at %s: %s" % (lns, c["lines"], o["error"]))
            elif o["ok"] and x["kind"] in ("ref", "proj"):
                accepted_rows.append(x)
        else:
            if o["ok"] and not c["valid"] and not any(t_ in json.dumps(x["v"]) for t_ in INTEGRAL):
                add(c, "invalid-literal-accepted", "the compiler accepts a literal that does not validate for the parameter's type")
    # ---- run time, strictest enforcement
    progs = []
    per = 2 if tier == "quick" else 1000
    for i, x in enumerate(accepted_rows):
        vs = values.get(json.dumps(x["s"], sort_keys=True), [])
        vs = vs if len(vs) <= per else rng.sample(vs, per)
        for j, v in enumerate(vs):
            expr = mro.ref("P", "v", *x["path"])
            progs.append(mro.program("wt%d_%d" % (i, j), invcorpus.STRUCTS,
                                     [mro.stage("P", "", [("v", x["s"])], {"v": {"k": "const", "v": v}}),
                                      mro.stage("C", [("x", x["t"])], "string r", {"r": mro.INST})],
                                     [mro.pipeline("TOP", "", "string r", [mro.call("P"), mro.call("C", binds={"x": expr})],
                                                   {"r": mro.ref("C", "r")})], "TOP", {}, filetypes=("txt",)))
            progs[-1]["row"] = x
    # the same through a sub-pipeline whose declared output type lies between the two: what the
    # consumer is handed is the producer's value converted to the declared type first
    refs_ = [x for x in accepted_rows if x["kind"] == "ref" and not x.get("path")]
    by_src = {}
    for x in refs_:
        by_src.setdefault(json.dumps(x["s"], sort_keys=True), []).append(x)
    chains = []
    for x1 in refs_:
        if x1["s"] == x1["t"] or "S" not in json.dumps(x1["t"]):
            continue
        for x2 in by_src.get(json.dumps(x1["t"], sort_keys=True), []):
            if x2["t"] != x1["t"]:
                chains.append((x1, x2))
    rng.shuffle(chains)
    # first those that go from a struct to a typed map: what the struct was narrowed from shows
    chains.sort(key=lambda c: 0 if (c[1]["t"].get("m") and not c[0]["t"].get("m")) else 1)
    counts["chains_through_pipeline_outputs"] = len(chains)
    for i, (x1, x2) in enumerate(chains[:(60 if tier == "quick" else 2000)]):
        vs = values.get(json.dumps(x1["s"], sort_keys=True), [])
        if not vs:
            continue
        v = vs[i % len(vs)]
        q = mro.program("wtsub%d" % i, invcorpus.STRUCTS,
                        [mro.stage("P", "", [("v", x1["s"])], {"v": {"k": "const", "v": v}}),
                         mro.stage("C", [("x", x2["t"])], "string r", {"r": mro.INST})],
                        [mro.pipeline("SUB", "", [("ns", x1["t"])], [mro.call("P")], {"ns": mro.ref("P", "v")}),
                         mro.pipeline("TOP", "", "string r", [mro.call("SUB"), mro.call("C", binds={"x": mro.ref("SUB", "ns")})],
                                      {"r": mro.ref("C", "r")})], "TOP", {}, filetypes=("txt",))
        q["row"] = {"kind": "ref-through-pipeline", "id": "sub%d" % i, "s": x1["s"], "t": x2["t"], "via": x1["t"], "path": []}
        progs.append(q)
    corpus = shapes.catalogue() + [gen.gen_program(s) for s in range(40 if tier == "quick" else 300)]
    allp = progs + corpus
    sem, semres = psrun.semantics(allp)
    specs = [psrun.make_spec(q, sem[q["name"]], {"kind": "random", "seed": rng.randrange(1 << 30), "penv": 0.7},
                             name=q["name"], strict=True) for q in allp]
    results = psrun.run_specs(specs, nproc=16)
    nrun = 0
    for q, s, rr in zip(allp, specs, results):
        nrun += 1
        weak = bool(sem[q["name"]].get("weak"))
        if rr["state"] not in ("complete", "disabled") and not weak and q["name"] != "map_nested":
            what = "run-time failure in strict mode (state %s): %s %s" % (rr["state"], (rr.get("fatal_log") or "")[:300], (rr.get("error") or "")[:200])
            x = q.get("row") or {"kind": "corpus", "id": q["name"], "s": None}
            fam = describe(x) if "row" in q else "program " + q["name"]
            viols.append({"key": "C07:run-time-type-error:%s" % fam[:80],
                          "what": "%s: %s" % (fam, what.replace("\n", " ")),
                          "replay": {"program.mro": s["mro"], "spec.json": json.dumps(s)}})
        elif "row" in q and rr.get("args_bad"):
            fam = describe(q["row"])
            viols.append({"key": "C07:delivered-value-differs:%s" % fam[:80],
                          "what": "%s: the consumer did not receive the converted value: %s" % (fam, rr["args_bad"][0][:300]),
                          "replay": {"program.mro": s["mro"], "spec.json": json.dumps(s)}})
    rc, nunk, hit = vlib.conclude("C07", viols)
    vlib.write_evidence("C07", tier, "model_checking", {
        "states": len(rows) + len(lits), "transitions": len(cases) + nrun, "exhaustive": True,
        "traces_validated_against_impl": len(cases) + nrun,
        "acceptance_rows": len(rows), "arity_rows": len(arity), "literal_rows": len(lits), "mutants": len(wtcorpus.mutants()),
        "verdict_counts": counts, "strict_mode_runs": nrun, "conversion_runs": len(progs),
        "samples": [{"row": describe(rows[0]), "model_ok": rows[0]["ok"], "compiler_accepts": res["r0"]["ok"]}],
        "known_findings_hit": hit,
    }, [
        "type universe of MroTypes (35 types); projection paths up to depth 2; mapped results over arrays and typed maps",
        "only soundness is judged: a binding the model accepts but the compiler rejects is counted in verdict_counts, not a violation (the statement does not promise completeness)",
        "an error locates the binding if it names the line of the binding or any line of the enclosing call / return statement",
        "a float literal with an integral value bound to int is delivered as the integer and is not counted as an invalid literal",
        "run-time half: enforcement level error (syntax.SetEnforcementLevel), producer outputs drawn from the valid values of the declared output type without undeclared struct fields; programs with the known unforked-merge defect are skipped",
    ], time.time() - t0, violations=nunk)
    return rc

"""C16 - MRO call text and invocation JSON convert into each other without loss.

spec/Invoke.tla states both conversions on abstract values; TLC checks the
round trip on every row (signatures over the MroTypes universe with every valid
value, split subsets, missing arguments, scalar corner values) and writes the
bindings the generated call must have.  Each row goes through the real
InvocationData.BuildCallSource, the text must compile, its bindings must equal
the model's, InvocationDataFromSource must give the arguments and split set
back, and a second generation must reproduce the text.  On real pipestance runs
the _invocation file of every stage fork must compile as a call of that stage
and carry the fork's resolved arguments (MroSem table)."""
import json
import os
import subprocess
import time

import fshapes
import gen
import invcorpus
import psrun
import shapes
import vlib


def run(tier, replay=None):
    t0 = time.time()
    vlib.go_build()
    wd = vlib.scratch("c16")
    r1 = vlib.run_tlc("MroTypes", "MroTypes.cfg", workdir=wd, workers=1, timeout=1500)
    trows = [json.loads(l) for l in open(os.path.join(wd, "types_values.ndjson"))]
    rows = invcorpus.rows(trows, 100000)
    with open(os.path.join(wd, "inv_rows.ndjson"), "w") as f:
        for x in rows:
            f.write(json.dumps(x) + "\n")
    r2 = vlib.run_tlc("Invoke", "Invoke.cfg", workdir=wd, workers=1, timeout=1500)
    if not r2.ok:
        raise vlib.Infra("Invoke: the model's own round trip fails: " + r2.out[-800:])
    exp = {json.loads(l)["id"]: json.loads(l)["call"] for l in open(os.path.join(wd, "inv_out.ndjson"))}
    nesc = 0
    with open(os.path.join(wd, "run.ndjson"), "w") as f:
        for x in rows:
            f.write(json.dumps({"id": x["id"], "src": invcorpus.stage_src(x),
                                "args": {a["n"]: invcorpus.untag_json(a["v"]) for a in x["args"]},
                                "split": x["split"], "call": exp[x["id"]], "names": [p["n"] for p in x["params"]]}) + "\n")
            # the same data with every non-ASCII character spelled as a \uXXXX escape
            esc = {a["n"]: invcorpus.untag_json(a["v"], True) for a in x["args"]}
            if esc != {a["n"]: invcorpus.untag_json(a["v"]) for a in x["args"]}:
                nesc += 1
                f.write(json.dumps({"id": x["id"] + "#esc", "src": invcorpus.stage_src(x), "args": esc,
                                    "split": x["split"], "call": exp[x["id"]], "names": [p["n"] for p in x["params"]]}) + "\n")
    p = subprocess.run([os.path.join(vlib.BUILD, "bin", "vh"), "inv-run", os.path.join(wd, "run.ndjson"),
                        os.path.join(wd, "out.json"), wd], stdout=subprocess.PIPE, stderr=subprocess.PIPE, text=True,
                       env=vlib.GOENV, timeout=3000)
    if p.returncode != 0:
        raise vlib.Infra("inv-run: rc=%d %s" % (p.returncode, p.stderr[-1000:]))
    rep = json.load(open(os.path.join(wd, "out.json")))
    byid = {x["id"]: x for x in rows}
    viols = []
    for v in rep.get("violations") or []:
        x = byid[v["id"].split("#")[0]]
        sig = ", ".join("%s %s" % (invcorpus.type_str(q["t"]), q["n"]) for q in x["params"])
        kind = v["kind"]
        if kind == "data-to-call-fails" and '"fits": false' in json.dumps(x["args"]):
            kind = "integer-beyond-int64-in-data"
        viols.append({"key": "C16:%s:%s" % (kind, sig[:60]),
                      "what": "%s (row %s, stage S(%s), split %s): %s" % (v["kind"], v["id"], sig, x["split"], v["detail"][:300].replace("\n", " ")),
                      "replay": {"row.json": json.dumps(x), "call.mro": v["text"], "detail.txt": v["detail"]}})
    # the mrg binary itself on a sample of the rows: data -> call text (with and without
    # `mro_file`), and back with --reverse; numbers are compared by value
    import random
    rngm = random.Random(vlib.seed())
    mdir = vlib.scratch("c16mrg")
    mb = os.path.join(mdir, "mrg")
    pb = subprocess.run(["go", "build", "-o", mb, "./cmd/mrg"], cwd=vlib.REPO, env=vlib.GOENV, stdout=subprocess.PIPE,
                        stderr=subprocess.STDOUT, text=True, timeout=900)
    if pb.returncode != 0:
        raise vlib.Infra("go build of mrg failed: " + pb.stdout[-1000:])
    plain = [x for x in rows if not x["split"]]
    sample_rows = rngm.sample(plain, min(len(plain), 60 if tier == "quick" else 600))
    # ... and rows with an untyped map parameter whose stage lives in a file that declares no struct
    untyped = [x for x in plain if any(q["t"]["b"] == "map" for q in x["params"]) and x not in sample_rows]
    sample_rows += rngm.sample(untyped, min(len(untyped), 40 if tier == "quick" else 400))
    nmrg = 0

    def same_json(a, b):
        if isinstance(a, bool) or isinstance(b, bool):
            return a is b
        if isinstance(a, (int, float)) and isinstance(b, (int, float)):
            return float(a) == float(b)
        if isinstance(a, dict) and isinstance(b, dict):
            return set(a) == set(b) and all(same_json(a[k], b[k]) for k in a)
        if isinstance(a, list) and isinstance(b, list):
            return len(a) == len(b) and all(same_json(u, v) for u, v in zip(a, b))
        return a == b

    for x in sample_rows:
        d = os.path.join(mdir, x["id"])
        os.makedirs(d, exist_ok=True)
        ssrc = invcorpus.stage_src(x, bare=(sum(map(ord, x["id"])) % 2 == 0 or any(q["t"]["b"] == "map" for q in x["params"])))
        open(os.path.join(d, "s.mro"), "w").write(ssrc)
        args = {a["n"]: json.loads(invcorpus.untag_json(a["v"])) for a in x["args"]}
        sig = ", ".join("%s %s" % (invcorpus.type_str(q["t"]), q["n"]) for q in x["params"])
        for with_file in (True, False):
            data = {"call": "S", "args": args}
            if with_file:
                data["mro_file"] = "s.mro"
            env = dict(vlib.GOENV, MROPATH=d)
            p1 = subprocess.run([mb], input=json.dumps(data), cwd=d, env=env, stdout=subprocess.PIPE, stderr=subprocess.PIPE, text=True, timeout=60)
            label = "with mro_file" if with_file else "without mro_file"
            if p1.returncode != 0 or not p1.stdout.strip():
                kind = "integer-beyond-int64-in-data" if ("integer overflow" in (p1.stderr + p1.stdout)
                                                          or '"fits": false' in json.dumps(x["args"])) else "mrg-fails"
                viols.append({"key": "C16:%s:%s" % (kind, sig[:60]),
                              "what": "mrg (%s) fails on row %s, stage S(%s): %s" % (label, x["id"], sig, (p1.stderr or p1.stdout)[-300:].replace("\n", " ")),
                              "replay": {"data.json": json.dumps(data), "s.mro": ssrc}})
                continue
            p2 = subprocess.run([mb, "--reverse"], input=p1.stdout, cwd=d, env=env, stdout=subprocess.PIPE, stderr=subprocess.PIPE, text=True, timeout=60)
            nmrg += 1
            if p2.returncode != 0:
                viols.append({"key": "C16:mrg-text-rejected:%s" % sig[:60],
                              "what": "the call text mrg (%s) writes for row %s, stage S(%s), is rejected by mrg --reverse: %s" % (label, x["id"], sig, p2.stderr[-300:].replace("\n", " ")),
                              "replay": {"data.json": json.dumps(data), "call.mro": p1.stdout, "s.mro": ssrc}})
                continue
            back = json.loads(p2.stdout)
            # a parameter the data does not mention is written as null
            bargs = {k: v for k, v in (back.get("args") or {}).items() if not (v is None and k not in args)}
            if back.get("call") != "S" or not same_json(bargs, args):
                viols.append({"key": "C16:mrg-round-trip-differs:%s" % sig[:60],
                              "what": "mrg (%s) and mrg --reverse do not give the data back for row %s, stage S(%s): %s became %s" % (
                                  label, x["id"], sig, json.dumps(args)[:200], json.dumps(back.get("args"))[:200]),
                              "replay": {"data.json": json.dumps(data), "call.mro": p1.stdout, "back.json": p2.stdout}})
    # per-fork invocations on real runs
    progs = shapes.catalogue() + fshapes.catalogue() + [gen.gen_program(s) for s in range(40 if tier == "quick" else 300)]
    sem, _ = psrun.semantics(progs)
    # every third program with its stages in a file of their own below a sub-directory of MROPATH,
    # included by the sibling spelling
    specs = [psrun.make_spec(q, sem[q["name"]], {"kind": "random", "seed": vlib.seed() + i, "penv": 0.6}, name=q["name"],
                             layout=("subdir" if i % 3 == 0 else "sibling" if i % 3 == 1 else ""))
             for i, q in enumerate(progs)]
    res = psrun.run_specs(specs, nproc=16)
    checked = 0
    for s, r in zip(specs, res):
        checked += r.get("inv_checked") or 0
        for b in r.get("inv_bad") or []:
            if "unforked-merge" in b or sem[s["name"]].get("weak"):
                continue   # arguments of consumers of an unforked merge: known finding of C01
            viols.append({"key": "C16:fork-invocation:%s:%s" % (s["name"], b.split(":")[1].strip()[:40]),
                          "what": "the _invocation recorded for a stage fork is wrong (program %s): %s" % (s["name"], b[:400]),
                          "replay": {"spec.json": json.dumps(s), "program.mro": s["mro"]}})
    rc, nunk, hit = vlib.conclude("C16", viols)
    vlib.write_evidence("C16", tier, "model_checking", {
        "states": len(rows), "transitions": 4 * len(rows) + checked, "exhaustive": True,
        "traces_validated_against_impl": len(rows) + checked,
        "rows": len(rows), "rows_with_split": sum(1 for x in rows if x["split"]),
        "calls_built": rep["counts"].get("calls_built", 0), "literal_kind_differences": rep["counts"].get("literal_kind_differs", 0),
        "fork_invocations_checked": checked, "mrg_binary_round_trips": nmrg, "programs_run": len(progs),
        "samples": [rep.get("sample")], "known_findings_hit": hit,
    }, [
        "value universe of MroTypes (7 builtins, txt, structs S1..S4, arrays dim <= 2, typed maps of scalars / structs / arrays; only values without undeclared struct fields) plus corner scalars (integers beyond 2^53 and at the int64 limits, extreme floats, escapes, control characters, non-ASCII, empty keys)",
        "a split argument is given in the data form the code itself produces ({\"split\": value}); a parameter that is split has the element type",
        "whether an object is written as a struct or a map literal is not judged (the value is the same); numbers are compared by value",
        "per-fork invocations are compiled against the program's definitions without its top-level call",
    ], time.time() - t0, violations=nunk)
    return rc

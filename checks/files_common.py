"""C04 / C14 (and the file part of C13): real pipestances whose stages write
files, under every VDR mode, judged by the PsTrace monitors (TLC); the VDR
protocol itself is model-checked in spec/Vdr.tla."""
import json
import random
import time

import fshapes
import mro
import psprops
import psrun
import vlib

MODES = ("rolling", "post", "strict")
VARIANTS = ({"outs_spelling": "solidus"}, {"outs_spelling": "unicode"}, {"unclean_paths": True}, {"link_prev": "TOP/SUB"})


def model_check(tier):
    r = vlib.run_tlc("MC_Vdr", "MC_Vdr.cfg", workers=12, timeout=1800)
    if not r.ok:
        raise vlib.Infra("Vdr model violates %s (specification problem, no verdict about the code)\n%s"
                         % (r.violation, "\n".join(st["_action"][:90] for st in r.error_trace)))
    return r


def specs_for(progs, sem, tier, rng):
    specs = []
    nrand = {"quick": 3, "thorough": 24}[tier]
    for p in progs:
        s = sem[p["name"]]
        for mode in MODES:
            scheds = psprops.schedules_for(p, s, "quick", rng, "all")
            scheds = scheds[6:]          # the slow-instance schedules
            scheds += [{"kind": "random", "seed": rng.randrange(1 << 30), "penv": rng.choice([0.2, 0.5, 0.9])}
                       for _ in range(nrand)]
            for k, sc in enumerate(scheds):
                specs.append(psrun.make_spec(p, s, sc, name="%s#%s%d" % (p["name"], mode, k), vdr=mode, files=True,
                                             vdr_jitter=rng.choice([0, 300, 3000]),
                                             phys_paths=(k % 4 == 3)))
            # stage code that spells its outputs record differently (escaped separators) or
            # reports non-canonical paths; part of the pipestance living behind a directory link
            for k, kw in enumerate(VARIANTS):
                if "link_prev" in kw and p["name"] not in ("vf_sub",):   # (a statically called sub-pipeline)
                    continue
                specs.append(psrun.make_spec(p, s, {"kind": "random", "seed": rng.randrange(1 << 30), "penv": rng.choice([0.3, 0.8])},
                                             name="%s#%sv%d" % (p["name"], mode, k), vdr=mode, files=True, vdr_jitter=300, **kw))
            # one chunk of a splitting stage removes its own temporary directory before it ends
            chunk0 = [j["key"] for j in psprops.expected_jobs(s) if j["kind"] == "main" and j["split"] and j["chunk"] == 0]
            if chunk0 and p["name"] in ("vf_split", "vf_split10", "vf_split_vol"):
                specs.append(psrun.make_spec(p, s, {"kind": "random", "seed": rng.randrange(1 << 30), "penv": 0.6},
                                             name="%s#%stidy" % (p["name"], mode), vdr=mode, files=True, remove_own_tmp=chunk0[:1]))
            if p["name"] in ("vf_basic", "vf_split"):
                specs.append(psrun.make_spec(p, s, {"kind": "random", "seed": rng.randrange(1 << 30), "penv": 0.6},
                                             name="%s#%stmplink" % (p["name"], mode), vdr=mode, files=True, tmp_link=True))
            # jobs that leave nothing but zero-length files in their temporary directories
            if p["name"] in ("vf_basic", "vf_split", "vf_strict_bare", "vf_sub"):
                specs.append(psrun.make_spec(p, s, {"kind": "random", "seed": rng.randrange(1 << 30), "penv": 0.6},
                                             name="%s#%semptytmp" % (p["name"], mode), vdr=mode, files=True, bare=True, empty_tmp=True))
            if p["name"] == "vf_strict_bare":
                for k in range(2):
                    specs.append(psrun.make_spec(p, s, {"kind": "random", "seed": rng.randrange(1 << 30), "penv": rng.choice([0.3, 0.8])},
                                                 name="%s#%sbare%d" % (p["name"], mode, k), vdr=mode, files=True, bare=True))
            # a job fails, mrp exits between partial and final cleanup, a fresh runtime
            # re-attaches with the fault removed and completes
            jobs = [j["key"] for j in psprops.expected_jobs(s)]
            for k in range({"quick": 1, "thorough": 8}[tier]):
                specs.append(psrun.make_spec(p, s, {"kind": "random", "seed": rng.randrange(1 << 30), "penv": rng.choice([0.4, 0.8])},
                                             name="%s#%sr%d" % (p["name"], mode, k), vdr=mode, files=True,
                                             faults={rng.choice(jobs): "errors"}, restart=True, vdr_jitter=500))
            # ... the join of a splitting stage fails when its chunks are done and their temporary
            # directories cleaned; after the restart the chunks are complete, the join runs again
            joins = [j["key"] for j in psprops.expected_jobs(s) if j["kind"] == "join" and j["split"] and not j["ghost"]]
            if joins:
                specs.append(psrun.make_spec(p, s, {"kind": "random", "seed": rng.randrange(1 << 30), "penv": 0.6},
                                             name="%s#%srj" % (p["name"], mode), vdr=mode, files=True,
                                             faults={rng.choice(joins): "errors"}, restart=True, vdr_jitter=200))
            # ... the outputs of a stage that does not split fail validation (a missing key): the
            # job itself has completed, its outputs are rejected; after the restart it runs again
            nosplit = [j["key"] for j in psprops.expected_jobs(s) if j["kind"] == "main" and not j["split"] and not j["ghost"]]
            if nosplit:
                specs.append(psrun.make_spec(p, s, {"kind": "random", "seed": rng.randrange(1 << 30), "penv": 0.6},
                                             name="%s#%srv" % (p["name"], mode), vdr=mode, files=True,
                                             faults={rng.choice(nosplit): "missing-key"}, restart=True, vdr_jitter=200))
            # ... and one in which it is the last job of the program that fails: everything
            # before it is complete and partly cleaned when the fresh runtime takes over
            if jobs:
                specs.append(psrun.make_spec(p, s, {"kind": "random", "seed": rng.randrange(1 << 30), "penv": 0.6},
                                             name="%s#%srl" % (p["name"], mode), vdr=mode, files=True,
                                             faults={jobs[-1]: "errors"}, restart=True, vdr_jitter=200))
    return specs


def run_files(pid, tier, replay, assumptions):
    t0 = time.time()
    rng = random.Random(vlib.seed())
    progs = fshapes.catalogue()
    sem, semres = psrun.semantics(progs)
    vlib.go_build()
    if replay:
        s = json.load(open(replay + "/spec.json"))
        r = psrun.run_specs([s], nproc=1)[0]
        bad, tlc = psprops.run_monitor(psprops.monitor_records(s, sem[s["name"].split("#")[0]], r))
        mine = [b for b in bad if b["prop"] == pid]
        for b in mine:
            print("VIOLATION property=%s replay=%s" % (pid, replay))
            print("  [%s] %s" % (b["job"], b["what"]))
        return 1 if mine else 0
    mc = model_check(tier)
    specs = specs_for(progs, sem, tier, rng)
    # direction B: behaviours of Vdr.tla (TLC simulation) as real programs and
    # schedules, the cleanup goroutines released where the behaviour says
    import vdrsim
    behs, simres = vdrsim.behaviours({"quick": 60, "thorough": 600}[tier])
    bsem, _ = psrun.semantics([b[0] for b in behs])
    sem.update(bsem)
    model_disk = {}
    for bp, mode, script, disk in behs:
        specs.append(psrun.make_spec(bp, bsem[bp["name"]], {"kind": "script", "script": script}, name=bp["name"] + "#model",
                                     vdr=mode, files=True, vdr_gate=True))
        model_disk[bp["name"] + "#model"] = disk
    results = psrun.run_specs(specs, nproc=16)
    drift = 0
    for s_, r_ in zip(specs, results):
        if s_["name"] in model_disk:
            fin = [e for e in r_["trace"] if e["ev"] == "VdrFinal"]
            real = sorted(fin[0].get("present") or []) if fin else None
            if real != model_disk[s_["name"]]:
                drift += 1
                if drift <= 3:
                    print("NOTE model-drift the files left at the end differ from spec/Vdr.tla's final state: model %s real %s (%s)" % (
                        model_disk[s_["name"]], real, s_["name"]))
    records = []
    for s, r in zip(specs, results):
        records += psprops.monitor_records(s, sem[s["name"].split("#")[0]], r)
    bad, tlc = psprops.run_monitor(records)
    by = {s["name"]: (s, r) for s, r in zip(specs, results)}
    viols = []
    for b in bad:
        s, r = by[b["run"]]
        prog = s["name"].split("#")[0]
        viols.append({"prop": b["prop"],
                      "key": "%s:%s:%s:%s" % (b["prop"], prog, s["vdr"], b["what"].split(":")[0][:70]),
                      "what": "%s [%s] %s (program %s, --vdrmode=%s, schedule %s)" % (
                          b["prop"], b["job"], b["what"], prog, s["vdr"], json.dumps(s["sched"])),
                      "replay": {"spec.json": json.dumps(dict(s, sched={"kind": "script", "script": r["script"]})),
                                 "program.mro": s["mro"],
                                 "trace.ndjson": "\n".join(json.dumps(e) for e in r["trace"]) + "\n"}})
    mine = [v for v in viols if v["prop"] == pid]
    others = sorted({v["prop"] for v in viols if v["prop"] != pid})
    if others:
        print("NOTE the same runs also violate %s (reported by those checks)" % ",".join(others))
    incomplete = [(s["name"], r["state"], (r.get("error") or "")[:200]) for s, r in zip(specs, results)
                  if r["state"] != "complete"]
    rc, nunk, hit = vlib.conclude(pid, mine)
    nrem = sum(1 for r in results for e in r["trace"] if e["ev"] == "VdrRemove")
    nfiles = sum(1 for r in results for e in r["trace"] if e["ev"] == "FileWritten")
    vlib.write_evidence(pid, tier, "model_checking", {
        "states": mc.distinct + tlc.distinct, "transitions": mc.generated + tlc.generated,
        "exhaustive": False,
        "exhaustive_model_runs": ["MC_Vdr: %d distinct / %d generated states, depth %d, %.1fs (78 programs x 3 modes, all interleavings of the run loop with the cleanup goroutines)" % (
            mc.distinct, mc.generated, mc.depth, mc.wall)],
        "traces_validated_against_impl": len(specs),
        "model_behaviours_replayed": len(behs), "model_final_state_drift": drift,
        "cleanup_goroutines_released_by_script": sum(1 for r_ in results for t in r_["script"] if t.startswith("V:")),
        "programs": len(progs), "program_names": [p["name"] for p in progs], "vdr_modes": list(MODES),
        "runs": len(specs), "runs_below_symlink_with_physical_names": sum(1 for s in specs if s.get("phys_paths")),
        "files_written": nfiles, "removals_observed": nrem,
        "runs_not_completed": incomplete[:5],
        "monitor_records": len(records),
        "samples": [{"run": specs[0]["name"], "schedule": results[0]["script"][:30],
                     "removals": [e for e in results[0]["trace"] if e["ev"] in ("VdrRemove", "VdrFinal")][:6]}],
        "known_findings_hit": hit,
    }, assumptions, time.time() - t0, violations=nunk)
    return rc


ASSUMPTIONS = [
    "stage code is table driven (MroSem): every job writes the files its predicted outputs name (at the path mrp proposes for plain file outputs, else under its files directory), one unreferenced file, one unreferenced file whose name extends an output's name, and a temporary file; consumers open every file named in their arguments when they start",
    "FileFacts (writer, jobs handed the file, named by top-level outputs / retain) are computed by TLC from spec/MroSem.tla; 'needed' is judged per job (a job that never receives a file does not keep it alive), which is weaker than the per-call wording of the statement",
    "removals are observed at the verif hook VdrRemove (before os.RemoveAll, storage lock held) with symlink-resolved paths; measured sizes come from a walk at that moment",
    "kill report accounting: the pipestance-level report's count and size must equal the number and lstat sizes of the directory entries (files and directories; of a per-job temporary directory only its contents) present under each path at the moment mrp removed it - the unit storage.go counts in",
    "behaviours of spec/Vdr.tla from TLC simulation are replayed: the model's program record is rendered as MRO, Start / Finish become job begin / end, AsyncKill releases the cleanup goroutine of that fork from a gate at the VdrBegin hook (AsyncCache has no hook and runs when the goroutine starts); the files left at the end are compared with the model's final disk (differences are model-drift notes)",
    "variants of every program and mode: stage code writing its outputs record with escaped separators (\\/ and \\u002f), stage code reporting paths with a doubled separator or a /./ component, and the sub-pipeline directory TOP/SUB being a symbolic link to storage outside the pipestance (files behind the link need not be reclaimed - mrp does not clean through links - and must not be touched)",
    "asynchronous cleanup goroutines are delayed by seeded jitter at VdrBegin; every fourth run lives below a symbolic link with stage code reporting fully resolved names",
    "strict mode with an explicit stage-level `volatile = false` is not required to reclaim (weaker reading)",
    "restart runs: one job fails (_errors), mrp exits after some forks have been cleaned partially, a fresh runtime re-attaches with the fault removed; the same guards apply to both incarnations and to the final tree, the accounting is summed over both",
]

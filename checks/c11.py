"""C11 - fork identities are unique and job notifications reach exactly their owner.

1. ForkNames.tla: key encoding, fork directory and journal names, and the
   journal regular expression as a backtracking parser; TLC checks injectivity
   and Parse(JournalName(..)) = parts over all keys up to length N; the rows are
   replayed through the real makeKeySafe / encodeJournalName / parseRunFilename.
2. Real pipestances mapped over adversarial key sets (and arrays crossing the
   decimal width boundary); PsTrace (TLC) checks on the recorded events that
   every consumed journal entry is attributed to the directory of the job that
   wrote it, that no two jobs share a directory or a journal name, and (C03/C01
   guards) that the call completes with exactly the input keys.
"""
import json
import os
import time

import psprops
import shapes
import vlib
from mro import (call, pipeline, program, ref, split, stage, const, echo)


def key_programs():
    P = [p for p in shapes.catalogue(big=True) if p["name"].startswith(("keys_", "nest_", "map_nested_noret")) or p["name"] in ("map_keys", "map_dyn2", "map_dyn_static", "map_dyn_static_split", "prefix_names")]
    sets = {"keys_mixed": ["a", "a.b", "a/b", "%2E", "..", "é", " "],
            "keys_forklike": ["fork0", "fork_a", "u0123456789", "chnk1", "1", "01"],
            "keys_prefix": ["x", "x_x", "x%5Fx", "x.x"],
            "keys_empty": [""],
            # long keys that agree in their first hundred characters and in their length (a name
            # that is abbreviated must stay distinct), also with characters that grow when escaped
            "keys_long": ["k" * 100 + "a" * 10, "k" * 100 + "b" * 10, "k" * 100 + "a" * 9 + "b", "k" * 109],
            "keys_long_esc": ["\u00e9" * 12 + "x", "\u00e9" * 12 + "y", "." * 22 + "a", "." * 22 + "b", "%" * 24],
            # a key whose directory name is legal (185 bytes) but whose journal names, escaped once
            # more, exceed the 255 bytes of a file name
            "keys_toolong": ["\u00e9" * 30 + "x", "ok"]}
    for nm, keys in sets.items():
        P.append(program(nm, [], [stage("G", "", "map<int> m", {"m": const({k: i + 1 for i, k in enumerate(keys)})}),
                                  stage("A", "int x", "int y", {"y": echo("x")})],
                         [pipeline("TOP", "", "map<int> o",
                                   [call("G"), call("A", binds={"x": split(ref("G", "m"))}, mode="map")],
                                   {"o": ref("A", "y")})], "TOP", {}))
    # a SPLITTING stage mapped over keys that differ from their journal-safe form (split and
    # join jobs have journal names of their own)
    for nm, keys in (("keys_split_odd", ["a.b", "a b", "\u00e9", "%C3%A9", "%2E"]), ("keys_split_plain", ["k1", "k2"])):
        P.append(program(nm, [], [stage("G", "", "map<int[]> m", {"m": const({k: [i + 1, i + 2] for i, k in enumerate(keys)})}),
                                  shapes.S_split("S")],
                         [pipeline("TOP", "", "map<int[]> o",
                                   [call("G"), call("S", binds={"xs": split(ref("G", "m"))}, mode="map")],
                                   {"o": ref("S", "ys")})], "TOP", {}))
    # arrays whose length crosses the decimal width boundary, with a splitting stage
    for n in (10, 11):
        P.append(program("arr%d" % n, [], [stage("G", "", "int[] ys", {"ys": const(list(range(n)))}),
                                           stage("A", "int x", "int y", {"y": echo("x")})],
                         [pipeline("TOP", "", "int[] o",
                                   [call("G"), call("A", binds={"x": split(ref("G", "ys"))}, mode="array")],
                                   {"o": ref("A", "y")})], "TOP", {}))
    return P


def run(tier, replay=None):
    t0 = time.time()
    if replay:
        bad, r = psprops.replay_spec(replay)
        mine = [b for b in bad if b["prop"] == "C11"]
        for b in mine:
            print("VIOLATION property=C11 replay=%s" % replay)
            print("  [%s] %s" % (b["job"], b["what"]))
        return 1 if mine else 0
    viols = []
    # 1. names
    cfgs = ["ForkNames2.cfg"] + (["ForkNames3.cfg"] if tier == "thorough" else [])
    vlib.go_build()
    nkeys = nnames = 0
    tlc_info = []
    samples = []
    for cfg in cfgs:
        wd = vlib.scratch("fn")
        r = vlib.run_tlc("ForkNames", cfg, workdir=wd, workers=1, timeout=3000)
        p = vlib.run_harness(["forknames-replay", os.path.join(wd, "forknames_keys.ndjson"),
                              os.path.join(wd, "forknames_nested.ndjson")], timeout=1500)
        rep = json.loads(p.stdout)
        nkeys += rep["keys"]
        nnames += rep["journal_names"]
        samples = samples or rep["samples"]
        tlc_info.append("%s: Injective, RoundTrip, NotNumeric, NestedInjective hold for %d keys (%.1fs)" % (cfg, rep["keys"], r.wall))
        for d in rep["drift"][:3]:
            print("NOTE model-drift property=C11 %s: %s %s" % (d["kind"], d["key"], d["detail"]))
        for v in rep["violations"]:
            viols.append({"prop": "C11", "key": "C11:names:%s:%s" % (v["kind"], v["key"]),
                          "what": "%s for key %r: %s" % (v["kind"], v["key"], v["detail"])})
    # 2. end to end
    progs = key_programs()
    pv, stats, _ = psprops.run_programs(progs, tier, emphasis="all", model_schedules=False)
    allv = pv
    others = sorted({v["prop"] for v in allv if v["prop"] != "C11"})
    # a mapped call that does not complete with exactly its keys is a C11 matter too
    for v in allv:
        # (map_dyn_static returns wrong values even when every notification is routed correctly:
        # the recorded C01 finding about nested mapped calls; only its routing is judged here)
        if v["prop"] != "C11" and "(program map_dyn_static," in v["what"]:
            continue
        if v["prop"] == "C11" or (v["prop"] in ("C03", "C01") and "unforked-merge" not in v["what"] and "ghost" not in v["what"]):
            viols.append(dict(v, key=v["key"].replace(v["prop"] + ":", "C11:e2e:", 1)))
    # 3. stale attempts: a job fails, mrp exits, other jobs survive as orphans and
    #    notify later under their old attempt name; the restarted mrp must not
    #    attribute those notifications to the new attempts
    import psrun
    import random
    rng = random.Random(vlib.seed())
    oprogs = [p for p in shapes.catalogue() if p["name"] in ("diamond", "split2", "map_dyn2", "subpipe", "split10")]
    sem, _ = psrun.semantics(oprogs)
    ospecs = []
    for p in oprogs:
        jobs = ["%s/%s/%d" % (i["inst"], i["kind"], i["chunk"]) for i in sem[p["name"]]["inv"]]
        for n in range({"quick": 12, "thorough": 80}[tier]):
            ospecs.append(psrun.make_spec(p, sem[p["name"]],
                                          {"kind": "random", "seed": rng.randrange(1 << 30), "penv": rng.choice([0.5, 0.8, 0.95])},
                                          name="%s#o%d" % (p["name"], n), faults={rng.choice(jobs): "errors"},
                                          restart=True, orphans=True))
    # the split / a chunk / the join of a stage is still running when mrp exits because an
    # independent stage has failed: the restarted mrp starts a new attempt of it, and the old
    # one reports its completion afterwards
    sp_ = next(p for p in shapes.catalogue() if p["name"] == "split_and_indep")
    ssem, _ = psrun.semantics([sp_])
    sem.update(ssem)
    for held in ("TOP.S[]/split/0", "TOP.S[]/main/1", "TOP.S[]/join/0"):
        for n in range({"quick": 3, "thorough": 12}[tier]):
            ospecs.append(psrun.make_spec(sp_, ssem["split_and_indep"],
                                          {"kind": "random", "seed": rng.randrange(1 << 30), "penv": rng.choice([0.5, 0.8])},
                                          name="split_and_indep#h%s%d" % (held.split("/")[1], n), faults={"TOP.B[]/main/0": "errors"},
                                          hold=[held], restart=True, orphans=True))
    ores = psrun.run_specs(ospecs, nproc=16)
    recs = []
    for sp, r in zip(ospecs, ores):
        recs += psprops.monitor_records(sp, sem[sp["name"].split("#")[0]], r)
    obad, otlc = psprops.run_monitor(recs)
    norph = sum(1 for r in ores for e in r["trace"] if e["ev"] == "JournalWrite" and "#orphan" in e.get("job", ""))
    oby = {sp["name"]: (sp, r) for sp, r in zip(ospecs, ores)}
    for b in obad:
        if b["prop"] != "C11":
            continue
        sp, r = oby[b["run"]]
        viols.append({"prop": "C11", "key": "C11:stale:%s:%s" % (sp["name"].split("#")[0], b["what"].split(" written for")[0][:60]),
                      "what": "after a restart with surviving jobs: %s (program %s, fault %s)" % (b["what"], sp["name"], json.dumps(sp["faults"])),
                      "replay": {"spec.json": json.dumps(dict(sp, sched={"kind": "script", "script": r["script"]})),
                                 "trace.ndjson": "\n".join(json.dumps(e) for e in r["trace"]) + "\n"}})
    rc, nunk, hit = vlib.conclude("C11", viols)
    vlib.write_evidence("C11", tier, "model_checking", {
        "states": nkeys, "transitions": nnames,
        "traces_validated_against_impl": stats["runs"] + nnames,
        "samples": samples[:3] + [stats["sample"]],
        "exhaustive": True,
        "keys_enumerated": nkeys, "journal_names_parsed_by_real_code": nnames,
        "pipestance_runs": stats["runs"], "programs": len(progs), "program_names": [p["name"] for p in progs],
        "restart_runs_with_orphans": len(ospecs), "stale_notifications_written": norph,
        "trace_events": stats["events"], "tlc_runs": tlc_info, "known_findings_hit": hit,
    }, [
        "key alphabet a 2 E F _ u . / % SP é - 1 ? ; k up to length 2 (thorough: 8 characters up to length 4); node names chosen to confuse the parser (fork1, chnk2, fork_a.B, ...u0123456789)",
        "journal names are assembled in the harness from the real encodeJournalName / makeKeySafe following Fork.updateId, NewChunk, journalFile and UpdateJournal; the end-to-end runs exercise the real assembly",
        "end to end: in-process pipestances with the callback job manager; RoutedToOwner is judged by PsTrace on JournalSeen / MdCache hook events against the JournalWrite events of the jobs",
    ], time.time() - t0, violations=nunk)
    return rc

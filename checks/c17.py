"""C17 - JSON validation and filtering agree with the type system.

MroTypes.tla transcribes Assignable / Valid / Filter from the Go type
implementations; TLC checks the theorems of the statement over a bounded
universe of types and values (null valid everywhere, reflexivity, congruence
for arrays and typed maps, idempotence of filtering, filtering valid values
reports nothing) and emits every (type, value) and (type, type) row; the rows
are replayed through the real IsValidJson / FilterJson / IsAssignableFrom in
three byte renderings each.  Conversions the model itself predicts to be
unsound are confirmed on the real code and reported as findings."""
import json
import os
import time

import vlib


def run(tier, replay=None):
    t0 = time.time()
    wd = vlib.scratch("types")
    r = vlib.run_tlc("MroTypes", "MroTypes.cfg", workdir=wd, workers=1, timeout=1500)
    vlib.go_build()
    files = [os.path.join(wd, f) for f in ("types_values.ndjson", "types_assign.ndjson", "types_unsound.ndjson")]
    p = vlib.run_harness(["types-replay"] + files, timeout=1500)
    rep = json.loads(p.stdout)
    viols = []
    for v in rep["violations"]:
        viols.append({
            "key": "C17:%s:%s:%s:%s" % (v["kind"], v["type"], v.get("other", ""), v.get("value", "")[:80]),
            "what": "%s for type %s%s value %s: %s" % (v["kind"], v["type"],
                                                       (" from " + v["other"]) if v.get("other") else "",
                                                       v.get("value", ""), v["detail"][:400]),
        })
    for v in rep["predicted_unsound_confirmed"]:
        viols.append({
            "key": "C17:conversion-extra-field:%s:%s" % (v["type"], v["other"]),
            "what": "conversion %s -> %s, value %s: %s" % (v["other"], v["type"], v["value"], v["detail"][:300]),
        })
    rc, nunk, hit = vlib.conclude("C17", viols)
    nrows = rep["value_rows"] + rep["assign_rows"]
    vlib.write_evidence("C17", tier, "model_checking", {
        "states": nrows, "transitions": rep["renderings"] + rep["assign_rows"] + rep["sound_checks"],
        "traces_validated_against_impl": rep["renderings"] + rep["assign_rows"] + rep["sound_checks"],
        "samples": rep["samples"][:5],
        "exhaustive": True,
        "value_rows": rep["value_rows"], "byte_renderings": rep["renderings"], "type_pairs": rep["assign_rows"],
        "conversion_checks": rep["sound_checks"], "model_predicted_unsound_confirmed": len(rep["predicted_unsound_confirmed"]),
        "theorems_checked_by_tlc": ["T_NullValid", "T_Reflexive", "T_ArrayCongruent", "T_MapCongruent", "T_Idempotent", "T_FilterOnlyDrops"],
        "tlc_wall_s": round(r.wall, 1), "known_findings_hit": hit,
    }, [
        "universe: 7 builtins, user file type txt, structs S1..S4 (narrowed, nested, float/file members), arrays dim <= 2, typed maps of scalars/structs/arrays; values: valid samples of nesting <= 2 per type plus near misses (wrong kind leaf, dropped / extra field, wrapped, unwrapped, integral and out-of-range floats, keys needing escapes)",
        "'validates cleanly' = IsValidJson returns nil and writes no alarm",
        "each value is rendered compact, spaced and with reversed key order so that both the unchanged-slice fast path and the rebuild path of FilterJson run",
    ], time.time() - t0, violations=nunk)
    return rc

"""C13 - final outputs are materialised faithfully under outs/.

spec/PostProc.tla gives, per top-level output parameter, where each file of the
value must end up under outs/ (explicit output name, id, id.TYPE; directories
for arrays, typed maps and structs with zero-padded indices / keys / member
names) and what the rewritten outputs record must be; TLC evaluates it for
every program of the signature catalogue (and checks that no two files are sent
to the same place).  The programs run on the real runtime with file-writing
stage code under VDR disabled / rolling / strict, the final sweep and
Pipestance.PostProcess are executed as cmd/mrp does, and the rewritten _outs and
the outs/ tree are compared with the model: valid JSON, same shape, every moved
file at its derived location with the content the stage wrote, everything else
unchanged."""
import json
import os
import random
import time

import fshapes
import pshapes
import psrun
import vlib

MODES = ("disable", "rolling", "strict")


def run(tier, replay=None):
    t0 = time.time()
    vlib.go_build()
    rng = random.Random(vlib.seed())
    wd = vlib.scratch("c13")
    progs = pshapes.catalogue() + pshapes.clash_catalogue() + \
        [q for q in fshapes.catalogue() if q["name"] in ("vf_top", "vf_split_vol", "vf_map_top", "vf_map_sub")]
    with open(os.path.join(wd, "progs.ndjson"), "w") as f:
        for q in progs:
            f.write(json.dumps(q) + "\n")
    r = vlib.run_tlc("PostGen", "PostGen.cfg", workdir=wd, workers=1, timeout=1200)
    if not r.ok:
        raise vlib.Infra("PostGen: " + r.out[-1000:])
    rows = [json.loads(l) for l in open(os.path.join(wd, "post_out.ndjson"))]
    post = {x["name"]: x["outs"] for x in rows}
    clash = {x["name"] for x in rows if x["clash"]}
    viols = []
    # declarations the model says send two files to one name must be refused by the compiler
    import mro
    import subprocess
    with open(os.path.join(wd, "c.ndjson"), "w") as f:
        for q in progs:
            f.write(json.dumps({"Id": q["name"], "Src": mro.render(q)}) + "\n")
    p = subprocess.run([os.path.join(vlib.BUILD, "bin", "vh"), "compile-batch", os.path.join(wd, "c.ndjson"),
                        os.path.join(wd, "o.ndjson")], stdout=subprocess.PIPE, stderr=subprocess.PIPE, text=True,
                       env=vlib.GOENV, timeout=600, cwd=wd)
    if p.returncode != 0:
        raise vlib.Infra("compile-batch: rc=%d %s" % (p.returncode, p.stderr[-1000:]))
    comp = {json.loads(l)["id"]: json.loads(l) for l in open(os.path.join(wd, "o.ndjson"))}
    for q in progs:
        o = comp[q["name"]]
        if q["name"] in clash and o["ok"]:
            viols.append({"key": "C13:%s:clash-accepted" % q["name"],
                          "what": "program %s declares two outputs that are sent to the same name under outs/ and the compiler accepts it (one of them cannot be materialised)" % q["name"],
                          "replay": {"program.mro": mro.render(q)}})
        elif q["name"] in clash and "DuplicateNameError" not in o["error"]:
            raise vlib.Infra("clash program %s rejected for another reason: %s" % (q["name"], o["error"][:300]))
        elif q["name"] not in clash and not o["ok"]:
            raise vlib.Infra("program %s does not compile: %s" % (q["name"], o["error"][:300]))
    nclash = len(clash)
    progs = [q for q in progs if q["name"] not in clash]
    sem, _ = psrun.semantics(progs)
    specs = []
    nsched = 2 if tier == "quick" else 12
    for q in progs:
        for mode in MODES:
            for k in range(nsched):
                specs.append(psrun.make_spec(q, sem[q["name"]], {"kind": "random", "seed": rng.randrange(1 << 30), "penv": rng.choice([0.3, 0.7])},
                                             name="%s#%s%d" % (q["name"], mode, k), vdr=mode, files=True, post=post[q["name"]],
                                             rel_files=q.get("rel_files") or {}, dir_slash=(q["name"] in ("po_dir", "po_dir_twice") and k % 2 == 0),
                                             phys_paths=(k % 2 == 1),
                                             psdir_spelling=rng.choice(["", "slash", "dot", "dslash"]) if k > 0 else
                                             ("slash" if mode == "rolling" else "")))
        # mrp killed between the moves and the rewriting of the record, then restarted
        if q["name"] in ("po_plain", "po_arrays", "po_struct", "po_struct_outside", "po_outside", "po_maps", "po_links", "po_nulls"):
            for mode in MODES[:2]:
                specs.append(psrun.make_spec(q, sem[q["name"]], {"kind": "random", "seed": rng.randrange(1 << 30), "penv": 0.5},
                                             name="%s#%stwice" % (q["name"], mode), vdr=mode, files=True, post=post[q["name"]],
                                             rel_files=q.get("rel_files") or {}, post_twice=True))
    if replay:
        specs = [json.load(open(os.path.join(replay, "spec.json")))]
    res = psrun.run_specs(specs, nproc=16)
    checked = 0
    for s, rr in zip(specs, res):
        prog = s["name"].split("#")[0]
        checked += rr.get("post_checked") or 0
        rp = {"spec.json": json.dumps(s), "program.mro": s["mro"]}
        if rr["state"] != "complete":
            viols.append({"key": "C13:%s:did-not-complete" % prog,
                          "what": "program %s did not complete (%s): %s" % (prog, rr["state"], (rr.get("error") or rr.get("fatal_log") or "")[:300]), "replay": rp})
            continue
        for b in rr.get("post_bad") or []:
            where, what = (b.split(": ", 1) + [""])[:2]
            viols.append({"key": "C13:%s:%s:%s" % (prog, where.split("[")[0], what.split(",")[0][:50]),
                          "what": "program %s (vdr %s), output %s: %s" % (prog, s["vdr"], where, what[:300]), "replay": rp})
    rc, nunk, hit = vlib.conclude("C13", viols)
    vlib.write_evidence("C13", tier, "model_checking", {
        "states": len(progs), "transitions": len(specs), "exhaustive": False,
        "traces_validated_against_impl": len(specs),
        "programs": len(progs), "program_names": [q["name"] for q in progs], "runs": len(specs), "vdr_modes": list(MODES),
        "moved_files_checked": checked, "clashing_declarations_refused": nclash,
        "samples": [{"program": specs[0]["name"], "post_checked": res[0].get("post_checked")}],
        "known_findings_hit": hit,
    }, [
        "signature catalogue: file, user file types (also with a dotted name), path directories, explicit output names, arrays (also 11 elements: two-digit names), typed maps, structs with files incl. explicit member names and members declared after string / map members, arrays and maps of structs, empty and null collections, null and missing files, symbolic links and relative link chains, strings holding paths, sub-pipelines, mapped producers",
        "for outputs that are symbolic links the record names the link's destination by design; required is only that the file is available with its content at the derived location under outs/",
        "mapped top-level calls (`map call TOP(x = split ...)` as the invocation, over arrays of 1, 3 and 11 elements and over typed maps, also with keys that are no file names) are evaluated by MroSem!RunMapped and placed by PostProc!Materialise below outs/<index or key>; post-processing must create nothing but outs/ in the pipestance directory; the pipestance directory is handed to the runtime clean, with a trailing slash, with a /./ component or a doubled separator (as --psdir passes an absolute path on verbatim)",
        "post-processing is executed by the driver in the order cmd/mrp uses (VDRKill, PostProcess)",
    ], time.time() - t0, violations=nunk)
    return rc

"""C14 - VDR reclaims what it may and reports exactly what it removed."""
from checks.files_common import run_files, ASSUMPTIONS


def run(tier, replay=None):
    return run_files("C14", tier, replay, ASSUMPTIONS)

"""C05 - an interrupted pipestance resumes to the same result, not redoing
finished work; a handled signal leaves it unlocked.

1. TLC, exhaustive: MrpRun with Crash/Restart (MC_RunCrash; thorough also the
   dynamic-fork configuration) - NoRedoOfRecorded, BeliefSound (orphans),
   StartsAfterDeps across restarts.
2. Real mrp / mrjob binaries (tag verif): a reference run counts mrp's
   file-system effects N; for chosen k the process kills itself with SIGKILL
   right after effect k (or sends itself SIGTERM / SIGINT), jobs die with it,
   the operator removes the stale _lock (SIGKILL only), mrp is restarted and
   must complete.  PsTrace (TLC) judges the concatenated trace.
"""
import json
import os
import random
import time
from concurrent.futures import ThreadPoolExecutor

import procdrv
import psprops
import psrun
import shapes
import vlib
from checks.rt_common import model_check

PROGS = {"quick": ["chain", "chain_rev", "split2", "map_dyn2", "subpipe", "split10", "map_dynkeys_split", "nestdyn_same_source"],
         "thorough": ["chain", "chain_rev", "split2", "split0", "split10", "map_dyn2", "map_dyn0", "map_keys", "subpipe", "diamond",
                      "dis_true", "dis_false", "preflight", "map_pipe", "structs", "map_dynkeys_split", "map_dynarr_split"]}
SIGS = {"SIGKILL": 9, "SIGTERM": 15, "SIGINT": 2}


def mrp_writer(evs):
    for e in evs:
        if e.get("ev") == "Lock":
            return e["w"]
    return None


def one_cycle(root, wd, prog, sem, name, k, sig, cores=4):
    c = procdrv.Cycle(root, wd, prog, sem, name, cores=cores, delay_ms=(150 if cores == 1 else 20))
    c.mark("RunBegin")
    if sig == "SIGKILL":
        rc1, _ = c.run(crash_at=k)
    else:
        rc1, _ = c.run(signal_at=(k, SIGS[sig]))
    locked = c.locked()
    c.mark("Interrupted", sig=sig, rc=str(rc1), locked=locked)
    if sig == "SIGKILL":
        c.remove_lock()
    n1 = len(c.events())
    rc2, dt2 = c.run()
    rc3 = None
    if rc2 != 0 and c.locked() is False and rc2 != "timeout":
        pass
    outs = c.top_outs()
    c.mark("RunEnd", rc=str(rc2))
    evs = c.events()
    res = {"name": name, "k": k, "sig": sig, "rc1": rc1, "rc2": rc2, "locked": locked, "outs": outs,
           "events": evs, "n1": n1, "mrp_out": "", "log": c.log}
    if rc2 != 0:
        try:
            res["mrp_out"] = open(os.path.join(wd, "mrp.out"), errors="replace").read()[-3000:]
        except OSError:
            pass
    c.cleanup()
    return res


def fault_cycle(root, wd, prog, sem, name, fault_key, slow_key, ref_outs, cores=4, waiting_key=None):
    """A later fork of a mapped stage fails (once) while an earlier fork is still running; mrp
    is killed right after it has read the failure; the operator removes the lock and starts mrp
    again: it must complete with the reference outputs.  Returns (result or None, note)."""
    faults, delays = {fault_key: "errors*1"}, ({slow_key: 2500} if slow_key else {})
    dl = 20 if cores > 1 else 200
    # first pass without a kill: where in mrp's effects the failure is read
    c0 = procdrv.Cycle(root, wd + "_probe", prog, sem, name + "#probe", faults=faults, delays=({slow_key: 600} if slow_key else {}),
                       cores=cores, delay_ms=dl)
    c0.run(timeout=120)
    evs = c0.events()
    c0.cleanup()
    w = mrp_writer(evs)
    mine = [e for e in evs if e.get("w") == w]
    k = next((i + 1 for i, e in enumerate(mine) if e.get("ev") == "JournalSeen" and e.get("file", "").endswith("errors")), 0)
    if not k:
        return None, "the probe run never read the failure through the journal"
    c = procdrv.Cycle(root, wd, prog, sem, name, faults=faults, delays=delays, cores=cores, delay_ms=dl)
    c.mark("RunBegin")
    rc1, _ = c.run(crash_at=k)
    evs1 = c.events()
    began = {e["job"] for e in evs1 if e.get("ev") == "StageBegin"}
    ended = {e["job"] for e in evs1 if e.get("ev") == "StageEnd"}
    if slow_key and not (slow_key in began and slow_key not in ended and fault_key in ended):
        c.cleanup()
        return None, "the kill did not fall between the failure of %s and the end of %s" % (fault_key, slow_key)
    if waiting_key and not (fault_key in ended and waiting_key not in began):
        c.cleanup()
        return None, "the kill did not fall between the failure of %s and the start of %s" % (fault_key, waiting_key)
    c.mark("Interrupted", sig="SIGKILL", rc=str(rc1), locked=c.locked())
    c.remove_lock()
    n1 = len(c.events())
    rc2, _ = c.run(timeout=60)
    outs = c.top_outs()
    c.mark("RunEnd", rc=str(rc2))
    res = {"name": name, "k": k, "sig": "SIGKILL", "rc1": rc1, "rc2": rc2, "outs": outs, "ref": ref_outs,
           "mrp_out": ""}
    try:
        res["mrp_out"] = open(os.path.join(wd, "mrp.out"), errors="replace").read()[-2500:]
    except OSError:
        pass
    res["mro"] = c.mro
    c.cleanup()
    return res, ""


def zip_outs(psdir):
    """the top-level outputs of a pipestance whose metadata may be in _metadata.zip"""
    import zipfile
    for d in sorted(os.listdir(psdir)):
        f = os.path.join(psdir, d, "fork0", "_outs")
        if os.path.isfile(f) and not d.startswith("_") and d not in ("journal", "tmp", "outs"):
            return json.loads(open(f).read().replace(psdir, "$PS"))
    z = os.path.join(psdir, "_metadata.zip")
    if os.path.exists(z):
        with zipfile.ZipFile(z) as zf:
            for n in sorted(zf.namelist()):
                parts = n.split("/")
                if parts[-2:] == ["fork0", "_outs"] and len(parts) <= 4 and not parts[-3].startswith("_"):
                    if len([x for x in parts if x]) == 3 or parts[0] == "":
                        return json.loads(zf.read(n).decode().replace(psdir, "$PS"))
    return None


def records(res, sem, ref_outs):
    """PsTrace records of one crash/restart cycle."""
    out = [psprops.rec(ev="RunBegin", run=res["name"], jobs=psprops.expected_jobs(sem),
                       weak=bool(sem.get("weak")), kind="crash")]
    md2job = {}
    begun = set()
    recorded = set()
    phase = 0
    # "before the interruption": before the last effect of the mrp that was interrupted.  A job
    # that outlives mrp for a moment (on a loaded machine it can finish between mrp's death and
    # the signal its parent's death sends it) has not recorded its completion before the
    # interruption, and nothing forbids running it again
    evs_ = res["events"]
    w1 = mrp_writer(evs_)
    cut = next((i for i, e in enumerate(evs_) if e.get("ev") == "Interrupted"), len(evs_))
    last_mrp = max([i for i, e in enumerate(evs_[:cut]) if e.get("w") == w1] or [cut])
    # (such a job may or may not run again, depending on whether mrp had got as far as removing
    # its "queued" sentinel: it counts as killed if it does run again, as complete if not)
    rerun_after = {e.get("job") for e in evs_[cut:] if e.get("ev") == "StageBegin"}
    for idx_, e in enumerate(res["events"]):
        ev = e.get("ev")
        if ev == "StageBegin":
            md2job[e["md"]] = e["job"]
            begun.add(e["job"])
            out.append(psprops.rec(ev="StageBegin", job=e["job"], flag=bool(e["argsOk"]), txt=e.get("detail", "")[:300],
                                   kind="placeholder" if "?" in e["job"].split("/")[0].rsplit("[", 1)[-1] else ""))
        elif ev == "StageEnd" and e.get("outcome") != "ok":
            out.append(psprops.rec(ev="StageEnd", job=e["job"], outcome=e["outcome"]))
        elif ev == "MdWrite" and e.get("name") == "complete":
            # completion marker of a job, written by the job monitor: this is
            # "completion recorded"
            rel = os.path.relpath(e["md"], os.path.join(os.path.dirname(e["md"].split("/ps/")[0] + "/ps/"), "")) \
                if False else e["md"].split("/ps/", 1)[-1]
            j = md2job.get(rel)
            if j and phase == 0 and idx_ > last_mrp and res.get("sig") == "SIGKILL" and j in rerun_after:
                continue        # (finished after mrp was gone, and is run again)
            if j:
                recorded.add(j)
                out.append(psprops.rec(ev="StageEnd", job=j, outcome="ok"))
        elif ev == "Interrupted":
            for j in sorted(begun - recorded):
                out.append(psprops.rec(ev="StageKilled", job=j))
            out.append(psprops.rec(ev="Interrupted", kind=e["sig"], flag=not e["locked"]))
            out.append(psprops.rec(ev="Restart"))
            begun = set()
            phase = 1
        elif ev == "RunEnd":
            ok = res["rc2"] == 0
            same = ok and res["outs"] == ref_outs
            txt = "" if same else ("mrp exit status %s; outputs %s, reference %s; %s" % (
                res["rc2"], json.dumps(res["outs"])[:150], json.dumps(ref_outs)[:150],
                (res.get("mrp_out") or "").replace("\n", " ")[-300:]))
            out.append(psprops.rec(ev="RunEnd", outcome="complete" if ok else "failed", flag=bool(same), txt=txt))
    return out


def run(tier, replay=None):
    t0 = time.time()
    thorough = tier == "thorough"
    mstates, mtrans, mruns = model_check(("Crash", "CrashDyn") if thorough else ("Crash",), timeout=3000)
    rng = random.Random(vlib.seed())
    progs = [p for p in shapes.catalogue() if p["name"] in PROGS[tier]]
    # file-typed top-level outputs: interruptions during post-processing (files moved to outs/
    # one by one, the outputs record rewritten last)
    import pshapes
    progs += [p for p in pshapes.catalogue() if p["name"] in ("po_plain", "po_arrays")]
    sem, _ = psrun.semantics(progs)
    root = procdrv.build_root()
    base = vlib.scratch("c05")
    # reference runs
    refs = {}
    for p in progs:
        c = procdrv.Cycle(root, os.path.join(base, "ref_" + p["name"]), p, sem[p["name"]], p["name"])
        rc, dt = c.run()
        evs = c.events()
        w = mrp_writer(evs)
        n = sum(1 for e in evs if e.get("w") == w)
        if rc != 0:
            raise vlib.Infra("reference run of %s failed (rc=%s): %s" % (
                p["name"], rc, open(os.path.join(c.wd, "mrp.out"), errors="replace").read()[-1500:]))
        refs[p["name"]] = (n, c.top_outs(), evs, w)
        c.cleanup()
    # crash points
    cases = []
    per = {"quick": 18, "thorough": 10 ** 6}[tier]
    for p in progs:
        n, outs, evs, w = refs[p["name"]]
        mine = [e for e in evs if e.get("w") == w]
        ks = list(range(1, n + 1))
        # spec-selected classes first: journal entry seen but not yet removed, fork
        # expansion, between a fork's _outs and _complete, submit, lock
        cls = [i + 1 for i, e in enumerate(mine)
               if e["ev"] in ("JournalSeen", "JournalRemove", "ForkAdded", "Submit", "Uniquify", "MdReset", "OutMoved", "OutLinked")
               or (e["ev"] == "MdWrite" and e.get("name") in ("outs", "complete", "jobinfo", "queued_locally", "stage_defs"))]
        rng.shuffle(cls)
        rng.shuffle(ks)
        chosen = []
        for k in cls[:per * 2 // 3] + ks:
            if k not in chosen:
                chosen.append(k)
            if len(chosen) >= per:
                break
        for k in chosen:
            sig = "SIGKILL"
            r = rng.random()
            if r < 0.2:
                sig = "SIGTERM"
            elif r < 0.3:
                sig = "SIGINT"
            cases.append((p, k, sig))
        # a handled signal while the lock is being taken: before the check, between the creation
        # of the lock file and the registration of the handler that removes it, and just after
        if p["name"] in ("chain", "split2") or thorough:
            for i, e in enumerate(mine):
                if e["ev"] in ("LockCheck", "LockCreated", "Lock"):
                    cases.append((p, i + 1, "SIGTERM" if (i + len(p["name"])) % 2 else "SIGINT"))
    if replay:
        spec = json.load(open(os.path.join(replay, "case.json")))
        cases = [(p, spec["k"], spec["sig"]) for p in progs if p["name"] == spec["program"]]

    # mapped splitting stages on ONE core: while a job of one fork runs, jobs of the other forks
    # (a join behind a sibling's chunk) are only queued; after the kill the running job reports
    # the signal its parent's death sends it, the queued ones say nothing
    onecore = {}
    for p in progs:
        if p["name"] in ("map_dynkeys_split", "map_dynarr_split", "map_dyn2"):
            c = procdrv.Cycle(root, os.path.join(base, "ref1_" + p["name"]), p, sem[p["name"]], p["name"], cores=1, delay_ms=150)
            rc, dt = c.run()
            evs = c.events()
            w = mrp_writer(evs)
            mine1 = [e for e in evs if e.get("w") == w]
            c.cleanup()
            if rc != 0:
                raise vlib.Infra("one-core reference run of %s failed (rc=%s)" % (p["name"], rc))
            # first the moments a join is handed to the job manager (its fork's chunks are done,
            # a sibling's chunk is likely running), then other submissions and process starts
            kj = [i + 1 for i, e in enumerate(mine1) if e["ev"] in ("Submit", "MdWrite") and "join" in json.dumps(e)
                  and (e["ev"] == "Submit" or e.get("name") in ("jobinfo", "queued_locally"))]
            ks = [i + 1 for i, e in enumerate(mine1) if e["ev"] in ("ProcStart", "JournalSeen", "Submit")]
            rng.shuffle(kj)
            rng.shuffle(ks)
            chosen1 = []
            for k in kj[:{"quick": 6, "thorough": 400}[tier]] + ks:
                if k not in chosen1:
                    chosen1.append(k)
                if len(chosen1) >= {"quick": 10, "thorough": 400}[tier]:
                    break
            for k in chosen1:
                onecore[len(cases)] = True
                cases.append((p, k, "SIGKILL"))

    def do(i):
        p, k, sig = cases[i]
        return one_cycle(root, os.path.join(base, "c%d" % i), p, sem[p["name"]], "%s#k%d%s%s" % (p["name"], k, sig, "one" if i in onecore else ""), k, sig,
                         cores=(1 if i in onecore else 4))

    with ThreadPoolExecutor(16) as ex:
        results = list(ex.map(do, range(len(cases))))
    recs = []
    for (p, k, sig), r in zip(cases, results):
        recs += records(r, sem[p["name"]], refs[p["name"]][1])
    bad, tlc = psprops.run_monitor(recs)
    by = {r["name"]: ((p, k, sig), r) for (p, k, sig), r in zip(cases, results)}
    viols = []
    # sixteen cycles run at a time, and what a job gets done around the kill depends on the
    # machine: a cycle that violates the property is repeated alone (twice) when only a few do,
    # and reported if the violation shows again (once, on a loaded machine, a job that had
    # recorded its completion ran again after the restart in a single cycle of a tree on which
    # the same cycle passes every other time; it could not be reproduced and is not a verdict)
    badruns = sorted({b["run"] for b in bad if b["prop"] == "C05"})
    unrepro = set()
    if not replay and 0 < len(badruns) <= 4:
        for rn in badruns:
            (p, k, sig), r = by[rn]
            shown = False
            for rep_ in range(2):
                r2 = one_cycle(root, os.path.join(base, "again_%s_%d" % (rn.replace("#", "_"), rep_)), p, sem[p["name"]],
                               rn + "#again%d" % rep_, k, sig, cores=(1 if rn.endswith("one") else 4))
                bad2, _ = psprops.run_monitor(records(r2, sem[p["name"]], refs[p["name"]][1]))
                if any(b2["prop"] == "C05" for b2 in bad2):
                    shown = True
                    break
            if not shown:
                unrepro.add(rn)
                print("NOTE the cycle %s violated C05 in the batch (%s) but not when repeated alone, twice: not reported" % (
                    rn, "; ".join(b["what"][:160] for b in bad if b["run"] == rn and b["prop"] == "C05")))
    for b in bad:
        if b["run"] in unrepro and b["prop"] == "C05":
            continue
        (p, k, sig), r = by[b["run"]]
        # what mrp was doing at effect k
        n, outs, evs, w = refs[p["name"]]
        mine = [e for e in evs if e.get("w") == w]
        at = mine[k - 1] if k - 1 < len(mine) else {}
        atdesc = "%s %s" % (at.get("ev", "?"), at.get("name", at.get("file", "")))
        # was mrp still creating the pipestance (Runtime.InvokePipeline writes the
        # top-level _timestamp last)?
        created = next((i + 1 for i, e in enumerate(mine) if e.get("ev") == "MdWrite" and e.get("name") == "timestamp"), 0)
        if k < created and "did not complete" in b["what"]:
            atdesc = "creation-window"
        viols.append({
            "prop": b["prop"],
            "key": "%s:%s:%s:%s:%s" % (b["prop"], p["name"], sig, atdesc.strip(), b["what"].split(":")[0][:50]),
            "what": "%s program %s, %s after mrp's effect %d (%s): [%s] %s" % (
                b["prop"], p["name"], sig, k, atdesc, b["job"], b["what"]),
            "replay": {"case.json": json.dumps({"program": p["name"], "k": k, "sig": sig}),
                       "program.mro": __import__("mro").render(p, stage_lang="comp"),
                       "trace.ndjson": "\n".join(json.dumps(e) for e in r["events"]) + "\n"},
        })
    # every input of a job is the same in the resumed run as in the uninterrupted one: the chunk
    # definitions a join is handed (besides its arguments and the chunk outputs, judged above)
    ncdefs = 0
    for (p, k, sig), r in zip(cases, results):
        ref_cd = {e["job"]: e.get("cdefs", "") for e in refs[p["name"]][2] if e.get("ev") == "StageBegin" and e.get("cdefs")}
        for e in r["events"]:
            if e.get("ev") == "StageBegin" and e.get("cdefs") and e["job"] in ref_cd:
                ncdefs += 1
                if e["cdefs"] != ref_cd[e["job"]]:
                    viols.append({
                        "prop": "C05",
                        "key": "C05:%s:%s:join-inputs-differ:%s" % (p["name"], sig, e["job"]),
                        "what": "C05 program %s, %s after mrp's effect %d: the join %s is handed other chunk definitions than in the uninterrupted run: %s, there %s" % (
                            p["name"], sig, k, e["job"], e["cdefs"][:300], ref_cd[e["job"]][:300]),
                        "replay": {"case.json": json.dumps({"program": p["name"], "k": k, "sig": sig}),
                                   "program.mro": __import__("mro").render(p, stage_lang="comp"),
                                   "trace.ndjson": "\n".join(json.dumps(x) for x in r["events"]) + "\n"}})
    # a fork of a mapped stage has failed, an earlier one still runs, mrp is killed, restarted
    fault_report = []
    for pname, fkey, skey in (("map_dyn2", "TOP.A[1]/main/0", "TOP.A[0]/main/0"), ("map_static", "TOP.A[1]/main/0", "TOP.A[0]/main/0"),
                              # on one core: the later fork's first chunk fails for good while the earlier fork's join
                              # waits in the queue behind the later fork's other chunks
                              ("map_dynkeys_split", "TOP.S[k2]/main/0", None), ("map_dynarr_split", "TOP.S[1]/main/0", None)):
        q = next((x for x in shapes.catalogue() if x["name"] == pname), None)
        if q is None:
            continue
        qsem, _ = psrun.semantics([q])
        if pname not in refs:
            c = procdrv.Cycle(root, os.path.join(base, "ref2_" + pname), q, qsem[pname], pname)
            rc, _ = c.run()
            refs[pname] = (0, c.top_outs(), [], None)
            c.cleanup()
        if skey is None:
            wkey = fkey.split("[")[0] + ("[k1]" if "k2" in fkey else "[0]") + "/join/0"
            r, note = fault_cycle(root, os.path.join(base, "fc_" + pname), q, qsem[pname], pname + "#fault", fkey, None, refs[pname][1],
                                  cores=1, waiting_key=wkey)
        else:
            r, note = fault_cycle(root, os.path.join(base, "fc_" + pname), q, qsem[pname], pname + "#fault", fkey, skey, refs[pname][1])
        if r is None:
            fault_report.append({"program": pname, "skipped": note})
            continue
        fault_report.append({"program": pname, "killed_after_effect": r["k"], "restart_exit": r["rc2"], "outputs_equal": r["outs"] == r["ref"]})
        if r["rc2"] != 0 or r["outs"] != r["ref"]:
            viols.append({"prop": "C05", "key": "C05:%s:SIGKILL:fork-failed-earlier-fork-running:restart" % pname,
                          "what": "C05 program %s: fork %s failed (the job succeeds when run again) while %s was still unfinished, mrp was killed right after reading the failure; the restarted mrp ended with status %s, outputs %s, reference %s; %s" % (
                              pname, fkey, skey or "the earlier fork", r["rc2"], json.dumps(r["outs"])[:120], json.dumps(r["ref"])[:120], r["mrp_out"].replace("\n", " ")[-300:]),
                          "replay": {"program.mro": r["mro"], "report.json": json.dumps({k_: v_ for k_, v_ in r.items() if k_ != "mro"})}})
    # mrp --zip archives the metadata of a completed pipestance; mrp stopped after that (or simply
    # started again with the same invocation) finds the archive instead of the files
    zip_report = []
    for pname in ("map_keys", "map_dyn2", "split2", "subpipe", "map_dynkeys_split"):
        q = next((x for x in shapes.catalogue() if x["name"] == pname), None)
        if q is None:
            continue
        qsem, _ = psrun.semantics([q])
        c = procdrv.Cycle(root, os.path.join(base, "zip_" + pname), q, qsem[pname], pname + "#zip", extra_args=["--zip"])
        rc1, _ = c.run()
        zipped = os.path.exists(os.path.join(c.psdir, "_metadata.zip"))
        rc2, _ = c.run(timeout=60)
        outs2 = zip_outs(c.psdir)
        if pname not in refs:
            c0 = procdrv.Cycle(root, os.path.join(base, "ref3_" + pname), q, qsem[pname], pname)
            c0.run()
            refs[pname] = (0, c0.top_outs(), [], None)
            c0.cleanup()
        ref = refs[pname][1]
        tail = ""
        try:
            tail = open(os.path.join(c.wd, "mrp.out"), errors="replace").read()[-600:].replace("\n", " ")
        except OSError:
            pass
        zip_report.append({"program": pname, "first_exit": rc1, "archived": zipped, "second_exit": rc2, "outputs_equal": outs2 == ref})
        if rc1 != 0 or not zipped:
            c.cleanup()
            raise vlib.Infra("the --zip run of %s did not complete and archive (rc=%s): %s" % (pname, rc1, tail))
        if rc2 != 0 or outs2 != ref:
            viols.append({"prop": "C05", "key": "C05:%s:restart-of-archived-pipestance" % pname,
                          "what": "C05 program %s run with --zip: mrp completed and archived the metadata; started again on the same directory it ended with status %s, outputs %s, reference %s; %s" % (
                              pname, rc2, json.dumps(outs2)[:150], json.dumps(ref)[:150], tail),
                          "replay": {"program.mro": c.mro}})
        c.cleanup()
    # an invocation that uses an environment variable (mrp expands them when it first compiles the
    # invocation, and records the expanded text): killed half way and restarted with the same file
    import mro as mro_
    os.environ["VERIF_WORD"] = "word"
    qe = mro_.program("envinv", [], [shapes.S_echo("E", "string", "s", "r"), shapes.S_echo("F", "string", "s", "r")],
                      [mro_.pipeline("TOP", "string s", "string r",
                                     [mro_.call("E", binds={"s": mro_.self_("s")}), mro_.call("F", binds={"s": mro_.ref("E", "r")})],
                                     {"r": mro_.ref("F", "r")})], "TOP", {"s": "a word b"})
    esem, _ = psrun.semantics([qe])
    env_report = {}

    def env_cycle(tag):
        c_ = procdrv.Cycle(root, os.path.join(base, "env_" + tag), qe, esem["envinv"], "envinv#" + tag)
        text = c_.mro.replace('"a word b"', '"a $VERIF_WORD b"')
        if text == c_.mro:
            raise vlib.Infra("the invocation of envinv does not contain the literal to replace")
        open(os.path.join(c_.wd, "p.mro"), "w").write(text)
        c_.mro = text
        return c_
    ce = env_cycle("ref")
    rc0, _ = ce.run()
    evs0 = ce.events()
    w0 = mrp_writer(evs0)
    n0 = sum(1 for e in evs0 if e.get("w") == w0)
    ref_e = ce.top_outs()
    ce.cleanup()
    if rc0 != 0 or not n0:
        raise vlib.Infra("the reference run of envinv failed (rc=%s)" % rc0)
    for tag, k_ in (("half", n0 // 2), ("late", n0 - 3)):
        ce = env_cycle(tag)
        rc1, _ = ce.run(crash_at=k_)
        ce.remove_lock()
        rc2, _ = ce.run(timeout=60)
        outs_e = ce.top_outs()
        tail = ""
        try:
            tail = open(os.path.join(ce.wd, "mrp.out"), errors="replace").read()[-400:].replace("\n", " ")
        except OSError:
            pass
        env_report[tag] = {"killed_after_effect": k_, "restart_exit": rc2, "outputs_equal": outs_e == ref_e}
        if rc2 != 0 or outs_e != ref_e:
            viols.append({"prop": "C05", "key": "C05:envinv:SIGKILL:restart-with-the-same-invocation",
                          "what": "C05 program envinv, whose invocation holds `$VERIF_WORD`: killed after mrp's effect %d and restarted with the same invocation file and environment, mrp ended with status %s, outputs %s, reference %s; %s" % (
                              k_, rc2, json.dumps(outs_e)[:120], json.dumps(ref_e)[:120], tail),
                          "replay": {"program.mro": ce.mro}})
        ce.cleanup()
    # cluster mode, the real mrp: a submit command that waits for the job (qsub -sync y); mrp is
    # killed outright while it runs, the job has finished by then; restart in the same job mode
    rootq = procdrv.build_cluster_root(root)
    TARGETS = [("chain", "/ps/TOP/B/fork0/chnk0"), ("chain", "/ps/TOP/A/fork0/chnk0"),
               ("split2", "/ps/TOP/S/fork0/join"), ("split2", "/ps/TOP/S/fork0/chnk1"),
               ("split2", "/ps/TOP/S/fork0/split"), ("map_dyn2", "/ps/TOP/A/fork1/chnk0")]
    if not thorough:
        TARGETS = TARGETS[:4]
    byname = {p["name"]: p for p in progs}

    def submit_kill(t):
        pname, pat = t
        p_ = byname[pname]
        wd_ = os.path.join(base, "q_%s_%s" % (pname, pat.replace("/", "_")))
        c_ = procdrv.Cycle(rootq, wd_, p_, sem[pname], pname + "#submitkill", extra_args=["--jobmode=verifq", "--maxjobs=3"])
        c_.env_extra = {"VERIF_KILL_ON_SUBMIT": pat, "VERIF_KILL_ONCE": os.path.join(wd_, "killed")}
        rc1, _ = c_.run(timeout=120)
        evs1 = c_.events()
        killed = os.path.isdir(os.path.join(wd_, "killed"))
        tjobs = {e.get("job") for e in evs1 if e.get("ev") == "StageBegin" and (e.get("md") or "").startswith(pat[len("/ps/"):])}
        done = [e for e in evs1 if e.get("ev") == "StageEnd" and e.get("outcome") == "ok" and e.get("job") in tjobs]
        r = {"program": pname, "job_directory": pat, "mrp_killed_in_submit": killed, "job_completed_before_kill": bool(done),
             "first_exit": str(rc1)}
        if not killed or not done or rc1 == 0:
            c_.cleanup()
            return r, None
        c_.remove_lock()
        rc2, _ = c_.run(timeout=180)
        evs2 = c_.events()[len(evs1):]
        again = [e for e in evs2 if e.get("ev") == "StageBegin" and e.get("job") in tjobs]
        outs_ = c_.top_outs()
        r.update({"restart_exit": str(rc2), "executed_again": bool(again), "outputs_equal": outs_ == refs[pname][1]})
        # direction A: the steps taken on the job's directory, as a behaviour of spec/Submit.tla
        lines = []
        rel = pat[len("/ps/"):]

        def mine_(e):
            m_ = e.get("md") or ""
            return ("/ps/" + rel) in m_ or m_.startswith(rel)
        for part, evs_ in ((1, evs1), (2, evs2)):
            if part == 2:
                lines += ["Crash", "Restart"]
            for e in evs_:
                if e.get("ev") == "MdWrite" and e.get("name") == "queued_locally" and mine_(e):
                    lines.append("Queue")
                elif e.get("ev") == "MdRemove" and e.get("name") == "queued_locally" and mine_(e):
                    lines.append("SubmitStart")
                elif e.get("ev") == "StageBegin" and e.get("job") in tjobs:
                    lines.append("Accept")
                elif e.get("ev") == "StageEnd" and e.get("outcome") == "ok" and e.get("job") in tjobs:
                    lines.append("Finish")
        r["steps"] = lines
        v = None
        tail = ""
        try:
            tail = open(os.path.join(wd_, "mrp.out"), errors="replace").read()[-400:].replace("\n", " ")
        except OSError:
            pass
        if again:
            v = "the job %s, whose completion had been recorded before mrp was killed (inside the submit command, cluster mode), was executed again after the restart" % done[0].get("job")
        elif rc2 != 0 or outs_ != refs[pname][1]:
            v = "after mrp was killed inside the submit command of %s (cluster mode) and restarted, mrp ended with status %s, outputs %s, reference %s; %s" % (
                done[0].get("job"), rc2, json.dumps(outs_)[:120], json.dumps(refs[pname][1])[:120], tail)
        c_.cleanup()
        return r, v
    with ThreadPoolExecutor(6) as ex:
        sk = list(ex.map(submit_kill, [t for t in TARGETS if t[0] in byname]))
    submit_report = [r for r, _ in sk]
    # the protocol of handing a job over (spec/Submit.tla): exhaustive for two jobs and two kills
    # with the sentinel removed before the submit command starts; removing it afterwards (the
    # variant SubmitBad.cfg) must violate NoRedo
    sm_ok = vlib.run_tlc("Submit", "Submit.cfg", workers=2, timeout=600)
    if not sm_ok.ok:
        raise vlib.Infra("Submit: %s %s" % (sm_ok.violation, sm_ok.out[-800:]))
    sm_bad = vlib.run_tlc("Submit", "SubmitBad.cfg", workers=1, timeout=600)
    if sm_bad.ok or sm_bad.violation != "NoRedo":
        raise vlib.Infra("SubmitBad (sentinel removed after the submit command returned) does not violate NoRedo: vacuous (%s)" % sm_bad.violation)
    tw = vlib.scratch("submittrace")
    tl = []
    for r in submit_report:
        if r.get("steps"):
            tl += ([{"a": "Reset", "j": "t"}] if tl else []) + [{"a": a_, "j": "t"} for a_ in r["steps"]]
    submit_model = {"exhaustive": "Submit.cfg: %d distinct states, NoRedo, OneInstance, SentinelMeansNotHandedOver and AllDone hold; SubmitBad.cfg violates NoRedo" % sm_ok.distinct,
                    "steps_validated_against_Submit": len(tl), "accepted": None}
    if tl:
        with open(os.path.join(tw, "submit_trace.ndjson"), "w") as f:
            for ln in tl:
                f.write(json.dumps(ln) + "\n")
        try:
            tv = vlib.run_tlc("SubmitTrace", "SubmitTrace.cfg", workdir=tw, workers=1, timeout=300)
            accepted, why = bool(tv.ok), (tv.violation or "trace not accepted")
        except vlib.Infra as e:
            accepted, why = False, "trace not accepted" if "TraceAccepted" in str(e) else str(e)[-300:]
        submit_model["accepted"] = accepted
        if not accepted:
            print("NOTE model-drift: the steps taken on the killed jobs' directories are not a behaviour of spec/Submit.tla (%s): %s" % (
                why, json.dumps([r.get("steps") for r in submit_report])[:400]))
    if not any(r.get("restart_exit") is not None for r in submit_report):
        raise vlib.Infra("no cluster-mode run was killed inside the submit command: %s" % json.dumps(submit_report)[:600])
    for r, v in sk:
        if v:
            viols.append({"prop": "C05", "key": "C05:%s:SIGKILL:submit:%s" % (r["program"], r["job_directory"]),
                          "what": "C05 program %s: %s" % (r["program"], v), "replay": {"program.mro": mro_.render(byname[r["program"]], stage_lang="comp"),
                                                                                       "case.txt": json.dumps(r)}})
    mine = [v for v in viols if v["prop"] == "C05"]
    others = sorted({v["prop"] for v in viols if v["prop"] != "C05"})
    if others:
        print("NOTE the same cycles also violate %s" % ",".join(others))
    rc, nunk, hit = vlib.conclude("C05", mine)
    sigs = {}
    for _, _, s in cases:
        sigs[s] = sigs.get(s, 0) + 1
    vlib.write_evidence("C05", tier, "model_checking", {
        "states": mstates + tlc.distinct, "transitions": mtrans + tlc.generated,
        "traces_validated_against_impl": len(cases),
        "join_inputs_compared_with_uninterrupted_run": ncdefs,
        "cluster_mode_kill_inside_submit_command": submit_report, "submit_protocol_model": submit_model,
        "restarts_of_archived_pipestances": zip_report, "invocation_with_environment_variable": env_report,
        "samples": [{"program": cases[0][0]["name"], "effect": cases[0][1], "signal": cases[0][2],
                     "exit_status": [str(results[0]["rc1"]), str(results[0]["rc2"])],
                     "events_before_crash": results[0]["n1"]}] if cases else [],
        "exhaustive": False if not thorough else True,
        "exhaustive_model_runs": mruns,
        "programs": len(progs), "crash_cycles": len(cases), "by_signal": sigs,
        "effects_per_program": {p["name"]: refs[p["name"]][0] for p in progs},
        "fork_failed_while_earlier_fork_ran": fault_report,
        "restart_outcomes": {str(k): sum(1 for r in results if str(r["rc2"]) == str(k)) for k in {str(r["rc2"]) for r in results}},
        "known_findings_hit": hit,
    }, [
        "real mrp and mrjob binaries built with -tags verif; the hook kills the process (SIGKILL) or signals it right after its k-th observable effect; stages run under mrjob (src comp), which records its pid in _jobinfo",
        "on this platform local jobs die with mrp (PDEATHSIG); the surviving-orphan case is covered only by the MrpRun model (Survive = TRUE)",
        "'completion recorded' = the job's _complete marker was written (by mrjob) before mrp's last event; after SIGKILL the operator removes _lock; final outputs are compared with an uninterrupted reference run",
        "thorough: every effect of every program is a crash point; quick: a seeded sample biased to journal handling, submission, fork expansion and marker writes",
    ], time.time() - t0, violations=nunk)
    return rc

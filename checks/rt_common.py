"""Common driver of the checks decided on real pipestance runs + PsTrace."""
import json
import os
import time

import psprops
import shapes
import vlib


def model_check(cfgs, timeout=2400):
    """Exhaustive TLC runs of MrpRun configurations (design level).  A violation
    here is a problem of the specification, never a verdict about the code."""
    states = trans = 0
    runs = []
    for cfg in cfgs:
        r = vlib.run_tlc("MC_Run", "MC_Run%s.cfg" % cfg, workers=12, timeout=timeout)
        if not r.ok:
            raise vlib.Infra("MrpRun configuration %s violates %s (specification problem, no verdict about the code)\n%s"
                             % (cfg, r.violation, "\n".join(st["_action"][:90] for st in r.error_trace)))
        states += r.distinct
        trans += r.generated
        runs.append("MC_Run%s: %d distinct / %d generated states, depth %d, %.1fs" % (cfg, r.distinct, r.generated, r.depth, r.wall))
    if "Sched" in cfgs:
        # non-vacuity: the variant of Fork.getState that releases the chunks as soon as the
        # split's _stage_defs is known must violate StartsAfterDeps in the same configuration
        r = vlib.run_tlc("MC_Run", "MC_RunEarly.cfg", workers=4, timeout=timeout)
        if r.ok or r.violation != "StartsAfterDeps":
            raise vlib.Infra("MC_RunEarly (chunks released on _stage_defs) does not violate StartsAfterDeps: the property is vacuous there (%s)" % r.violation)
        runs.append("MC_RunEarly: StartsAfterDeps violated after %d states, as it must be (variant EarlyChunks = TRUE)" % r.generated)
    return states, trans, runs


def orphan_runs(tier, pid, names=("split2", "chain", "map_dyn2", "diamond", "subpipe", "split10", "split_nothing")):
    """Restart runs in which a job fails, mrp exits, and the jobs that were
    running survive it and report later under their old attempt (directory and
    journal name).  Returns (violations of pid, coverage)."""
    import random
    import psrun
    rng = random.Random(vlib.seed() + 17)
    progs = [p for p in shapes.catalogue() if p["name"] in names]
    sem, _ = psrun.semantics(progs)
    specs = []
    for p in progs:
        jobs = [j["key"] for j in psprops.expected_jobs(sem[p["name"]])]
        # a chunk fails after its siblings have finished; the restarted mrp has to run it again
        # before the join
        chunkjobs = [j["key"] for j in psprops.expected_jobs(sem[p["name"]]) if j["kind"] == "main" and j["split"]]
        for n, key in enumerate(chunkjobs[-2:]):
            specs.append(psrun.make_spec(p, sem[p["name"]], {"kind": "slow", "slow": key.split("/")[0] + "#none", "seed": rng.randrange(1 << 30), "penv": 0.95},
                                         name="%s#oc%d" % (p["name"], n), faults={key: "errors"}, restart=True, freeze=True))
        for n in range({"quick": 10, "thorough": 80}[tier]):
            specs.append(psrun.make_spec(p, sem[p["name"]],
                                         {"kind": "random", "seed": rng.randrange(1 << 30), "penv": rng.choice([0.5, 0.8, 0.95])},
                                         name="%s#o%d" % (p["name"], n), faults={rng.choice(jobs): "errors"},
                                         restart=True, orphans=True))
    res = psrun.run_specs(specs, nproc=16)
    recs = []
    for sp, r in zip(specs, res):
        recs += psprops.monitor_records(sp, sem[sp["name"].split("#")[0]], r)
    bad, tlc = psprops.run_monitor(recs)
    by = {sp["name"]: (sp, r) for sp, r in zip(specs, res)}
    viols = []
    for b in bad:
        if b["prop"] != pid:
            continue
        sp, r = by[b["run"]]
        viols.append({"prop": pid, "key": "%s:stale-attempt:%s:%s" % (pid, sp["name"].split("#")[0], b["what"].split(":")[0][:60]),
                      "what": "%s after a restart with surviving jobs of the previous mrp: [%s] %s (program %s, fault %s)" % (
                          pid, b["job"], b["what"], sp["name"], json.dumps(sp["faults"])),
                      "replay": {"spec.json": json.dumps(dict(sp, sched={"kind": "script", "script": r["script"]})),
                                 "trace.ndjson": "\n".join(json.dumps(e) for e in r["trace"]) + "\n"}})
    norph = sum(1 for r in res for e in r["trace"] if e["ev"] == "JournalWrite" and "#orphan" in e.get("job", ""))
    return viols, {"restart_runs_with_surviving_jobs": len(specs), "stale_notifications_written": norph}


def run_rt(pid, tier, replay, emphasis, assumptions, progs=None, extra_cov=None, mc=(), extra=None):
    t0 = time.time()
    if replay:
        bad, r = psprops.replay_spec(replay)
        mine = [b for b in bad if b["prop"] == pid]
        for b in mine:
            print("VIOLATION property=%s replay=%s" % (pid, replay))
            print("  [%s] %s" % (b["job"], b["what"]))
        return 1 if mine else 0
    mstates, mtrans, mruns = model_check(mc)
    progs = progs or corpus(tier)
    viols, stats, _ = psprops.run_programs(progs, tier, emphasis=emphasis)
    mine = [v for v in viols if v["prop"] == pid]
    others = sorted({v["prop"] for v in viols if v["prop"] != pid})
    if others:
        print("NOTE the same runs also violate %s (reported by those checks)" % ",".join(others))
    more_cov = {}
    if extra:
        ev, more_cov = extra(tier, pid)
        mine += ev
    rc, nunk, hit = vlib.conclude(pid, mine)
    cov = {
        "states": max(1, mstates + stats["tlc_states"]),
        "transitions": max(1, mtrans + stats["tlc_generated"] + stats["simulation_states"]),
        "exhaustive_model_runs": mruns,
        "trace_monitor_states": stats["tlc_states"],
        "traces_validated_against_impl": stats["runs"],
        "samples": [stats["sample"]],
        "exhaustive": False,
        "programs": stats["programs"],
        "program_names": [p["name"] for p in progs],
        "real_jobs_executed": stats["jobs_executed"],
        "distinct_schedules": stats["distinct_scripts"],
        "trace_events": stats["events"],
        "monitor_records": stats["monitor_records"],
        "model_behaviours_replayed": stats["model_behaviours_replayed"],
        "model_drift": stats["model_drift"],
        "known_findings_hit": hit,
    }
    cov.update(extra_cov or {})
    cov.update(more_cov)
    vlib.write_evidence(pid, tier, "model_checking", cov, assumptions, time.time() - t0, violations=nunk)
    return rc


def corpus(tier):
    """catalogue + generated programs.  The generated corpus is fixed (seeds
    0..N-1) so that known findings stay identifiable; VERIF_SEED varies the
    schedules, and in the thorough tier adds further programs."""
    import gen
    n = {"quick": 40, "thorough": 400}[tier]
    progs = shapes.catalogue() + [gen.gen_program(s) for s in range(n)]
    if tier == "thorough":
        base = 1000 + 1000 * (vlib.seed() % 1000)
        progs += [gen.gen_program(s) for s in range(base, base + 200)]
    return progs


COMMON_ASSUMPTIONS = [
    "expected jobs, arguments, outputs and dependencies are computed by TLC from spec/MroSem.tla for every program; the renderer lib/mro.py (abstract program -> .mro text) is trusted",
    "jobs are executed by the verif-tagged callback job manager (no process spawn); their table-driven stage code writes the same files and journal entries as a stage process (_log, _outs/_stage_defs, _complete)",
    "in every second run split jobs publish _stage_defs and its journal entry one schedule step before they finish (as the Go adapter does); model behaviours with the JobDefs action are replayed that way",
    "the driver owns the run loop (RefreshState, GetState, CheckHeartbeats, StepNodes as in cmd/mrp/runloop.go) and interleaves job begin/end between and inside loop iterations according to the schedule",
    "verdicts come from spec/PsTrace.tla monitors evaluated by TLC on StageBegin/StageEnd events emitted by the stage code itself and on the final state",
]

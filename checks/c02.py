"""C02 - jobs start only after everything they depend on has finished."""
from checks.rt_common import run_rt, orphan_runs, COMMON_ASSUMPTIONS


def run(tier, replay=None):
    return run_rt("C02", tier, replay, "deps", COMMON_ASSUMPTIONS + [
        "Deps is the per-instance provenance relation of MroSem (argument data, disabling condition, map source, enclosing preflights); intra-fork order split < chunks < join",
        "adversarial schedules: every producer instance in turn is held back until nothing else can move, plus seeded random interleavings",
        "restart runs with surviving jobs: a job fails, mrp exits, the jobs that were running finish later under their old attempt; the restarted mrp must not take their notifications for the new attempts (split < chunks < join and dependencies are judged on the new attempts)",
    ], mc=("Sched", "Dyn", "Dis"), extra=orphan_runs)

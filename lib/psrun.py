"""Orchestration of real pipestance runs: semantics table from TLC (MroSem),
rendering, sharded execution through `vh ps-run`."""
import json
import os
import subprocess
from concurrent.futures import ThreadPoolExecutor

import mro
import vlib


def semantics(progs):
    """Evaluate MroSem on the programs with TLC. Returns {name: {inv, outs}}"""
    wd = vlib.scratch("sem")
    with open(os.path.join(wd, "progs.ndjson"), "w") as f:
        for p in progs:
            f.write(json.dumps(p) + "\n")
    r = vlib.run_tlc("SemGen", "SemGen.cfg", workdir=wd, workers=1, timeout=900)
    out = {}
    for l in open(os.path.join(wd, "sem_out.ndjson")):
        o = json.loads(l)
        out[o["name"]] = o
    return out, r


def make_spec(prog, sem, sched, name=None, **kw):
    s = {"name": name or prog["name"], "mro": mro.render(prog), "invs": sem["inv"],
         "outs": sem["outs"], "sched": sched, "weak": bool(sem.get("weak"))}
    s.update(kw)
    return s


def run_specs(specs, nproc=8, timeout=1800):
    """Run specs through `vh ps-run`, sharded over nproc processes.
    Returns the results in spec order."""
    if not specs:
        return []
    wd = vlib.scratch("psrun")
    nproc = max(1, min(nproc, len(specs)))
    shards = [[] for _ in range(nproc)]
    for i, s in enumerate(specs):
        shards[i % nproc].append((i, s))
    binp = os.path.join(vlib.BUILD, "bin", "vh")

    def one(k):
        inp = os.path.join(wd, "in%d.ndjson" % k)
        outp = os.path.join(wd, "out%d.ndjson" % k)
        work = os.path.join(wd, "w%d" % k)
        os.makedirs(work, exist_ok=True)
        with open(inp, "w") as f:
            for _, s in shards[k]:
                f.write(json.dumps(s) + "\n")
        try:
            p = subprocess.run([binp, "ps-run", inp, outp, work], stdout=subprocess.PIPE,
                               stderr=subprocess.PIPE, text=True, timeout=timeout, env=vlib.GOENV)
        except subprocess.TimeoutExpired:
            raise vlib.Infra("ps-run shard timeout")
        res = [json.loads(l) for l in open(outp)] if os.path.exists(outp) else []
        if p.returncode != 0 or len(res) != len(shards[k]):
            raise vlib.Infra("ps-run failed rc=%d (%d/%d results): %s" % (
                p.returncode, len(res), len(shards[k]), p.stderr[-2000:]))
        return res

    with ThreadPoolExecutor(nproc) as ex:
        parts = list(ex.map(one, range(nproc)))
    out = [None] * len(specs)
    for k, part in enumerate(parts):
        for (i, _), r in zip(shards[k], part):
            out[i] = r
    return out

"""Program shapes that pass files between stages (C04, C13, C14): directly,
inside structs / arrays / typed maps, as strings holding paths, through
sub-pipeline boundaries, to several consumers, across mapped calls, with
volatile / strict / retain annotations."""
from mro import (arrx, call, collect, const, echo, length, lit, objx, pipeline, program, ref, self_, split,
                 stage, struct, INST, CI, FILE, FILES, FMAP, FSTR, FSTRUCT, FDIR, FMSTRUCT, FASTRUCT, FILEODD, FSTRS, FDLINK, FDLINK2, FMSTRUCTK)


def P_files(name, vol=None, retain=None, outs="file f, txt g, int n", rules=None):
    return stage(name, "int x", outs, rules or {"f": FILE, "g": FILE, "n": const(1)}, volatile=vol, retain=retain)


def C_file(name, t="file", out="string r"):
    return stage(name, "%s f" % t, out, {out.split()[-1]: INST})


def SLOW(name):
    return stage(name, "int x", "int y", {"y": echo("x")})


def catalogue():
    P = []
    ft = ("txt",)
    # 1. volatile producer, two consumers of different files, none top-level
    P.append(program("vf_basic", [], [P_files("P"), C_file("C1"), C_file("C2", "txt")],
                     [pipeline("TOP", "int x", "string a, string b",
                               [call("P", binds={"x": self_("x")}, vol=True),
                                call("C1", binds={"f": ref("P", "f")}),
                                call("C2", binds={"f": ref("P", "g")})],
                               {"a": ref("C1", "r"), "b": ref("C2", "r")})], "TOP", {"x": 1}, filetypes=ft))
    # 2. a top-level output names one file of a volatile producer; the other is unreferenced
    P.append(program("vf_top", [], [P_files("P"), C_file("C1")],
                     [pipeline("TOP", "int x", "string a, txt g",
                               [call("P", binds={"x": self_("x")}, vol=True),
                                call("C1", binds={"f": ref("P", "f")})],
                               {"a": ref("C1", "r"), "g": ref("P", "g")})], "TOP", {"x": 1}, filetypes=ft))
    # 3. retain declarations: stage-level (g) and pipeline-level (Q.f)
    P.append(program("vf_retain", [], [P_files("P", retain=["g"]), P_files("Q"), C_file("C1"), C_file("C2")],
                     [pipeline("TOP", "int x", "string a, string b",
                               [call("P", binds={"x": self_("x")}, vol=True),
                                call("Q", binds={"x": self_("x")}, vol=True),
                                call("C1", binds={"f": ref("P", "f")}),
                                call("C2", binds={"f": ref("Q", "f")})],
                               {"a": ref("C1", "r"), "b": ref("C2", "r")},
                               retain=[ref("Q", "f")])], "TOP", {"x": 1}, filetypes=ft))
    # 4. files inside a struct, an array and a typed map; consumers bound to projections
    P.append(program("vf_nested", [struct("FS", "file f, int n")],
                     [stage("P", "int x", "FS s, file[] fs, map<file> fm",
                            {"s": FSTRUCT, "fs": FILES, "fm": FMAP}),
                      C_file("C1"), C_file("C2", "file[]"), C_file("C3", "map<file>"), C_file("C4", "FS")],
                     [pipeline("TOP", "int x", "string a, string b, string c, string d",
                               [call("P", binds={"x": self_("x")}, vol=True),
                                call("C1", binds={"f": ref("P", "s", "f")}),
                                call("C2", binds={"f": ref("P", "fs")}),
                                call("C3", binds={"f": ref("P", "fm")}),
                                call("C4", binds={"f": ref("P", "s")})],
                               {"a": ref("C1", "r"), "b": ref("C2", "r"), "c": ref("C3", "r"), "d": ref("C4", "r")})],
                     "TOP", {"x": 1}))
    # 5. through a sub-pipeline boundary, consumer in the parent starts long after
    P.append(program("vf_sub", [], [P_files("P"), C_file("C1"), SLOW("S1"), SLOW("S2"),
                                    stage("C2", "txt f, int w", "string r", {"r": INST})],
                     [pipeline("SUB", "int x", "file f, txt g",
                               [call("P", binds={"x": self_("x")}, vol=True)],
                               {"f": ref("P", "f"), "g": ref("P", "g")}),
                      pipeline("TOP", "int x", "string a, string b",
                               [call("SUB", binds={"x": self_("x")}),
                                call("S1", binds={"x": self_("x")}),
                                call("S2", binds={"x": ref("S1", "y")}),
                                call("C1", binds={"f": ref("SUB", "f")}),
                                call("C2", binds={"f": ref("SUB", "g"), "w": ref("S2", "y")})],
                               {"a": ref("C1", "r"), "b": ref("C2", "r")})], "TOP", {"x": 1}, filetypes=ft))
    # 6. mapped producer, consumer of the merged array of files; mapped consumer over an array of files
    P.append(program("vf_map", [],
                     [P_files("P"), C_file("CA", "file[]"), C_file("CE"),
                      stage("Q", "int x", "file[] fs", {"fs": FILES})],
                     [pipeline("TOP", "int[] xs", "string a, string[] e",
                               [call("P", binds={"x": split(self_("xs"))}, mode="array", vol=True),
                                call("CA", binds={"f": ref("P", "f")}),
                                call("Q", binds={"x": lit(1)}, vol=True),
                                call("CE", binds={"f": split(ref("Q", "fs"))}, mode="array")],
                               {"a": ref("CA", "r"), "e": ref("CE", "r")})], "TOP", {"xs": [1, 2]}, filetypes=ft))
    # 7. splitting producer: chunk-level files (seen by the join only) and a join-level file
    P.append(program("vf_split", [],
                     [stage("S", "int[] xs", "file f, int[] cs", {"f": FILE, "cs": collect("ci2")},
                            split=True, chunks={"k": "len", "src": "xs"},
                            couts="file part, int ci2", crules={"part": FILE, "ci2": CI}),
                      C_file("C1")],
                     [pipeline("TOP", "int[] xs", "string a, int[] cs",
                               [call("S", binds={"xs": self_("xs")}),
                                call("C1", binds={"f": ref("S", "f")})],
                               {"a": ref("C1", "r"), "cs": ref("S", "cs")})], "TOP", {"xs": [5, 6]}))
    # 7b. the same with exactly ten chunks (two-digit chunk directories) and a second consumer
    P.append(program("vf_split10", [],
                     [stage("S", "int[] xs", "file f, int[] cs", {"f": FILE, "cs": collect("ci2")},
                            split=True, chunks={"k": "len", "src": "xs"},
                            couts="file part, int ci2", crules={"part": FILE, "ci2": CI}),
                      C_file("C1"), C_file("C2")],
                     [pipeline("TOP", "int[] xs", "string a, string b, int[] cs",
                               [call("S", binds={"xs": self_("xs")}),
                                call("C1", binds={"f": ref("S", "f")}),
                                call("C2", binds={"f": ref("S", "f")})],
                               {"a": ref("C1", "r"), "b": ref("C2", "r"), "cs": ref("S", "cs")})], "TOP", {"xs": list(range(10))}))
    # 8. the same, the splitting producer volatile and its file a top-level output
    P.append(program("vf_split_vol", [],
                     [stage("S", "int[] xs", "file f, int[] cs", {"f": FILE, "cs": collect("ci2")},
                            split=True, chunks={"k": "len", "src": "xs"},
                            couts="file part, int ci2", crules={"part": FILE, "ci2": CI}),
                      C_file("C1")],
                     [pipeline("TOP", "int[] xs", "string a, file f",
                               [call("S", binds={"xs": self_("xs")}, vol=True),
                                call("C1", binds={"f": ref("S", "f")})],
                               {"a": ref("C1", "r"), "f": ref("S", "f")})], "TOP", {"xs": [5, 6, 7]}))
    # 9. a string output holding a path, and a consumer of it
    P.append(program("vf_fstr", [],
                     [stage("P", "int x", "string p, file f", {"p": FSTR, "f": FILE}),
                      C_file("C1", "string"), C_file("C2")],
                     [pipeline("TOP", "int x", "string a, string b",
                               [call("P", binds={"x": self_("x")}, vol=True),
                                call("C1", binds={"f": ref("P", "p")}),
                                call("C2", binds={"f": ref("P", "f")})],
                               {"a": ref("C1", "r"), "b": ref("C2", "r")})], "TOP", {"x": 1}))
    # 10. stage-level `volatile = strict`, in any mode
    P.append(program("vf_strictstage", [], [P_files("P", vol="strict"), C_file("C1"), C_file("C2", "txt"), SLOW("S1")],
                     [pipeline("TOP", "int x", "string a, string b",
                               [call("P", binds={"x": self_("x")}),
                                call("C1", binds={"f": ref("P", "f")}),
                                call("S1", binds={"x": self_("x")}),
                                call("C2", binds={"f": ref("P", "g")})],
                               {"a": ref("C1", "r"), "b": ref("C2", "r")})], "TOP", {"x": 1}, filetypes=ft))
    # 10b. a strictly volatile stage mapped over three elements; only the file of the odd elements is
    #      used (FILEODD: null otherwise), so some forks have nothing left to reclaim at the end and
    #      others do; and a strictly volatile stage without any output that writes files
    P.append(program("vf_strict_mapped", [],
                     [stage("P", "int x", "file f, txt g, int n", {"f": FILEODD("x"), "g": FILE, "n": const(1)}, volatile="strict"),
                      C_file("CA", "file[]"),
                      stage("NOOUT", "int x", "", {}, volatile="strict")],
                     [pipeline("TOP", "int[] xs, int x", "string a",
                               [call("P", binds={"x": split(self_("xs"))}, mode="array"),
                                call("NOOUT", binds={"x": self_("x")}),
                                call("CA", binds={"f": ref("P", "f")})],
                               {"a": ref("CA", "r")})], "TOP", {"xs": [2, 1, 4, 3], "x": 1}, filetypes=ft))
    # 10c. (run bare: stage code writes nothing but its outputs) the forks for even elements write
    #      no file at all, those for odd elements one that a consumer reads
    P.append(program("vf_strict_bare", [],
                     [stage("P", "int x", "file f, int n", {"f": FILEODD("x"), "n": const(1)}, volatile="strict"),
                      C_file("CA", "file[]")],
                     [pipeline("TOP", "int[] xs", "string a",
                               [call("P", binds={"x": split(self_("xs"))}, mode="array"),
                                call("CA", binds={"f": ref("P", "f")})],
                               {"a": ref("CA", "r")})], "TOP", {"xs": [2, 1, 4, 3]}, filetypes=ft))
    # 11. a disabled consumer and an enabled one; a consumer of the whole producer
    P.append(program("vf_dis", [], [P_files("P"), C_file("C1"), C_file("C2", "txt"),
                                    S_flag("G"), stage("CW", "int n, file f, txt g", "string r", {"r": INST})],
                     [pipeline("TOP", "int x", "string a, string b, string w",
                               [call("P", binds={"x": self_("x")}, vol=True),
                                call("G"),
                                call("C1", binds={"f": ref("P", "f")}, dis=ref("G", "t")),
                                call("C2", binds={"f": ref("P", "g")}, dis=ref("G", "f")),
                                call("CW", binds={"n": ref("P", "n"), "f": ref("P", "f"), "g": ref("P", "g")})],
                               {"a": ref("C1", "r"), "b": ref("C2", "r"), "w": ref("CW", "r")})],
                     "TOP", {"x": 1}, filetypes=ft))
    # 12. nothing volatile: only temporary directories and chunk files may go
    P.append(program("vf_plain", [], [P_files("P"), C_file("C1")],
                     [pipeline("TOP", "int x", "string a",
                               [call("P", binds={"x": self_("x")}),
                                call("C1", binds={"f": ref("P", "f")})],
                               {"a": ref("C1", "r")})], "TOP", {"x": 1}, filetypes=ft))
    # 13. a chain of volatile stages each consuming the previous one's file
    P.append(program("vf_chain", [],
                     [stage("A", "int x", "file f", {"f": FILE}),
                      stage("B", "file f", "file g", {"g": FILE}),
                      stage("C", "file f", "file h", {"h": FILE}),
                      C_file("D")],
                     [pipeline("TOP", "int x", "string a",
                               [call("A", binds={"x": self_("x")}, vol=True),
                                call("B", binds={"f": ref("A", "f")}, vol=True),
                                call("C", binds={"f": ref("B", "g")}, vol=True),
                                call("D", binds={"f": ref("C", "h")})],
                               {"a": ref("D", "r")})], "TOP", {"x": 1}))
    # 14. producer mapped over a run-time collection; its files are named only by the
    #     top-level outputs and a retain declaration
    P.append(program("vf_map_top", [],
                     [stage("GEN", "int x", "int[] xs", {"xs": const([1, 2, 3])}),
                      P_files("P", retain=["g"])],
                     [pipeline("TOP", "int x", "file[] fs",
                               [call("GEN", binds={"x": self_("x")}),
                                call("P", binds={"x": split(ref("GEN", "xs"))}, mode="array", vol=True)],
                               {"fs": ref("P", "f")})], "TOP", {"x": 1}, filetypes=ft))
    # 14b. a mapped volatile producer of which some forks return null for the file a consumer
    #      binds (over a run-time array, and over an array given in the invocation)
    P.append(program("vf_map_null", [],
                     [stage("GEN", "int x", "int[] xs", {"xs": const([1, 2, 3])}),
                      P_files("P", rules={"f": FILEODD("x"), "g": FILE, "n": const(1)}), C_file("CA", "file[]")],
                     [pipeline("TOP", "int x", "string a",
                               [call("GEN", binds={"x": self_("x")}),
                                call("P", binds={"x": split(ref("GEN", "xs"))}, mode="array", vol=True),
                                call("CA", binds={"f": ref("P", "f")})],
                               {"a": ref("CA", "r")})], "TOP", {"x": 1}, filetypes=ft))
    P.append(program("vf_map_null_static", [],
                     [P_files("P", rules={"f": FILEODD("x"), "g": FILE, "n": const(1)}), C_file("CA", "file[]")],
                     [pipeline("TOP", "int[] xs", "string a",
                               [call("P", binds={"x": split(self_("xs"))}, mode="array", vol=True),
                                call("CA", binds={"f": ref("P", "f")})],
                               {"a": ref("CA", "r")})], "TOP", {"xs": [2, 1, 3]}, filetypes=ft))
    # 14c. paths handed on inside an array of strings whose first elements are not paths
    P.append(program("vf_strarr", [],
                     [stage("P", "int x", "string[] names, int n", {"names": FSTRS, "n": const(1)}),
                      stage("CS", "string[] names", "string r", {"r": INST}), SLOW("S1")],
                     [pipeline("TOP", "int x", "string a, string[] kept",
                               [call("P", binds={"x": self_("x")}, vol=True),
                                call("S1", binds={"x": self_("x")}),
                                call("CS", binds={"names": ref("P", "names")})],
                               {"a": ref("CS", "r"), "kept": ref("P", "names")})], "TOP", {"x": 1}, filetypes=ft))
    # 15. a directory output and a file output released at different times (strict-volatile producer)
    P.append(program("vf_dir", [],
                     [stage("P", "int x", "path d, file f", {"d": FDIR, "f": FILE}, volatile="strict"),
                      C_file("C1", "path"), SLOW("S1"), SLOW("S2"),
                      stage("C2", "file f, int w", "string r", {"r": INST})],
                     [pipeline("TOP", "int x", "string a, string b",
                               [call("P", binds={"x": self_("x")}),
                                call("C1", binds={"f": ref("P", "d")}),
                                call("S1", binds={"x": self_("x")}),
                                call("S2", binds={"x": ref("S1", "y")}),
                                call("C2", binds={"f": ref("P", "f"), "w": ref("S2", "y")})],
                               {"a": ref("C1", "r"), "b": ref("C2", "r")})], "TOP", {"x": 1}))
    # 16. map keys in fork names, files in a mapped sub-pipeline
    P.append(program("vf_map_sub", [],
                     [stage("GEN", "int x", "map<int> m", {"m": const({"a": 1, "b c": 2})}),
                      P_files("P"), C_file("C1")],
                     [pipeline("SUB", "int x", "file f, string r",
                               [call("P", binds={"x": self_("x")}, vol=True),
                                call("C1", binds={"f": ref("P", "f")})],
                               {"f": ref("P", "f"), "r": ref("C1", "r")}),
                      pipeline("TOP", "int x", "map<file> fs, map<string> rs",
                               [call("GEN", binds={"x": self_("x")}),
                                call("SUB", binds={"x": split(ref("GEN", "m"))}, mode="map")],
                               {"fs": ref("SUB", "f"), "rs": ref("SUB", "r")})], "TOP", {"x": 1}, filetypes=ft))
    # 17. projections of a file member through an array and through a typed map of structs
    P.append(program("vf_proj_arr", [struct("FS", "file f, int n")],
                     [stage("P", "int x", "FS[] ss", {"ss": FASTRUCT}), C_file("C1", "file[]")],
                     [pipeline("TOP", "int x", "string a",
                               [call("P", binds={"x": self_("x")}, vol=True),
                                call("C1", binds={"f": ref("P", "ss", "f")})],
                               {"a": ref("C1", "r")})], "TOP", {"x": 1}))
    P.append(program("vf_proj_map", [struct("FS", "file f, int n")],
                     [stage("P", "int x", "map<FS> ms", {"ms": FMSTRUCT}), C_file("C1", "map<file>")],
                     [pipeline("TOP", "int x", "string a",
                               [call("P", binds={"x": self_("x")}, vol=True),
                                call("C1", binds={"f": ref("P", "ms", "f")})],
                               {"a": ref("C1", "r")})], "TOP", {"x": 1}))
    # 17b. ... with a key of the map spelled like the projected member, and like the other one
    P.append(program("vf_proj_map_keyfield", [struct("FS", "file f, int n")],
                     [stage("P", "int x", "map<FS> ms", {"ms": FMSTRUCTK("f", "n", "k")}),
                      stage("C1", "map<file> f, int w", "string r", {"r": INST}), SLOW("S1"), SLOW("S2")],
                     [pipeline("TOP", "int x", "string a, map<file> fs",
                               [call("P", binds={"x": self_("x")}, vol=True),
                                call("S1", binds={"x": self_("x")}),
                                call("S2", binds={"x": ref("S1", "y")}),
                                call("C1", binds={"f": ref("P", "ms", "f"), "w": ref("S2", "y")})],
                               {"a": ref("C1", "r"), "fs": ref("P", "ms", "f")})], "TOP", {"x": 1}))
    # 17c. a top-level output written as a typed-map literal of files, after another file output;
    #      a consumer handed a struct literal with a file member followed by such a map
    FM = struct("FM", "file f, map<file> m")
    P.append(program("vf_map_literal", [FM],
                     [P_files("P"), P_files("Q"), SLOW("S1"), SLOW("S2"),
                      stage("C1", "FM f, int w", "string r", {"r": INST})],
                     [pipeline("TOP", "int x", "file a, map<file> m, string r",
                               [call("P", binds={"x": self_("x")}, vol=True),
                                call("Q", binds={"x": self_("x")}, vol=True),
                                call("S1", binds={"x": self_("x")}),
                                call("S2", binds={"x": ref("S1", "y")}),
                                call("C1", binds={"f": objx(f=ref("P", "f"), m=objx(x=ref("P", "g"), y=ref("Q", "f"))),
                                                  "w": ref("S2", "y")})],
                               {"a": ref("Q", "g"), "m": objx(x=ref("P", "g"), y=ref("Q", "f")), "r": ref("C1", "r")})],
                     "TOP", {"x": 1}, filetypes=ft))
    # 18. the whole result of a stage (a struct of its outputs, files among them) bound to a
    #     consumer's struct parameter, to a top-level output and to a pipeline retain
    OUTS = struct("OUTS", "file f, txt g, int n")
    P.append(program("vf_whole", [OUTS],
                     [P_files("P"), P_files("Q"), C_file("C1", "OUTS"), SLOW("S1"), SLOW("S2"),
                      stage("C2", "OUTS f, int w", "string r", {"r": INST})],
                     [pipeline("TOP", "int x", "string a, string b",
                               [call("P", binds={"x": self_("x")}, vol=True),
                                call("Q", binds={"x": self_("x")}, vol=True),
                                call("S1", binds={"x": self_("x")}),
                                call("S2", binds={"x": ref("S1", "y")}),
                                call("C1", binds={"f": ref("P")}),
                                call("C2", binds={"f": ref("Q"), "w": ref("S2", "y")})],
                               {"a": ref("C1", "r"), "b": ref("C2", "r")})], "TOP", {"x": 1}, filetypes=ft))
    P.append(program("vf_whole_top", [OUTS],
                     [P_files("P"), C_file("C1")],
                     [pipeline("TOP", "int x", "string a, OUTS all",
                               [call("P", binds={"x": self_("x")}, vol=True),
                                call("C1", binds={"f": ref("P", "f")})],
                               {"a": ref("C1", "r"), "all": ref("P")})], "TOP", {"x": 1}, filetypes=ft))
    # 19. a stage links a directory of reference data into its files directory and returns
    #     (retained) one file below the link; the rest of that directory is not the pipestance's
    P.append(program("vf_refdata", [],
                     [P_files("P", outs="file f, file r, file r2", rules={"f": FILE, "r": FDLINK, "r2": FDLINK2}, retain=["r", "r2"]), C_file("C1")],
                     [pipeline("TOP", "int x", "string a",
                               [call("P", binds={"x": self_("x")}, vol=True),
                                call("C1", binds={"f": ref("P", "f")})],
                               {"a": ref("C1", "r")})], "TOP", {"x": 1}, filetypes=ft))
    return P


def S_flag(name):
    return stage(name, "", "bool t, bool f", {"t": const(True), "f": const(False)})

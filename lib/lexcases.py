"""Concrete boundary inputs for the parser/compiler totality check (C08):
numerals at and beyond the 64-bit range, every escape form, empty strings in
every string position, deep nesting, long inputs."""
import base64
import json

NUMERALS = ["0", "-0", "007", "00", "9223372036854775807", "9223372036854775808", "-9223372036854775808",
            "-9223372036854775809", "9999999999999999999", "12345678901234567890", "0000000000000000000000001",
            "00000000000000000009223372036854775808", "1e308", "1e309", "-1e309", "1e-400", "1e39", "3.5e38", "-3.5e38",
            "1e999", "1.5", "-1.5e-3", "1E5", "1e+5", "1.", "1.e5", ".5", "1e", "1e+", "0x10", "1_000", "1:e5", "1.5:e3",
            "1e5.5", "--1", "-", "1-1", "1e5e5", "0.00000000000000000000000000000000000000000000001",
            "179769313486231570000000000000000000000000000000000000000000000000000000000000000000000000000000000000000000000000000000000000000000000000000000000000000000000000000000000000000000000000000000000000000000000000000000000000000000000000000000000000000000000000000000000000000000000000000000000000000000000000000.0"]



def _sweeps():
    """numerals by length: every count of decimal places / integer digits / exponent digits
    around the sizes number parsers treat specially (tables of exact powers of ten, 53-bit
    mantissas, 19-digit integers, exponent range)"""
    out = []
    for d in range(1, 46):
        for mant in ("1", "9", "1234567", "9007199254740991", "9007199254740993"):
            if len(mant) <= d:
                out.append("0." + "0" * (d - len(mant)) + mant)
        out.append("-0." + "0" * (d - 1) + "1")
        out.append("1." + "0" * d)
        out.append("1" + "0" * d + ".5")
    for d in range(1, 26):
        out.append("9" * d)
        out.append("-" + "1" + "0" * (d - 1))
    for e in list(range(300, 312)) + list(range(318, 330)) + [22, 23, 37, 38, 39, 44, 45, 46]:
        out += ["1e%d" % e, "1e-%d" % e, "9.9e%d" % e, "-2.5e-%d" % e]
    return out


NUMERALS += _sweeps()

STRINGS = [b'""', b'"\\a"', b'"\\b"', b'"\\f"', b'"\\n"', b'"\\r"', b'"\\t"', b'"\\v"', b'"\\\\"', b'"\\""',
           b'"\\101"', b'"\\x41"', b'"\\u00e9"', b'"\\U0001F600"', b'"\\1"', b'"\\12"', b'"\\x4"', b'"\\u00"',
           b'"\\U0001"', b'"\\q"', b'"\\"', b'"\xff"', b'"\\ud800"', b'"\\udc00\\ud800"', b'"\\U00110000"',
           b'"\\UFFFFFFFF"', b'"\\xff"', b'"\\777"', b'"\\400"', b'"\\000"', b'"a\\000b"', b'"\\0"', b'"\\08"',
           b'"\xc3"', b'"\xe2\x82"', b'"\n"', b'"a', b'"', b'"\\', b'"\\u"', b'"\xef\xbb\xbf"', b"'a'", b'"a" "b"',
           b'"%s"', b'"$(x)"', b'"/"', b'"."', b'".."', b'"a/b"', b'" "', b'"\\x00"']

# long literals (error messages abbreviate them): ASCII, well-formed UTF-8, and runs of
# continuation bytes at either end, raw and as escapes
STRINGS += [b'"' + b"a" * 40 + b'"', b'"' + "é".encode() * 20 + b'"', b'"' + b"a" * 16 + b"\x80" * 9 + b'"',
            b'"' + b"\x80" * 9 + b"a" * 20 + b'"', b'"' + b"a" * 16 + b"\\x80" * 9 + b'"',
            b'"' + b"\\x80" * 9 + b"a" * 20 + b'"', b'"' + b"\xbf" * 30 + b'"', b'"' + b"a" * 23 + b"\xc3" + b'"',
            b'"' + b"a" * 7 + b"\xe2\x82" + b"b" * 20 + b'"']

STRING_POSITIONS = [
    ("bindint", "compile", b"stage S(\n    in  int x,\n    src py \"s\",\n)\n\ncall S(\n    x = %s,\n)\n"),
    ("bindintarr", "compile", b"stage S(\n    in  int[] x,\n    src py \"s\",\n)\n\ncall S(\n    x = [%s, 1, %s],\n)\n"),
    ("bindintmap", "compile", b"stage S(\n    in  map<int> x,\n    src py \"s\",\n)\n\ncall S(\n    x = {\"k\": %s},\n)\n"),
    ("bindstructfield", "compile", b"struct T(\n    int a,\n)\n\nstage S(\n    in  T x,\n    src py \"s\",\n)\n\ncall S(\n    x = {a: %s},\n)\n"),
    ("binddisabled", "compile", b"stage S(\n    in  int x,\n    src py \"s\",\n)\n\npipeline P(\n)\n{\n    call S(\n        x = 1,\n    ) using (\n        disabled = %s,\n    )\n\n    return ()\n}\n"),
    ("value", "valexp", b"%s"),
    ("mapkey", "valexp", b"{%s: 1}"),
    ("include", "unchecked", b"@include %s\n"),
    ("include_c", "compile", b"@include %s\n"),
    ("srcpy", "compile", b"stage S(\n    in  int x,\n    src py %s,\n)\n"),
    ("srccomp", "compile", b"stage S(\n    in  int x,\n    src comp %s,\n)\n"),
    ("srcexec", "compile", b"stage S(\n    in  int x,\n    src exec %s,\n)\n"),
    ("help", "compile", b"stage S(\n    in  int x %s,\n    src py \"s\",\n)\n"),
    ("outname", "compile", b"stage S(\n    in  int x,\n    out file f \"help\" %s,\n    src py \"s\",\n)\n"),
    ("special", "compile", b"stage S(\n    in  int x,\n    src py \"s\",\n) using (\n    special = %s,\n)\n"),
    ("bind", "compile", b"stage S(\n    in  string x,\n    src py \"s\",\n)\n\ncall S(\n    x = %s,\n)\n"),
    ("bindfile", "compile", b"stage S(\n    in  file x,\n    src py \"s\",\n)\n\ncall S(\n    x = %s,\n)\n"),
    ("structhelp", "compile", b"struct T(\n    int a %s,\n)\n"),
    ("format", "format", b"stage S(\n    in  string x %s,\n    src py %s,\n)\n\ncall S(\n    x = %s,\n)\n"),
]

NUM_POSITIONS = [
    ("value", "valexp", b"%s"),
    ("arr", "valexp", b"[%s, %s]"),
    ("mapval", "valexp", b"{\"k\": %s}"),
    ("bindint", "compile", b"stage S(\n    in  int x,\n    src py \"s\",\n)\n\ncall S(\n    x = %s,\n)\n"),
    ("bindfloat", "compile", b"stage S(\n    in  float x,\n    src py \"s\",\n)\n\ncall S(\n    x = %s,\n)\n"),
    ("threads", "compile", b"stage S(\n    in  int x,\n    src py \"s\",\n) using (\n    threads = %s,\n)\n"),
    ("memgb", "compile", b"stage S(\n    in  int x,\n    src py \"s\",\n) using (\n    mem_gb = %s,\n    vmem_gb = %s,\n)\n"),
    ("format", "format", b"stage S(\n    in  float x,\n    src py \"s\",\n) using (\n    mem_gb = %s,\n)\n\ncall S(\n    x = %s,\n)\n"),
    ("disabled", "unchecked", b"pipeline P(\n)\n{\n    call S(\n        x = 1,\n    ) using (\n        disabled = %s,\n    )\n    return ()\n}\n"),
]


STAGE = b"stage S(\n    in  int x,\n    out int y,\n    src py \"s\",\n)\n\n"
ODD_PROGRAMS = [
    STAGE + b"call S(\n    * = self,\n)\n",
    STAGE + b"call S(\n    x = self.x,\n)\n",
    STAGE + b"call S(\n    x = S.y,\n)\n",
    STAGE + b"call S(\n    x = split [1],\n)\n",
    STAGE + b"map call S(\n    x = split [1],\n)\n",
    STAGE + b"map call S(\n    x = 1,\n)\n",
    STAGE + b"call S(\n    x = 1,\n) using (\n    disabled = true,\n)\n",
    STAGE + b"call S(\n    x = 1,\n) using (\n    disabled = self.d,\n    local = true,\n    preflight = true,\n    volatile = true,\n)\n",
    STAGE + b"call S as T(\n    x = 1,\n)\n",
    STAGE + b"call local preflight volatile S(\n    x = 1,\n)\n",
    STAGE + b"pipeline P(\n    in int x,\n    out int y,\n)\n{\n    call S(\n        * = self,\n    )\n    return (\n        * = S,\n    )\n}\n\ncall P(\n    x = 1,\n)\n",
    STAGE + b"pipeline P(\n    in int x,\n    out int y,\n)\n{\n    call S(\n        * = T,\n    )\n    return (\n        * = self,\n    )\n}\n",
    STAGE + b"pipeline P(\n    out int y,\n)\n{\n    return (\n        y = P.y,\n    )\n}\n",
    STAGE + b"pipeline P(\n    out int y,\n)\n{\n    call P(\n    )\n    return (\n        y = P.y,\n    )\n}\n",
    STAGE + b"pipeline P(\n    in int[] xs,\n    out int[] y,\n)\n{\n    map call S(\n        x = split self.xs,\n    )\n    return (\n        y = S.y,\n    )\n    retain (\n        S.y,\n    )\n}\n",
    # calls written against their dependencies, chained through split arguments; cycles through them
    b"stage G(\n    out int[] xs,\n    src py \"g\",\n)\n\nstage M(\n    in  int x,\n    out int[] ys,\n    src py \"m\",\n)\n\npipeline P(\n    out int[][] o,\n)\n{\n"
    b"    map call M as M2(\n        x = split M1.ys,\n    )\n\n    map call M as M1(\n        x = split G.xs,\n    )\n\n    call G(\n    )\n\n    return (\n        o = M2.ys,\n    )\n}\n\ncall P(\n)\n",
    b"stage M(\n    in  int x,\n    out int[] ys,\n    src py \"m\",\n)\n\npipeline P(\n    out int[][] o,\n)\n{\n"
    b"    map call M as M2(\n        x = split M1.ys,\n    )\n\n    map call M as M1(\n        x = split M2.ys,\n    )\n\n    return (\n        o = M2.ys,\n    )\n}\n",
    STAGE + b"pipeline P(\n    out int y,\n)\n{\n    call S as C(\n        x = B.y,\n    )\n\n    call S as B(\n        x = A.y,\n    )\n\n    call S as A(\n        x = C.y,\n    )\n\n    return (\n        y = C.y,\n    )\n}\n",
    STAGE + b"pipeline P(\n    in  int[] xs,\n    out int[] y,\n)\n{\n    map call S as B(\n        x = split A.y,\n    )\n\n    map call S as A(\n        x = split self.xs,\n    )\n\n    return (\n        y = B.y,\n    )\n}\n\ncall P(\n    xs = [1, 2],\n)\n",
    # a call mapped over an output of a call that does not exist (also in its disabling condition,
    # also next to a split that is valid), over a parameter that does not exist
    STAGE + b"pipeline P(\n    out int[] y,\n)\n{\n    map call S(\n        x = split NOPE.ys,\n    )\n\n    return (\n        y = S.y,\n    )\n}\n",
    STAGE + b"pipeline P(\n    in  int[] xs,\n    out int[] y,\n)\n{\n    map call S(\n        x = split self.xs,\n    ) using (\n        disabled = split NOPE.flags,\n    )\n\n    return (\n        y = S.y,\n    )\n}\n",
    STAGE + b"pipeline P(\n    out int[] y,\n)\n{\n    map call S(\n        x = split self.nope,\n    )\n\n    return (\n        y = S.y,\n    )\n}\n",
    STAGE + b"pipeline P(\n    in  int[] xs,\n    out int[] y,\n)\n{\n    map call S(\n        x = split self.xs,\n        z = split NOPE.ys,\n    )\n\n    return (\n        y = S.y,\n    )\n}\n",
    STAGE + b"pipeline P(\n    out int[] y,\n)\n{\n    map call S as A(\n        x = split NOPE.ys,\n    )\n\n    map call S as B(\n        x = split A.y,\n    )\n\n    return (\n        y = B.y,\n    )\n}\n",
    STAGE + b"pipeline P(\n    in  int[] xs,\n    out int[] y,\n)\n{\n    map call S as A(\n        x = split self.xs,\n    ) using (\n        disabled = split NOPE.fs,\n    )\n\n    map call S as B(\n        x = split A.y,\n    )\n\n    return (\n        y = B.y,\n    )\n}\n",
    b"struct T(\n    T a,\n)\n",
    b"struct T(\n    U a,\n)\n\nstruct U(\n    T b,\n)\n",
    b"struct T(\n    int a,\n    int a,\n)\n",
    b"filetype int;\n",
    b"filetype a.b.c;\n",
    b"stage S(\n    in  map<map<int>> x,\n    src py \"s\",\n)\n",
    b"stage S(\n    in  map<int[]>[] x,\n    out map<> y,\n    src py \"s\",\n)\n",
    b"stage S(\n    in  int x,\n    in  int x,\n    src py \"s\",\n)\n",
    b"stage S(\n    src py \"s\",\n) split (\n) using (\n) retain (\n)\n",
    b"stage S(\n    in int x,\n    src py \"s\",\n) split using (\n    in int y,\n)\n",
    b"stage S(\n    out file f,\n    src py \"s\",\n) retain (\n    g,\n    f,\n    f,\n)\n",
    b"stage S(\n    src py \"s\",\n) using (\n    volatile = strict,\n    volatile = false,\n    threads = -1,\n    mem_gb = -3,\n    special = \"\",\n)\n",
    b"call S(\n)\n\ncall T(\n)\n",
    b"@include \"in.mro\"\n",
    b"@include \"/\"\n",
    b"@include \"../../../../etc/passwd\"\n",
    STAGE + b"call S(\n    x = {a: 1, a: 2},\n)\n",
    STAGE + b"call S(\n    x = {\"a\": 1, \"a\": 2},\n)\n",
    STAGE + b"call S(\n    x = [1, \"a\", null, [], {}],\n)\n",
    STAGE + b"call S(\n    y = 1,\n)\n",
    STAGE + b"call S(\n    x = 1,\n    x = 2,\n)\n",
]


def odd_cases():
    out = []
    for i, src in enumerate(ODD_PROGRAMS):
        for entry in ("unchecked", "compile", "format"):
            out.append(case("odd:%d" % i, entry, src))
    return out


def fill(t, v):
    return t.replace(b"%s", v)


def case(cid, entry, src):
    return {"id": cid, "entry": entry, "b64": base64.b64encode(src).decode()}


def boundary_cases():
    out = []
    for n in NUMERALS:
        for pn, entry, t in NUM_POSITIONS:
            out.append(case("num:%s:%s" % (pn, n[:24]), entry, fill(t, n.encode())))
    for i, s in enumerate(STRINGS):
        for pn, entry, t in STRING_POSITIONS:
            out.append(case("str:%s:%d:%s" % (pn, i, s.decode("latin-1")[:20]), entry, fill(t, s)))
    # the whole 0..255 byte range, alone and inside a string, an identifier, a comment
    for b in range(256):
        c = bytes([b])
        for pn, entry, t in (("raw", "unchecked", b"%s"), ("rawv", "valexp", b"%s"), ("instr", "valexp", b'"a%sb"'),
                             ("inid", "unchecked", b"call S%sT(\n)\n"), ("incomment", "unchecked", b"# c%s\ncall S(\n)\n"),
                             ("afterkw", "unchecked", b"call%s S(\n)\n")):
            out.append(case("byte:%s:%02x" % (pn, b), entry, fill(t, c)))
    return out + odd_cases()


def nesting_cases(depths):
    out = []
    for n in depths:
        out.append(case("nest:arr:%d" % n, "valexp", b"[" * n + b"]" * n))
        out.append(case("nest:map:%d" % n, "valexp", b'{"a":' * n + b"1" + b"}" * n))
        out.append(case("nest:open:%d" % n, "valexp", b"[" * n))
        out.append(case("nest:bind:%d" % n, "unchecked", b"call S(\n    x = " + b"[" * n + b"]" * n + b",\n)\n"))
        out.append(case("nest:fmt:%d" % n, "format", b"call S(\n    x = " + b"[" * n + b"1" + b"]" * n + b",\n)\n"))
        out.append(case("nest:compile:%d" % n, "compile",
                        b"stage S(\n    in  map x,\n    src py \"s\",\n)\n\ncall S(\n    x = " + b'{"a":' * n + b"1" + b"}" * n + b",\n)\n"))
        out.append(case("long:arr:%d" % n, "valexp", b"[" + b"1," * n + b"1]"))
        out.append(case("long:str:%d" % n, "valexp", b'"' + b"a" * n + b'"'))
        out.append(case("long:ident:%d" % n, "unchecked", b"call " + b"A" * n + b"(\n)\n"))
        out.append(case("long:comment:%d" % n, "unchecked", b"#" + b"c" * n + b"\ncall S(\n)\n"))
        out.append(case("long:calls:%d" % n, "unchecked", b"pipeline P(\n)\n{\n" + b"    call S(\n    )\n" * n + b"    return ()\n}\n"))
        out.append(case("long:digits:%d" % n, "valexp", b"1" * n))
        out.append(case("long:spaces:%d" % n, "valexp", b" " * n + b"1"))
        out.append(case("long:params:%d" % n, "compile",
                        b"stage S(\n" + b"".join(b"    in  int x%d,\n" % i for i in range(n)) + b"    src py \"s\",\n)\n"))
    return out


def typedepth_cases(n):
    """types with n pairs of brackets (the depth is kept in 16 bits)"""
    br = b"[]" * n
    out = []
    for entry in ("compile", "format", "unchecked"):
        out.append(case("type:arr:%s:%d" % (entry, n), entry, b"stage S(\n    in  int" + br + b" x,\n    src py \"s\",\n)\n"))
        out.append(case("type:mapinner:%s:%d" % (entry, n), entry, b"stage S(\n    in  map<int" + br + b"> x,\n    src py \"s\",\n)\n"))
        out.append(case("type:mapouter:%s:%d" % (entry, n), entry, b"stage S(\n    in  map<int>" + br + b" x,\n    src py \"s\",\n)\n"))
        out.append(case("type:field:%s:%d" % (entry, n), entry, b"struct T(\n    float" + br + b" f,\n)\n"))
    return out


def graph_cases():
    """include graphs: cycles of length 1..3, a cycle that does not pass through the top
    file, cycles with several includers, a missing file, a file included twice, a long chain"""
    def g(cid, files, top="a.mro"):
        return case("graph:" + cid, "graph", json.dumps({"files": files, "top": top}).encode())
    d = lambda n, incs: "".join('@include "%s"\n' % i for i in incs) + "\nfiletype t%s;\n" % n
    out = [
        g("self", {"a.mro": d("a", ["a.mro"])}),
        g("cycle2", {"a.mro": d("a", ["b.mro"]), "b.mro": d("b", ["a.mro"])}),
        g("cycle3", {"a.mro": d("a", ["b.mro"]), "b.mro": d("b", ["c.mro"]), "c.mro": d("c", ["a.mro"])}),
        g("cycle_below_top", {"a.mro": d("a", ["b.mro"]), "b.mro": d("b", ["c.mro"]), "c.mro": d("c", ["b.mro"])}),
        g("cycle_diamond", {"a.mro": d("a", ["b.mro", "d.mro"]), "b.mro": d("b", ["c.mro"]),
                            "c.mro": d("c", ["a.mro", "d.mro"]), "d.mro": d("d", ["b.mro"])}),
        g("cycle_subdir", {"a.mro": d("a", ["sub/b.mro"]), "sub/b.mro": d("b", ["../a.mro"])}),
        g("missing", {"a.mro": d("a", ["nothere.mro"])}),
        g("twice", {"a.mro": d("a", ["b.mro", "b.mro"]), "b.mro": d("b", [])}),
        g("diamond_ok", {"a.mro": d("a", ["b.mro", "c.mro"]), "b.mro": d("b", ["d.mro"]), "c.mro": d("c", ["d.mro"]), "d.mro": d("d", [])}),
        g("duplicate_decl", {"a.mro": d("a", ["b.mro"]), "b.mro": d("a", [])}),
    ]
    # a ladder of diamonds: a_i includes b_i and c_i, which both include a_(i+1); an error in the
    # deepest file has 2^14 ways to have been included
    m = 14
    lad = {}
    for i in range(m):
        nxt = ["a%d.mro" % (i + 1)] if i + 1 < m else []
        lad["b%d.mro" % i] = d("b%d" % i, nxt)
        lad["c%d.mro" % i] = d("c%d" % i, nxt)
        lad["a%d.mro" % i] = d("a%d" % i, ["b%d.mro" % i, "c%d.mro" % i])
    lad["a%d.mro" % (m - 1)] += "\nstage S(\n    in  nosuchtype x,\n    src py \"s\",\n)\n"
    out.append(g("diamond_ladder_error", lad, "a0.mro"))
    n = 150
    chain = {"f%d.mro" % i: d("c%d" % i, ["f%d.mro" % (i + 1)] if i + 1 < n else []) for i in range(n)}
    out.append(g("chain150", chain, "f0.mro"))
    chain = dict(chain)
    chain["f%d.mro" % (n - 1)] = d("c%d" % (n - 1), ["f0.mro"])
    out.append(g("chain150_cycle", chain, "f0.mro"))
    return out



def recursion_cases():
    """pipelines which call each other: nothing in a call without bindings needs the
    callee to be compiled already, so only a check of the calls themselves can refuse these"""
    def pl(name, calls, params=False):
        body = b"".join(b"    call %s(\n    )\n" % c for c in calls)
        return b"pipeline %s(\n)\n{\n%s    return (\n    )\n}\n\n" % (name, body)
    stage = b"stage S(\n    src py \"s\",\n)\n\n"
    top = lambda n: b"call %s(\n)\n" % n
    out = []
    def c(cid, src):
        out.append(case("rec:" + cid, "callgraph", src))
    c("mutual", pl(b"A", [b"B"]) + pl(b"B", [b"A"]) + top(b"A"))
    c("mutual_top_b", pl(b"A", [b"B"]) + pl(b"B", [b"A"]) + top(b"B"))
    c("cycle3", pl(b"A", [b"B"]) + pl(b"B", [b"C"]) + pl(b"C", [b"A"]) + top(b"A"))
    c("cycle_below_top", stage + pl(b"A", [b"S", b"B"]) + pl(b"B", [b"C"]) + pl(b"C", [b"S", b"B"]) + top(b"A"))
    c("cycle_with_stage", stage + pl(b"A", [b"S", b"B"]) + pl(b"B", [b"S", b"A"]) + top(b"A"))
    c("self", pl(b"A", [b"A"]) + top(b"A"))
    c("alias_cycle", b"pipeline A(\n)\n{\n    call B as X(\n    )\n    return (\n    )\n}\n\n"
      + b"pipeline B(\n)\n{\n    call A as Y(\n    )\n    return (\n    )\n}\n\n" + top(b"A"))
    # not recursive: a diamond of pipelines without parameters, callee declared before and after
    c("diamond_ok", stage + pl(b"D", [b"S"]) + pl(b"B", [b"D"]) + pl(b"C", [b"D"]) + pl(b"A", [b"B", b"C"]) + top(b"A"))
    c("forward_ok", stage + pl(b"A", [b"B"]) + pl(b"B", [b"S"]) + top(b"A"))
    # a ladder of pipelines each calling the next one twice: 2^48 call paths, 49 pipelines
    def pl2(name, callee):
        return (b"pipeline %s(\n)\n{\n    call %s as X(\n    )\n    call %s as Y(\n    )\n    return (\n    )\n}\n\n" % (name, callee, callee))
    n = 48
    ladder = stage + pl(b"P%d" % n, [b"S"]) + b"".join(pl2(b"P%d" % i, b"P%d" % (i + 1)) for i in range(n - 1, -1, -1))
    out.append(case("rec:ladder48", "compile", ladder + b"call S(\n)\n"))
    # structs that contain arrays / typed maps of themselves, alone and two of the same shape
    # bound to each other
    for cid, field in (("arr", b"NODE[] children"), ("map", b"map<NODE> children"), ("arr2", b"NODE[][] children"), ("direct", b"NODE child")):
        src = b"struct NODE(\n    int value,\n    %s,\n)\n\n" % field
        out.append(case("rec:struct_" + cid, "callgraph", src + b"stage T(\n    in  NODE n,\n    src py \"t\",\n)\n"))
        src2 = src + src.replace(b"NODE", b"TREE") + (
            b"stage MK(\n    out NODE n,\n    src py \"m\",\n)\n\nstage USE(\n    in  TREE t,\n    src py \"u\",\n)\n\n"
            b"pipeline P(\n)\n{\n    call MK(\n    )\n\n    call USE(\n        t = MK.n,\n    )\n\n    return (\n    )\n}\n\ncall P(\n)\n")
        out.append(case("rec:struct2_" + cid, "callgraph", src2))
    # a pipeline mapped over a typed map of structs; inside, a call mapped over a typed-map member
    # of the element (on the way the type of `ws.xs` would be a map of maps, which is no type)
    out.append(case("rec:map_of_structs_with_map_member", "callgraph",
                    b"struct W(\n    map<int> xs,\n)\n\n" + STAGE.replace(b"int x", b"int v") +
                    b"pipeline INNER(\n    in  W w,\n    out map<int> ys,\n)\n{\n    map call S(\n        v = split self.w.xs,\n    )\n\n    return (\n        ys = S.y,\n    )\n}\n\n"
                    b"pipeline TOP(\n    in  map<W> ws,\n)\n{\n    map call INNER(\n        w = split self.ws,\n    )\n\n    return (\n    )\n}\n\n"
                    b"call TOP(\n    ws = {\"a\": {xs: {\"p\": 1}}, \"b\": {xs: {\"q\": 2, \"r\": 3}}},\n)\n"))
    return out


def slow_cases():
    """inputs of a few kilobytes on which an algorithm of the compiler is more than linear"""
    out = []
    for n in (200, 800):
        body = b"".join(b"    call S as C%d(\n        x = C%d.y,\n    )\n\n" % (i, i + 1) for i in range(n - 1))
        body += b"    call S as C%d(\n        x = 1,\n    )\n\n" % (n - 1)
        out.append(case("slow:chain_rev:%d" % n, "compile",
                        STAGE + b"pipeline P(\n    out int y,\n)\n{\n" + body + b"    return (\n        y = C0.y,\n    )\n}\n"))
    return out


def incl_case(i, row):
    """a row of spec/Incl.tla: the top file includes one file per element of row["seq"]"""
    files = {}
    incs = []
    leafn = [0]

    def leaf(kind, prefix):
        leafn[0] += 1
        n = "%s%d.mro" % (prefix, leafn[0])
        if kind == "good":
            files[n] = "filetype g%d;\n" % leafn[0]
        elif kind == "syntax":
            files[n] = "filetype s%d;\nstage (\n" % leafn[0]
        elif kind == "dupdecl":
            files[n] = "struct D%d(\n    int a,\n)\n\nstruct D%d(\n    string a,\n)\n" % (leafn[0], leafn[0])
        elif kind == "cycle":
            files[n] = '@include "a.mro"\n\nfiletype c%d;\n' % leafn[0]
        elif kind == "missing":
            pass
        return n
    nest = {"nest_good": ["good", "good"], "nest_bad_good_bad": ["syntax", "good", "missing"],
            "nest_good_bad": ["good", "syntax"], "nest_missing_good_syntax": ["missing", "good", "syntax"]}
    for k in row["seq"]:
        if k in nest:
            leafn[0] += 1
            n = "n%d.mro" % leafn[0]
            inner = [leaf(q, "sub/l") for q in nest[k]]
            files[n] = "".join('@include "%s"\n' % q for q in inner) + "\nfiletype n%d;\n" % leafn[0]
            incs.append(n)
        else:
            incs.append(leaf(k, "l"))
    files["a.mro"] = "".join('@include "%s"\n' % q for q in incs) + "\nfiletype top;\n"
    c = case("incl:%d:%s" % (i, ",".join(row["seq"])), "graph", json.dumps({"files": files, "top": "a.mro"}).encode())
    c["expect"] = row["outcome"]
    return c


def write(cases, path):
    with open(path, "w") as f:
        for c in cases:
            f.write(json.dumps(c) + "\n")

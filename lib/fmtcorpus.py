"""Source corpora for the formatter checks (C09) and determinism (C10):
repository .mro files, rendered abstract programs, a literal catalogue, both
modifier syntaxes, comments in many positions, include graphs."""
import glob
import os

import fshapes
import gen
import mro
import shapes

LITERALS = ["0", "-1", "9223372036854775807", "-9223372036854775808", "007", "1.5", "-0.5", "1e20", "1e21", "1.5e300",
            "1e-7", "2.5e-300", "0.1", "1E5", "1e+5", "100000000000000000000.0", "123456789012345678.5", "-0.0", "0.0",
            "3.0", "1e0", "true", "false", "null", '""', '"a b"', '"\\n\\t\\\\\\""', '"\\x41\\101\\u00e9\\U0001F600"',
            '"é☃"', '"#notacomment"', '"a\\"b"', "[]", "{}", "[[]]", "[[], []]", "[{}]", '{"a": []}', '{"a": {}}',
            '{"a": {"b": {}}}', "[1, 2.5, -3]", '["a", null]', '{"k": 1, "a": 2, "Z": 3, "k2": [1, {"z": null}]}',
            "[null]", "[[1], [2, 3], []]", '{"": 1}', '{"a b": 1, "a\\"b": 2}']


def _precise_floats(n=60):
    """floats whose shortest decimal form has 16-17 significant digits, written with an
    exponent (so that the parser reads them exactly and the printer has to reproduce them)"""
    import random
    rnd = random.Random(20260924)
    out = []
    while len(out) < n:
        x = rnd.uniform(0.1, 1) * 10 ** rnd.randint(-8, 12)
        r = repr(x)
        if len(r.replace(".", "").replace("-", "").lstrip("0")) >= 16 and "e" not in r:
            m, e = ("%.16e" % x).split("e")
            if float(m + "e" + e) == x:
                out.append(m.rstrip("0") + "e" + str(int(e)))
    return out




def _special_chars():
    """strings holding one character of every class a printer may treat specially (controls,
    DEL, C1 controls incl. NEXT LINE, no-break space, soft hyphen, line / paragraph separator,
    bidi override, byte-order mark, replacement character, last BMP code point, astral
    planes), raw and written as an escape, alone and between letters, and as a map key"""
    out = []
    for cp in (0x01, 0x07, 0x08, 0x0b, 0x0c, 0x1b, 0x1f, 0x7f, 0x80, 0x85, 0x9f, 0xa0, 0xad, 0x2028, 0x2029, 0x202e,
               0xfeff, 0xfffd, 0xffff, 0x10000, 0x1f600, 0x10ffff):
        esc = "\\u%04x" % cp if cp <= 0xffff else "\\U%08x" % cp
        out.append('"a%sb"' % esc)
        out.append('{"%s": "%s"}' % (esc, esc))
        if cp >= 0x20 and cp != 0x7f:
            out.append('"x%sy"' % chr(cp))
    return out


LITERALS += _special_chars()
LITERALS += _precise_floats() + ["9.402388407028053e2", "940.2388407028053", "0.30000000000000004", "123456789.12345678",
                                 "1.7976931348623157e308", "4.9e-324", "2.2250738585072014e-308"]


def literal_program(i, lit):
    return ("stage S(\n    in  map x,\n    out int y,\n    src py \"s\",\n)\n\n"
            "call S(\n    x = {\"v\": %s},\n)\n" % lit)


HELPS = ["stage S(\n    in  int  x     \"help with \\\"quotes\\\" and \\\\ backslash\",\n    out file f     \"the file\"  \"out name.txt\",\n"
         "    out int  plain,\n    src py   \"dir/with space/s\",\n)\n",
         "filetype a.b;\nfiletype txt;\n\nstruct T(\n    int   a \"field help\",\n    a.b   f \"fh\" \"named.a.b\",\n    txt[] g,\n    map<txt> h,\n)\n",
         "stage S(\n    in  int x,\n    src comp \"bin/s arg1 arg2\",\n) split (\n    in  int c,\n    out int d,\n) using (\n    mem_gb   = 2.5,\n    threads  = 0.5,\n"
         "    vmem_gb  = 8,\n    special  = \"queue=long\",\n    volatile = strict,\n) retain (\n    x,\n)\n".replace("retain (\n    x,", "retain (\n"),
         ]

# optional clauses that are present but empty: they still mean something (a stage with
# `split ( )` is a splitting stage)
EMPTY_CLAUSES = [
    "stage S(\n    in  int x,\n    out int y,\n    src py \"s\",\n) split (\n)\n",
    "stage S(\n    in  int x,\n    out int y,\n    src py \"s\",\n) split using (\n)\n",
    "stage S(\n    in  int x,\n    out int y,\n    src py \"s\",\n) split (\n) using (\n    mem_gb = 1,\n) retain (\n)\n",
    "stage S(\n    in  int x,\n    out int y,\n    src py \"s\",\n) retain (\n)\n",
    "stage S(\n    in  int x,\n    out int y,\n    src py \"s\",\n) split (\n    # only a comment\n) retain (\n    # nothing kept\n)\n",
    "stage S(\n    in  int x,\n    out int y,\n    src py \"s\",\n) split (\n)\n\npipeline P(\n    in  int x,\n    out int y,\n)\n{\n    call S(\n        x = self.x,\n    )\n\n"
    "    return (\n        y = S.y,\n    )\n\n    retain (\n    )\n}\n\ncall P(\n    x = 1,\n)\n",
    "stage S(\n    src py \"s\",\n)\n\npipeline P(\n)\n{\n    call S(\n    )\n\n    return (\n    )\n}\n\ncall P(\n)\n",
]

MODIFIER_SYNTAXES = [
    # keyword modifiers and a using block on the same call
    "stage S(\n    in  int x,\n    out int y,\n    src py \"s\",\n)\n\npipeline P(\n    in  int x,\n    in  bool skip,\n    out int y,\n)\n{\n"
    "    call volatile S as A(\n        x = self.x,\n    ) using (\n        local = true,\n    )\n\n"
    "    call local volatile S as B(\n        x = self.x,\n    ) using (\n        disabled = self.skip,\n    )\n\n"
    "    call preflight S as C(\n        x = self.x,\n    ) using (\n        local = true,\n    )\n\n"
    "    call local S as D(\n        x = B.y,\n    ) using (\n        volatile = true,\n    )\n\n"
    "    return (\n        y = D.y,\n    )\n}\n",
    "stage S(\n    in  int x,\n    out int y,\n    src py \"s\",\n)\n\npipeline P(\n    in  int x,\n    out int y,\n)\n{\n"
    "    call local preflight S as A(\n        x = self.x,\n    )\n\n    call volatile S as B(\n        x = self.x,\n    )\n\n"
    "    call S as C(\n        x = B.y,\n    ) using (\n        local    = true,\n        volatile = true,\n        disabled = self.x,\n    )\n\n"
    "    return (\n        y = C.y,\n    )\n}\n",
    # calls out of dependency order
    "stage S(\n    in  int x,\n    out int y,\n    src py \"s\",\n)\n\npipeline P(\n    in  int x,\n    out int y,\n)\n{\n"
    "    call S as C(\n        x = B.y,\n    )\n\n    call S as B(\n        x = A.y,\n    )\n\n    call S as A(\n        x = self.x,\n    )\n\n"
    "    return (\n        y = C.y,\n    )\n}\n",
]

COMMENTED = [
    "# file comment\n\n# about the type\nfiletype txt;\n\n# about the struct\nstruct T(\n    # field a\n    int a,\n\n    # detached\n\n    # field b\n    int b,\n)\n\n"
    "# about the stage\nstage S(\n    # in x\n    in  int x,\n    # out y\n    out int y,\n    # the source\n    src py \"s\",\n) split (\n    # chunk in\n    in  int c,\n"
    ") using (\n    # memory\n    mem_gb = 2,\n    # threads\n    threads = 1,\n) retain (\n    # keep y\n    y,\n)\n\n"
    "# about the pipeline\npipeline P(\n    # p in\n    in  int x,\n    # p out\n    out int y,\n)\n{\n    # first call\n    call S(\n        # bind x\n        x = self.x,\n"
    "        # bind c? no\n    ) using (\n        # mod\n        local = true,\n    )\n\n    # the return\n    return (\n        # ret y\n        y = S.y,\n    )\n\n"
    "    # the retain\n    retain (\n        # keep it\n        S.y,\n    )\n}\n\n# the call\ncall P(\n    # arg\n    x = 1,\n)\n",
    "stage S(\n    in  map x,\n    src py \"s\",\n)\n\ncall S(\n    x = {\n        # about a\n        \"a\": [\n            # first\n            1,\n            # second\n            2,\n        ],\n"
    "        # about b\n\n        \"b\": {\n            # inner\n            \"c\": null,\n        },\n    },\n)\n",
    # comments between the split keyword and what is split (a reference, a literal)
    "stage S(\n    in  int x,\n    out int y,\n    src py \"s\",\n)\n\npipeline P(\n    in  int[] xs,\n    out int[] ys,\n    out int[] zs,\n)\n{\n"
    "    map call S(\n        x = split\n            # what is split here\n            self.xs,\n    )\n\n"
    "    map call S as T(\n        x = split\n            # a literal that is split\n            [1, 2],\n    )\n\n"
    "    return (\n        ys = S.y,\n        zs = T.y,\n    )\n}\n",
    # old modifier syntax with comments
    "stage S(\n    in  int x,\n    out int y,\n    src py \"s\",\n)\n\npipeline P(\n    in  int x,\n    out int y,\n)\n{\n    # the call\n    call local S(\n        # bind\n        x = self.x,\n    )\n\n"
    "    return (\n        y = S.y,\n    )\n}\n",
]


def repo_sets(repo="/repo"):
    out = []
    for d in ("martian/syntax/testdata", "martian/core/testdata", "test/fork_test", "test/map_test", "test/struct_test",
              "test/retain_test", "test/split_test", "test/files_test", "test/disable_test", "test/retry_test"):
        base = os.path.join(repo, d)
        files = {}
        for f in glob.glob(os.path.join(base, "**", "*.mro"), recursive=True):
            rel = os.path.relpath(f, base)
            try:
                files[rel] = open(f).read()
            except (OSError, UnicodeDecodeError):
                pass
        for rel in sorted(files):
            out.append({"id": d + "/" + rel, "files": files, "top": rel})
    return out


def include_graphs():
    stage = lambda n: "stage %s(\n    in  int x,\n    out int y,\n    src py \"%s\",\n)\n" % (n, n.lower())
    diamond = {
        "c.mro": "# shared\nfiletype txt;\n\n" + stage("C"),
        "a.mro": "@include \"c.mro\"\n\n# stage a\n" + stage("A"),
        "sub/b.mro": "@include \"c.mro\"\n\n" + stage("B"),
        "top.mro": "@include \"a.mro\"\n@include \"sub/b.mro\"\n\n# the pipeline\npipeline P(\n    in  int x,\n    out int y,\n)\n{\n"
                   "    call A(\n        x = self.x,\n    )\n\n    call B(\n        x = A.y,\n    )\n\n    call C(\n        * = B,\n    )\n\n"
                   "    return (\n        y = C.y,\n    )\n}\n\ncall P(\n    x = 1,\n)\n",
    }
    wild = {
        "st.mro": stage("W") + "\n" + "stage V(\n    in  int y,\n    out int x,\n    src py \"v\",\n)\n",
        "top.mro": "@include \"st.mro\"\n\npipeline P(\n    in  int x,\n    out int y,\n)\n{\n    call W(\n        * = self,\n    )\n\n    call V(\n        * = W,\n    )\n\n"
                   "    return (\n        * = W,\n    )\n}\n\ncall P(\n    x = 2,\n)\n",
    }
    return [{"id": "inc_diamond", "files": diamond, "top": "top.mro"}, {"id": "inc_wildcard", "files": wild, "top": "top.mro"}]


RICH = """filetype txt;
filetype a.b;

struct T(
    int   a "field help",
    txt[] g,
)

stage S(
    in  int  x     "the input",
    in  map  m,
    out int  y,
    out file f     "a file"  "named.bin",
    src py   "s",
) split (
    in  int  c,
    out int  d,
) using (
    mem_gb   = 2,
    threads  = 1,
    volatile = strict,
) retain (
    f,
    y,
)

stage U(
    in  T    t,
    out int  y,
    src comp "bin/u arg",
)

pipeline P(
    in  int  x,
    out int  y,
    out file f,
)
{
    call S(
        x = self.x,
        m = {
            "a": [
                1,
                2,
            ],
            "b": {
                "c": null,
            },
        },
    ) using (
        local    = true,
        volatile = true,
    )

    call U(
        t = {
            a: S.y,
            g: [],
        },
    )

    map call S as S2(
        x = split [
            1,
            2,
        ],
        m = {},
    )

    return (
        y = U.y,
        f = S.f,
    )

    retain (
        S.f,
        S2.f,
    )
}

call P(
    x = 1,
)
"""



# resource requests: every sign and magnitude class the printer of GB values distinguishes
# (whole, fractional below and above 1 GB, negative = "adaptive", exponent spellings)
RES_VALUES = ["0", "1", "3", "0.5", "0.25", "0.001", "1.5", "2.75", "1024", "100000", "-1", "-2", "-16", "-0.5", "-0.25",
              "-0.001", "-1.5", "-2.5", "-0.0009765625", "0.0009765625", "1e-3", "3e0", "-5e-1", "12.125", "-12.125",
              "12.13", "0.07", "-0.07", "1.15", "100.01"] + ["%d.%02d" % (k // 100, k % 100) for k in range(1, 1300, 37)]


def resource_programs():
    out = []
    for i, v in enumerate(RES_VALUES):
        for key in ("mem_gb", "vmem_gb", "threads"):
            if key == "threads" and ("e" in v):
                continue
            src = ("stage S(\n    in  int x,\n    out int y,\n    src py \"s\",\n) using (\n    %s = %s,\n)\n\n"
                   "stage T(\n    in  int x,\n    out int y,\n    src py \"t\",\n) split (\n    in  int c,\n) using (\n    %s = %s,\n    volatile = strict,\n)\n"
                   % (key, v, key, v))
            out.append({"id": "res%d:%s=%s" % (i, key, v), "files": {"p.mro": src}, "top": "p.mro"})
    return out


# what a string may hold, as written in the source and as the name of the file it spells
# (for include directives)
STRING_FORMS = [("bslash", "a\\\\b", "a\\b"), ("bslash_end", "ab\\\\", "ab\\"), ("bslash_t", "a\\\\tb", "a\\tb"),
                ("quote", "a\\\"b", "a\"b"), ("uni", "a\\u00e9b", "a\u00e9b"), ("raw_uni", "a\u00e9b", "a\u00e9b"),
                ("hash", "a#b", "a#b"), ("percent", "a%db %s 50%", "a%db %s 50%"), ("percent2", "q%%long", "q%%long"), ("quote_end", "ab\\\"", "ab\""), ("bslash_u", "a\\\\u0041", "a\\u0041")]


def string_position_programs():
    """every position of the grammar that holds a string (help text, output file name, stage
    code with arguments, special resource, struct member help / name, include file name,
    map key) with every form of STRING_FORMS"""
    out = []
    for tag, lit, name in STRING_FORMS:
        pos = {
            "help": "stage S(\n    in  int x \"%s\",\n    src py \"s\",\n)\n" % lit,
            "outname": "stage S(\n    in  int x,\n    out file f \"h\" \"%s\",\n    src py \"s\",\n)\n" % lit,
            "src": "stage S(\n    in  int x,\n    src comp \"bin/%s\",\n)\n" % lit,
            "src_args": "stage S(\n    in  int x,\n    src comp \"bin/s  %s   z%s\",\n)\n" % (lit, lit),
            "src_exec": "stage S(\n    in  int x,\n    src exec \"%s run\",\n)\n" % lit,
            "special": "stage S(\n    in  int x,\n    src py \"s\",\n) using (\n    special = \"%s\",\n)\n" % lit,
            "member": "filetype t;\n\nstruct T(\n    int a \"%s\",\n    t   f \"h\" \"%s\",\n)\n" % (lit, lit),
            "key": "stage S(\n    in  map x,\n    src py \"s\",\n)\n\ncall S(\n    x = {\"%s\": 1},\n)\n" % lit,
        }
        for pn in sorted(pos):
            out.append({"id": "str:%s:%s" % (pn, tag), "files": {"p.mro": pos[pn]}, "top": "p.mro"})
        inc = "stage I(\n    in  int x,\n    src py \"i\",\n)\n"
        out.append({"id": "str:include:%s" % tag, "top": "top.mro",
                    "files": {"top.mro": "@include \"%s.mro\"\n@include \"sub/%s.mro\"\n\ncall I(\n    x = 1,\n)\n" % (lit, lit),
                              name + ".mro": inc, "sub/" + name + ".mro": "filetype t;\n"}})
    return out


def modifier_order_programs():
    """a call's using block with two or three of the modifiers in every order (the compiled tree
    keeps the block's entries and also sets the flags of the call)"""
    import itertools
    vals = {"local": ["true"], "volatile": ["true", "false"], "preflight": ["true"], "disabled": ["self.d"]}
    out = []
    for n in (2, 3):
        for perm in itertools.permutations(sorted(vals), n):
            if "preflight" in perm and ("disabled" in perm or "volatile" in perm):
                continue    # refused by the compiler
            for choice in itertools.product(*[vals[m] for m in perm]):
                block = "".join("        %s = %s,\n" % (m, v) for m, v in zip(perm, choice))
                if "preflight" in perm:
                    callee, ret = "CHK", "B.y"
                else:
                    callee, ret = "S", "A.y"
                src = ("stage S(\n    in  int x,\n    out int y,\n    src py \"s\",\n)\n\nstage CHK(\n    in  int x,\n    src py \"c\",\n)\n\n"
                       "pipeline P(\n    in  int x,\n    in  bool d,\n    out int y,\n)\n{\n    call %s as A(\n        x = self.x,\n    ) using (\n%s    )\n\n"
                       "    call S as B(\n        x = self.x,\n    ) using (\n        disabled = self.d,\n    )\n\n    return (\n        y = %s,\n    )\n}\n\n"
                       "call P(\n    x = 1,\n    d = false,\n)\n" % (callee, block, ret))
                out.append({"id": "mods:%s:%s" % ("-".join(perm), "-".join(choice)), "files": {"p.mro": src}, "top": "p.mro"})
    return out


def every_line(src, tag):
    """the source with one comment inserted before each line in turn (and at the end)"""
    lines = src.split("\n")
    out = []
    for i in range(len(lines)):
        ind = lines[i][:len(lines[i]) - len(lines[i].lstrip())] if i < len(lines) else ""
        t = "\n".join(lines[:i] + [ind + "# inserted comment %d" % i] + lines[i:])
        out.append({"id": "%s:line%d:%s" % (tag, i + 1, lines[i].strip()[:24]), "files": {"p.mro": t}, "top": "p.mro"})
    return out


def corpus(tier, repo="/repo"):
    out = []
    out += every_line(RICH, "rich")
    for i, lit in enumerate(LITERALS):
        out.append({"id": "lit%d:%s" % (i, lit[:20]), "files": {"p.mro": literal_program(i, lit)}, "top": "p.mro"})
    for i, s in enumerate(HELPS + MODIFIER_SYNTAXES + COMMENTED + EMPTY_CLAUSES):
        out.append({"id": "hand%d" % i, "files": {"p.mro": s}, "top": "p.mro"})
    out += resource_programs()
    out += string_position_programs()
    out += modifier_order_programs()
    out += include_graphs()
    out += repo_sets(repo)
    progs = shapes.catalogue() + fshapes.catalogue() + [gen.gen_program(s) for s in range(20 if tier == "quick" else 200)]
    for p in progs:
        out.append({"id": "prog:" + p["name"], "files": {"p.mro": mro.render(p, stage_lang="py", stage_src="s")}, "top": "p.mro"})
    return out

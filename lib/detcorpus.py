"""Programs for the determinism check (C10): literals with many keys, several
split arguments, mapped sub-pipelines whose merged outputs come from different
forked stages, duplicate retain entries, several compile errors at once."""
import json
import random

import fmtcorpus

CONC = {"A": "A", "a": "a", "b": "b", "1": "1", "_": "_", "L": "é", "Z": "Z"}


def key_text(k):
    return "".join(CONC[c] for c in k)


def order_cases(rows, rng, limit):
    """rows: Order.tla rows (keys in the admissible order, as class sequences)."""
    out = []
    rows = list(rows)
    rng.shuffle(rows)
    for i, r in enumerate(rows[:limit]):
        keys = [key_text(k) for k in r["keys"]]
        shuffled = keys[:]
        rng.shuffle(shuffled)
        lit = "{" + ", ".join('"%s": %d' % (k, j) for j, k in enumerate(shuffled)) + "}"
        src = ("stage S(\n    in  map x,\n    out int y,\n    src py \"s\",\n)\n\ncall S(\n    x = %s,\n)\n" % lit)
        out.append({"id": "order%d" % i, "files": {"p.mro": src}, "top": "p.mro",
                    "expect_order": ['"%s":' % k for k in keys]})
    return out


BIG_KEYS = ["k%02d" % i for i in range(12)] + ["a", "B", "_z", "zz"]


def hand_cases():
    out = []
    rnd = random.Random(7)
    ks = BIG_KEYS[:]
    rnd.shuffle(ks)
    # map literal with 16 keys, struct literal with 8 fields, nested
    out.append(prog("manykeys",
                    "struct ST(\n" + "".join("    int f%d,\n" % i for i in range(8)) + ")\n\n"
                    "stage S(\n    in  map x,\n    in  ST  s,\n    in  map<ST> ms,\n    out int y,\n    src py \"s\",\n)\n\n"
                    "call S(\n    x = {" + ", ".join('"%s": %d' % (k, i) for i, k in enumerate(ks)) + "},\n"
                    "    s = {" + ", ".join("f%d: %d" % (i, i) for i in (5, 2, 7, 0, 3, 6, 1, 4)) + "},\n"
                    "    ms = {" + ", ".join('"%s": {%s}' % (k, ", ".join("f%d: %d" % (i, i) for i in (7, 6, 5, 4, 3, 2, 1, 0)))
                                              for k in ("q", "b", "m", "a")) + "},\n)\n"))
    # three split arguments over typed maps with 8 keys; mapped sub-pipeline whose
    # merged outputs come from different forked stages, consumed as a struct literal
    keys8 = ["h", "c", "f", "a", "g", "b", "e", "d"]
    m = "{" + ", ".join('"%s": %d' % (k, i) for i, k in enumerate(keys8)) + "}"
    out.append(prog("splits",
                    "stage G(\n    out map<int> m,\n    out int[] xs,\n    src py \"g\",\n)\n\n"
                    "stage A(\n    in  int x,\n    in  int z,\n    in  int w,\n    out int y,\n    src py \"a\",\n)\n\n"
                    "stage B(\n    in  int x,\n    out int y,\n    src py \"b\",\n)\n\n"
                    "struct R(\n    int[] a,\n    int[] b,\n    int[] c,\n)\n\n"
                    "stage C(\n    in  R r,\n    in  map<int> km,\n    out int y,\n    src py \"c\",\n)\n\n"
                    "pipeline SUB(\n    in  int x,\n    out int a,\n    out int b,\n    out int c,\n)\n{\n"
                    "    call A(\n        x = self.x,\n        z = self.x,\n        w = self.x,\n    )\n\n    call B(\n        x = self.x,\n    )\n\n"
                    "    call B as B2(\n        x = A.y,\n    )\n\n"
                    "    return (\n        a = A.y,\n        b = B.y,\n        c = B2.y,\n    )\n}\n\n"
                    "pipeline TOP(\n    in  map<int> m1,\n    in  map<int> m2,\n    in  map<int> m3,\n    out int y,\n    out map<int> ys,\n)\n{\n"
                    "    call G(\n    )\n\n"
                    "    map call A as MA(\n        x = split self.m1,\n        z = split self.m2,\n        w = split self.m3,\n    )\n\n"
                    "    map call SUB(\n        x = split G.xs,\n    )\n\n"
                    "    call C(\n        r  = {\n            c: SUB.c,\n            a: SUB.a,\n            b: SUB.b,\n        },\n        km = MA.y,\n    )\n\n"
                    "    return (\n        y  = C.y,\n        ys = MA.y,\n    )\n}\n\n"
                    "call TOP(\n    m1 = %s,\n    m2 = %s,\n    m3 = %s,\n)\n" % (m, m, m)))
    # the whole result of a mapped sub-pipeline (a struct of outputs that come from
    # different forked stages) bound to an output and to a consumer
    out.append(prog("wholecall",
                    "stage GEN(\n    out int[] xs,\n    out map<int> m,\n    src py \"g\",\n)\n\n"
                    "stage S(\n    in  int x,\n    out int y,\n    src py \"s\",\n)\n\n"
                    "pipeline INNER(\n    in  int x,\n    out int a,\n    out int b,\n    out int c,\n    out int d,\n)\n{\n"
                    "    call S as S1(\n        x = self.x,\n    )\n\n    call S as S2(\n        x = self.x,\n    )\n\n"
                    "    call S as S3(\n        x = S1.y,\n    )\n\n    call S as S4(\n        x = S2.y,\n    )\n\n"
                    "    return (\n        a = S1.y,\n        b = S2.y,\n        c = S3.y,\n        d = S4.y,\n    )\n}\n\n"
                    "stage USE(\n    in  INNER[] rs,\n    in  map<INNER> ms,\n    out int n,\n    src py \"u\",\n)\n\n"
                    "pipeline OUTER(\n    out INNER[] r,\n    out map<INNER> m,\n    out int n,\n)\n{\n    call GEN(\n    )\n\n"
                    "    map call INNER(\n        x = split GEN.xs,\n    )\n\n    map call INNER as INNER2(\n        x = split GEN.m,\n    )\n\n"
                    "    call USE(\n        rs = INNER,\n        ms = INNER2,\n    )\n\n"
                    "    return (\n        r = INNER,\n        m = INNER2,\n        n = USE.n,\n    )\n}\n\ncall OUTER(\n)\n"))
    # several split arguments bound to different upstream arrays of unknown length (valid),
    # and to literals of different lengths (three errors)
    gens = "".join("stage GEN%d(\n    out int[] xs,\n    src py \"g%d\",\n)\n\n" % (i, i) for i in range(1, 5))
    a4 = "stage A4(\n    in  int a,\n    in  int b,\n    in  int c,\n    in  int d,\n    out int y,\n    src py \"a\",\n)\n\n"
    out.append(prog("zipsplit",
                    gens + a4 + "pipeline TOP(\n    out int[] ys,\n)\n{\n" +
                    "".join("    call GEN%d(\n    )\n\n" % i for i in range(1, 5)) +
                    "    map call A4(\n        a = split GEN3.xs,\n        b = split GEN1.xs,\n        c = split GEN4.xs,\n        d = split GEN2.xs,\n    )\n\n"
                    "    return (\n        ys = A4.y,\n    )\n}\n\ncall TOP(\n)\n"))
    out.append(prog("zipsplit_err",
                    a4 + "pipeline TOP(\n    out int[] ys,\n)\n{\n"
                    "    map call A4(\n        a = split [1, 2],\n        b = split [1, 2, 3],\n        c = split [1, 2, 3, 4],\n        d = split [1],\n    )\n\n"
                    "    return (\n        ys = A4.y,\n    )\n}\n\ncall TOP(\n)\n"))
    # duplicate retain entries
    out.append(prog("dupretain",
                    "stage S(\n    in  int x,\n" + "".join("    out file f%d,\n" % i for i in range(6)) + "    src py \"s\",\n) retain (\n"
                    "    f4,\n    f1,\n    f4,\n    f0,\n    f3,\n    f1,\n    f5,\n    f2,\n)\n\ncall S(\n    x = 1,\n)\n"))
    # several errors at once
    out.append(prog("errors5",
                    "stage S(\n    in  int x,\n    in  undefined1 a,\n    in  undefined2 b,\n    out nope c,\n    src py \"s\",\n)\n\n"
                    "stage T(\n    in  int x,\n    in  int x,\n    src py \"t\",\n)\n\n"
                    "pipeline P(\n    in  int x,\n    out int y,\n    out int z,\n)\n{\n    call S(\n        x = self.q,\n        a = self.r,\n        zz = 1,\n    )\n\n"
                    "    call U(\n    )\n\n    return (\n        y = S.nothing,\n        w = 3,\n    )\n}\n"))
    out.append(prog("errors_types",
                    "stage S(\n    in  int a,\n    in  string b,\n    in  int[] c,\n    in  map<int> d,\n    in  float e,\n    out int y,\n    src py \"s\",\n)\n\n"
                    "call S(\n    a = \"x\",\n    b = 1,\n    c = {},\n    d = [],\n    e = \"f\",\n)\n"))
    # several errors of one kind at once: their order must not depend on map iteration
    st = "stage S(\n    in  int x,\n    out int y,\n    src py \"s\",\n)\n\n"
    out.append(prog("errors_deps",
                    st + "pipeline P(\n    in  int x,\n    out int y,\n)\n{\n" +
                    "".join("    call S as S%d(\n        x = N%d.y,\n    )\n\n" % (i, i) for i in range(6)) +
                    "    return (\n        y = S0.y,\n    )\n}\n"))
    out.append(prog("errors_cycle",
                    st + "pipeline P(\n    in  int x,\n    out int y,\n)\n{\n" +
                    "".join("    call S as S%d(\n        x = S%d.y,\n    )\n\n" % (i, (i + 1) % 5) for i in range(5)) +
                    "    return (\n        y = S0.y,\n    )\n}\n"))
    out.append(prog("errors_dupchunk",
                    "stage S(\n    in  int a,\n    in  int b,\n    in  int c,\n    in  int d,\n    out int y,\n    src py \"s\",\n) split (\n"
                    "    in  int d,\n    in  int b,\n    in  int a,\n    in  int c,\n    out int y,\n)\n"))
    out.append(prog("errors_badkeys",
                    "struct T(\n    int a,\n    int b,\n)\n\nstage S(\n    in  T t,\n    in  map<int> m,\n    in  T[] ts,\n    out int y,\n    src py \"s\",\n)\n\n"
                    "call S(\n    t  = {\n        a: 1,\n        b: 2,\n        zz3: 3,\n        zz1: 1,\n        zz2: 2,\n        q: 0,\n    },\n"
                    "    m  = {\n        \"k3\": \"x\",\n        \"k1\": \"y\",\n        \"k2\": [],\n        \"k0\": {},\n    },\n"
                    "    ts = [\n        {\n            a: \"s\",\n            b: \"t\",\n        },\n        {\n            c: 1,\n            d: 2,\n            e: 3,\n        },\n    ],\n)\n"))
    # a struct literal with more keys than the struct has members that also lacks members: every
    # unexpected field is named, always the same ones
    out.append(prog("errors_badkeys_missing",
                    "struct T(\n    int x,\n    int y,\n    int z,\n)\n\nstage S(\n    in  T t,\n    out int y,\n    src py \"s\",\n)\n\n"
                    "call S(\n    t = {\n        x: 1,\n        u6: 6,\n        u2: 2,\n        u5: 5,\n        u1: 1,\n        u4: 4,\n        u3: 3,\n    },\n)\n"))
    # struct literals with a very long key next to a medium and a short one (the column of the
    # values depends on the widest key below a limit)
    out.append(prog("format_long_struct_keys",
                    "struct W(\n    int ab,\n    int a_key_of_twenty_one__,\n    int a_key_that_is_exactly_forty_four_characters_,\n    int k_30_characters_long__________,\n    int k29_characters_long__________,\n)\n\n"
                    "stage S(\n    in  W w,\n    out int y,\n    src py \"s\",\n)\n\ncall S(\n    w = {\n        a_key_that_is_exactly_forty_four_characters_: 1,\n        ab: 2,\n        k_30_characters_long__________: 3,\n"
                    "        a_key_of_twenty_one__: 4,\n        k29_characters_long__________: 5,\n    },\n)\n"))
    out.append(prog("errors_mapkeys",
                    "stage A4(\n    in  int a,\n    in  int b,\n    in  int c,\n    out int y,\n    src py \"a\",\n)\n\npipeline TOP(\n    out map<int> ys,\n)\n{\n"
                    "    map call A4(\n        a = split {\"p\": 1, \"q\": 2, \"r\": 3, \"s\": 4},\n        b = split {\"t\": 1, \"u\": 2, \"v\": 3, \"w\": 4},\n"
                    "        c = split {\"x\": 1, \"y\": 2, \"z\": 3, \"p\": 4},\n    )\n\n    return (\n        ys = A4.y,\n    )\n}\n\ncall TOP(\n)\n"))
    # a retained output of a sub-pipeline that is a map literal of file references, and an
    # untyped map parameter given references (an error that names one of them)
    fstage = "stage F(\n    in  int x,\n    out file f,\n    src py \"f\",\n)\n\n"
    out.append(prog("retained_subpipe_map",
                    fstage + "pipeline SUB(\n    in  int x,\n    out map<file> all,\n)\n{\n" +
                    "".join("    call F as F%d(\n        x = self.x,\n    )\n\n" % i for i in range(7)) +
                    "    return (\n        all = {\n" + "".join("            \"k%d\": F%d.f,\n" % (i, i) for i in (2, 5, 3, 0, 6, 1, 4)) + "        },\n    )\n}\n\n"
                    "pipeline TOP(\n    in  int x,\n    out map<file> all,\n)\n{\n    call SUB(\n        x = self.x,\n    )\n\n"
                    "    return (\n        all = SUB.all,\n    )\n\n    retain (\n        SUB.all,\n    )\n}\n\ncall TOP(\n    x = 1,\n)\n"))
    out.append(prog("untyped_map_refs",
                    fstage + "stage U(\n    in  map m,\n    out int n,\n    src py \"u\",\n)\n\n"
                    "pipeline TOP(\n    in  int x,\n    out int n,\n)\n{\n" +
                    "".join("    call F as F%d(\n        x = self.x,\n    )\n\n" % i for i in range(6)) +
                    "    call U(\n        m = {\n" + "".join("            \"k%d\": F%d.f,\n" % (i, i) for i in (4, 1, 5, 0, 3, 2)) + "        },\n    )\n\n"
                    "    return (\n        n = U.n,\n    )\n}\n\ncall TOP(\n    x = 1,\n)\n"))
    # sources in several directories, none of which has the stage code: the message lists where it was searched
    out.append({"id": "srcdirs", "top": "top.mro",
                "files": {"top.mro": "@include \"a/x.mro\"\n@include \"b/y.mro\"\n@include \"c/d/z.mro\"\n@include \"e/w.mro\"\n\ncall SX(\n    x = 1,\n)\n",
                          "a/x.mro": "stage SX(\n    in  int x,\n    src py \"stages/sx\",\n)\n",
                          "b/y.mro": "stage SY(\n    in  int x,\n    src py \"stages/sy\",\n)\n",
                          "c/d/z.mro": "stage SZ(\n    in  int x,\n    src py \"stages/sz\",\n)\n",
                          "e/w.mro": "stage SW(\n    in  int x,\n    src comp \"bin/sw arg\",\n)\n"}})
    # the empty string among the keys one split map has and the other lacks
    out.append(prog("errors_mapkeys_empty",
                    "stage A2(\n    in  int a,\n    in  int b,\n    out int y,\n    src py \"a\",\n)\n\npipeline TOP(\n    out map<int> ys,\n)\n{\n"
                    "    map call A2(\n        a = split {\"\": 1, \"b\": 2, \"d\": 3, \"e\": 4},\n        b = split {\"w\": 1, \"x\": 2, \"y\": 3, \"z\": 4},\n"
                    "    )\n\n    return (\n        ys = A2.y,\n    )\n}\n\ncall TOP(\n)\n"))
    # a call bound to several of its own outputs inside one map literal: one error per reference
    out.append(prog("errors_selfdep_map",
                    "stage S(\n    in  map<int> m,\n    out int a,\n    out int b,\n    out int c,\n    out int d,\n    out int e,\n    src py \"s\",\n)\n\n"
                    "pipeline TOP(\n    out int y,\n)\n{\n    call S(\n        m = {\n            \"k1\": S.a,\n            \"k2\": S.b,\n            \"k3\": S.c,\n            \"k4\": S.d,\n            \"k5\": S.e,\n        },\n    )\n\n"
                    "    return (\n        y = S.a,\n    )\n}\n\ncall TOP(\n)\n"))
    # repairing the include list (mro format --includes): several stages and types that no file
    # on the path defines, several that other files define
    out.append({"id": "fixinc_missing", "top": "top.mro",
                "files": {"top.mro": "pipeline TOP(\n    in  T1 t,\n    out int y,\n)\n{\n" +
                          "".join("    call M%d(\n        x = self.t,\n    )\n\n" % i for i in (4, 1, 6, 0, 3, 5, 2)) +
                          "".join("    call D%d(\n        x = self.t,\n    )\n\n" % i for i in (2, 0, 1)) +
                          "    return (\n        y = D0.y,\n    )\n}\n",
                          "d0.mro": "struct T1(\n    int a,\n)\n\nstage D0(\n    in  T1 x,\n    out int y,\n    src py \"d\",\n)\n",
                          "d1.mro": "struct T1(\n    int a,\n)\n\nstage D1(\n    in  T1 x,\n    out int y,\n    src py \"d\",\n)\n",
                          "sub/d2.mro": "struct T1(\n    int a,\n)\n\nstage D2(\n    in  T1 x,\n    out int y,\n    src py \"d\",\n)\n"}})
    # ... missing files named after the file that is repaired (they sort last, among themselves by name)
    stg = lambda n: "stage %s(\n    in  int x,\n    out int y,\n    src py \"s\",\n)\n" % n
    out.append({"id": "fixinc_named", "top": "proj.mro",
                "files": dict({"proj.mro": "pipeline TOP(\n    in  int x,\n    out int y,\n)\n{\n" +
                               "".join("    call N%d(\n        x = self.x,\n    )\n\n" % i for i in (3, 0, 5, 1, 4, 2)) +
                               "    return (\n        y = N0.y,\n    )\n}\n"},
                              **{("_proj_%s_stages.mro" % "fbdace"[i] if i < 5 else "other.mro"): stg("N%d" % i) for i in range(6)})})
    # one input bound to several outputs of the same stage, in a literal array, a typed-map literal
    # and under a disabling condition (the edges of the rendered graph list the outputs)
    outs7 = "".join("    out int o%d,\n" % i for i in range(7))
    out.append(prog("edges_many_outputs",
                    "stage PR(\n    in  int x,\n" + outs7 + "    out bool off,\n    src py \"p\",\n)\n\nstage CO(\n    in  int[] vs,\n    in  map<int> m,\n    out int y,\n    src py \"c\",\n)\n\n"
                    "pipeline TOP(\n    in  int x,\n    out int y,\n    out int[] all,\n)\n{\n    call PR(\n        x = self.x,\n    )\n\n"
                    "    call CO(\n        vs = [" + ", ".join("PR.o%d" % i for i in (4, 1, 6, 0, 3, 5, 2)) + "],\n        m  = {" +
                    ", ".join("\"k%d\": PR.o%d" % (i, i) for i in (2, 5, 3, 0, 6, 1, 4)) + "},\n    ) using (\n        disabled = PR.off,\n    )\n\n"
                    "    return (\n        y   = CO.y,\n        all = [" + ", ".join("PR.o%d" % i for i in (6, 2, 5, 0, 4, 1, 3)) + "],\n    )\n}\n\ncall TOP(\n    x = 1,\n)\n"))
    # a call disabled per element by the values of a map literal (true and false mixed) that a
    # mapped pipeline is split over: the resolved graph keeps the split in the condition
    out.append(prog("disable_split_map_literal",
                    "stage W(\n    in  int x,\n    out int y,\n    src py \"w\",\n)\n\npipeline INNER(\n    in  int  x,\n    in  bool skip,\n    out int  y,\n)\n{\n"
                    "    call W(\n        x = self.x,\n    ) using (\n        disabled = self.skip,\n    )\n\n    return (\n        y = W.y,\n    )\n}\n\n"
                    "pipeline TOP(\n    out map<int> ys,\n)\n{\n    map call INNER(\n        x    = split {" +
                    ", ".join("\"k%d\": %d" % (i, i) for i in range(8)) + "},\n        skip = split {" +
                    ", ".join("\"k%d\": %s" % (i, "true" if i in (0, 3, 4, 7) else "false") for i in (5, 2, 7, 0, 3, 6, 1, 4)) +
                    "},\n    )\n\n    return (\n        ys = INNER.y,\n    )\n}\n\ncall TOP(\n)\n"))
    # several files included under the same name from different directories, each ending in a
    # comment that belongs to nothing
    inc_files = {"top.mro": "@include \"a/sub.mro\"\n@include \"b/sub.mro\"\n@include \"c/sub.mro\"\n@include \"d/sub.mro\"\n\ncall SA(\n    x = 1,\n)\n"}
    for dname in "abcd":
        inc_files["%s/sub.mro" % dname] = "@include \"defs.mro\"\n\nstage S%s(\n    in  int x,\n    in  t%s f,\n    src py \"s%s\",\n)\n" % (dname.upper(), dname, dname)
        inc_files["%s/defs.mro" % dname] = "# types of %s\nfiletype t%s;\n\n# trailing remark of %s/defs.mro\n" % (dname, dname, dname)
    inc_files["top.mro"] = inc_files["top.mro"].replace("call SA(\n    x = 1,\n)", "call SA(\n    x = 1,\n    f = null,\n)")
    out.append({"id": "same_named_includes", "top": "top.mro", "files": inc_files})
    # a mapped pipeline and a mapped call inside it that go by the same call name (fork dimensions
    # are listed by call name), over run-time collections
    out.append(prog("same_call_name_two_levels",
                    "stage G(\n    out map<int>[] ms,\n    src py \"g\",\n)\n\nstage S(\n    in  int v,\n    out int y,\n    src py \"s\",\n)\n\nstage U(\n    in  map<int>[] ys,\n    out int n,\n    src py \"u\",\n)\n\n"
                    "pipeline MID(\n    in  map<int> m,\n    out map<int> ys,\n)\n{\n    map call S as X(\n        v = split self.m,\n    )\n\n    return (\n        ys = X.y,\n    )\n}\n\n"
                    "pipeline TOP(\n    out map<int>[] all,\n    out int n,\n)\n{\n    call G(\n    )\n\n    map call MID as X(\n        m = split G.ms,\n    )\n\n    call U(\n        ys = X.ys,\n    )\n\n"
                    "    return (\n        all = X.ys,\n        n   = U.n,\n    )\n}\n\ncall TOP(\n)\n"))
    out.append(prog("same_call_name_two_levels_static",
                    "stage S(\n    in  int v,\n    out int y,\n    src py \"s\",\n)\n\nstage U(\n    in  map<int>[] ys,\n    out int n,\n    src py \"u\",\n)\n\n"
                    "pipeline MID(\n    in  map<int> m,\n    out map<int> ys,\n)\n{\n    map call S as X(\n        v = split self.m,\n    )\n\n    return (\n        ys = X.y,\n    )\n}\n\n"
                    "pipeline TOP(\n    out map<int>[] all,\n    out int n,\n)\n{\n    map call MID as X(\n        m = split [{\"a\": 1, \"b\": 2}, {\"a\": 3, \"b\": 4}],\n    )\n\n    call U(\n        ys = X.ys,\n    )\n\n"
                    "    return (\n        all = X.ys,\n        n   = U.n,\n    )\n}\n\ncall TOP(\n)\n"))
    # strings the parser interns (stage code, output file names, resource `special`), first with a
    # literal backslash spelled \\\\ then - in the next source, for a parser that has kept the first -
    # with the escape that the first one's text spells
    for k, (s1, s2) in enumerate((("bin/x \\\\u00b7", "bin/x \\u00b7"), ("a\\\\tb", "a\\tb"), ("q\\\\\"", "q\\\""))):
        for j, lit in enumerate((s1, s2)):
            out.append(prog("intern%d%s" % (k, "ab"[j]),
                            "stage S(\n    in  int x,\n    out file f \"help\" \"%s\",\n    src comp \"%s\",\n) using (\n    special = \"%s\",\n)\n\ncall S(\n    x = 1,\n)\n" % (
                                lit.replace("/", "_").replace(" ", "_"), lit, lit)))
    # references inside a map / struct literal feeding retained files
    out.append(prog("retained_literal",
                    "stage F(\n    in  int x,\n    out file f,\n    src py \"f\",\n)\n\nstage U(\n    in  map<file> fs,\n    out int n,\n    src py \"u\",\n)\n\n"
                    "pipeline TOP(\n    in  int x,\n    out int n,\n    out map<file> all,\n)\n{\n" +
                    "".join("    call F as F%d(\n        x = self.x,\n    )\n\n" % i for i in range(7)) +
                    "    call U(\n        fs = {\n" + "".join("            \"k%d\": F%d.f,\n" % (i, i) for i in (4, 1, 6, 0, 3, 5, 2)) + "        },\n    )\n\n"
                    "    return (\n        n   = U.n,\n        all = {\n" + "".join("            \"k%d\": F%d.f,\n" % (i, i) for i in (2, 5, 3, 0, 6, 1, 4)) + "        },\n    )\n\n"
                    "    retain (\n" + "".join("        F%d.f,\n" % i for i in (5, 2, 4)) + "    )\n}\n\ncall TOP(\n    x = 1,\n)\n"))
    # same-line map entries with comments
    out.append(prog("sameline_comments",
                    "stage S(\n    in  map x,\n    out int y,\n    src py \"s\",\n)\n\ncall S(\n    # about x\n    x = {\"a\": 1, \"b\": 2, \"c\": 3, \"d\": 4, \"e\": 5}, # trailing\n)\n"))
    # a typed map of structs given as a literal whose values are whole results of pipeline calls
    # (wider than the struct: narrowed on the way) next to values that need no change
    out.append(prog("narrow_map_literal",
                    "struct PAIR(\n    int a,\n    int b,\n)\n\nstage MAKE(\n    in  int x,\n    out int a,\n    out int b,\n    out int extra,\n    src py \"m\",\n)\n\n"
                    "stage SINK(\n    in  map<PAIR> pairs,\n    out int n,\n    src py \"s\",\n)\n\n"
                    "pipeline INNER(\n    in  int x,\n    out int a,\n    out int b,\n    out int extra,\n)\n{\n    call MAKE(\n        x = self.x,\n    )\n\n"
                    "    return (\n        a     = MAKE.a,\n        b     = MAKE.b,\n        extra = MAKE.extra,\n    )\n}\n\n"
                    "pipeline TOP(\n    in  int x,\n    out int n,\n)\n{\n    call INNER(\n        x = self.x,\n    )\n\n"
                    "    call SINK(\n        pairs = {\n" +
                    "".join("            \"k%d\": {\n                a: %d,\n                b: MAKE2.a,\n            },\n" % (i, i) for i in range(6)) +
                    "            \"wide\": INNER,\n        },\n    )\n\n    call MAKE as MAKE2(\n        x = self.x,\n    )\n\n"
                    "    return (\n        n = SINK.n,\n    )\n}\n\ncall TOP(\n    x = 1,\n)\n"))
    # a comment line inside a map literal followed by several entries on ONE source line
    out.append(prog("sameline_entries_after_comment",
                    "stage S(\n    in  map x,\n    in  map<int> y,\n    out int z,\n    src py \"s\",\n)\n\ncall S(\n    x = {\n        # about these entries\n"
                    "        \"e\": 5, \"c\": 3, \"a\": 1, \"d\": 4, \"b\": 2, \"f\": 6,\n    },\n    y = {\n        # and these\n        \"q\": 1, \"p\": 2, \"r\": 3, \"o\": 4,\n        # more\n        \"n\": 5, \"m\": 6,\n    },\n)\n"))
    return out


def prog(pid, src):
    return {"id": pid, "files": {"p.mro": src}, "top": "p.mro"}


def corpus(tier, order_rows, rng, repo="/repo"):
    out = hand_cases()
    out += order_cases(order_rows, rng, 300 if tier == "quick" else 4000)
    fc = fmtcorpus.corpus(tier, repo)
    out += [c for c in fc if not c["id"].startswith("lit")]
    return out

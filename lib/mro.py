"""Abstract MRO programs (the JSON form shared with the TLA+ specifications,
see spec/MroSem.tla) and their rendering to .mro source text.

The renderer is mechanical and part of the trusted base.
"""
import json


# ----------------------------------------------------------------------------
# builders
# ----------------------------------------------------------------------------
def T(b, a=0, m=0, ia=0):
    """type: base name, array dim, typed-map flag, array dim inside the map"""
    return {"b": b, "a": a, "m": m, "ia": ia}


def parse_type(s):
    """'int', 'int[]', 'map<int[]>', 'map<ST>[]', 'map' (untyped)"""
    a = 0
    while s.endswith("[]"):
        s = s[:-2]
        a += 1
    if s.startswith("map<") and s.endswith(">"):
        inner = parse_type(s[4:-1])
        return T(inner["b"], a, 1, inner["a"])
    return T(s, a)


def type_str(t):
    s = t["b"]
    if t["m"]:
        s = "map<" + s + "[]" * t["ia"] + ">"
    return s + "[]" * t["a"]


def tag(v):
    """python value -> tagged value"""
    if v is None:
        return {"k": "null"}
    if isinstance(v, bool):
        return {"k": "bool", "b": v}
    if isinstance(v, int):
        return {"k": "int", "i": v}
    if isinstance(v, float):
        return {"k": "float", "f": repr(v)}
    if isinstance(v, str):
        return {"k": "str", "s": v}
    if isinstance(v, (list, tuple)):
        return {"k": "arr", "a": [tag(x) for x in v]}
    if isinstance(v, dict):
        if "k" in v and v["k"] in ("null", "bool", "int", "big", "float", "str", "arr", "obj", "file", "fstr"):
            return v
        return {"k": "obj", "o": {k: tag(x) for k, x in v.items()}}
    raise TypeError(v)


def untag(v):
    k = v["k"]
    if k == "null":
        return None
    if k == "bool":
        return v["b"]
    if k == "int":
        return v["i"]
    if k == "big":
        return int(v["s"])
    if k == "float":
        return float(v["f"])
    if k == "str":
        return v["s"]
    if k == "arr":
        return [untag(x) for x in v["a"]]
    if k == "obj":
        o = v["o"]
        if isinstance(o, list):      # ToJson of an empty function
            return {}
        return {kk: untag(x) for kk, x in o.items()}
    if k in ("file", "fstr"):
        return {"#file": "%s|%d|%s" % (v["p"], v["c"], v["n"])}
    raise TypeError(v)


def lit(v):
    return {"k": "lit", "v": tag(v)}


def self_(id, *path):
    return {"k": "self", "id": id, "path": list(path)}


def ref(call, out="", *path):
    return {"k": "ref", "call": call, "out": out, "path": list(path)}


def arrx(*es):
    return {"k": "arrx", "es": list(es)}


def objx(**fs):
    """struct literal"""
    return {"k": "objx", "fs": [{"n": k, "e": e} for k, e in fs.items()]}


def split(e):
    return {"k": "split", "e": e}


NONE = {"k": "none"}


def params(spec):
    """'int x, string[] y' or list of (name, type-string)"""
    if isinstance(spec, str):
        out = []
        for part in [p.strip() for p in spec.split(",") if p.strip()]:
            outname = ""
            if "=" in part:           # 'file f = custom.bin': explicit output name
                part, outname = [x.strip() for x in part.split("=", 1)]
            t, n = part.rsplit(" ", 1)
            out.append({"n": n, "t": parse_type(t.strip()), "outname": outname})
        return out
    return [{"n": n, "t": parse_type(t) if isinstance(t, str) else t, "outname": ""} for n, t in spec]


def const(v):
    return {"k": "const", "v": tag(v)}


def echo(src):
    return {"k": "echo", "src": src}


INST = {"k": "inst"}
FSTRS = {"k": "fstrs"}       # string[]: [null, path of a file, "not a path", path of a file]
FILES3D = {"k": "files3d"}   # a three-dimensional array of files with a null element and an empty row
FILES2D = {"k": "files2d"}   # a two-dimensional array of files: [[f, f], [f], []]


def FMAPK(*keys):
    """a typed map of files with the given keys"""
    return {"k": "fmapk", "keys": list(keys)}


def FMSTRUCTK(*keys):
    """a typed map of structs {file f; int n} with the given keys"""
    return {"k": "fmstructk", "keys": list(keys)}


def FILEODD(src):
    """a file when the int input `src` is odd, null otherwise"""
    return {"k": "fileodd", "src": src}


FILE = {"k": "file"}        # a file the job writes (scalar file-typed output)
FILES = {"k": "files"}      # an array of two files
FMAP = {"k": "fmap"}        # a typed map of two files
FSTR = {"k": "fstr"}        # a string holding the path of a file the job wrote
FINSIDE = {"k": "finside"}   # a file inside the directory that is the same stage's output `d`
FSO = {"k": "fso"}           # a struct {file f; file o} whose member o lies outside the pipestance
FSTRUCT = {"k": "fstruct"}
FMSTRUCT = {"k": "fmstruct"}  # a typed map of two structs {file f; int n}
FASTRUCT = {"k": "fastruct"}  # an array of two such structs
FDIR = {"k": "dir"}
FILES11 = {"k": "files11"}   # an array of eleven files (two-digit names under outs/)
FSHARDS = {"k": "fshards"}   # an array of two files the stage wrote as <out>_parts/0 and <out>_parts/2
FMISSING = {"k": "fmissing"}  # names a file the stage never wrote
FLINK = {"k": "flink"}
FPLINK = {"k": "fplink"}     # a relative symbolic link to the first file named in the arguments (pass-through)
FOUTSIDE = {"k": "foutside"} # a file the stage writes outside the pipestance directory
FDLINK = {"k": "fdlink"}     # a file below a symbolic link, placed in the files directory, to a directory of reference data elsewhere
FDLINK2 = {"k": "fdlink2"}   # ... reached through a second link (files/cur -> files/ref -> elsewhere)
FLINK2 = {"k": "flink2"}     # a chain of relative symbolic links through sub-directories
FSM = {"k": "fsm"}           # a struct {string label; map m; file f}       # a symbolic link to a file of the stage         # a directory (type path) with two files in it  # a struct {file f; int n}
CI = {"k": "ci"}


def collect(src):
    return {"k": "collect", "src": src}


def length(src):
    return {"k": "len", "src": src}


def stage(name, ins, outs, rules, split=False, chunks=None, couts=None, crules=None,
          volatile=None, retain=None, res=None):
    outs = params(outs)
    st = {"name": name, "ins": params(ins), "outs": outs,
          "rules": [{"n": o["n"], "r": rules[o["n"]]} for o in outs],
          "split": bool(split),
          "chunks": chunks or {"k": "fixed", "c": 1},
          "couts": [], "volatile": volatile or "", "retain": list(retain or [])}
    if res:
        st["res"] = [{"n": k, "v": str(v)} for k, v in res.items()]      # using (threads = .., mem_gb = ..)
    if split:
        co = params(couts or "")
        st["couts"] = [{"n": o["n"], "t": o["t"], "r": (crules or {})[o["n"]]} for o in co]
        if isinstance(chunks, int):
            st["chunks"] = {"k": "fixed", "c": chunks}
    return st


def call(id, callee=None, binds=None, dis=None, mode="none", pre=False, vol=False, local=False):
    return {"id": id, "callee": callee or id,
            "binds": [{"n": k, "e": e} for k, e in (binds or {}).items()],
            "dis": dis or NONE, "mode": mode, "pre": pre, "vol": vol, "local": local}


def pipeline(name, ins, outs, calls, ret, retain=None):
    return {"name": name, "ins": params(ins), "outs": params(outs), "calls": calls,
            "ret": [{"n": k, "e": e} for k, e in ret.items()], "retain": retain or []}


def struct(name, fields):
    return {"name": name, "fields": params(fields)}


def program(name, structs, stages, pipelines, top, args, filetypes=(), top_mode="none", top_split=()):
    """top_mode "array" / "map": the top-level call is a `map call` over the arguments named in
    top_split (given as whole collections)"""
    return {"name": name, "structs": structs, "stages": stages, "pipelines": pipelines,
            "filetypes": list(filetypes),
            "top": {"callee": top, "mode": top_mode,
                    "args": [{"n": k, "e": (split(lit(v)) if k in top_split else lit(v))} for k, v in args.items()]}}


# ----------------------------------------------------------------------------
# rendering
# ----------------------------------------------------------------------------
def q(s):
    return json.dumps(s, ensure_ascii=False)


def render_value(v, t=None, prog=None):
    """tagged literal value -> MRO literal.  Objects are rendered as struct
    literals when the (known) type is a struct, else as map literals."""
    k = v["k"]
    if k == "null":
        return "null"
    if k == "bool":
        return "true" if v["b"] else "false"
    if k == "int":
        return str(v["i"])
    if k == "big":
        return v["s"]
    if k == "float":
        return v["f"]
    if k == "str":
        return q(v["s"])
    if k == "arr":
        et = elem(t) if t else None
        return "[" + ", ".join(render_value(x, et, prog) for x in v["a"]) + "]"
    if k == "obj":
        o = v["o"] if isinstance(v["o"], dict) else {}
        if t and prog and is_struct(prog, t):
            ft = {f["n"]: f["t"] for f in struct_fields(prog, t["b"])}
            return "{" + ", ".join("%s: %s" % (kk, render_value(x, ft.get(kk), prog))
                                   for kk, x in o.items()) + "}"
        et = elem(t) if (t and t["m"]) else None
        return "{" + ", ".join("%s: %s" % (q(kk), render_value(x, et, prog))
                               for kk, x in sorted(o.items())) + "}"
    raise TypeError(v)


def outname_str(p):
    return (' "" %s' % q(p["outname"])) if p.get("outname") else ""


def elem(t):
    if t["a"] > 0:
        return dict(t, a=t["a"] - 1)
    if t["m"]:
        return T(t["b"], t["ia"])
    return None


def is_struct(prog, t):
    return t["a"] == 0 and t["m"] == 0 and any(s["name"] == t["b"] for s in prog["structs"])


def struct_fields(prog, name):
    for s in prog["structs"]:
        if s["name"] == name:
            return s["fields"]
    return []


def render_exp(e, t=None, prog=None):
    k = e["k"]
    if k == "lit":
        return render_value(e["v"], t, prog)
    if k == "self":
        return ".".join(["self", e["id"]] + e["path"])
    if k == "ref":
        return ".".join([e["call"]] + ([e["out"]] if e["out"] else []) + e["path"])
    if k == "arrx":
        et = elem(t) if t else None
        return "[" + ", ".join(render_exp(x, et, prog) for x in e["es"]) + "]"
    if k == "objx":
        if t and t.get("m") == 1 and not t.get("a"):
            # a literal for a typed map: quoted keys
            return "{" + ", ".join("%s: %s" % (json.dumps(f["n"]), render_exp(f["e"], None, prog)) for f in e["fs"]) + "}"
        ftypes = {f["n"]: f["t"] for f in struct_fields(prog, t["b"])} if (t and prog and is_struct(prog, t)) else {}
        return "{" + ", ".join("%s: %s" % (f["n"], render_exp(f["e"], ftypes.get(f["n"]), prog)) for f in e["fs"]) + "}"
    if k == "split":
        return "split " + render_exp(e["e"], None, prog)
    raise TypeError(e)


def render(prog, stage_src="vstage", invocation=True, include_call=True, stage_lang="exec"):
    out = []
    for ft in prog.get("filetypes", []):
        out.append("filetype %s;" % ft)
    if prog.get("filetypes"):
        out.append("")
    for s in prog["structs"]:
        out.append("struct %s(" % s["name"])
        for f in s["fields"]:
            out.append("    %s %s%s," % (type_str(f["t"]), f["n"], outname_str(f)))
        out.append(")\n")
    for st in prog["stages"]:
        out.append("stage %s(" % st["name"])
        for p in st["ins"]:
            out.append("    in  %s %s," % (type_str(p["t"]), p["n"]))
        for p in st["outs"]:
            out.append("    out %s %s%s," % (type_str(p["t"]), p["n"], outname_str(p)))
        out.append("    src %s %s," % (stage_lang, q(stage_src + " " + st["name"])))
        if st["split"]:
            out.append(") split (")
            if not st.get("nochunkparams"):
                out.append("    in  int ci,")
            for p in st["couts"]:
                out.append("    out %s %s," % (type_str(p["t"]), p["n"]))
        mods = []
        for r in st.get("res") or []:
            mods.append("    %s = %s," % (r["n"], r["v"]))
        if st.get("volatile"):
            mods.append("    volatile = %s," % st["volatile"])
        if mods:
            out.append(") using (")
            out += mods
        if st.get("retain"):
            out.append(") retain (")
            for r in st["retain"]:
                out.append("    %s," % r)
        out.append(")\n")
    for pl in prog["pipelines"]:
        out.append("pipeline %s(" % pl["name"])
        for p in pl["ins"]:
            out.append("    in  %s %s," % (type_str(p["t"]), p["n"]))
        for p in pl["outs"]:
            out.append("    out %s %s%s," % (type_str(p["t"]), p["n"], outname_str(p)))
        out.append(")\n{")
        for c in pl["calls"]:
            callee = callable_of(prog, c["callee"])
            pt = {p["n"]: p["t"] for p in callee["ins"]}
            head = ("map call " if c["mode"] != "none" else "call ") + c["callee"]
            if c["id"] != c["callee"]:
                head += " as " + c["id"]
            out.append("    %s(" % head)
            ws = c.get("wildsrc")
            covered = 0
            for b in c["binds"]:
                e = b["e"]
                if ws and ((ws == "self" and e["k"] == "self" and e["id"] == b["n"] and not e["path"]) or
                           (e["k"] == "ref" and e["call"] == ws and e["out"] == b["n"] and not e["path"])):
                    covered += 1       # supplied by the wildcard binding below
                    continue
                out.append("        %s = %s," % (b["n"], render_exp(b["e"], pt.get(b["n"]), prog)))
            if ws and covered:
                out.append("        * = %s," % ws)
            mods = []
            if c["dis"]["k"] != "none":
                mods.append("        disabled = %s," % render_exp(c["dis"]))
            if c.get("pre"):
                mods.append("        preflight = true,")
            if c.get("local"):
                mods.append("        local = true,")
            if c.get("vol"):
                mods.append("        volatile = true,")
            if mods:
                out.append("    ) using (")
                out += mods
            out.append("    )\n")
        ot = {p["n"]: p["t"] for p in pl["outs"]}
        out.append("    return (")
        for r in pl["ret"]:
            out.append("        %s = %s," % (r["n"], render_exp(r["e"], ot.get(r["n"]), prog)))
        out.append("    )")
        if pl.get("retain"):
            out.append("\n    retain (")
            for r in pl["retain"]:
                out.append("        %s," % render_exp(r))
            out.append("    )")
        out.append("}\n")
    if include_call:
        top = callable_of(prog, prog["top"]["callee"])
        pt = {p["n"]: p["t"] for p in top["ins"]}
        mapped = prog["top"].get("mode", "none") != "none"
        out.append("%scall %s(" % ("map " if mapped else "", prog["top"]["callee"]))
        for a in prog["top"]["args"]:
            t_ = pt.get(a["n"])
            if a["e"]["k"] == "split" and t_:
                # the collection that is split has one dimension more than the parameter
                t_ = dict(t_, a=t_["a"] + 1) if prog["top"]["mode"] == "array" else dict(t_, m=1, ia=t_["a"], a=0)
                out.append("    %s = split %s," % (a["n"], render_exp(a["e"]["e"], t_, prog)))
            else:
                out.append("    %s = %s," % (a["n"], render_exp(a["e"], t_, prog)))
        out.append(")")
    return "\n".join(out) + "\n"


def callable_of(prog, name):
    for s in prog["stages"]:
        if s["name"] == name:
            return s
    for p in prog["pipelines"]:
        if p["name"] == name:
            return p
    raise KeyError(name)

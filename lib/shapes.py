"""Catalogue of program shapes (abstract MRO programs, lib/mro.py form).

Each feature the runtime treats differently occurs at least once: nesting,
aliasing, producer kind, binding form, map mode x length source, disabling,
preflight, splitting with 0/1/2 chunks.
"""
import mro
from mro import (T, arrx, call, collect, const, echo, length, lit, objx, params, pipeline,
                 program, ref, self_, split, stage, struct, INST, CI, NONE)

# reusable stages ------------------------------------------------------------
def S_const(name, outs, vals):
    return stage(name, "", outs, {k: const(v) for k, v in vals.items()})


def S_echo(name, t="int", inn="x", out="y"):
    return stage(name, "%s %s" % (t, inn), "%s %s" % (t, out), {out: echo(inn)})


def S_inst(name, ins="int x", out="string y"):
    return stage(name, ins, out, {out.split()[-1]: INST})


def S_split(name, t="int[]", chunks=None):
    """splitting stage: chunk i echoes its index, join collects them"""
    return stage(name, "%s xs" % t, "int[] ys, int n", {"ys": collect("co"), "n": length("xs")},
                 split=True, chunks=chunks or {"k": "len", "src": "xs"},
                 couts="int co", crules={"co": CI})


def catalogue(big=False):
    """big: also the shapes with more than a hundred jobs (used where fork naming matters)"""
    P = []

    # 0. chain of two stages in which the consumer's name sorts before the producer's
    P.append(program("chain_rev", [], [S_const("ZFIRST", "int y", {"y": 7}), S_echo("ASECOND")],
                     [pipeline("TOP", "", "int o",
                               [call("ZFIRST"), call("ASECOND", binds={"x": ref("ZFIRST", "y")})],
                               {"o": ref("ASECOND", "y")})], "TOP", {}))
    # 1. chain of two stages
    P.append(program("chain", [], [S_const("A", "int y", {"y": 7}), S_echo("B")],
                     [pipeline("TOP", "", "int o",
                               [call("A"), call("B", binds={"x": ref("A", "y")})],
                               {"o": ref("B", "y")})], "TOP", {}))

    # 2. pipeline input, two independent branches joined
    P.append(program("diamond", [], [S_echo("A"), S_echo("B"), S_echo("C"),
                                     stage("D", "int a, int b", "int[] y", {"y": const([1])})],
                     [pipeline("TOP", "int x", "int[] o",
                               [call("A", binds={"x": self_("x")}),
                                call("B", binds={"x": ref("A", "y")}),
                                call("C", binds={"x": ref("A", "y")}),
                                call("D", binds={"a": ref("B", "y"), "b": ref("C", "y")})],
                               {"o": ref("D", "y")})], "TOP", {"x": 3}))

    # 3. sub-pipeline, consumer bound through the sub-pipeline's return value
    P.append(program("subpipe", [], [S_echo("A"), S_echo("B"), S_echo("C")],
                     [pipeline("SUB", "int x", "int y",
                               [call("A", binds={"x": self_("x")}),
                                call("B", binds={"x": ref("A", "y")})],
                               {"y": ref("B", "y")}),
                      pipeline("TOP", "int x", "int o",
                               [call("SUB", binds={"x": self_("x")}),
                                call("C", binds={"x": ref("SUB", "y")})],
                               {"o": ref("C", "y")})], "TOP", {"x": 5}))

    # 4. map over a static array literal from the invocation
    P.append(program("map_static", [], [S_echo("A"), stage("R", "int[] xs", "int n", {"n": length("xs")})],
                     [pipeline("TOP", "int[] xs", "int[] o, int n",
                               [call("A", binds={"x": split(self_("xs"))}, mode="array"),
                                call("R", binds={"xs": ref("A", "y")})],
                               {"o": ref("A", "y"), "n": ref("R", "n")})], "TOP", {"xs": [10, 11]}))

    # 4a'. sibling calls (stages and sub-pipelines) of which one's name starts with the other's
    P.append(program("prefix_names", [], [S_echo("STEP"), S_split("SPL")],
                     [pipeline("SUB", "int x", "int y", [call("STEP", binds={"x": self_("x")})], {"y": ref("STEP", "y")}),
                      pipeline("TOP", "int x, int[] xs", "int a, int b, int c, int d, int[] e, int[] f",
                               [call("STEP", binds={"x": self_("x")}),
                                call("STEP_TWO", "STEP", binds={"x": self_("x")}),
                                call("STEP_TWO_B", "STEP", binds={"x": ref("STEP_TWO", "y")}),
                                call("SUB", binds={"x": self_("x")}),
                                call("SUBX", "SUB", binds={"x": self_("x")}),
                                call("SPL", binds={"xs": self_("xs")}),
                                call("SPL2", "SPL", binds={"xs": self_("xs")})],
                               {"a": ref("STEP", "y"), "b": ref("STEP_TWO_B", "y"), "c": ref("SUB", "y"), "d": ref("SUBX", "y"),
                                "e": ref("SPL", "ys"), "f": ref("SPL2", "ys")})], "TOP", {"x": 1, "xs": [1, 2]}))

    # 4a". stages called with `local = true` (they run on the submit host in cluster mode and die
    #      with mrp), one of them splitting, next to ordinary ones
    P.append(program("local_stages", [], [S_echo("A"), S_echo("L"), S_split("LS"), S_echo("B")],
                     [pipeline("TOP", "int x, int[] xs", "int a, int b, int[] c",
                               [call("A", binds={"x": self_("x")}),
                                call("L", binds={"x": ref("A", "y")}, local=True),
                                call("LS", binds={"xs": self_("xs")}, local=True),
                                call("B", binds={"x": self_("x")})],
                               {"a": ref("L", "y"), "b": ref("B", "y"), "c": ref("LS", "ys")})], "TOP", {"x": 1, "xs": [1, 2]}))

    # 4b. a mapped stage (static and run-time forks) next to a stage that does not depend on it
    P.append(program("map_and_indep", [], [S_const("G", "int[] ys", {"ys": [4, 5, 6]}), S_echo("A"), S_echo("D"), S_echo("B")],
                     [pipeline("TOP", "int[] xs, int x", "int[] o, int[] p, int q",
                               [call("A", binds={"x": split(self_("xs"))}, mode="array"),
                                call("G"),
                                call("D", binds={"x": split(ref("G", "ys"))}, mode="array"),
                                call("B", binds={"x": self_("x")})],
                               {"o": ref("A", "y"), "p": ref("D", "y"), "q": ref("B", "y")})], "TOP", {"xs": [10, 11], "x": 3}))

    # 5. map over an array only known at run time (0, 1, 2 elements; null)
    for nm, val in (("dyn2", [4, 5]), ("dyn1", [9]), ("dyn0", []), ("dynnull", None)):
        P.append(program("map_" + nm, [], [S_const("G", "int[] ys", {"ys": val}), S_echo("A"),
                                          stage("R", "int[] xs", "int n", {"n": length("xs")})],
                         [pipeline("TOP", "", "int[] o, int n",
                                   [call("G"),
                                    call("A", binds={"x": split(ref("G", "ys"))}, mode="array"),
                                    call("R", binds={"xs": ref("A", "y")})],
                                   {"o": ref("A", "y"), "n": ref("R", "n")})], "TOP", {}))

    # 6. map over a typed map with run-time keys
    P.append(program("map_keys", [], [S_const("G", "map<int> m", {"m": {"a": 1, "b": 2}}), S_echo("A")],
                     [pipeline("TOP", "", "map<int> o",
                               [call("G"),
                                call("A", binds={"x": split(ref("G", "m"))}, mode="map")],
                               {"o": ref("A", "y")})], "TOP", {}))

    # 7. disabled by an upstream boolean (true / false), consumer of a disabled call
    for nm, flag in (("dis_true", True), ("dis_false", False)):
        P.append(program(nm, [], [S_const("F", "bool f", {"f": flag}), S_echo("A"), S_echo("B"),
                                  S_echo("C")],
                         [pipeline("TOP", "int x", "int o, int p",
                                   [call("F"),
                                    call("A", binds={"x": self_("x")}, dis=ref("F", "f")),
                                    call("B", binds={"x": ref("A", "y")}),
                                    call("C", binds={"x": self_("x")})],
                                   {"o": ref("B", "y"), "p": ref("C", "y")})], "TOP", {"x": 2}))

    # 7b. the consumer of the disabled call splits: its split, chunks and join all get the null
    P.append(program("dis_true_split", [],
                     [S_const("F", "bool f", {"f": True}), S_echo("A"),
                      stage("SJ", "int[] xs, int tag", "int[] ys, int t", {"ys": collect("co"), "t": echo("tag")},
                            split=True, chunks={"k": "len", "src": "xs"}, couts="int co", crules={"co": CI})],
                     [pipeline("TOP", "int x", "int[] o, int t",
                               [call("F"),
                                call("A", binds={"x": self_("x")}, dis=ref("F", "f")),
                                call("SJ", binds={"xs": lit([5, 6]), "tag": ref("A", "y")})],
                               {"o": ref("SJ", "ys"), "t": ref("SJ", "t")})], "TOP", {"x": 2}))

    # 8. disabled sub-pipeline containing stages
    P.append(program("dis_pipe", [], [S_echo("A"), S_echo("B")],
                     [pipeline("SUB", "int x", "int y",
                               [call("A", binds={"x": self_("x")}),
                                call("B", binds={"x": ref("A", "y")})], {"y": ref("B", "y")}),
                      pipeline("TOP", "int x, bool off", "int o",
                               [call("SUB", binds={"x": self_("x")}, dis=self_("off"))],
                               {"o": ref("SUB", "y")})], "TOP", {"x": 1, "off": True}))

    # 8b. stacked disabling conditions produced by different stages: the outer one true,
    #     the inner one false (nothing below may run, whichever flag arrives first)
    FLAG = lambda n, v: stage(n, "", "bool v", {"v": const(v)})
    P.append(program("dis_stacked", [], [S_echo("A"), S_echo("B"), FLAG("GO", True), FLAG("GI", False)],
                     [pipeline("SUB", "int x, bool d", "int y",
                               [call("A", binds={"x": self_("x")}, dis=self_("d")),
                                call("B", binds={"x": self_("x")})], {"y": ref("A", "y")}),
                      pipeline("TOP", "int x", "int o",
                               [call("GO"), call("GI"),
                                call("SUB", binds={"x": self_("x"), "d": ref("GI", "v")}, dis=ref("GO", "v"))],
                               {"o": ref("SUB", "y")})], "TOP", {"x": 1}))
    # 8b'. a conditionally disabled sub-pipeline hands one of its inputs straight through; the
    #      input comes from a stage outside it, the condition from a stage that is slow (two steps)
    for nm, v in (("dis_passthrough_true", True), ("dis_passthrough_false", False)):
        P.append(program(nm, [], [S_echo("A"), S_echo("W"), S_echo("C"), S_echo("S1"),
                                  stage("COND", "int x", "bool v", {"v": const(v)})],
                         [pipeline("SUB", "int y", "int y2, int w",
                                   [call("W", binds={"x": self_("y")})],
                                   {"y2": self_("y"), "w": ref("W", "y")}),
                          pipeline("TOP", "int x", "int o, int w",
                                   [call("A", binds={"x": self_("x")}),
                                    call("S1", binds={"x": self_("x")}),
                                    call("COND", binds={"x": ref("S1", "y")}),
                                    call("SUB", binds={"y": ref("A", "y")}, dis=ref("COND", "v")),
                                    call("C", binds={"x": ref("SUB", "y2")})],
                                   {"o": ref("C", "y"), "w": ref("SUB", "w")})], "TOP", {"x": 4}))
    # 8c. three nested pipelines each with its own run-time condition (all false), and two
    #     sibling calls with their own conditions inside: one disabled, one enabled
    for dname, fa, fb in (("dis_deep", True, False), ("dis_deep_ff", False, False), ("dis_deep_ft", False, True)):
      P.append(program(dname, [], [S_echo("A"), S_echo("B"), S_echo("C"), FLAG("F1", False), FLAG("F2", False), FLAG("F3", False),
                                     FLAG("FA", fa), FLAG("FB", fb)],
                     [pipeline("P3", "int x, bool da, bool db", "int y, int z",
                               [call("A", binds={"x": self_("x")}, dis=self_("da")),
                                call("B", binds={"x": self_("x")}, dis=self_("db")),
                                call("C", binds={"x": self_("x")})],
                               {"y": ref("A", "y"), "z": ref("B", "y")}),
                      pipeline("P2", "int x, bool d3, bool da, bool db", "int y, int z",
                               [call("P3", binds={"x": self_("x"), "da": self_("da"), "db": self_("db")}, dis=self_("d3"))],
                               {"y": ref("P3", "y"), "z": ref("P3", "z")}),
                      pipeline("P1", "int x, bool d2, bool d3, bool da, bool db", "int y, int z",
                               [call("P2", binds={"x": self_("x"), "d3": self_("d3"), "da": self_("da"), "db": self_("db")}, dis=self_("d2"))],
                               {"y": ref("P2", "y"), "z": ref("P2", "z")}),
                      pipeline("TOP", "int x", "int o, int p",
                               [call("F1"), call("F2"), call("F3"), call("FA"), call("FB"),
                                call("P1", binds={"x": self_("x"), "d2": ref("F2", "v"), "d3": ref("F3", "v"),
                                                  "da": ref("FA", "v"), "db": ref("FB", "v")}, dis=ref("F1", "v"))],
                               {"o": ref("P1", "y"), "p": ref("P1", "z")})], "TOP", {"x": 1}))

    # 8d. two nested disabled sub-pipelines whose conditions are different outputs of ONE
    #     stage (outer true, inner false); the consumed value passes through the inner one
    P.append(program("dis_same_stage", [],
                     [stage("D", "", "bool t, bool f", {"t": const(True), "f": const(False)}), S_echo("W"), S_echo("CONS")],
                     [pipeline("SUBI", "int x", "int y, int w",
                               [call("W", binds={"x": self_("x")})], {"y": self_("x"), "w": ref("W", "y")}),
                      pipeline("SUBO", "int x, bool di", "int y, int w",
                               [call("SUBI", binds={"x": self_("x")}, dis=self_("di"))],
                               {"y": ref("SUBI", "y"), "w": ref("SUBI", "w")}),
                      pipeline("TOP", "int x", "int o, int p",
                               [call("D"),
                                call("SUBO", binds={"x": self_("x"), "di": ref("D", "f")}, dis=ref("D", "t")),
                                call("CONS", binds={"x": ref("SUBO", "y")})],
                               {"o": ref("CONS", "y"), "p": ref("SUBO", "w")})], "TOP", {"x": 5}))
    # 8e. two-dimensional array of structs from a stage bound to a narrower struct; the
    #     last row needs no narrowing
    P.append(program("narrow2d", [struct("BIG", "int a, int b, int c"), struct("SMALL", "int a, int b")],
                     [S_const("MK", "BIG[][] rows, map<BIG[]> byk",
                              {"rows": [[{"a": 1, "b": 2, "c": 3}, {"a": 4, "b": 5, "c": 6}], []],
                               "byk": {"k1": [{"a": 1, "b": 2, "c": 3}], "k2": []}}),
                      stage("USE", "SMALL[][] rows, map<SMALL[]> byk", "int n", {"n": const(1)})],
                     [pipeline("TOP", "", "int n",
                               [call("MK"), call("USE", binds={"rows": ref("MK", "rows"), "byk": ref("MK", "byk")})],
                               {"n": ref("USE", "n")})], "TOP", {}))

    # 8f. a pipeline with its own preflight that contains a sub-pipeline with a preflight and a
    #     stage whose inputs do not come from any top-level stage
    P.append(program("preflight_nested", [], [stage("CHK", "int v", "", {}), S_echo("W"), S_echo("V")],
                     [pipeline("INNER", "int x", "int y",
                               [call("ICHK", "CHK", binds={"v": lit(2)}, pre=True),
                                call("W", binds={"x": lit(7)}),
                                call("V", binds={"x": self_("x")})],
                               {"y": ref("W", "y")}),
                      pipeline("TOP", "int x", "int o",
                               [call("CHK", binds={"v": lit(1)}, pre=True),
                                call("INNER", binds={"x": self_("x")})],
                               {"o": ref("INNER", "y")})], "TOP", {"x": 1}))
    # 8g. a call in a mapped pipeline disabled by the element of a flag array whose producer is
    #     not the producer of the data
    P.append(program("dis_split_flag", [],
                     [stage("FLAGS", "", "bool[] skips", {"skips": const([True, False])}),
                      stage("DATA", "", "int[] xs", {"xs": const([10, 20])}), S_echo("WORK")],
                     [pipeline("INNER", "int x, bool skip", "int y",
                               [call("WORK", binds={"x": self_("x")}, dis=self_("skip"))],
                               {"y": self_("x")}),
                      pipeline("TOP", "", "int[] o",
                               [call("FLAGS"), call("DATA"),
                                call("INNER", binds={"x": split(ref("DATA", "xs")), "skip": split(ref("FLAGS", "skips"))}, mode="array")],
                               {"o": ref("INNER", "y")})], "TOP", {}))

    # 8g'. a sub-pipeline inside the mapped pipeline is disabled by the element's flag; a stage in it
    #      takes only constants, so that the inherited condition alone ties it to the mapped call
    for nm, flags in (("dis_split_flag_const", [True, False, False]), ("dis_split_flag_const_all", [True, True])):
        P.append(program(nm, [],
                         [stage("FLAGS", "", "bool[] skips", {"skips": const(flags)}),
                          stage("DATA", "", "int[] xs", {"xs": const([10, 20, 30][:len(flags)])}), S_echo("WORK"), S_echo("K")],
                         [pipeline("INNER", "int x", "",
                                   [call("WORK", binds={"x": self_("x")}),
                                    call("K", binds={"x": lit(5)})], {}),
                          pipeline("MID", "int x, bool skip", "",
                                   [call("INNER", binds={"x": self_("x")}, dis=self_("skip"))], {}),
                          pipeline("TOP", "", "",
                                   [call("FLAGS"), call("DATA"),
                                    call("MID", binds={"x": split(ref("DATA", "xs")), "skip": split(ref("FLAGS", "skips"))}, mode="array")],
                                   {})], "TOP", {}))

    # 8g". the same with outputs handed up through both pipelines
    P.append(program("dis_split_flag_sub_out", [],
                     [stage("FLAGS", "", "bool[] skips", {"skips": const([True, False])}),
                      stage("DATA", "", "int[] xs", {"xs": const([10, 20])}), S_echo("WORK")],
                     [pipeline("INNER", "int x", "int y",
                               [call("WORK", binds={"x": self_("x")})], {"y": ref("WORK", "y")}),
                      pipeline("MID", "int x, bool skip", "int y",
                               [call("INNER", binds={"x": self_("x")}, dis=self_("skip"))], {"y": ref("INNER", "y")}),
                      pipeline("TOP", "", "int[] o",
                               [call("FLAGS"), call("DATA"),
                                call("MID", binds={"x": split(ref("DATA", "xs")), "skip": split(ref("FLAGS", "skips"))}, mode="array")],
                               {"o": ref("MID", "y")})], "TOP", {}))

    P.append(program("dis_split_flag_const_out", [],
                     [stage("FLAGS", "", "bool[] skips", {"skips": const([True, False])}),
                      stage("DATA", "", "int[] xs", {"xs": const([10, 20])}), S_echo("WORK"), S_echo("K")],
                     [pipeline("INNER", "int x", "int y, int k",
                               [call("WORK", binds={"x": self_("x")}),
                                call("K", binds={"x": lit(5)})], {"y": ref("WORK", "y"), "k": ref("K", "y")}),
                      pipeline("MID", "int x, bool skip", "int y, int k",
                               [call("INNER", binds={"x": self_("x")}, dis=self_("skip"))], {"y": ref("INNER", "y"), "k": ref("INNER", "k")}),
                      pipeline("TOP", "", "int[] o, int[] k",
                               [call("FLAGS"), call("DATA"),
                                call("MID", binds={"x": split(ref("DATA", "xs")), "skip": split(ref("FLAGS", "skips"))}, mode="array")],
                               {"o": ref("MID", "y"), "k": ref("MID", "k")})], "TOP", {}))

    # 8h. the same, the mapped pipeline returning the output of the conditionally disabled call
    P.append(program("dis_split_flag_out", [],
                     [stage("FLAGS", "", "bool[] skips", {"skips": const([True, False])}),
                      stage("DATA", "", "int[] xs", {"xs": const([10, 20])}), S_echo("WORK")],
                     [pipeline("INNER", "int x, bool skip", "int y",
                               [call("WORK", binds={"x": self_("x")}, dis=self_("skip"))],
                               {"y": ref("WORK", "y")}),
                      pipeline("TOP", "", "int[] o",
                               [call("FLAGS"), call("DATA"),
                                call("INNER", binds={"x": split(ref("DATA", "xs")), "skip": split(ref("FLAGS", "skips"))}, mode="array")],
                               {"o": ref("INNER", "y")})], "TOP", {}))

    # 8i. per-element flags given as a literal array that mixes literal false with references
    #     to stage outputs (true / false at run time), directly and as members of struct literals
    for nm, flags in (("dis_lit_flag_ref", ("F", "T")), ("dis_lit_flag_ref2", ("T", "F", "F"))):
        fl = mro.arrx(*([lit(False)] + [ref("FL", "t" if f == "T" else "f") for f in flags]))
        xs = lit(list(range(10, 10 + 10 * (len(flags) + 1), 10)))
        P.append(program(nm, [],
                         [stage("FL", "", "bool t, bool f", {"t": const(True), "f": const(False)}), S_echo("WORK")],
                         [pipeline("INNER", "int x, bool skip", "int y",
                                   [call("WORK", binds={"x": self_("x")}, dis=self_("skip"))],
                                   {"y": ref("WORK", "y")}),
                          pipeline("TOP", "", "int[] o",
                                   [call("FL"),
                                    call("INNER", binds={"x": split(xs), "skip": split(fl)}, mode="array")],
                                   {"o": ref("INNER", "y")})], "TOP", {}))
    # ... and flags that are all literals, mixing true and false (no reference at all)
    P.append(program("dis_lit_flags", [],
                     [S_echo("WORK")],
                     [pipeline("INNER", "int x, bool skip", "int y",
                               [call("WORK", binds={"x": self_("x")}, dis=self_("skip"))],
                               {"y": ref("WORK", "y")}),
                      pipeline("TOP", "", "int[] o",
                               [call("INNER", binds={"x": split(lit([10, 20, 30])), "skip": split(lit([False, True, False]))}, mode="array")],
                               {"o": ref("INNER", "y")})], "TOP", {}))
    P.append(program("dis_lit_struct_flag", [struct("ITEM", "int v, bool skip")],
                     [stage("FL", "", "bool t, bool f", {"t": const(True), "f": const(False)}), S_echo("WORK")],
                     [pipeline("INNER", "ITEM item", "int y",
                               [call("WORK", binds={"x": self_("item", "v")}, dis=self_("item", "skip"))],
                               {"y": ref("WORK", "y")}),
                      pipeline("TOP", "", "int[] o",
                               [call("FL"),
                                call("INNER", binds={"item": split(mro.arrx(mro.objx(v=lit(1), skip=lit(False)),
                                                                            mro.objx(v=lit(2), skip=ref("FL", "t")),
                                                                            mro.objx(v=lit(3), skip=ref("FL", "f"))))}, mode="array")],
                               {"o": ref("INNER", "y")})], "TOP", {}))

    # 9. splitting stage with run-time chunk count 2 / 0 and a consumer
    for nm, val in (("split2", [1, 2]), ("split0", []), ("split1", [5]), ("split10", list(range(10)))):
        P.append(program(nm, [], [S_split("S"), stage("R", "int[] xs", "int n", {"n": length("xs")})],
                         [pipeline("TOP", "int[] xs", "int[] o, int n, int m",
                                   [call("S", binds={"xs": self_("xs")}),
                                    call("R", binds={"xs": ref("S", "ys")})],
                                   {"o": ref("S", "ys"), "n": ref("S", "n"), "m": ref("R", "n")})],
                         "TOP", {"xs": val}))

    # 9a'. a splitting stage next to a stage that does not depend on it
    P.append(program("split_and_indep", [], [S_split("S"), S_echo("B")],
                     [pipeline("TOP", "int[] xs, int x", "int[] o, int n, int q",
                               [call("S", binds={"xs": self_("xs")}),
                                call("B", binds={"x": self_("x")})],
                               {"o": ref("S", "ys"), "n": ref("S", "n"), "q": ref("B", "y")})],
                     "TOP", {"xs": [1, 2], "x": 3}))

    # 9b. a splitting stage mapped over a typed map / an array only known at run time
    for nm, val, t, mode in (("map_dynkeys_split", {"k1": [1, 2], "k2": [3, 4, 5]}, "map<int[]>", "map"),
                             ("map_dynarr_split", [[1, 2], [3, 4, 5]], "int[][]", "array")):
        P.append(program(nm, [], [S_const("G", "%s m" % t, {"m": val}), S_split("S")],
                         [pipeline("TOP", "", "%s o" % ("map<int>" if mode == "map" else "int[]"),
                                   [call("G"), call("S", binds={"xs": split(ref("G", "m"))}, mode=mode)],
                                   {"o": ref("S", "n")})], "TOP", {}))

    # 10. preflight in the top pipeline and a sub-pipeline below it
    P.append(program("preflight", [], [stage("CHK", "int x", "", {}), S_echo("A"), S_echo("B")],
                     [pipeline("SUB", "int x", "int y", [call("A", binds={"x": self_("x")})],
                               {"y": ref("A", "y")}),
                      pipeline("TOP", "int x", "int o",
                               [call("CHK", binds={"x": self_("x")}, pre=True),
                                call("SUB", binds={"x": self_("x")}),
                                call("B", binds={"x": ref("SUB", "y")})],
                               {"o": ref("B", "y")})], "TOP", {"x": 4}))

    # 10b. the preflight call written after a stage call and after a call of a sub-pipeline
    P.append(program("preflight_last", [], [stage("CHK", "int x", "", {}), S_echo("A"), S_echo("B"), S_echo("D")],
                     [pipeline("SUB", "int x", "int y", [call("A", binds={"x": self_("x")})],
                               {"y": ref("A", "y")}),
                      pipeline("TOP", "int x", "int o, int p",
                               [call("D", binds={"x": self_("x")}),
                                call("SUB", binds={"x": self_("x")}),
                                call("CHK", binds={"x": self_("x")}, pre=True),
                                call("B", binds={"x": ref("SUB", "y")})],
                               {"o": ref("B", "y"), "p": ref("D", "y")})], "TOP", {"x": 4}))

    # 11. mapped sub-pipeline over a run-time array, stages chained inside
    P.append(program("map_pipe", [], [S_const("G", "int[] ys", {"ys": [1, 2]}), S_echo("A"), S_echo("B")],
                     [pipeline("SUB", "int x", "int y",
                               [call("A", binds={"x": self_("x")}),
                                call("B", binds={"x": ref("A", "y")})], {"y": ref("B", "y")}),
                      pipeline("TOP", "", "int[] o",
                               [call("G"),
                                call("SUB", binds={"x": split(ref("G", "ys"))}, mode="array")],
                               {"o": ref("SUB", "y")})], "TOP", {}))

    # 12. struct projection through an array and struct narrowing, aliases
    P.append(program("structs",
                     [struct("W", "int a, string b, int c"), struct("N", "int a, string b")],
                     [S_const("G", "W[] ws, W w", {"ws": [{"a": 1, "b": "x", "c": 9}, {"a": 2, "b": "y", "c": 8}],
                                                   "w": {"a": 3, "b": "z", "c": 7}}),
                      stage("U", "int[] av, N n", "int k", {"k": length("av")}),
                      S_echo("E", "N", "n", "m")],
                     [pipeline("TOP", "", "int k, N m, string[] bs",
                               [call("G"),
                                call("U", binds={"av": ref("G", "ws", "a"), "n": ref("G", "w")}),
                                call("E1", "E", binds={"n": ref("G", "w")})],
                               {"k": ref("U", "k"), "m": ref("E1", "m"), "bs": ref("G", "ws", "b")})],
                     "TOP", {}))
    # 13. splitting stage without declared chunk outputs: the chunks report through
    #     the stage-level output fields and the join reads them from chunk_outs
    P.append(program("split_nocouts", [],
                     [stage("S", "int[] xs", "int[] ys, int v", {"ys": collect("v"), "v": const(0)},
                            split=True, chunks={"k": "len", "src": "xs"}, couts="", crules={},
                            ),
                      stage("R", "int[] xs", "int n", {"n": length("xs")})],
                     [pipeline("TOP", "int[] xs", "int[] o, int n",
                               [call("S", binds={"xs": self_("xs")}),
                                call("R", binds={"xs": ref("S", "ys")})],
                               {"o": ref("S", "ys"), "n": ref("R", "n")})], "TOP", {"xs": [7, 8, 9]}))

    # 13b. splitting stage with chunk outputs but no stage-level output at all (the join
    #      still has to be handed the chunk outputs), next to an ordinary stage
    P.append(program("split_noouts", [],
                     [stage("S", "int[] xs", "", {}, split=True, chunks={"k": "len", "src": "xs"},
                            couts="int co, string tag", crules={"co": CI, "tag": INST}),
                      stage("R", "int[] xs", "int n", {"n": length("xs")})],
                     [pipeline("TOP", "int[] xs", "int n",
                               [call("S", binds={"xs": self_("xs")}),
                                call("R", binds={"xs": self_("xs")})],
                               {"n": ref("R", "n")})], "TOP", {"xs": [7, 8, 9]}))

    # 13c. a splitting stage that returns nothing at all, neither from its chunks nor from its
    #      join (it is run for its side effects), with three chunks
    P.append(program("split_nothing", [],
                     [stage("S", "int[] xs", "", {}, split=True, chunks={"k": "len", "src": "xs"}, couts="", crules={}),
                      stage("R", "int[] xs", "int n", {"n": length("xs")})],
                     [pipeline("TOP", "int[] xs", "int n",
                               [call("S", binds={"xs": self_("xs")}),
                                call("R", binds={"xs": self_("xs")})],
                               {"n": ref("R", "n")})], "TOP", {"xs": [7, 8, 9]}))

    # 13d. ... and that has no chunks either (for one fork of two)
    P.append(program("split_nothing_zero", [],
                     [stage("S", "int[] xs", "", {}, split=True, chunks={"k": "len", "src": "xs"}, couts="", crules={}),
                      stage("R", "int[] xs", "int n", {"n": length("xs")})],
                     [pipeline("TOP", "int[][] xss, int[] none", "int n",
                               [call("S", binds={"xs": split(self_("xss"))}, mode="array"),
                                call("S0", "S", binds={"xs": self_("none")}),
                                call("R", binds={"xs": self_("none")})],
                               {"n": ref("R", "n")})], "TOP", {"xss": [[], [7, 8]], "none": []}))

    # 13e. typed-map keys that need escaping in JSON (a backslash followed by a letter, a quote, a
    #      tab) reaching consumers through a mapped call, a projection and the top-level outputs
    P.append(program("map_keys_escapes", [struct("KV", "int v, string s")],
                     [S_const("G", "map<int> m, map<KV> kv", {"m": {"back\\tslash": 1, "quo\"te": 2, "tab\there": 3},
                                                               "kv": {"a\\nb": {"v": 1, "s": "x"}, "q\"": {"v": 2, "s": "y"}}}),
                      S_echo("A"), S_echo("NAMES", "map<int>", "m", "o"), S_echo("VS", "map<int>", "m", "o")],
                     [pipeline("TOP", "", "map<int> o, map<int> p, map<int> q",
                               [call("G"),
                                call("A", binds={"x": split(ref("G", "m"))}, mode="map"),
                                call("NAMES", binds={"m": ref("A", "y")}),
                                call("VS", binds={"m": ref("G", "kv", "v")})],
                               {"o": ref("NAMES", "o"), "p": ref("A", "y"), "q": ref("VS", "o")})], "TOP", {}))

    # 13f. a pipeline mapped over a run-time array of four; inside, a call mapped over a literal
    #      array whose merged result a sibling stage takes (only that stage's result is returned)
    P.append(program("map_dyn_inner_sum", [],
                     [S_const("G", "int[] ys", {"ys": [1, 2, 3, 4]}), stage("CELL", "int a, int b", "string r", {"r": INST}),
                      S_echo("SUM", "string[]", "what", "all")],
                     [pipeline("INNER", "int x, int[] row", "string[] all",
                               [call("CELL", binds={"a": self_("x"), "b": split(self_("row"))}, mode="array"),
                                call("SUM", binds={"what": ref("CELL", "r")})],
                               {"all": ref("SUM", "all")}),
                      pipeline("TOP", "", "string[][] o",
                               [call("G"),
                                call("INNER", binds={"x": split(ref("G", "ys")), "row": lit([7, 8, 9])}, mode="array")],
                               {"o": ref("INNER", "all")})], "TOP", {}))

    # 13f'. ... the inner call mapped over the output of a stage inside the mapped pipeline (lengths
    #       equal for every outer element: differing lengths are a recorded finding)
    P.append(program("nestdyn_sum", [],
                     [S_const("G", "int[] ns", {"ns": [2, 2, 2, 2]}), stage("MK2", "int n", "int[] arr", {"arr": {"k": "arrn", "src": "n"}}),
                      S_echo("X"), S_echo("SUM", "int[]", "what", "all")],
                     [pipeline("SUB", "int n", "int[] all",
                               [call("MK2", binds={"n": self_("n")}),
                                call("X", binds={"x": split(ref("MK2", "arr"))}, mode="array"),
                                call("SUM", binds={"what": ref("X", "y")})],
                               {"all": ref("SUM", "all")}),
                      pipeline("TOP", "", "int[][] o",
                               [call("G"), call("SUB", binds={"n": split(ref("G", "ns"))}, mode="array")],
                               {"o": ref("SUB", "all")})], "TOP", {}))

    # 13f". a call mapped over an output of a call that may be disabled at run time (it is not / it is)
    P.extend(map_over_disabled_producer())
    P.extend(round8_shapes())

    # 13g. a preflight stage inside a mapped sub-pipeline that takes the mapped element: one
    #      preflight job per fork, each fork's calls wait for (at least) their own
    P.append(program("preflight_forked", [], [stage("CHK", "int x", "", {}), S_echo("W")],
                     [pipeline("SUB", "int v", "int y",
                               [call("CHK", binds={"x": self_("v")}, pre=True),
                                call("W", binds={"x": self_("v")})], {"y": ref("W", "y")}),
                      pipeline("TOP", "int[] vs", "int[] o",
                               [call("SUB", binds={"v": split(self_("vs"))}, mode="array")],
                               {"o": ref("SUB", "y")})], "TOP", {"vs": [5, 6, 7]}))

    # 14. two mapped levels: the inner map call splits the output of a stage that is
    #     itself forked by the outer map call
    P.append(program("map_nested", [],
                     [stage("MK", "int n", "int[] arr", {"arr": const([3, 4])}), S_echo("X"),
                      stage("MK2", "int n", "int[] arr", {"arr": INST_ARR()})],
                     [pipeline("SUB", "int n", "int[] ys",
                               [call("MK2", binds={"n": self_("n")}),
                                call("X", binds={"x": split(ref("MK2", "arr"))}, mode="array")],
                               {"ys": ref("X", "y")}),
                      pipeline("TOP", "int[] ns", "int[][] o",
                               [call("SUB", binds={"n": split(self_("ns"))}, mode="array")],
                               {"o": ref("SUB", "ys")})], "TOP", {"ns": [1, 2]}))

    # 14b. the same with an empty inner collection in the first / the last outer fork
    for nm, ns in (("map_nested_e1", [0, 2]), ("map_nested_e2", [2, 0])):
        P.append(program(nm, [],
                         [S_echo("X"), stage("MK2", "int n", "int[] arr", {"arr": {"k": "arrn", "src": "n"}})],
                         [pipeline("SUB", "int n", "int[] ys",
                                   [call("MK2", binds={"n": self_("n")}),
                                    call("X", binds={"x": split(ref("MK2", "arr"))}, mode="array")],
                                   {"ys": ref("X", "y")}),
                          pipeline("TOP", "int[] ns", "int[][] o",
                                   [call("SUB", binds={"n": split(self_("ns"))}, mode="array")],
                                   {"o": ref("SUB", "ys")})], "TOP", {"ns": ns}))

    # 14b'. inner collections of different lengths (one element first / last, three outer forks);
    #       the results of the inner call are not returned (merging results of different
    #       lengths is the recorded finding nest_static_ragged)
    for nm, ns in (("map_nested_noret_13", [1, 3]), ("map_nested_noret_31", [3, 1]), ("map_nested_noret_212", [2, 1, 2]),
                   ("map_nested_noret_12", [1, 2])):
        P.append(program(nm, [],
                         [S_echo("X"), stage("MK2", "int n", "int[] arr", {"arr": {"k": "arrn", "src": "n"}})],
                         [pipeline("SUB", "int n", "int k",
                                   [call("MK2", binds={"n": self_("n")}),
                                    call("X", binds={"x": split(ref("MK2", "arr"))}, mode="array")],
                                   {"k": self_("n")}),
                          pipeline("TOP", "int[] ns", "int[] o",
                                   [call("SUB", binds={"n": split(self_("ns"))}, mode="array")],
                                   {"o": ref("SUB", "k")})], "TOP", {"ns": ns}))

    # 14c. statically nested mapped calls over every combination of array and typed map,
    #      the inner collection handed down unchanged
    for nm, outer, inner, om, im in (("nest_arr_map", [1, 2], {"x": 10, "y": 20}, "array", "map"),
                                      ("nest_map_arr", {"p": 1, "q": 2}, [10, 20], "map", "array"),
                                      ("nest_arr_arr", [1, 2], [10, 20, 30], "array", "array"),
                                      ) + ((
                                      # more than a hundred combined forks: three-digit, zero-padded fork names
                                      ("nest_arr_arr_110", list(range(11)), list(range(100, 110)), "array", "array"),) if big else ()):
        ot = "int[]" if om == "array" else "map<int>"
        it = "int[]" if im == "array" else "map<int>"
        rt = ("int" + ("[]" if im == "array" else "")) if False else None
        inner_out = "int[]" if im == "array" else "map<int>"
        if om == "array":
            top_out = inner_out + "[]"
        else:
            top_out = "map<%s>" % inner_out
        P.append(program(nm, [], [stage("ADD", "int a, int b", "string r", {"r": INST})],
                         [pipeline("SUB", "int n, %s inner" % it, "%s rs" % ("string[]" if im == "array" else "map<string>"),
                                   [call("ADD", binds={"a": self_("n"), "b": split(self_("inner"))}, mode=im)],
                                   {"rs": ref("ADD", "r")}),
                          pipeline("TOP", "%s outer, %s inner" % (ot, it),
                                   "%s o" % (("string[]" if im == "array" else "map<string>") + "[]" if om == "array"
                                             else "map<%s>" % ("string[]" if im == "array" else "map<string>")),
                                   [call("SUB", binds={"n": split(self_("outer")), "inner": self_("inner")}, mode=om)],
                                   {"o": ref("SUB", "rs")})], "TOP", {"outer": outer, "inner": inner}))

    # 14d. map inside map (the results cannot be returned: maps of maps are not a type), with keys
    #      whose encodings concatenate to the same text: (a, b/fork_c) and (a/fork_b, c)
    P.append(program("nest_map_map", [], [stage("ADD", "int a, int b", "string r", {"r": INST})],
                     [pipeline("SUB", "int n, map<int> inner", "int k",
                               [call("ADD", binds={"a": self_("n"), "b": split(self_("inner"))}, mode="map")],
                               {"k": self_("n")}),
                      pipeline("TOP", "map<int> outer, map<int> inner", "map<int> o",
                               [call("SUB", binds={"n": split(self_("outer")), "inner": self_("inner")}, mode="map")],
                               {"o": ref("SUB", "k")})], "TOP",
                     {"outer": {"a": 1, "a/fork_b": 2}, "inner": {"b/fork_c": 10, "c": 20}}))

    # 14e. a mapped pipeline whose only return value is a literal; a run-time outer map with a
    #      static inner one
    P.append(program("map_pipe_literal", [], [S_const("G", "int[] ys", {"ys": [1, 2, 3]}), S_echo("A")],
                     [pipeline("SUB", "int x", "int k, int y",
                               [call("A", binds={"x": self_("x")})], {"k": lit(7), "y": ref("A", "y")}),
                      pipeline("SUBL", "int x", "int k",
                               [call("A", binds={"x": self_("x")})], {"k": lit(7)}),
                      pipeline("TOP", "", "int[] ks, int[] ys, int[] ls",
                               [call("G"), call("SUB", binds={"x": split(ref("G", "ys"))}, mode="array"),
                                call("SUBL", binds={"x": split(ref("G", "ys"))}, mode="array")],
                               {"ks": ref("SUB", "k"), "ys": ref("SUB", "y"), "ls": ref("SUBL", "k")})], "TOP", {}))
    P.append(program("map_dyn_static", [], [S_const("G", "int[] ys", {"ys": [1, 2, 3]}), stage("ADD", "int a, int b", "string r", {"r": INST})],
                     [pipeline("SUB", "int n", "string[] rs",
                               [call("ADD", binds={"a": self_("n"), "b": split(lit([10, 20]))}, mode="array")],
                               {"rs": ref("ADD", "r")}),
                      pipeline("TOP", "", "string[][] o",
                               [call("G"), call("SUB", binds={"n": split(ref("G", "ys"))}, mode="array")],
                               {"o": ref("SUB", "rs")})], "TOP", {}))

    # 14f. a pipeline mapped over the result of another mapped call hands one of its inputs
    #      straight through; the consumer of that output has no other tie to the mapped calls
    P.append(program("map_chain_passthrough", [],
                     [S_const("GEN", "int[] ys", {"ys": [1, 2, 3]}), S_echo("Q"), S_echo("W"), S_const("SLOW", "int y", {"y": 9}),
                      stage("CONS", "int[] ts, int s", "string r", {"r": INST})],
                     [pipeline("P", "int x, int tag", "int o, int t",
                               [call("W", binds={"x": self_("x")})], {"o": ref("W", "y"), "t": self_("tag")}),
                      pipeline("TOP", "", "string r, int[] os",
                               [call("GEN"), call("Q", binds={"x": split(ref("GEN", "ys"))}, mode="array"),
                                call("P", binds={"x": split(ref("Q", "y")), "tag": lit(5)}, mode="array"),
                                call("SLOW"),
                                call("CONS", binds={"ts": ref("P", "t"), "s": ref("SLOW", "y")})],
                               {"r": ref("CONS", "r"), "os": ref("P", "o")})], "TOP", {}))

    # 14g. a splitting stage mapped over a literal array inside a pipeline mapped over a run-time
    #      array: the forks of the stage are appended out of numeric order (fork0, fork2, fork1, ...)
    P.append(program("map_dyn_static_split", [], [S_const("G", "int[] ys", {"ys": [1, 2, 3]}), S_split("S")],
                     [pipeline("SUB", "int n", "int k",
                               [call("S", binds={"xs": split(lit([[1, 2], [3], [4, 5, 6]]))}, mode="array")],
                               {"k": self_("n")}),
                      pipeline("TOP", "", "int[] o",
                               [call("G"), call("SUB", binds={"n": split(ref("G", "ys"))}, mode="array")],
                               {"o": ref("SUB", "k")})], "TOP", {}))

    # 14h. the collection a call is mapped over comes from a stage that also returns a scalar
    P.append(program("map_dyn_two_outs", [],
                     [S_const("G", "int[] ys, int count", {"ys": [1, 2], "count": 2}), S_echo("A"),
                      stage("R", "int[] xs, int n", "int m", {"m": length("xs")})],
                     [pipeline("TOP", "", "int[] o, int m",
                               [call("G"), call("A", binds={"x": split(ref("G", "ys"))}, mode="array"),
                                call("R", binds={"xs": ref("A", "y"), "n": ref("G", "count")})],
                               {"o": ref("A", "y"), "m": ref("R", "m")})], "TOP", {}))

    # 15. typed maps with keys that stress fork naming and journal routing
    for nm, keys in (("keys_suffix", ["a_b", "b"]), ("keys_encoded", ["a b", "a%20b"]),
                     ("keys_dots", ["k.1", "k/1", "%2E"]), ("keys_fork", ["fork1", "chnk0", "u0123456789"])):
        P.append(program(nm, [], [S_const("G", "map<int> m", {"m": {k: i + 1 for i, k in enumerate(keys)}}), S_echo("A")],
                         [pipeline("TOP", "", "map<int> o",
                                   [call("G"),
                                    call("A", binds={"x": split(ref("G", "m"))}, mode="map")],
                                   {"o": ref("A", "y")})], "TOP", {}))

    # 15b. a call mapped at run time over a member projected through a typed map of structs
    #      (eight keys: their order must not depend on how the runtime holds the map)
    P.append(program("map_projkeys", [struct("TH", "string name, int v")],
                     [S_const("MAKE", "map<TH> things", {"things": {k: {"name": "n" + k, "v": i} for i, k in
                                                               enumerate(["q", "b", "zz", "a", "m", "k2", "c", "Z"])}}), S_echo("USE")],
                     [pipeline("TOP", "", "map<int> o",
                               [call("MAKE"), call("USE", binds={"x": split(ref("MAKE", "things", "v"))}, mode="map")],
                               {"o": ref("USE", "y")})], "TOP", {}))

    # 15c. a member projected through a typed-map literal one of whose keys is spelled like the member
    P.append(program("proj_map_keyfield", [struct("PT", "int a, int b")],
                     [stage("USE", "map<int> vals, map<int> other", "string r", {"r": INST})],
                     [pipeline("SUB", "map<PT> m", "string r, map<int> bs",
                               [call("USE", binds={"vals": self_("m", "a"), "other": self_("m", "b")})],
                               {"r": ref("USE", "r"), "bs": self_("m", "b")}),
                      pipeline("TOP", "map<PT> m", "string r, map<int> bs, map<int> aas",
                               [call("SUB", binds={"m": self_("m")})],
                               {"r": ref("SUB", "r"), "bs": ref("SUB", "bs"), "aas": self_("m", "a")})],
                     "TOP", {"m": {"a": {"a": 1, "b": 2}, "z": {"a": 3, "b": 4}, "b": {"a": 5, "b": 6}}}))
    # 15d. the whole result of a stage bound to a struct parameter whose nested member is narrower
    P.append(program("whole_narrow", [struct("WIDE", "int a, int b"), struct("NARROW", "int a"),
                                      struct("TGT", "int n, NARROW s"), struct("TGT2", "NARROW s, NARROW[] ss")],
                     [stage("MAKE", "", "int n, WIDE s", {"n": const(3), "s": const({"a": 1, "b": 2})}),
                      stage("MAKE2", "", "WIDE s, WIDE[] ss", {"s": const({"a": 1, "b": 2}), "ss": const([{"a": 5, "b": 6}, {"a": 7, "b": 8}])}),
                      stage("SINK", "TGT what, TGT2 what2", "string r", {"r": INST})],
                     [pipeline("TOP", "", "string r, TGT t",
                               [call("MAKE"), call("MAKE2"), call("SINK", binds={"what": ref("MAKE"), "what2": ref("MAKE2")})],
                               {"r": ref("SINK", "r"), "t": ref("MAKE")})], "TOP", {}))

    # 15e. typed maps of structs that the runtime assembles key by key: the merged result of a
    #      call mapped over a typed map, and a map literal of references
    P.append(program("map_of_structs", [struct("PT", "int a, int b")],
                     [S_const("G", "map<int> m", {"m": {"first": 1, "second key": 2}}),
                      stage("MK", "int x", "PT s", {"s": const({"a": 1, "b": 2})}),
                      stage("USE", "map<PT> ss, map<PT> lit", "string r", {"r": INST})],
                     [pipeline("TOP", "", "string r, map<PT> o",
                               [call("G"), call("MK", binds={"x": split(ref("G", "m"))}, mode="map"),
                                call("ONE", "MK", binds={"x": lit(7)}),
                                call("USE", binds={"ss": ref("MK", "s"),
                                                   "lit": {"k": "objx", "fs": [{"n": "p", "e": ref("ONE", "s")}, {"n": "q q", "e": ref("ONE", "s")}]}})],
                               {"r": ref("USE", "r"), "o": ref("MK", "s")})], "TOP", {}))

    # 16. projection of a struct field through a two-dimensional array of structs
    # 14e. a typed map whose keys differ between the forks of the enclosing mapped pipeline, and one
    #      literal that holds two outputs of the call mapped over it (each a map with that fork's keys)
    P.append(program("nest_map_keys_differ_two_outs", [],
                     [stage("MK", "int x", "int a, int b", {"a": echo("x"), "b": const(7)}),
                      S_echo("SHOW", "map<int>[]", "what", "seen")],
                     [pipeline("INNER", "map<int> m", "map<int>[] seen",
                               [call("MK", binds={"x": split(self_("m"))}, mode="map"),
                                call("SHOW", binds={"what": mro.arrx(ref("MK", "a"), ref("MK", "b"))})],
                               {"seen": ref("SHOW", "seen")}),
                      pipeline("TOP", "", "map<int>[][] o",
                               [call("INNER", binds={"m": split(lit([{"x": 1, "y": 2}, {"x": 3, "y": 4, "z": 5}]))}, mode="array")],
                               {"o": ref("INNER", "seen")})], "TOP", {}))
    # a struct literal with a member resolved at run time next to literal typed-map and untyped
    # map members whose keys are not identifiers
    P.append(program("struct_literal_mixed", [struct("BOX", "map<int> by_name, int n, map bag")],
                     [S_echo("A"), stage("U", "BOX box, int w", "string r", {"r": INST}), S_echo("V", "map<int>", "m", "o")],
                     [pipeline("TOP", "int x", "string r, map<int> o",
                               [call("A", binds={"x": self_("x")}),
                                call("U", binds={"box": objx(by_name=lit({"we ird": 1, "b": 2}), n=ref("A", "y"), bag=lit({"k k": 3, "z": [1]})),
                                                 "w": ref("A", "y")}),
                                call("V", binds={"m": lit({"we ird": 1, "b": 2})})],
                               {"r": ref("U", "r"), "o": ref("V", "o")})], "TOP", {"x": 1}))
    # ... the typed-map member a reference to a stage's output
    P.append(program("struct_literal_ref_map", [struct("BOX", "map<int> by_name, int n, map bag")],
                     [S_echo("A"), S_const("G", "map<int> m, map u", {"m": {"we ird": 1, "b": 2}, "u": {"k k": 3}}),
                      stage("U", "BOX box, int w", "string r", {"r": INST})],
                     [pipeline("TOP", "int x", "string r",
                               [call("A", binds={"x": self_("x")}), call("G"),
                                call("U", binds={"box": objx(by_name=ref("G", "m"), n=ref("A", "y"), bag=ref("G", "u")),
                                                 "w": ref("A", "y")})],
                               {"r": ref("U", "r")})], "TOP", {"x": 1}))
    P.append(program("proj2d", [struct("PT", "int x, int y")],
                     [S_const("G", "PT[][] grid", {"grid": [[{"x": 1, "y": 2}, {"x": 3, "y": 4}], [{"x": 5, "y": 6}]]}),
                      S_echo("E", "int[][]", "xs", "ys")],
                     [pipeline("TOP", "", "int[][] o",
                               [call("G"), call("E", binds={"xs": ref("G", "grid", "x")})],
                               {"o": ref("E", "ys")})], "TOP", {}))
    return P


def INST_ARR():
    """array output whose two elements depend on the stage's input n: [n*10, n*10+1]"""
    return {"k": "arr2", "src": "n"}


def mixed_static_dynamic_flags():
    """a mapped pipeline whose data is a literal array and whose per-element disabling flags are a
    run-time array, with a stage consuming the results: mishandled by the runtime (recorded
    finding of C03); kept out of catalogue() like nested_nonuniform()"""
    P = []
    # 8g"'. the data a literal array, the flags a run-time array, and a stage consuming the results
    P.append(program("dis_split_flag_lit_consumer", [],
                     [stage("FLAGS", "", "bool[] skips", {"skips": const([False, True, False])}),
                      S_echo("WORK"), S_echo("ALL", "int[]")],
                     [pipeline("INNER", "int x, bool skip", "int y",
                               [call("WORK", binds={"x": self_("x")}, dis=self_("skip"))],
                               {"y": ref("WORK", "y")}),
                      pipeline("TOP", "", "int[] o",
                               [call("FLAGS"),
                                call("INNER", binds={"x": split(lit([1, 2, 3])), "skip": split(ref("FLAGS", "skips"))}, mode="array"),
                                call("ALL", binds={"x": ref("INNER", "y")})],
                               {"o": ref("ALL", "y")})], "TOP", {}))

    return P


def round8_shapes():
    """part of catalogue()"""
    P = []
    # two disabling conditions that are different outputs of ONE call: the outer one (of the
    # sub-pipeline) false, the inner one (of a call inside it) true
    P.append(program("dis_two_flags_one_stage", [],
                     [stage("FL", "", "bool a, bool b", {"a": const(False), "b": const(True)}), S_echo("A"), S_echo("B")],
                     [pipeline("SUB", "int x, bool d", "int y, int z",
                               [call("A", binds={"x": self_("x")}, dis=self_("d")),
                                call("B", binds={"x": self_("x")})],
                               {"y": ref("A", "y"), "z": ref("B", "y")}),
                      pipeline("TOP", "int x", "int o, int p",
                               [call("FL"),
                                call("SUB", binds={"x": self_("x"), "d": ref("FL", "b")}, dis=ref("FL", "a"))],
                               {"o": ref("SUB", "y"), "p": ref("SUB", "z")})], "TOP", {"x": 3}))
    # per-element flags given as a literal array of the same-named output of two calls
    P.append(program("dis_lit_flag_two_calls", [],
                     [stage("FLG", "bool v", "bool skip", {"skip": echo("v")}), S_echo("WORK")],
                     [pipeline("INNER", "int x, bool skip", "int y",
                               [call("WORK", binds={"x": self_("x")}, dis=self_("skip"))],
                               {"y": ref("WORK", "y")}),
                      pipeline("TOP", "", "int[] o",
                               [call("FA", "FLG", binds={"v": lit(False)}),
                                call("FB", "FLG", binds={"v": lit(True)}),
                                call("FC", "FLG", binds={"v": lit(False)}),
                                call("INNER", binds={"x": split(lit([10, 20, 30])),
                                                     "skip": split(mro.arrx(ref("FA", "skip"), ref("FB", "skip"), ref("FC", "skip")))}, mode="array")],
                               {"o": ref("INNER", "y")})], "TOP", {}))
    # a sub-pipeline with a preflight of its own and a call fed from outside of it
    P.append(program("preflight_sub_outside_input", [], [stage("CHK", "int x", "", {}), S_echo("X"), S_echo("USE")],
                     [pipeline("SUB", "int v", "int y",
                               [call("CHK", binds={"x": lit(1)}, pre=True),
                                call("USE", binds={"x": self_("v")})], {"y": ref("USE", "y")}),
                      pipeline("TOP", "int x", "int o",
                               [call("X", binds={"x": self_("x")}),
                                call("SUB", binds={"v": ref("X", "y")})],
                               {"o": ref("SUB", "y")})], "TOP", {"x": 4}))
    # two preflight stages in one pipeline
    P.append(program("preflight_two", [], [stage("CHK", "int x", "", {}), stage("CHK2", "int x", "", {}), S_echo("A"), S_echo("B")],
                     [pipeline("TOP", "int x", "int o",
                               [call("CHK", binds={"x": self_("x")}, pre=True),
                                call("CHK2", binds={"x": lit(2)}, pre=True),
                                call("A", binds={"x": self_("x")}),
                                call("B", binds={"x": ref("A", "y")})],
                               {"o": ref("B", "y")})], "TOP", {"x": 4}))
    # a call mapped over a run-time typed map whose values are arrays of a struct wider than
    # the element type of the parameter
    P.append(program("map_narrow_arrays", [struct("BIG", "int a, int b, int c"), struct("SMALL", "int a, int b")],
                     [S_const("MK", "map<BIG[]> byk", {"byk": {"k1": [{"a": 1, "b": 2, "c": 3}, {"a": 4, "b": 5, "c": 6}], "k2": []}}),
                      stage("USE", "SMALL[] p", "int n", {"n": length("p")})],
                     [pipeline("TOP", "", "map<int> n",
                               [call("MK"), call("USE", binds={"p": split(ref("MK", "byk"))}, mode="map")],
                               {"n": ref("USE", "n")})], "TOP", {}))
    # two nested mapped calls whose collections both come from ONE stage's output: the outer over
    # a typed map of structs, the inner over an array member of the element
    P.append(program("nestdyn_same_source", [struct("ITEMS", "int[] items, int w")],
                     [S_const("GEN", "map<ITEMS> result", {"result": {"a": {"items": [1, 2], "w": 1}, "b": {"items": [3, 4], "w": 2}}}),
                      S_echo("Q")],
                     [pipeline("P", "ITEMS x", "int[] ys",
                               [call("Q", binds={"x": split(self_("x", "items"))}, mode="array")],
                               {"ys": ref("Q", "y")}),
                      pipeline("TOP", "", "map<int[]> o",
                               [call("GEN"), call("P", binds={"x": split(ref("GEN", "result"))}, mode="map")],
                               {"o": ref("P", "ys")})], "TOP", {}))
    return P


def map_over_disabled_producer():
    """a call mapped over an output of a call that has a run-time `disabled` modifier (flag false
    and true); part of catalogue()"""
    P = []
    for nm, flag in (("map_over_maybe_enabled", False), ("map_over_maybe_disabled", True)):
        P.append(program(nm, [], [S_const("F", "bool f", {"f": flag}), S_const("GEN", "int[] ys", {"ys": [1, 2]}), S_echo("A")],
                         [pipeline("TOP", "", "int[] o",
                                   [call("F"), call("GEN", dis=ref("F", "f")),
                                    call("A", binds={"x": split(ref("GEN", "ys"))}, mode="array")],
                                   {"o": ref("A", "y")})], "TOP", {}))
    return P


def nested_nonuniform():
    """statically nested arrays whose inner arrays differ in length, are empty or null: the
    runtime mishandles them (recorded findings of C03); kept out of catalogue() because every
    check that runs the catalogue would report the same thing"""
    P = []
    for nm, xss in (("nest_static_empty", [[1, 2], [], [3]]), ("nest_static_null", [[1], None, [2, 3]]),
                    ("nest_static_empty_first", [[], [1, 2]]), ("nest_static_ragged", [[1, 2], [3]]),
                    ("nest_static_uniform", [[1, 2], [3, 4]])):
        P.append(program(nm, [], [S_echo("X")],
                         [pipeline("SUB", "int[] xs", "int[] ys",
                                   [call("X", binds={"x": split(self_("xs"))}, mode="array")], {"ys": ref("X", "y")}),
                          pipeline("TOP", "int[][] xss", "int[][] o",
                                   [call("SUB", binds={"xs": split(self_("xss"))}, mode="array")], {"o": ref("SUB", "ys")})],
                         "TOP", {"xss": xss}))
    return P

"""Shared machinery for the /verif checks: TLC runner, TLA+ value parser,
Go harness builder, evidence writer, known-findings handling.

Exit code conventions (bin/check): 0 = held, 1 = VIOLATION (real-code
behaviour), 2 = infrastructure problem (never a verdict).
"""
import json
import os
import re
import shutil
import subprocess
import sys
import tempfile
import time

VERIF = os.path.dirname(os.path.dirname(os.path.abspath(__file__)))
REPO = os.environ.get("VERIF_REPO", "/repo")
SPEC = os.path.join(VERIF, "spec")
HARNESS = os.path.join(VERIF, "harness")
BUILD = os.environ.get("VERIF_BUILD") or os.path.join(VERIF, ".build")
GOENV = dict(os.environ, GOFLAGS="-mod=mod", GOPROXY="off", GOSUMDB="off",
             GOTOOLCHAIN="local", CGO_ENABLED="0")
TLA_JAR = "/opt/veriftools/tla/tla2tools.jar"
COMMUNITY = None


class Infra(Exception):
    """Infrastructure failure: exit 2, never a verdict."""


def seed():
    try:
        return int(os.environ.get("VERIF_SEED", "1"))
    except ValueError:
        return 1


def log(*a):
    print(*a, file=sys.stderr, flush=True)


# --------------------------------------------------------------------------
# scratch space
# --------------------------------------------------------------------------
_scratch = []


def scratch(prefix="verif"):
    base = os.environ.get("VERIF_TMP") or tempfile.gettempdir()
    d = tempfile.mkdtemp(prefix=prefix + "-", dir=base)
    _scratch.append(d)
    return d


def cleanup():
    if os.environ.get("VERIF_KEEP"):       # debugging aid: leave the scratch directories behind
        return
    for d in _scratch:
        shutil.rmtree(d, ignore_errors=True)
    _scratch.clear()


# --------------------------------------------------------------------------
# TLC
# --------------------------------------------------------------------------
def _classpath():
    global COMMUNITY
    if COMMUNITY is None:
        c = []
        for root in ("/opt/veriftools/tla",):
            for f in sorted(os.listdir(root)):
                if f.endswith(".jar") and f != "tla2tools.jar":
                    c.append(os.path.join(root, f))
        COMMUNITY = c
    return ":".join([TLA_JAR] + COMMUNITY)


class TlcResult:
    def __init__(self):
        self.ok = False
        self.generated = 0
        self.distinct = 0
        self.depth = 0
        self.violation = None     # name of violated invariant/property
        self.error_trace = []     # list of state dicts (parsed)
        self.out = ""
        self.cmd = ""
        self.wall = 0.0
        self.coverage = {}
        self.printed = []         # values printed via PrintT


def run_tlc(module, cfg, workdir=None, workers="auto", timeout=600,
            simulate=None, depth=None, extra=(), deadlock=False, heap=None,
            dfs=False, coverage=False, files=(), defines=None):
    """Run TLC on spec/<module>.tla with config cfg (path relative to spec/ or
    absolute) in a scratch copy of spec/.  Returns TlcResult."""
    wd = workdir or scratch("tlc")
    for f in os.listdir(SPEC):
        if f.endswith((".tla", ".cfg")):
            shutil.copy(os.path.join(SPEC, f), wd)
    for f in files:
        shutil.copy(f, wd)
    cfgp = cfg if os.path.isabs(cfg) else os.path.join(wd, cfg)
    if os.path.isabs(cfg):
        shutil.copy(cfg, wd)
        cfgp = os.path.join(wd, os.path.basename(cfg))
    meta = os.path.join(wd, "meta")
    java = ["java", "-XX:+UseParallelGC", "-Xss64m"]
    if heap:
        java.append("-Xmx" + heap)
    else:
        java.append("-Xmx8g")
    if dfs:
        java.append("-Dtlc2.tool.queue.IStateQueue=StateDeque")
    for k, v in (defines or {}).items():
        java.append("-D%s=%s" % (k, v))
    cmd = java + ["-cp", _classpath(), "tlc2.TLC", "-metadir", meta,
                  "-config", os.path.basename(cfgp), "-workers", str(workers)]
    if not deadlock:
        cmd.append("-deadlock")
    if simulate:
        cmd += ["-simulate", simulate]
    if depth:
        cmd += ["-depth", str(depth)]
    if coverage:
        cmd += ["-coverage", "1"]
    cmd += list(extra) + [module]
    res = TlcResult()
    res.cmd = " ".join(cmd)
    t0 = time.time()
    try:
        p = subprocess.run(cmd, cwd=wd, stdout=subprocess.PIPE,
                           stderr=subprocess.STDOUT, timeout=timeout,
                           text=True, errors="replace")
    except subprocess.TimeoutExpired as e:
        res.out = (e.stdout or b"").decode("utf8", "replace") if isinstance(
            e.stdout, bytes) else (e.stdout or "")
        res.wall = time.time() - t0
        subprocess.run(["pkill", "-f", "metadir " + meta])
        raise Infra("TLC timeout after %ds: %s" % (timeout, module))
    res.wall = time.time() - t0
    res.out = p.stdout
    _parse_tlc(res, p.returncode)
    return res


_gen_re = re.compile(r"(\d+) states generated, (\d+) distinct states found")
_depth_re = re.compile(r"depth of the complete state graph search is (\d+)")
_viol_re = re.compile(r"Error: (?:Invariant|Action property|Temporal properties?) ?(\S*) (?:is|was|were) violated")


def _parse_tlc(res, rc):
    out = res.out
    for m in _gen_re.finditer(out):
        res.generated, res.distinct = int(m.group(1)), int(m.group(2))
    m = _depth_re.search(out)
    if m:
        res.depth = int(m.group(1))
    m = _viol_re.search(out)
    if m:
        res.violation = m.group(1) or "property"
    elif "Error: Deadlock reached" in out:
        res.violation = "Deadlock"
    elif re.search(r"Error: Temporal propert(y|ies) .*violated", out):
        mm = re.search(r"Error: Temporal property (\w+) was violated", out)
        res.violation = mm.group(1) if mm else "temporal property"
    elif "is violated" in out and "Error:" in out:
        mm = re.search(r"Error: (.*) is violated", out)
        res.violation = mm.group(1) if mm else "property"
    if res.violation:
        res.error_trace = parse_trace_text(out)
    res.ok = (rc == 0 and res.violation is None
              and "Model checking completed. No error has been found" in out
              or (rc == 0 and res.violation is None and "-simulate" in res.cmd))
    if not res.ok and res.violation is None:
        # evaluation error, parse error, assumption false, ...
        if "Error:" in out or rc != 0:
            tail = "\n".join(out.splitlines()[-40:])
            raise Infra("TLC failed (rc=%d) for %s:\n%s" % (rc, res.cmd, tail))
    # coverage lines: <Action line ...>: n:m
    for m in re.finditer(r"^<(\w+) line \d+, col \d+ to line \d+, col \d+ of module (\w+)>: (\d+):(\d+)", out, re.M):
        res.coverage[m.group(2) + "." + m.group(1)] = (int(m.group(3)), int(m.group(4)))


# --------------------------------------------------------------------------
# TLA+ value parser (TLC's pretty-printed values)
# --------------------------------------------------------------------------
class _P:
    _tok = re.compile(r"-?\d+|[A-Za-z_][A-Za-z_0-9]*")

    def __init__(self, s):
        self.s = s
        self.i = 0

    def ws(self):
        s = self.s
        while self.i < len(s) and s[self.i] in " \t\r\n":
            self.i += 1

    def peek(self, t):
        self.ws()
        return self.s.startswith(t, self.i)

    def eat(self, t):
        self.ws()
        if not self.s.startswith(t, self.i):
            raise ValueError("expected %r at %d: %r" % (t, self.i, self.s[self.i:self.i + 40]))
        self.i += len(t)

    def value(self):
        v = self.atom()
        if self.peek(":>"):
            self.eat(":>")
            pairs = [(v, self.atom())]
            while self.peek("@@"):
                self.eat("@@")
                k = self.atom()
                self.eat(":>")
                pairs.append((k, self.atom()))
            return _fn(pairs)
        return v

    def listof(self, close):
        items = []
        if self.peek(close):
            self.eat(close)
            return items
        while True:
            items.append(self.value())
            if self.peek(","):
                self.eat(",")
            else:
                self.eat(close)
                return items

    def atom(self):
        self.ws()
        s = self.s
        c = s[self.i]
        if c == '"':
            j = self.i + 1
            out = []
            while s[j] != '"':
                if s[j] == "\\":
                    j += 1
                    out.append({"n": "\n", "t": "\t", "r": "\r", "f": "\f"}.get(s[j], s[j]))
                else:
                    out.append(s[j])
                j += 1
            self.i = j + 1
            return "".join(out)
        if s.startswith("<<", self.i):
            self.i += 2
            return self.listof(">>")
        if c == "{":
            self.i += 1
            return {"#set": self.listof("}")}
        if c == "[":
            self.i += 1
            v = {}
            if self.peek("]"):
                self.eat("]")
                return v
            while True:
                self.ws()
                m = self._tok.match(s, self.i)
                k = m.group(0)
                self.i = m.end()
                self.eat("|->")
                v[k] = self.value()
                if self.peek(","):
                    self.eat(",")
                else:
                    self.eat("]")
                    return v
        if c == "(":
            self.i += 1
            v = self.value()
            self.eat(")")
            return v
        m = self._tok.match(s, self.i)
        if not m:
            raise ValueError("bad value at %d: %r" % (self.i, s[self.i:self.i + 40]))
        t = m.group(0)
        self.i = m.end()
        if t == "TRUE":
            return True
        if t == "FALSE":
            return False
        if t[0] == "-" or t[0].isdigit():
            return int(t)
        return {"#mv": t}


def _fn(pairs):
    keys = [k for k, _ in pairs]
    if all(isinstance(k, int) for k in keys) and sorted(keys) == list(range(1, len(keys) + 1)):
        d = dict(pairs)
        return [d[i] for i in range(1, len(keys) + 1)]
    if all(isinstance(k, str) for k in keys):
        return dict(pairs)
    return {"#fn": [[k, v] for k, v in pairs]}


def parse_value(text):
    p = _P(text)
    v = p.value()
    p.ws()
    if p.i != len(p.s):
        raise ValueError("trailing text in TLA value: %r" % p.s[p.i:p.i + 40])
    return v


_state_hdr = re.compile(r"^State (\d+): (.*)$")


def parse_trace_text(out):
    """Parse 'State n: <action>' blocks of TLC output into
    [{'_action': str, var: value, ...}]."""
    states = []
    cur = None
    buf = []

    def flush():
        nonlocal cur, buf
        if cur is not None:
            txt = "\n".join(buf)
            for var, val in _split_conj(txt):
                try:
                    cur[var] = parse_value(val)
                except Exception:
                    cur[var] = {"#raw": val}
            states.append(cur)
        cur, buf = None, []

    for line in out.splitlines():
        m = _state_hdr.match(line)
        if m:
            flush()
            cur = {"_action": m.group(2).strip()}
            continue
        if cur is not None:
            if line.strip() == "" and buf:
                flush()
            elif line.startswith(("Error:", "Finished", "The ", "Progress", "Back to state", "Stuttering")) or re.match(r"^\d+ states generated", line):
                flush()
            else:
                buf.append(line)
    flush()
    return states


def _split_conj(txt):
    """Split '/\\ a = v\n/\\ b = v' (values may span lines)."""
    parts = re.split(r"(?m)^/\\ ", txt)
    res = []
    for p in parts:
        p = p.strip()
        if not p:
            continue
        m = re.match(r"([A-Za-z_][A-Za-z_0-9]*) = (.*)$", p, re.S)
        if m:
            res.append((m.group(1), m.group(2).strip()))
    return res


def parse_sim_file(path):
    """Parse a behaviour file written by `tlc -simulate file=...`:
    STATE_1 == \n/\\ v = ...\n\nSTATE_2 == ..."""
    txt = open(path).read()
    txt = "\n".join(l for l in txt.splitlines()
                    if not l.startswith(("\\*", "----", "====")))
    states = []
    for blk in re.split(r"(?m)^STATE_\d+ ==\s*$", txt)[1:]:
        st = {}
        for var, val in _split_conj(blk.strip()):
            st[var] = parse_value(val)
        states.append(st)
    return states


# --------------------------------------------------------------------------
# Go harness
# --------------------------------------------------------------------------
def go_build(pkgs=("./cmd/vh",), tags="verif", outdir=None):
    """Build harness binaries against /repo's current working tree."""
    outdir = outdir or os.path.join(BUILD, "bin")
    os.makedirs(outdir, exist_ok=True)
    harness = HARNESS
    if os.path.realpath(REPO) != "/repo":
        # checking another tree (e.g. a worktree with a seeded change): build a
        # copy of the harness whose replace directive points there
        harness = os.path.join(BUILD, "harness-src")
        shutil.rmtree(harness, ignore_errors=True)
        shutil.copytree(HARNESS, harness)
        gm = open(os.path.join(harness, "go.mod")).read().replace("=> /repo", "=> " + os.path.realpath(REPO))
        open(os.path.join(harness, "go.mod"), "w").write(gm)
    gosum = os.path.join(REPO, "go.sum")
    if os.path.exists(gosum):
        shutil.copy(gosum, os.path.join(harness, "go.sum"))
    cmd = ["go", "build", "-tags", tags, "-o", outdir + "/"] + list(pkgs)
    p = subprocess.run(cmd, cwd=harness, env=GOENV, stdout=subprocess.PIPE,
                       stderr=subprocess.STDOUT, text=True, timeout=900)
    if p.returncode != 0:
        raise Infra("go build failed (the tree must compile):\n" + p.stdout[-4000:])
    return outdir


def build_repo_bins(outroot):
    """Build mrp and mrjob with hooks on into outroot/bin, with the
    jobmanagers/ and adapters/ directories next to it."""
    os.makedirs(os.path.join(outroot, "bin"), exist_ok=True)
    p = subprocess.run(["go", "build", "-tags", "verif", "-o",
                        os.path.join(outroot, "bin") + "/", "./cmd/mrp", "./cmd/mrjob"],
                       cwd=REPO, env=GOENV, stdout=subprocess.PIPE,
                       stderr=subprocess.STDOUT, text=True, timeout=900)
    if p.returncode != 0:
        raise Infra("go build of mrp failed:\n" + p.stdout[-4000:])
    for d in ("jobmanagers", "adapters"):
        dst = os.path.join(outroot, d)
        if not os.path.lexists(dst):
            os.symlink(os.path.join(REPO, d), dst)
    return os.path.join(outroot, "bin")


def run_harness(args, timeout=1800, stdin=None, env=None):
    binp = os.path.join(BUILD, "bin", "vh")
    e = dict(GOENV)
    e.update(env or {})
    try:
        p = subprocess.run([binp] + list(args), stdout=subprocess.PIPE,
                           stderr=subprocess.PIPE, text=True, timeout=timeout,
                           input=stdin, env=e)
    except subprocess.TimeoutExpired:
        raise Infra("harness timeout: vh " + " ".join(args[:3]))
    if p.returncode not in (0, 1):
        raise Infra("harness failed rc=%d: vh %s\n%s" % (
            p.returncode, " ".join(args[:4]), (p.stderr or "")[-3000:]))
    return p


# --------------------------------------------------------------------------
# evidence / findings
# --------------------------------------------------------------------------
def known_findings():
    p = os.path.join(VERIF, "known_findings.json")
    if not os.path.exists(p):
        return {"findings": [], "fixed": []}
    return json.load(open(p))


def write_evidence(pid, tier, level, coverage, assumptions, wall, violations=0):
    evdir = os.path.join(os.environ.get("VERIF_OUT") or VERIF, "evidence")
    os.makedirs(evdir, exist_ok=True)
    ev = {
        "property_id": pid,
        "tier": tier,
        "seed": seed(),
        "level": level,
        "coverage": coverage,
        "assumptions": assumptions,
        "wall_s": round(wall, 2),
        "violations": violations,
    }
    p = os.path.join(evdir, pid + ".json")
    tmp = p + ".tmp"
    with open(tmp, "w") as f:
        json.dump(ev, f, indent=1, sort_keys=False, default=str)
    os.replace(tmp, p)
    return p


def save_replay(pid, name, files):
    """files: {relative name: text or bytes or path-to-copy (prefix '@')}"""
    d = os.path.join(os.environ.get("VERIF_OUT") or VERIF, "replays", pid, name)
    os.makedirs(d, exist_ok=True)
    for k, v in files.items():
        dst = os.path.join(d, k)
        os.makedirs(os.path.dirname(dst), exist_ok=True)
        if isinstance(v, str) and v.startswith("@/") and "\n" not in v and os.path.exists(v[1:]):
            if os.path.isdir(v[1:]):
                shutil.copytree(v[1:], dst, dirs_exist_ok=True, symlinks=True)
            else:
                shutil.copy(v[1:], dst)
        elif isinstance(v, bytes):
            open(dst, "wb").write(v)
        else:
            open(dst, "w").write(v if isinstance(v, str) else json.dumps(v, indent=1, default=str))
    return d


# --------------------------------------------------------------------------
# verdicts
# --------------------------------------------------------------------------
def conclude(pid, violations):
    """violations: list of dicts with 'key' (stable identification of the
    failing input / site / history), 'what' and optional 'replay' (dict of
    files).  Known findings (known_findings.json) are printed as
    KNOWN-FINDING and do not fail the check.  Returns (rc, n_unknown, hit)."""
    kf = [f for f in known_findings().get("findings", []) if f.get("property") == pid]
    hit = []
    unknown = []
    for v in violations:
        m = None
        for f in kf:
            if re.fullmatch(f["key"], v["key"]):
                m = f
                break
        if m is not None:
            if m["key"] not in [h["key"] for h in hit]:
                hit.append(m)
        else:
            unknown.append(v)
    for f in hit:
        print("KNOWN-FINDING: property=%s %s" % (pid, f["what"]))
    seen = set()
    for v in unknown:
        if v["key"] in seen:
            continue
        seen.add(v["key"])
        if len(seen) > 10:
            break
        name = re.sub(r"[^A-Za-z0-9_.-]+", "_", v["key"])[:80]
        files = dict(v.get("replay") or {})
        files["violation.json"] = {k: v[k] for k in v if k != "replay"}
        d = save_replay(pid, name, files)
        print("VIOLATION property=%s replay=%s" % (pid, d))
        print("  " + v["what"][:600])
    sys.stdout.flush()
    return (1 if unknown else 0), len(unknown), [f["key"] for f in hit]

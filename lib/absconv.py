"""absast (abstraction of a real syntax tree, harness/absast) -> abstract
program of lib/mro.py, so that MroSem can be evaluated on programs the real
tools produced.  Stage behaviour (rules) is not in MRO text: it is supplied by
the caller as rules[(stage, output)]."""
import mro


def conv_value(v):
    k = v["k"]
    if k == "int":
        return {"k": "int", "i": int(v["i"])}
    return v


def conv_exp(e):
    k = e["k"]
    if k == "lit":
        return {"k": "lit", "v": conv_value(e["v"])}
    if k == "self":
        return {"k": "self", "id": e["id"], "path": e["out"].split(".") if e["out"] else []}
    if k == "ref":
        parts = e["out"].split(".") if e["out"] else []
        return {"k": "ref", "call": e["call"], "out": parts[0] if parts else "", "path": parts[1:]}
    if k == "arrx":
        if all(x["k"] == "lit" for x in e["es"]):
            return {"k": "lit", "v": {"k": "arr", "a": [conv_exp(x)["v"] for x in e["es"]]}}
        return {"k": "arrx", "es": [conv_exp(x) for x in e["es"]]}
    if k == "objx":
        fs = [{"n": f["n"], "e": conv_exp(f["e"])} for f in e["fs"]]
        if all(f["e"]["k"] == "lit" for f in fs):
            return {"k": "lit", "v": {"k": "obj", "o": {f["n"]: f["e"]["v"] for f in fs}}}
        return {"k": "objx", "fs": fs}
    if k == "split":
        return {"k": "split", "e": conv_exp(e["e"])}
    if k == "none":
        return mro.NONE
    raise ValueError("cannot convert expression %r" % (e,))


def conv_params(ps):
    return [{"n": p["n"], "t": p["t"]} for p in ps]


def conv_call(c, collections):
    mods = c["mods"]
    dis = mro.NONE
    for b in mods["binds"]:
        if b["n"] == "disabled":
            dis = conv_exp(b["e"])
    binds = [{"n": b["n"], "e": conv_exp(b["e"])} for b in c["binds"] if b["n"] != "*"]
    mode = "none"
    if c.get("mapped"):
        # array or map: what the compiler resolved, else from the kind of the split source
        mode = "array"
        if c.get("mode") in ("map", "array"):
            mode = c["mode"]
        for b in binds:
            if b["e"]["k"] == "split":
                src = b["e"]["e"]
                if src["k"] == "lit" and src["v"]["k"] == "obj":
                    mode = "map"
                elif src["k"] in ("ref", "self") and collections.get(repr(src)) == "map":
                    mode = "map"
    return {"id": c["id"], "callee": c["callee"], "binds": binds, "dis": dis, "mode": mode,
            "pre": bool(mods["preflight"]), "vol": bool(mods["volatile"]), "local": bool(mods["local"])}


def to_program(name, ab, rules, chunks=None, collections=None):
    """rules: {(stage, output): rule}; chunks: {stage: chunk spec}; collections: repr(split source) -> 'map'"""
    stages = []
    for s in ab["stages"]:
        outs = conv_params(s["outs"])
        stages.append({"name": s["name"], "ins": conv_params(s["ins"]), "outs": outs,
                       "rules": [{"n": o["n"], "r": rules[(s["name"], o["n"])]} for o in outs],
                       "split": bool(s["split"]), "chunks": (chunks or {}).get(s["name"], {"k": "fixed", "c": 1}),
                       "couts": [{"n": o["n"], "t": o["t"], "r": mro.CI} for o in s["chunk_outs"]],
                       "volatile": s["resources"].get("volatile", "") if s["resources"].get("volatile") == "strict" else "",
                       "retain": s["retain"]})
    pipes = []
    for p in ab["pipelines"]:
        pipes.append({"name": p["name"], "ins": conv_params(p["ins"]), "outs": conv_params(p["outs"]),
                      "calls": [conv_call(c, collections or {}) for c in p["calls"]],
                      "ret": [{"n": b["n"], "e": conv_exp(b["e"])} for b in p["ret"] if b["n"] != "*"],
                      "retain": [conv_exp(r) for r in p["retain"]]})
    top = ab["call"]
    return {"name": name, "structs": [{"name": s["name"], "fields": conv_params(s["fields"])} for s in ab["structs"]],
            "stages": stages, "pipelines": pipes, "filetypes": ab["filetypes"],
            "top": {"callee": top["callee"], "id": top["id"], "mode": "none",
                    "args": [{"n": b["n"], "e": conv_exp(b["e"])} for b in top["binds"]]}}

"""Direction B for the runtime: behaviours of spec/MrpRun.tla (TLC simulation)
projected to their environment actions and replayed as schedules on the real
run loop (programs of the catalogue that the MC_Sim* configurations mirror)."""
import glob
import os
import re

import vlib

ACT = re.compile(r"^\\\* <(\w+)(?:\((.*)\))? line ")

# model configuration -> how to pick the real catalogue program from the
# environment choices of a behaviour, and how model nodes map to instances
CONFIGS = {
    "Map": {"prog": lambda st: {0: "map_dyn0", 1: "map_dyn1", 2: "map_dyn2"}.get(st["len"]["G"]),
            "inst": lambda n, f: "TOP.%s[%s]" % (n, f if n == "A" else "")},
    "Split": {"prog": lambda st: {0: "split0", 1: "split1", 2: "split2"}.get(nch(st, "S")),
              "inst": lambda n, f: "TOP.%s[]" % n},
    "Dis": {"prog": lambda st: {"t": "dis_true", "f": "dis_false"}.get(st["flag"]["F"]),
            "inst": lambda n, f: "TOP.%s[]" % n},
}


def nch(st, node):
    for k, v in st["nchunks"]["#fn"] if isinstance(st["nchunks"], dict) and "#fn" in st["nchunks"] else []:
        if k[0] == node and k[1] == 0:
            return v
    return None


def parse_md(arg):
    m = re.match(r'<<"(\w+)", (\d+), "(\w+)", (\d+)>>', arg)
    return m.group(1), int(m.group(2)), m.group(3), int(m.group(4))


def behaviours(cfg, num, depth):
    """[(program name, script)] from TLC simulation of MC_Sim<cfg>."""
    wd = vlib.scratch("runsim")
    r = vlib.run_tlc("MC_Run", "MC_Sim%s.cfg" % cfg, workdir=wd, workers=1, timeout=900,
                     simulate="file=%s/b,num=%d" % (wd, num), depth=depth,
                     extra=["-seed", str(vlib.seed())])
    conf = CONFIGS[cfg]
    out = []
    for f in sorted(glob.glob(os.path.join(wd, "b_*"))):
        acts = []
        for line in open(f):
            m = ACT.match(line)
            if m:
                acts.append((m.group(1), m.group(2) or ""))
        states = vlib.parse_sim_file(f)
        final = states[-1]
        if final["result"] != "complete":
            continue          # behaviour cut off by the depth bound
        prog = conf["prog"](final)
        if not prog:
            continue
        script = []
        defs = set()
        for a, arg in acts:
            if a == "Refresh":
                script.append("R")
            elif a in ("StepFork", "NodeUpdate"):
                if not script or script[-1] != "S":
                    script.append("S")
            elif a in ("JobStart", "JobWrite", "JobDefs"):
                n, fk, k, c = parse_md(arg)
                key = "%s/%s/%d" % (conf["inst"](n, fk), "main" if k == "chunk" else k, c)
                # (runs of these scripts have early_defs set: the first end step of a split job
                # publishes its chunk definitions, the second finishes it)
                if a == "JobDefs":
                    defs.add(key)
                    script.append("E:" + key)
                elif a == "JobWrite" and k == "split" and key not in defs:
                    script += ["E:" + key, "E:" + key]
                else:
                    script.append(("B:" if a == "JobStart" else "E:") + key)
        out.append((prog, script))
    return out, r

"""Rows for the invocation round trip (C16): callable signatures over the type
universe of MroTypes with valid argument values, split subsets, missing
arguments, and scalar corner values."""
import json

STRUCTS = [{"name": "S1", "fields": [{"n": "a", "t": {"b": "int", "a": 0, "m": 0, "ia": 0}}, {"n": "b", "t": {"b": "string", "a": 0, "m": 0, "ia": 0}}]},
           {"name": "S2", "fields": [{"n": "a", "t": {"b": "int", "a": 0, "m": 0, "ia": 0}}]},
           {"name": "S3", "fields": [{"n": "s", "t": {"b": "S1", "a": 0, "m": 0, "ia": 0}}, {"n": "xs", "t": {"b": "int", "a": 1, "m": 0, "ia": 0}}]},
           {"name": "S4", "fields": [{"n": "a", "t": {"b": "float", "a": 0, "m": 0, "ia": 0}}, {"n": "b", "t": {"b": "txt", "a": 0, "m": 0, "ia": 0}}]},
           {"name": "S5", "fields": [{"n": "per", "t": {"b": "int", "a": 0, "m": 1, "ia": 0}}, {"n": "n", "t": {"b": "int", "a": 0, "m": 0, "ia": 0}}]}]
DECLS = "filetype txt;\n\nstruct S1(\n    int a,\n    string b,\n)\n\nstruct S2(\n    int a,\n)\n\nstruct S3(\n    S1 s,\n    int[] xs,\n)\n\nstruct S4(\n    float a,\n    txt b,\n)\n\nstruct S5(\n    map<int> per,\n    int n,\n)\n\n"


def T(b, a=0, m=0, ia=0):
    return {"b": b, "a": a, "m": m, "ia": ia}


def type_str(t):
    s = t["b"]
    if t["m"]:
        s = "map<" + s + "[]" * t["ia"] + ">"
    return s + "[]" * t["a"]


SCALARS = [
    (T("int"), {"k": "big", "s": "9007199254740993"}), (T("int"), {"k": "big", "s": "-9223372036854775808"}),
    (T("int"), {"k": "big", "s": "9223372036854775807"}), (T("int"), {"k": "int", "i": 0}), (T("int"), {"k": "int", "i": -7}),
    (T("float"), {"k": "float", "f": "1e300"}), (T("float"), {"k": "float", "f": "0.1"}), (T("float"), {"k": "float", "f": "-2.5e-08"}),
    (T("float"), {"k": "float", "f": "1.7976931348623157e308"}), (T("float"), {"k": "float", "f": "5e-324"}),
    (T("float"), {"k": "int", "i": 3}), (T("float"), {"k": "float", "f": "123456789.125"}),
    (T("float"), {"k": "float", "f": "0.30000000000000004"}), (T("float"), {"k": "float", "f": "0.1234567890123456"}),
    (T("float"), {"k": "float", "f": "123456789.12345678"}), (T("float"), {"k": "float", "f": "9007199254740.992"}),
    (T("float"), {"k": "float", "f": "-0.7071067811865476"}), (T("float"), {"k": "float", "f": "2.718281828459045"}),
    (T("float"), {"k": "float", "f": "1234567.8901234567"}), (T("float"), {"k": "float", "f": "0.000123456789012345"}),
    (T("float", 1), {"k": "arr", "a": [{"k": "float", "f": "3.141592653589793"}, {"k": "float", "f": "1.4142135623730951"}]}),
    (T("string"), {"k": "str", "s": "a\"b\\c\n\t\r"}), (T("string"), {"k": "str", "s": "é☃😀"}), (T("string"), {"k": "str", "s": ""}),
    (T("string"), {"k": "str", "s": "caf\u00e9 \u00b1\u00b5\u00ff\u0080\u00a0"}), (T("string"), {"k": "str", "s": "\u0100\u07ff\u0800\uffff"}),
    (T("int", 0, 1), {"k": "obj", "o": {"cl\u00e9": {"k": "int", "i": 1}, "\u00fc": {"k": "int", "i": 2}}}),
    (T("string", 1), {"k": "arr", "a": [{"k": "str", "s": "\u00e9"}, {"k": "str", "s": "e\u0301"}]}),
    (T("string"), {"k": "str", "s": "#x $y `z` 'q'"}), (T("string"), {"k": "str", "s": "\u0001\u001f\u007f"}),
    (T("string"), {"k": "str", "s": "</script>&<>"}), (T("string"), {"k": "str", "s": "  "}),
    (T("bool"), {"k": "bool", "b": True}), (T("bool"), {"k": "bool", "b": False}),
    (T("map"), {"k": "obj", "o": {"a b": {"k": "int", "i": 1}, "": {"k": "null"}, "é": {"k": "arr", "a": [{"k": "obj", "o": {"x": {"k": "str", "s": "y"}}}]}}}),
    (T("map"), {"k": "obj", "o": {}}), (T("int", 2), {"k": "arr", "a": [{"k": "arr", "a": []}, {"k": "null"}, {"k": "arr", "a": [{"k": "int", "i": 1}]}]}),
    (T("string", 0, 1, 1), {"k": "obj", "o": {"k1": {"k": "arr", "a": [{"k": "str", "s": "x"}]}, "k 2": {"k": "arr", "a": []}, "k3": {"k": "null"}}}),
    (T("S3", 1), {"k": "arr", "a": [{"k": "obj", "o": {"s": {"k": "obj", "o": {"a": {"k": "int", "i": 1}, "b": {"k": "str", "s": "z"}}},
                                                     "xs": {"k": "arr", "a": [{"k": "int", "i": 2}]}}}, {"k": "null"}]}),
    (T("S1", 0, 1, 0), {"k": "obj", "o": {"p": {"k": "obj", "o": {"a": {"k": "int", "i": 1}, "b": {"k": "null"}}}, "q": {"k": "null"}}}),
    (T("S1", 0, 1, 1), {"k": "obj", "o": {"p": {"k": "arr", "a": [{"k": "obj", "o": {"a": {"k": "int", "i": 1}, "b": {"k": "str", "s": "w"}}}]}}}),
]


def full_precision_floats(n=80):
    """machine-generated doubles of moderate magnitude, written with all their digits"""
    import random
    rnd = random.Random(20260924)
    out = []
    for i in range(n):
        f = rnd.random() * rnd.choice([1, 1000, 1e6])
        out.append((T("float"), {"k": "float", "f": repr(f)}))
    out.append((T("float", 1), {"k": "arr", "a": [v for _, v in out[:6]]}))
    return out


def rows(type_rows, limit):
    """type_rows: valid (type, value) rows of MroTypes"""
    out = []
    seen = set()
    # (a struct value with a field the type does not declare validates as JSON but is
    # not a value of the type as far as MRO literals are concerned)
    vals = [(r["t"], r["v"]) for r in type_rows if r["valid"] and '"zz"' not in json.dumps(r["v"])] + SCALARS + full_precision_floats()
    for i, (t, v) in enumerate(vals):
        key = json.dumps([t, v], sort_keys=True)
        if key in seen:
            continue
        seen.add(key)
        params = [{"n": "x", "t": t}, {"n": "other", "t": T("int")}]
        out.append({"id": "v%d" % i, "structs": STRUCTS, "params": params, "args": [{"n": "x", "v": v}], "split": []})
        if (t["a"] > 0 and v["k"] in ("arr", "null")) or (t["a"] == 0 and t["m"] == 1 and v["k"] in ("obj", "null")):
            # a mapped call: the parameter has the element type
            et = dict(t, a=t["a"] - 1) if t["a"] > 0 else T(t["b"], t["ia"])
            out.append({"id": "v%ds" % i, "structs": STRUCTS, "params": [{"n": "x", "t": et}, {"n": "other", "t": T("int")}],
                        "args": [{"n": "x", "v": v}], "split": ["x"], "coll": t})
    out = out[:limit]
    # several parameters: one missing, two split
    arrs = [(t, v) for (t, v) in vals if t["a"] > 0 and v["k"] == "arr" and len(v["a"]) == 2][:6]
    for j in range(len(arrs) - 1):
        (t1, v1), (t2, v2) = arrs[j], arrs[j + 1]
        out.append({"id": "m%d" % j, "structs": STRUCTS,
                    "params": [{"n": "p1", "t": dict(t1, a=t1["a"] - 1)}, {"n": "missing", "t": T("string")},
                               {"n": "p2", "t": dict(t2, a=t2["a"] - 1)}, {"n": "z", "t": T("S1")}],
                    "args": [{"n": "p2", "v": v2}, {"n": "p1", "v": v1},
                             {"n": "z", "v": {"k": "obj", "o": {"a": {"k": "int", "i": 5}, "b": {"k": "str", "s": "s"}}}}],
                    "split": ["p1", "p2"]})
        # the split arguments listed in another order than the parameters are declared
        out.append(dict(out[-1], id="m%dr" % j, split=["p2", "p1"]))
    return out


def untag_json(v, ascii=False):
    """tagged value -> JSON text (numbers written as given); ascii: every non-ASCII
    character spelled as a \\uXXXX escape (surrogate pairs beyond the BMP)"""
    k = v["k"]
    if k == "null":
        return "null"
    if k == "bool":
        return "true" if v["b"] else "false"
    if k == "int":
        return str(v["i"])
    if k == "big":
        return v["s"]
    if k == "float":
        return v["f"]
    if k == "str":
        return json.dumps(v["s"], ensure_ascii=ascii)
    if k == "arr":
        return "[" + ",".join(untag_json(x, ascii) for x in v["a"]) + "]"
    if k == "obj":
        o = v["o"] if isinstance(v["o"], dict) else {}
        return "{" + ",".join(json.dumps(kk, ensure_ascii=ascii) + ":" + untag_json(x, ascii) for kk, x in o.items()) + "}"
    raise TypeError(v)


def stage_src(r, bare=False):
    """bare: a file that declares no struct type, where no parameter needs one"""
    decls = DECLS
    if bare and not any(p["t"]["b"] in ("S1", "S2", "S3", "S4", "S5") for p in r["params"]):
        decls = "filetype txt;\n\n"
    return (decls + "stage S(\n" + "".join("    in  %s %s,\n" % (type_str(p["t"]), p["n"]) for p in r["params"])
            + "    out int y,\n    src py \"s\",\n)\n")

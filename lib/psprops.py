"""Shared engine of the runtime properties checked on real pipestance runs
(C01, C02, C03, C06): programs -> MroSem table (TLC) -> real runs under forced
schedules (vh ps-run) -> PsTrace monitors (TLC) -> violations per property."""
import json
import os
import random
import re
import time

import mro
import psrun
import shapes
import vlib

MERGE_RE = re.compile(r"merge of (map|array) .*(unresolved fork|could not match reference to a specific fork)", re.S)

DEFAULTS = {"ev": "", "run": "", "job": "", "inst": "", "kind": "", "chunk": 0, "flag": True, "weak": False, "named": True,
            "txt": "", "outcome": "", "jobs": [], "faults": [],
            "files": [], "gs": [], "xs": [], "ts": [], "ls": [], "nums": [], "facts": []}


def rec(**kw):
    r = dict(DEFAULTS)
    r.update(kw)
    return r


def expected_jobs(sem):
    invs = sem["inv"]
    split_insts = {i["inst"] for i in invs if i["kind"] == "split"}
    jobs = []
    for i in invs:
        key = "%s/%s/%d" % (i["inst"], i["kind"], i["chunk"])
        last = (i["kind"] == "join") if i["inst"] in split_insts else (i["kind"] == "main")
        strong = [d for d in i["deps"] if not d.startswith("~")]
        weak = sorted({d.lstrip("~") for d in i["deps"] if d.startswith("~")} - set(strong))
        jobs.append({"key": key, "inst": i["inst"], "kind": i["kind"], "chunk": i["chunk"],
                     "deps": strong, "wdeps": weak, "last": last, "split": i["inst"] in split_insts,
                     "ghost": bool(i.get("ghost")), "vol": bool(i.get("vol")), "svol": i.get("svol") or ""})
    return jobs


def file_key(f):
    return "%s|%d|%s" % (f["p"], f["c"], f["n"])


def file_facts(sem):
    return [{"key": file_key(f["f"]), "users": f["users"], "top": f["top"], "retained": f["retained"],
             "vol": f["vol"], "svol": f["svol"], "chunk": f["f"]["c"] >= 0, "writer": f["writer"]}
            for f in sem.get("files") or []]


def monitor_records(spec, sem, result):
    faults = spec.get("faults") or {}
    out = [rec(ev="RunBegin", run=spec["name"], jobs=expected_jobs(sem), weak=bool(sem.get("weak")),
               faults=[{"key": k, "fault": v} for k, v in faults.items()],
               facts=file_facts(sem) if spec.get("files") else [], txt=spec.get("vdr") or "")]
    fault_calls = ["ID.ps." + k.split("[")[0] for k in faults]
    ends = [e for e in result["trace"] if e["ev"] == "RunEnd"]
    for e in result["trace"]:
        if e["ev"] == "StageBegin":
            txt = ""
            if not e["argsOk"]:
                for a in result.get("args_bad") or []:
                    if a.startswith(e["job"] + ":"):
                        txt = a[:300]
            out.append(rec(ev="StageBegin", job=e["job"], flag=bool(e["argsOk"]), txt=txt, files=e.get("missing") or [],
                           kind="placeholder" if "?" in e["job"].split("/")[0].rsplit("[", 1)[-1] else ""))
        elif e["ev"] == "VdrRemove":
            out.append(rec(ev="VdrRemove", files=e.get("files") or [], flag=not e.get("outside"),
                           txt="%s, %s of %s" % (e.get("path"), e.get("why"), e.get("fork"))))
        elif e["ev"] == "ClusterSubmit":
            out.append(rec(ev="ClusterSubmit", job=e["job"], nums=[e["inflight"], e["limit"]]))
        elif e["ev"] == "VdrFinal":
            out.append(rec(ev="VdrFinal", files=e.get("present") or [], gs=(e.get("gone") or []) + (e.get("damaged") or []),
                           xs=e.get("extras") or [], ts=e.get("tmps") or [], ls=e.get("listed_exists") or [],
                           nums=[e["report_count"], e["report_size"], e["removed_files"], e["removed_file_bytes"],
                                 e["removed_entries"], e["removed_bytes"]]))
        elif e["ev"] == "StageEnd":
            out.append(rec(ev="StageEnd", job=e["job"], outcome=e["outcome"]))
        elif e["ev"] == "JobSubmitted":
            out.append(rec(ev="JobSubmitted", job=e["job"], kind=e.get("md", "")))
        elif e["ev"] == "JournalWrite" and "md" in e:
            # a job that survived its mrp writes as the attempt the restarted mrp has replaced
            who = ("the superseded attempt in " + e["md"]) if "#orphan" in e["job"] else e["md"]
            out.append(rec(ev="JournalWrite", job=e["job"], kind=who, txt=e["file"]))
        elif e["ev"] == "JournalSeen":
            # the sentinel the entry announces (what mrp will cache when it routes it)
            st = e["file"].rsplit(".", 1)[-1]
            for pre in ("split_", "join_"):
                if st.startswith(pre):
                    st = st[len(pre):]
            out.append(rec(ev="JournalSeen", txt=e["file"], kind=st))
        elif e["ev"] == "JournalRemove":
            out.append(rec(ev="JournalRemove", txt=e["file"]))
        elif e["ev"] == "MdCached" and e.get("md") not in (None, "."):
            out.append(rec(ev="MdCache", kind=e["md"], txt=e.get("name", ""), flag=True))
        elif e["ev"] == "StageKilled":
            out.append(rec(ev="StageKilled", job=e["job"]))
        elif e["ev"] == "Restart":
            out.append(rec(ev="Restart"))
        elif e["ev"] == "RunEnd":
            last = e is ends[-1]
            state = e["state"] or "none"
            if e.get("stuck"):
                state = "stuck-" + state
            fatal = e.get("fatal") or ""
            named = any(fatal == c or fatal.startswith(c + ".") for c in fault_calls) if fault_calls else True
            notes = ""
            flag = True
            kind = ""
            if last:
                notes = "; ".join(result.get("notes") or [])[:300]
                flog = (result.get("fatal_log") or "")
                if flog:
                    notes = (notes + " | " + flog.replace("\n", " "))[:400]
                if MERGE_RE.search(flog):
                    kind = "merge-unresolved"
                flag = bool(result["outs_ok"])
            if not named:
                notes = ("reported %s; " % fatal) + notes
            out.append(rec(ev="RunEnd", outcome=state, flag=flag, txt=notes, kind=kind, named=named))
    if not ends:
        # the driver itself failed before any run ended
        out.append(rec(ev="RunEnd", outcome="none", flag=False,
                       txt="driver: " + (result.get("error") or "no RunEnd")[:300]))
    return out


def _monitor_shard(records, timeout):
    wd = vlib.scratch("pstrace")
    with open(os.path.join(wd, "trace.ndjson"), "w") as f:
        for r in records:
            f.write(json.dumps(r) + "\n")
    res = vlib.run_tlc("PsTrace", "PsTrace.cfg", workdir=wd, workers=1, timeout=timeout, dfs=True)
    outp = os.path.join(wd, "monitor_out.ndjson")
    if not os.path.exists(outp):
        raise vlib.Infra("PsTrace did not consume the trace:\n" + res.out[-2000:])
    o = json.loads(open(outp).read().splitlines()[0])
    if o["n"] != len(records):
        raise vlib.Infra("PsTrace consumed %d of %d records" % (o["n"], len(records)))
    return o["bad"], res


def run_monitor(records, timeout=2400, shard=60000):
    """Run the PsTrace monitors (TLC) over the records, in shards cut at run
    boundaries. Returns (bad, tlc result with summed counts)."""
    from concurrent.futures import ThreadPoolExecutor
    shards, cur = [], []
    for r in records:
        if r["ev"] == "RunBegin" and len(cur) >= shard:
            shards.append(cur)
            cur = []
        cur.append(r)
    if cur:
        shards.append(cur)
    with ThreadPoolExecutor(8) as ex:
        parts = list(ex.map(lambda sh: _monitor_shard(sh, timeout), shards))
    bad = []
    for b, _ in parts:
        bad += b
    res = parts[0][1]
    res.distinct = sum(p[1].distinct for p in parts)
    res.generated = sum(p[1].generated for p in parts)
    res.wall = max(p[1].wall for p in parts)
    return bad, res


def schedules_for(prog, sem, tier, rng, emphasis):
    """A list of schedule descriptors for one program."""
    scheds = []
    nrand = {"quick": 6, "thorough": 40}[tier]
    for _ in range(nrand):
        scheds.append({"kind": "random", "seed": rng.randrange(1 << 30),
                       "penv": rng.choice([0.2, 0.5, 0.8, 0.95])})
    # adversarial: hold back each producer instance (and each instance at all)
    insts = []
    for i in sem["inv"]:
        if i["inst"] not in insts:
            insts.append(i["inst"])
    producers = []
    for i in sem["inv"]:
        for d in i["deps"]:
            d = d.lstrip("~")
            if d not in producers:
                producers.append(d)
    slow = producers if emphasis != "all" else insts
    for inst in slow:
        scheds.append({"kind": "slow", "slow": inst, "seed": rng.randrange(1 << 30), "penv": 0.9})
    return scheds


def run_programs(progs, tier, emphasis="deps", faults=None, extra_spec=None, nproc=16, model_schedules=True):
    """Returns dict with violations (all properties), stats."""
    import runsim
    t0 = time.time()
    rng = random.Random(vlib.seed())
    sem, semres = psrun.semantics(progs)
    vlib.go_build()
    specs = []
    # direction B: behaviours of MrpRun (TLC) replayed as schedules
    nsim = 0
    sim_states = 0
    if model_schedules:
        byname = {p["name"]: p for p in progs}
        for cfg in ("Map", "Split", "Dis"):
            behs, simres = runsim.behaviours(cfg, {"quick": 40, "thorough": 400}[tier], 200)
            sim_states += simres.generated
            for k, (pname, script) in enumerate(behs):
                if pname in byname:
                    specs.append(psrun.make_spec(byname[pname], sem[pname], {"kind": "script", "script": script},
                                                 name="%s#m%s%d" % (pname, cfg, k), early_defs=True))
                    nsim += 1
    for p in progs:
        for k, sc in enumerate(schedules_for(p, sem[p["name"]], tier, rng, emphasis)):
            s = psrun.make_spec(p, sem[p["name"]], sc, name="%s#%d" % (p["name"], k))
            if k % 2 == 1:
                # split jobs publish their chunk definitions one step before they finish
                s["early_defs"] = True
            if extra_spec:
                s.update(extra_spec)
            specs.append(s)
    results = psrun.run_specs(specs, nproc=nproc)
    by_name = {p["name"]: p for p in progs}
    records = []
    for s, r in zip(specs, results):
        records += monitor_records(s, sem[s["name"].split("#")[0]], r)
    bad, tlc = run_monitor(records)
    spec_by_name = {s["name"]: (s, r) for s, r in zip(specs, results)}
    viols = []
    for b in bad:
        s, r = spec_by_name[b["run"]]
        prog = s["name"].split("#")[0]
        viols.append({
            "prop": b["prop"],
            "key": "%s:%s:%s:%s" % (b["prop"], prog, b["job"], b["what"].split(":")[0][:60]),
            "what": "%s [%s] %s (program %s, schedule %s)" % (b["prop"], b["job"], b["what"], prog,
                                                                json.dumps(s["sched"])),
            "replay": {"spec.json": json.dumps(dict(s, sched={"kind": "script", "script": r["script"]})),
                       "program.mro": s["mro"],
                       "trace.ndjson": "\n".join(json.dumps(e) for e in r["trace"]) + "\n"},
        })
    jobs_begun = sum(1 for r in results for e in r["trace"] if e["ev"] == "StageBegin")
    drift = [(s["name"], n) for s, r in zip(specs, results) for n in (r.get("notes") or [])
             if n.startswith("script step not possible")]
    for name, n in drift[:3]:
        print("NOTE model-drift a schedule generated from MrpRun could not be followed by the real run loop: %s (%s)" % (n, name))
    stats = {
        "model_behaviours_replayed": nsim, "model_drift": len(drift), "simulation_states": sim_states,
        "programs": len(progs), "runs": len(specs), "events": sum(r["events"] for r in results),
        "jobs_executed": jobs_begun, "monitor_records": len(records),
        "tlc_states": tlc.distinct, "tlc_generated": tlc.generated,
        "sem_wall": semres.wall, "monitor_wall": tlc.wall, "wall": time.time() - t0,
        "distinct_scripts": len({(s["name"].split("#")[0], tuple(r["script"])) for s, r in zip(specs, results)}),
        "sample": {"program": specs[0]["name"], "schedule": results[0]["script"][:40],
                   "trace_head": [e for e in results[0]["trace"]
                                  if e["ev"] in ("JobSubmitted", "StageBegin", "StageEnd", "Refresh", "Step", "NodeState")][:20]},
    }
    return viols, stats, (specs, results, sem)


def replay_spec(path):
    """Re-run a saved replay directory. Returns (viols, stats)."""
    s = json.load(open(os.path.join(path, "spec.json")))
    vlib.go_build()
    r = psrun.run_specs([s], nproc=1)[0]
    # semantics table is embedded in the spec
    sem = {"inv": s["invs"], "outs": s["outs"], "weak": s.get("weak", False)}
    bad, tlc = run_monitor(monitor_records(s, sem, r))
    return bad, r

"""Programs for the acceptance table of C07, rendered from the rows of
spec/WellTyped.tla, and hand-written single-point ill-typed mutants."""
import json

import invcorpus

DECLS = invcorpus.DECLS
ts = invcorpus.type_str


def lines(parts):
    return "\n".join(parts) + "\n"


def rev_program(r):
    """a maparr / mapmap row with the calls of the pipeline written against their
    dependencies (consumer, mapped producer, generator): the compiler has to order
    them itself before it can type the references"""
    s, t, kind = r["s"], r["t"], r["kind"]
    coll = "int[]" if kind == "maparr" else "map<int>"
    L = DECLS.rstrip("\n").split("\n") + [""]
    L += ["stage G(", "    out %s zs," % coll, "    src comp \"g\",", ")", ""]
    L += ["stage P(", "    in  int z,", "    out %s v," % ts(s), "    src comp \"p\",", ")", ""]
    L += ["stage C(", "    in  %s x," % ts(t), "    out int y,", "    src comp \"c\",", ")", ""]
    L += ["stage X(", "    in  int y,", "    out int w,", "    src comp \"x\",", ")", ""]
    L += ["pipeline TOP(", "    out int y,", ")", "{", "    call X(", "        y = C.y,", "    )", "", "    call C("]
    call_line = len(L)
    L += ["        x = P.v,"]
    bind_line = len(L)
    L += ["    )", "", "    map call P(", "        z = split G.zs,", "    )", "", "    call G(", "    )", "",
          "    return (", "        y = X.w,", "    )", "}", "", "call TOP(", ")"]
    return lines(L), bind_line, call_line


def shorthand_ok(r):
    """rows for which `x = P` can only mean P's default output"""
    t = r["t"]
    return r["kind"] == "ref" and t["m"] == 0 and t["b"] in ("int", "float", "string", "bool", "file", "path", "txt")


def shorthand_program(r):
    """the Martian-3 shorthand: a bare call name bound to a parameter stands for the
    call's default (unnamed) output"""
    s, t = r["s"], r["t"]
    L = DECLS.rstrip("\n").split("\n") + [""]
    L += ["stage P(", "    out %s," % ts(s), "    src comp \"p\",", ")", ""]
    L += ["stage C(", "    in  %s x," % ts(t), "    out int y,", "    src comp \"c\",", ")", ""]
    L += ["pipeline TOP(", "    out int y,", ")", "{", "    call P(", "    )", "", "    call C("]
    call_line = len(L)
    L += ["        x = P,"]
    bind_line = len(L)
    L += ["    )", "", "    return (", "        y = C.y,", "    )", "}", "", "call TOP(", ")"]
    return lines(L), bind_line, call_line


def wildself_program(r, ret=False):
    """the binding made by a wildcard: a pipeline input x of type s handed on by `* = self` to a
    callee parameter x of type t (ret: to the pipeline's own output x by `return (* = self)`)"""
    s, t = r["s"], r["t"]
    L = DECLS.rstrip("\n").split("\n") + [""]
    if ret:
        L += ["stage K(", "    in  %s x," % ts(s), "    out int w,", "    src comp \"k\",", ")", ""]
        L += ["pipeline INNER(", "    in  %s x," % ts(s), "    out %s x," % ts(t), ")", "{", "    call K(", "        x = self.x,", "    )", ""]
        a = len(L) + 1
        L += ["    return (", "        * = self,", "    )"]
        b = len(L)
        L += ["}"]
        return lines(L), list(range(a - 12, b + 1))
    L += ["stage C(", "    in  %s x," % ts(t), "    out int y,", "    src comp \"c\",", ")", ""]
    L += ["pipeline INNER(", "    in  %s x," % ts(s), "    out int y,", ")", "{"]
    a = len(L) + 1
    L += ["    call C(", "        * = self,", "    )"]
    b = len(L)
    L += ["", "    return (", "        y = C.y,", "    )", "}"]
    return lines(L), list(range(a, b + 1))


def ref_program(r):
    """returns (source, line of the offending binding, line of its call)"""
    s, t, kind = r["s"], r["t"], r["kind"].replace("proj", "")
    head = DECLS.rstrip("\n").split("\n")
    L = list(head) + [""]
    pin = "    in  int z," if kind in ("maparr", "mapmap") else None
    L += ["stage P("] + ([pin] if pin else []) + ["    out %s v," % ts(s), "    src comp \"p\",", ")", ""]
    L += ["stage C(", "    in  %s x," % ts(t), "    out int y,", "    src comp \"c\",", ")", ""]
    if kind == "maparr":
        L += ["pipeline TOP(", "    in  int[] zs,", "    out int y,", ")", "{"]
        L += ["    map call P(", "        z = split self.zs,", "    )", ""]
    elif kind == "mapmap":
        L += ["pipeline TOP(", "    in  map<int> zs,", "    out int y,", ")", "{"]
        L += ["    map call P(", "        z = split self.zs,", "    )", ""]
    else:
        L += ["pipeline TOP(", "    out int y,", ")", "{"]
        L += ["    call P(", "    )", ""]
    if kind == "split":
        # the consumer is mapped over the producer's output
        out_t = "int[]" if s["a"] > 0 else "map<int>"
        i = L.index("    out int y,", L.index("pipeline TOP("))
        L[i] = "    out %s y," % out_t
        L += ["    map call C("]
        call_line = len(L)
        L += ["        x = split P.v,"]
    else:
        L += ["    call C("]
        call_line = len(L)
        L += ["        x = P.v%s," % "".join("." + p for p in r["path"])]
    bind_line = len(L)
    L += ["    )", "", "    return (", "        y = C.y,", "    )", "}", ""]
    if kind == "maparr":
        L += ["call TOP(", "    zs = [1, 2],", ")"]
    elif kind == "mapmap":
        L += ["call TOP(", "    zs = {\"a\": 1},", ")"]
    else:
        L += ["call TOP(", ")"]
    return lines(L), bind_line, call_line


def lit_program(r):
    t, v = r["t"], r["v"]
    import mro
    L = DECLS.rstrip("\n").split("\n") + [""]
    L += ["stage C(", "    in  %s x," % ts(t), "    out int y,", "    src comp \"c\",", ")", "", "call C("]
    call_line = len(L)
    prog = {"structs": invcorpus.STRUCTS}
    L += ["    x = %s," % mro.render_value(v, t, prog).replace("\n", " ")]
    return lines(L + [")"]), len(L), call_line



def arity_program(r):
    """a call statement (or a return statement) that binds the names r["given"] to a
    callee (pipeline) that declares r["decl"]; returns (source, lines of the statement)"""
    decl, given, where = r["decl"], r["given"], r["where"]
    L = []
    if where == "return":
        L += ["stage G(", "    out int v,", "    src comp \"g\",", ")", ""]
        L += ["pipeline TOP("] + ["    out int %s," % n for n in decl] + [")", "{", "    call G(", "    )", ""]
        a = len(L) + 1
        L += ["    return ("] + ["        %s = G.v," % n for n in given] + ["    )"]
        b = len(L)
        L += ["}", "", "call TOP(", ")"]
        return lines(L), list(range(a, b + 1))
    L += ["stage K("] + ["    in  int %s," % n for n in decl] + ["    out int y,", "    src comp \"k\",", ")", ""]
    callee = "K"
    if where == "pipeline":
        L += ["pipeline INNER("] + ["    in  int %s," % n for n in decl] + ["    out int y,", ")", "{", "    call K("]
        L += ["        %s = self.%s," % (n, n) for n in decl] + ["    )", "", "    return (", "        y = K.y,", "    )", "}", ""]
        callee = "INNER"
    if where == "top":
        a = len(L) + 1
        L += ["call K("] + ["    %s = 1," % n for n in given] + [")"]
        return lines(L), list(range(a, len(L) + 1))
    L += ["pipeline TOP(", "    out int y,", ")", "{"]
    a = len(L) + 1
    L += ["    call %s(" % callee] + ["        %s = 1," % n for n in given] + ["    )"]
    b = len(L)
    L += ["", "    return (", "        y = %s.y," % callee, "    )", "}", "", "call TOP(", ")"]
    return lines(L), list(range(a, b + 1))


BASE = DECLS + """stage P(
    in  int z,
    out int v,
    out int[] vs,
    out S1 s,
    src comp "p",
)

stage C(
    in  int x,
    in  S1 s,
    out int y,
    src comp "c",
)

pipeline TOP(
    in  int[] zs,
    in  map<int> zm,
    out int y,
)
{
    call P(
        z = 1,
    )

    map call P as PA(
        z = split self.zs,
    )

    map call P as PM(
        z = split self.zm,
    )

    call C(
        x = P.v,
        s = P.s,
    )

    return (
        y = C.y,
    )
}

call TOP(
    zs = [1, 2],
    zm = {"a": 1},
)
"""


def mutants():
    """(id, source, expected line(s)) - every one must be rejected with an error naming one of the lines"""
    out = []

    def mut(mid, old, new, marker):
        assert old in BASE, mid
        src = BASE.replace(old, new, 1)
        ls = src.split("\n")
        ln = []
        for i, l in enumerate(ls):
            if marker in l:
                # the whole statement the marked line belongs to: back to the line that
                # opens it, forward to the line that closes it
                a = i
                while a > 0 and not ls[a].strip().startswith(("call ", "map call ", "return (", "stage ", "pipeline ")):
                    a -= 1
                b = i
                while b < len(ls) - 1 and ls[b].strip() not in (")", ")\n") and not ls[b].strip().startswith(") using"):
                    b += 1
                ln += list(range(a + 1, b + 2))
        out.append((mid, src, sorted(set(ln))))
    mut("unknown_parameter", "        x = P.v,\n", "        x = P.v,\n        nosuch = 1,\n", "nosuch = 1")
    mut("missing_parameter", "        x = P.v,\n        s = P.s,\n", "        s = P.s,\n", "call C(")
    mut("nonexistent_output", "x = P.v,", "x = P.nothing,", "x = P.nothing")
    mut("nonexistent_call", "x = P.v,", "x = Q.v,", "x = Q.v")
    mut("nonexistent_self", "z = 1,", "z = self.nope,", "z = self.nope")
    mut("wrong_base_type", "x = P.v,", "x = \"str\",", "x = \"str\"")
    mut("array_depth_plus", "x = P.v,", "x = P.vs,", "x = P.vs")
    mut("array_for_scalar_literal", "x = P.v,", "x = [1],", "x = [1]")
    mut("map_for_scalar_literal", "x = P.v,", "x = {\"a\": 1},", "x = {")
    mut("struct_missing_field", "s = P.s,", "s = {a: 1},", "s = {")
    mut("struct_extra_field", "s = P.s,", "s = {a: 1, b: \"x\", c: 3},", "s = {")
    mut("struct_wrong_field_type", "s = P.s,", "s = {a: \"one\", b: \"x\"},", "s = {")
    mut("project_missing_field", "x = P.v,", "x = P.s.zz,", "x = P.s.zz")
    mut("project_through_scalar", "x = P.v,", "x = P.v.a,", "x = P.v.a")
    mut("split_without_map", "z = 1,", "z = split self.zs,", "z = split")
    mut("map_without_split", "    call P(\n        z = 1,", "    map call P(\n        z = 1,", "map call P(")
    mut("split_scalar", "    call P(\n        z = 1,", "    map call P(\n        z = split 1,", "z = split")
    mut("split_array_and_map", "    call P(\n        z = 1,\n    )", "    map call C as CC(\n        x = split self.zs,\n        s = split self.zm,\n    )\n\n    call P(\n        z = 1,\n    )", "s = split self.zm")
    mut("split_different_lengths", "    call P(\n        z = 1,\n    )", "    map call C as CC(\n        x = split [1, 2],\n        s = split [null],\n    )\n\n    call P(\n        z = 1,\n    )", "s = split [null]")
    mut("split_different_keys", "    call P(\n        z = 1,\n    )", "    map call C as CC(\n        x = split {\"a\": 1},\n        s = split {\"b\": null},\n    )\n\n    call P(\n        z = 1,\n    )", "s = split {")
    mut("split_keys_subset_first", "    call P(\n        z = 1,\n    )", "    map call C as CC(\n        x = split {\"a\": 3},\n        s = split {\"a\": null, \"b\": null},\n    )\n\n    call P(\n        z = 1,\n    )", "s = split {")
    mut("split_keys_superset_first", "    call P(\n        z = 1,\n    )", "    map call C as CC(\n        x = split {\"a\": 3, \"b\": 4},\n        s = split {\"a\": null},\n    )\n\n    call P(\n        z = 1,\n    )", "s = split {")
    mut("split_arrays_shorter_first", "    call P(\n        z = 1,\n    )", "    map call C as CC(\n        x = split [1],\n        s = split [null, null],\n    )\n\n    call P(\n        z = 1,\n    )", "s = split [null, null]")
    mut("return_wrong_type", "y = C.y,", "y = P.vs,", "y = P.vs")
    mut("return_missing", "        y = C.y,\n", "", "return (")
    mut("return_unknown", "        y = C.y,\n", "        y = C.y,\n        w = 1,\n", "w = 1")
    mut("disabled_not_bool", "    call C(\n        x = P.v,\n        s = P.s,\n    )", "    call C(\n        x = P.v,\n        s = P.s,\n    ) using (\n        disabled = P.v,\n    )", "disabled = P.v")
    mut("top_arg_wrong_type", "zs = [1, 2],", "zs = \"no\",", "zs = \"no\"")
    mut("top_arg_unknown", "zs = [1, 2],", "zs = [1, 2],\n    other = 1,", "other = 1")
    mut("unknown_type", "in  int z,", "in  nosuchtype z,", "nosuchtype z")
    mut("duplicate_parameter", "    in  int z,\n", "    in  int z,\n    in  int z,\n", "in  int z")
    mut("duplicate_call", "    call C(\n        x = P.v,", "    call P(\n        z = 2,\n    )\n\n    call C(\n        x = P.v,", "call P(")
    mut("self_reference", "z = 1,", "z = P.v,", "z = P.v")
    return out

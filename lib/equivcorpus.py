"""Pairs (original program, edited program) for the re-attach check (C15): one
cosmetic or one semantic edit at every applicable site of the transitive
closure of the top-level call.  Edits are made on the abstract program
(lib/mro.py form) or, for things the abstraction does not carry (comments,
layout, help strings, resources, stage source, include structure), on the
rendered text."""
import copy
import json
import re

import fshapes
import mro
import shapes

def rich_base():
    """bool inputs, several disabling conditions, literals, a sub-pipeline, a file output"""
    from mro import stage, call, pipeline, program, ref, self_, lit, const, echo, INST, FILE
    return program("equiv_rich", [],
                   [stage("A", "int x, int k", "int y", {"y": echo("x")}),
                    stage("B", "int x", "int y", {"y": echo("x")}),
                    stage("F", "int x", "txt f, int n, map<txt> fm, txt[] fa", {"f": FILE, "n": const(1), "fm": const({}), "fa": const([])}),
                    stage("CHK", "int v", "", {})],
                   [pipeline("SUB", "int x, bool d", "int y",
                             [call("A", binds={"x": self_("x"), "k": lit(7)}),
                              call("B", binds={"x": ref("A", "y")}, dis=self_("d"))],
                             {"y": ref("A", "y")}),
                    pipeline("TOP", "int x, bool d1, bool d2", "int o, txt f",
                             [call("PRE", "CHK", binds={"v": lit(1)}, pre=True),
                              call("A", binds={"x": self_("x"), "k": lit(3)}),
                              call("B", binds={"x": ref("A", "y")}, dis=self_("d1")),
                              call("B2", "B", binds={"x": ref("A", "y")}, dis=self_("d2"), local=True),
                              call("SUB", binds={"x": ref("A", "y"), "d": self_("d2")}),
                              call("F", binds={"x": ref("SUB", "y")}, vol=True)],
                             {"o": ref("SUB", "y"), "f": ref("F", "f")})],
                   "TOP", {"x": 4, "d1": False, "d2": True}, filetypes=("txt",))


def wild_base():
    """two calls of one stage, a consumer bound to one of them through a wildcard, and a
    float argument of very small magnitude"""
    from mro import stage, call, pipeline, program, ref, self_, lit, const, echo
    use = call("USE", binds={"a": ref("FIRST", "a"), "b": ref("FIRST", "b"), "eps": lit(1e-20)})
    use["wildsrc"] = "FIRST"
    sub = call("MK", binds={"x": self_("x")})
    sub["wildsrc"] = "self"
    return program("equiv_wild", [],
                   [stage("MK", "int x", "int a, int b", {"a": const(1), "b": const(2)}),
                    stage("USE", "int a, int b, float eps", "int s", {"s": const(3)})],
                   [pipeline("SUB", "int x", "int a", [sub], {"a": ref("MK", "a")}),
                    pipeline("TOP", "int x, int x2", "int s, int t",
                             [call("FIRST", "MK", binds={"x": self_("x")}),
                              call("SECOND", "MK", binds={"x": self_("x2")}),
                              call("SUB", binds={"x": self_("x")}),
                              use],
                             {"s": ref("USE", "s"), "t": ref("SUB", "a")})],
                   "TOP", {"x": 4, "x2": 5})


def alias_base():
    """a struct type that only parameters of callables behind ALIASED calls have, and literal
    typed-map / array arguments of calls inside an included pipeline"""
    from mro import stage, call, pipeline, program, ref, self_, lit, const, struct
    return program("equiv_alias", [struct("INFO", "string name, float weight, int n")],
                   [stage("MAKE_INFO", "int x, map<int> tags, int[] ks", "INFO info", {"info": const({"name": "a", "weight": 1.5, "n": 2})}),
                    stage("USE_INFO", "INFO i, map<float> ws", "int s", {"s": const(3)})],
                   [pipeline("TOP", "int x", "int s",
                             [call("MAKER", "MAKE_INFO", binds={"x": self_("x"), "tags": lit({"a": 1, "b": 2, "c": 3}), "ks": lit([4, 5, 6])}),
                              call("USER", "USE_INFO", binds={"i": ref("MAKER", "info"), "ws": lit({"p": 0.5, "q": 0.25})})],
                             {"s": ref("USER", "s")})],
                   "TOP", {"x": 4})


def ftstruct_base():
    """user file types as members of a struct, of an array of structs and of a nested struct"""
    from mro import stage, call, pipeline, program, ref, self_, const, struct, FSTRUCT
    return program("equiv_ftstruct", [struct("REP", "csv f, int n"), struct("BOOK", "REP first, REP[] rest, map<idx> byname")],
                   [stage("MAKE", "int x", "REP rep, BOOK book", {"rep": FSTRUCT, "book": const(None)}),
                    stage("USE", "REP rep, BOOK book", "int s", {"s": const(3)})],
                   [pipeline("TOP", "int x", "int s, REP rep",
                             [call("MAKE", binds={"x": self_("x")}),
                              call("USE", binds={"rep": ref("MAKE", "rep"), "book": ref("MAKE", "book")})],
                             {"s": ref("USE", "s"), "rep": ref("MAKE", "rep")})],
                   "TOP", {"x": 4}, filetypes=("csv", "idx"))


BASES = ["equiv_ftstruct", "equiv_alias", "equiv_wild", "equiv_rich", "subpipe", "dis_pipe", "map_dyn2", "split2", "structs", "map_pipe", "vf_basic", "vf_sub", "diamond"]


def norm(p):
    p = copy.deepcopy(p)
    p.setdefault("filetypes", [])
    p["top"].setdefault("id", p["top"]["callee"])
    for c in p["stages"] + p["pipelines"]:
        for o in c["outs"]:
            o.setdefault("outname", "")
    return p


def walk_exp(e, f):
    """apply f to every sub-expression (pre-order); f may mutate"""
    f(e)
    if e["k"] == "arrx":
        for x in e["es"]:
            walk_exp(x, f)
    elif e["k"] == "objx":
        for x in e["fs"]:
            walk_exp(x["e"], f)
    elif e["k"] == "split":
        walk_exp(e["e"], f)


def all_exps(pl):
    for c in pl["calls"]:
        for b in c["binds"]:
            yield b["e"]
        if c["dis"]["k"] != "none":
            yield c["dis"]
    for r in pl["ret"]:
        yield r["e"]
    for r in pl.get("retain", []):
        yield r


def sites(p):
    """(pipeline index, call index) of every call"""
    for i, pl in enumerate(p["pipelines"]):
        for j, _ in enumerate(pl["calls"]):
            yield i, j


def edits(p):
    """yield (label, kind, edited abstract program) ; kind in cosmetic / semantic"""
    # ---- cosmetic, abstract level
    q = copy.deepcopy(p)
    q["stages"] = list(reversed(q["stages"]))
    yield "reorder_declarations", "cosmetic", q
    for ft in p["filetypes"]:
        q = json.loads(json.dumps(p).replace('"b": "%s"' % ft, '"b": "%s_renamed"' % ft))
        q["filetypes"] = [x + "_renamed" if x == ft else x for x in p["filetypes"]]
        yield "rename_filetype:" + ft, "cosmetic", q
    for i, j in sites(p):
        c = p["pipelines"][i]["calls"][j]
        callee_is_stage = any(s["name"] == c["callee"] for s in p["stages"])
        if callee_is_stage and not c["pre"]:
            q = copy.deepcopy(p)
            q["pipelines"][i]["calls"][j]["vol"] = not c["vol"]
            yield "toggle_volatile:%s.%s" % (p["pipelines"][i]["name"], c["id"]), "cosmetic", q
    for k, st in enumerate(p["stages"]):
        q = copy.deepcopy(p)
        q["stages"][k]["volatile"] = "strict" if not st.get("volatile") else ""
        yield "stage_volatile:" + st["name"], "cosmetic", q
        fouts = [o["n"] for o in st["outs"] if o["t"]["b"] in ("file", "path") + tuple(p["filetypes"])]
        if fouts and not st.get("retain"):
            q = copy.deepcopy(p)
            q["stages"][k]["retain"] = [fouts[0]]
            yield "stage_retain:" + st["name"], "cosmetic", q
        # the callable behind an alias changes its name
        q = json.loads(json.dumps(p))
        new = st["name"] + "_V2"
        q["stages"][k]["name"] = new
        used = False
        for pl in q["pipelines"]:
            for c in pl["calls"]:
                if c["callee"] == st["name"]:
                    c["callee"] = new       # c.id stays: `call S_V2 as S`
                    used = True
        if used:
            yield "rename_callable_behind_alias:" + st["name"], "cosmetic", q
    q = copy.deepcopy(p)
    q["stages"].append(mro.stage("UNUSED_EXTRA", "int x", "int y", {"y": mro.echo("x")}))
    yield "add_unused_stage", "cosmetic", q
    for i, pl in enumerate(p["pipelines"]):
        for j in range(len(pl["calls"]) - 1):
            a, b = pl["calls"][j], pl["calls"][j + 1]
            if a["id"] not in json.dumps(b) and not a["pre"] and not b["pre"]:
                q = copy.deepcopy(p)
                q["pipelines"][i]["calls"][j], q["pipelines"][i]["calls"][j + 1] = b, a
                yield "reorder_calls:%s.%s" % (pl["name"], a["id"]), "cosmetic", q
                break
    # ---- semantic
    for i, j in sites(p):
        pl = p["pipelines"][i]
        c = pl["calls"][j]
        where = "%s.%s" % (pl["name"], c["id"])
        # call name
        q = copy.deepcopy(p)
        new = c["id"] + "_X"
        qc = q["pipelines"][i]["calls"][j]
        qc["id"] = new

        def ren(e, old=c["id"], new=new):
            if e["k"] == "ref" and e["call"] == old:
                e["call"] = new
        for e in all_exps(q["pipelines"][i]):
            walk_exp(e, ren)
        yield "rename_call:" + where, "semantic", q
        # literal argument
        # the source of a wildcard binding changes to another call of the same stage
        if c.get("wildsrc") and c["wildsrc"] != "self":
            src = next(x for x in pl["calls"] if x["id"] == c["wildsrc"])
            for other in pl["calls"]:
                if other["callee"] == src["callee"] and other["id"] != src["id"]:
                    q = copy.deepcopy(p)
                    qc = q["pipelines"][i]["calls"][j]
                    qc["wildsrc"] = other["id"]
                    for b in qc["binds"]:
                        if b["e"]["k"] == "ref" and b["e"]["call"] == src["id"]:
                            b["e"]["call"] = other["id"]
                    yield "change_wildcard_source:" + where, "semantic", q
                    break
        # a float argument of tiny magnitude changes by a factor of three / becomes zero
        for bi, b in enumerate(c["binds"]):
            if b["e"]["k"] == "lit" and b["e"]["v"]["k"] == "float" and abs(float(b["e"]["v"]["f"])) < 1e-15:
                for nv in ("3e-20", "0.0", "1e-30"):
                    q = copy.deepcopy(p)
                    q["pipelines"][i]["calls"][j]["binds"][bi]["e"]["v"]["f"] = nv
                    yield "change_tiny_float:%s.%s=%s" % (where, b["n"], nv), "semantic", q
        # a literal typed-map / array argument loses an entry, gains one, changes one
        for bi, b in enumerate(c["binds"]):
            if b["e"]["k"] == "lit" and b["e"]["v"]["k"] in ("obj", "arr"):
                v = mro.untag(b["e"]["v"])
                variants = []
                if isinstance(v, dict) and len(v) > 1:
                    ks = sorted(v)
                    variants = [("remove_entry_first", {k: v[k] for k in ks[1:]}), ("remove_entry_last", {k: v[k] for k in ks[:-1]}),
                                ("add_entry", dict(v, zz_new=v[ks[0]])), ("change_entry", dict(v, **{ks[-1]: v[ks[0]]}))]
                elif isinstance(v, list) and len(v) > 1:
                    variants = [("remove_element", v[:-1]), ("add_element", v + v[:1]), ("swap_elements", [v[1], v[0]] + v[2:])]
                for lab, nv in variants:
                    if nv == v:
                        continue
                    q = copy.deepcopy(p)
                    q["pipelines"][i]["calls"][j]["binds"][bi]["e"] = mro.lit(nv)
                    yield "literal_%s:%s.%s" % (lab, where, b["n"]), "semantic", q
        for bi, b in enumerate(c["binds"]):
            if b["e"]["k"] == "lit" and b["e"]["v"]["k"] == "int":
                q = copy.deepcopy(p)
                q["pipelines"][i]["calls"][j]["binds"][bi]["e"]["v"]["i"] += 1
                yield "change_literal:%s.%s" % (where, b["n"]), "semantic", q
                break
        # disabling condition
        if c["dis"]["k"] != "none":
            q = copy.deepcopy(p)
            q["pipelines"][i]["calls"][j]["dis"] = mro.NONE
            yield "remove_disabled:" + where, "semantic", q
            # another condition of the same pipeline
            others = [x["dis"] for x in pl["calls"] if x["dis"]["k"] != "none" and x["dis"] != c["dis"]]
            bools = [{"k": "self", "id": x["n"], "path": []} for x in pl["ins"] if x["t"] == mro.T("bool")]
            for o in others + [b_ for b_ in bools if b_ != c["dis"]]:
                q = copy.deepcopy(p)
                q["pipelines"][i]["calls"][j]["dis"] = o
                yield "change_disabled:" + where, "semantic", q
                break
        else:
            bools = [{"k": "self", "id": x["n"], "path": []} for x in pl["ins"] if x["t"] == mro.T("bool")]
            if bools and not c["pre"]:
                q = copy.deepcopy(p)
                q["pipelines"][i]["calls"][j]["dis"] = bools[0]
                yield "add_disabled:" + where, "semantic", q
        callee_is_stage = any(s["name"] == c["callee"] for s in p["stages"])
        if callee_is_stage and not c["pre"]:
            q = copy.deepcopy(p)
            q["pipelines"][i]["calls"][j]["local"] = not c.get("local")
            yield "toggle_local:" + where, "semantic", q
        # remove the call if nothing refers to it
        refs = set()
        for e in all_exps(pl):
            walk_exp(e, lambda x: refs.add(x["call"]) if x["k"] == "ref" else None)
        if c["id"] not in refs:
            q = copy.deepcopy(p)
            del q["pipelines"][i]["calls"][j]
            yield "remove_call:" + where, "semantic", q
    for i, pl in enumerate(p["pipelines"]):
        for ri, r in enumerate(pl["ret"]):
            if r["e"]["k"] == "ref":
                # return another output of the same type if there is one; else a null literal
                q = copy.deepcopy(p)
                q["pipelines"][i]["ret"][ri]["e"] = mro.lit(None)
                yield "change_return:%s.%s" % (pl["name"], r["n"]), "semantic", q
        # a new, unused call
        st = p["stages"][0]
        if not st["ins"] or all(x["t"] == mro.T("int") for x in st["ins"]):
            q = copy.deepcopy(p)
            q["pipelines"][i]["calls"].append(mro.call("ADDED", st["name"], binds={x["n"]: mro.lit(1) for x in st["ins"]}))
            yield "add_call:" + pl["name"], "semantic", q
    for k, st in enumerate(p["stages"]):
        q = copy.deepcopy(p)
        q["stages"][k]["ins"].append({"n": "extra_in", "t": mro.T("int")})
        yield "add_input:" + st["name"], "semantic", q
        q = copy.deepcopy(p)
        q["stages"][k]["outs"].append({"n": "extra_out", "t": mro.T("int"), "outname": ""})
        q["stages"][k]["rules"].append({"n": "extra_out", "r": mro.const(0)})
        yield "add_output:" + st["name"], "semantic", q
        if not st["split"]:
            q = copy.deepcopy(p)
            q["stages"][k]["split"] = True
            q["stages"][k]["chunks"] = {"k": "fixed", "c": 1}
            yield "make_splitting:" + st["name"], "semantic", q
            # ... with a split section that declares no chunk parameters at all
            q = copy.deepcopy(p)
            q["stages"][k]["split"] = True
            q["stages"][k]["chunks"] = {"k": "fixed", "c": 1}
            q["stages"][k]["nochunkparams"] = True
            yield "make_splitting_without_chunk_parameters:" + st["name"], "semantic", q
        # the stage changes its name (its calls keep theirs through an alias) and at the same time
        # what it is: it splits / it has another output
        for lab in ("splits", "output"):
            q = json.loads(json.dumps(p))
            new = st["name"] + "_V2"
            q["stages"][k]["name"] = new
            if lab == "splits":
                if st["split"]:
                    continue
                q["stages"][k]["split"] = True
                q["stages"][k]["chunks"] = {"k": "fixed", "c": 1}
            else:
                q["stages"][k]["outs"].append({"n": "extra_out", "t": mro.T("int"), "outname": ""})
                q["stages"][k]["rules"].append({"n": "extra_out", "r": mro.const(0)})
            used = False
            for pl in q["pipelines"]:
                for c in pl["calls"]:
                    if c["callee"] == st["name"]:
                        c["callee"] = new
                        used = True
            if used:
                yield "rename_behind_alias_and_change_%s:%s" % (lab, st["name"]), "semantic", q
        for oi, o in enumerate(st["outs"]):
            if o["t"] == mro.T("int"):
                q = copy.deepcopy(p)
                q["stages"][k]["outs"][oi]["t"] = mro.T("float")
                yield "change_output_type:%s.%s" % (st["name"], o["n"]), "semantic", q
                break
    # a sub-pipeline changes its name (its calls keep theirs through an alias) and its body: a
    # literal argument of one of its calls, or one of its return bindings
    for i, pl in enumerate(p["pipelines"]):
        callers = [(a, b) for a, pp in enumerate(p["pipelines"]) for b, c in enumerate(pp["calls"]) if c["callee"] == pl["name"]]
        if not callers or pl["name"] == p["top"]["callee"]:
            continue
        q = json.loads(json.dumps(p))
        new = pl["name"] + "_V2"
        q["pipelines"][i]["name"] = new
        for a, b in callers:
            q["pipelines"][a]["calls"][b]["callee"] = new
        changed = False
        for c in q["pipelines"][i]["calls"]:
            for b in c["binds"]:
                if b["e"]["k"] == "lit" and isinstance(b["e"]["v"], int) and not isinstance(b["e"]["v"], bool):
                    b["e"]["v"] += 1
                    changed = True
                    break
            if changed:
                break
        if not changed and q["pipelines"][i]["calls"]:
            c = q["pipelines"][i]["calls"][0]
            c["local"] = not c.get("local")
            changed = True
        if changed:
            yield "rename_pipeline_behind_alias_and_change_body:" + pl["name"], "semantic", q
    # the definition of a struct type that a parameter of the invocation's callables has:
    # a member is added, removed, or changes its type
    used = json.dumps([st["ins"] + st["outs"] for st in p["stages"]] + [pl["ins"] + pl["outs"] for pl in p["pipelines"]] +
                      [sd["fields"] for sd in p.get("structs", [])])
    for k, sd in enumerate(p.get("structs", [])):
        if '"b": "%s"' % sd["name"] not in used:
            continue
        q = copy.deepcopy(p)
        q["structs"][k]["fields"].append({"n": "extra_member", "t": mro.T("int")})
        yield "struct_add_member:" + sd["name"], "semantic", q
        if len(sd["fields"]) > 1:
            q = copy.deepcopy(p)
            del q["structs"][k]["fields"][-1]
            yield "struct_remove_member:" + sd["name"], "semantic", q
        for fi, f in enumerate(sd["fields"]):
            if f["t"] == mro.T("int"):
                q = copy.deepcopy(p)
                q["structs"][k]["fields"][fi]["t"] = mro.T("float")
                yield "struct_retype_member:%s.%s" % (sd["name"], f["n"]), "semantic", q
                break
        for fi, f in enumerate(sd["fields"]):
            if f["t"] == mro.T("float"):
                q = copy.deepcopy(p)
                q["structs"][k]["fields"][fi]["t"] = mro.T("int")
                yield "struct_retype_member_to_int:%s.%s" % (sd["name"], f["n"]), "semantic", q
                break
    # the shape of a collection of files changes (typed map of files <-> of arrays of files,
    # array of files <-> array of typed maps of files)
    for k, st in enumerate(p["stages"]):
        for oi, o in enumerate(st["outs"]):
            t = o["t"]
            if t["b"] in p.get("filetypes", ()) and (t["m"] == 1 or t["a"] == 1):
                q = copy.deepcopy(p)
                if t["m"] == 1:
                    q["stages"][k]["outs"][oi]["t"] = dict(t, ia=t["ia"] + 1)
                else:
                    q["stages"][k]["outs"][oi]["t"] = dict(t, m=1)
                yield "change_file_collection_shape:%s.%s" % (st["name"], o["n"]), "semantic", q
    for ai, a in enumerate(p["top"]["args"]):
        if a["e"]["k"] == "lit" and a["e"]["v"]["k"] == "int":
            q = copy.deepcopy(p)
            q["top"]["args"][ai]["e"]["v"]["i"] += 1
            yield "change_invocation_argument:" + a["n"], "semantic", q
            break


TEXT_EDITS = [
    ("comments", lambda d: "# a new leading comment\n\n" + re.sub(r"(?m)^(stage|pipeline) ", r"# documented\n\1 ", d)),
    ("blank_lines_and_spacing", lambda d: re.sub(r"(?m)^    (in|out)\s+", r"    \1      ", d).replace("\n\n", "\n\n\n")),
    ("stage_source", lambda d: d.replace('"vstage ', '"other/place/vstage ')),
    ("resources", lambda d: re.sub(r'(?m)^(    src \w+ "[^"]*",\n)\)\n', r"\1) using (\n    mem_gb  = 3,\n    threads = 2,\n)\n", d, count=1)),
    ("help_strings", lambda d: re.sub(r"(?m)^(    in  \w+\s+\w+),$", r'\1 "some help",', d, count=2)),
]


def split_includes(defs):
    """move the stage declarations into a second file that the first includes"""
    parts = re.split(r"(?m)^(?=pipeline )", defs, maxsplit=1)
    if len(parts) != 2:
        return None
    return {"defs.mro": '@include "stages/stages.mro"\n\n' + parts[1], "stages/stages.mro": parts[0]}


def invocation(p):
    top = mro.callable_of(p, p["top"]["callee"])
    pt = {x["n"]: x["t"] for x in top["ins"]}
    out = ['@include "defs.mro"', "", "call %s(" % p["top"]["callee"]]
    for a in p["top"]["args"]:
        out.append("    %s = %s," % (a["n"], mro.render_exp(a["e"], pt.get(a["n"]), p)))
    out.append(")")
    return "\n".join(out) + "\n"


def pairs(tier):
    cat = {p["name"]: p for p in shapes.catalogue() + fshapes.catalogue() + [rich_base(), wild_base(), alias_base(), ftstruct_base()]}
    out = []
    for name in BASES:
        a = norm(cat[name])
        adefs = mro.render(a, include_call=False)
        ainv = invocation(a)
        n = 0
        for label, kind, b in edits(a):
            b = norm(b)
            try:
                bdefs = mro.render(b, include_call=False)
                binv = invocation(b)
            except Exception as e:      # an edit the renderer cannot express
                continue
            out.append({"id": "%s:%s" % (name, label), "kind": kind, "a": a, "b": b,
                        "files_a": {"defs.mro": adefs}, "files_b": {"defs.mro": bdefs}, "inv_a": ainv, "inv_b": binv})
            n += 1
        for label, f in TEXT_EDITS:
            d2 = f(adefs)
            if d2 != adefs:
                out.append({"id": "%s:text_%s" % (name, label), "kind": "cosmetic", "a": a, "b": a,
                            "files_a": {"defs.mro": adefs}, "files_b": {"defs.mro": d2}, "inv_a": ainv, "inv_b": ainv})
        inc = split_includes(adefs)
        if inc:
            out.append({"id": "%s:text_include_structure" % name, "kind": "cosmetic", "a": a, "b": a,
                        "files_a": {"defs.mro": adefs}, "files_b": inc, "inv_a": ainv, "inv_b": ainv})
    return out

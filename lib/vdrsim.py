"""Direction B for spec/Vdr.tla: behaviours from TLC simulation are turned into
real programs (the model's program record is rendered as MRO) and schedules for
the real run loop, including when each asynchronous cleanup goroutine may take
its fork's storage lock (gate at the VdrBegin hook)."""
import glob
import os

import mro
import vlib
from mro import call, pipeline, program, ref, self_, stage, FILE, INST


def setof(v):
    return v.get("#set", []) if isinstance(v, dict) else list(v)


def build_program(name, mp):
    """model program record -> abstract MRO program"""
    stages = sorted(setof(mp["stages"]))
    files = mp["files"]
    binds = {s: sorted(tuple(b) for b in setof(mp["binds"][s])) for s in stages}
    top = sorted(tuple(t) for t in setof(mp["top"]))
    # order stages by dependency
    order = []
    while len(order) < len(stages):
        for s in stages:
            if s not in order and all(p in order for p, _ in binds[s]):
                order.append(s)
    sts, calls = [], []
    for s in order:
        args = sorted({f["arg"] for f in files.values() if f["s"] == s and f["arg"] != "none"})
        ins = ["int x"] + ["file in_%s_%s" % (p, a) for p, a in binds[s]]
        outs = ["file %s" % a for a in args] + ["string tag"]
        rules = {a: FILE for a in args}
        rules["tag"] = INST
        vol = mp["vol"][s]
        sts.append(stage(s, ", ".join(ins), ", ".join(outs), rules,
                         volatile={"strict": "strict", "false": "false"}.get(vol)))
        b = {"x": self_("x")}
        for p, a in binds[s]:
            b["in_%s_%s" % (p, a)] = ref(p, a)
        calls.append(call(s, binds=b, vol=(vol == "vol")))
    outs = ["file top_%s_%s" % t for t in top] + ["string tag_%s" % s for s in order]
    ret = {"top_%s_%s" % t: ref(t[0], t[1]) for t in top}
    ret.update({"tag_%s" % s: ref(s, "tag") for s in order})
    return program(name, [], sts, [pipeline("TOP", "int x", ", ".join(outs), calls, ret)], "TOP", {"x": 1})


def actions(states):
    """derive the action sequence from consecutive states"""
    acts = []
    for a, b in zip(states, states[1:]):
        done = False
        for s, v in b["st"].items():
            if a["st"][s] != v:
                acts.append(("Start" if v == "running" else "Finish", s))
                done = True
        if done:
            continue
        for s, v in b["tasks"].items():
            if a["tasks"][s] != v:
                acts.append(("AsyncCache" if v == "kill" else "AsyncKill", s))
                done = True
        if done:
            continue
        if not a["swept"] and b["swept"]:
            acts.append(("FinalSweep", ""))
        else:
            acts.append(("MainStep", ""))
    return acts


def behaviours(num, depth=60):
    """[(abstract program, vdr mode, script, final model disk as file keys)]"""
    wd = vlib.scratch("vdrsim")
    r = vlib.run_tlc("MC_Vdr", "MC_VdrSim.cfg", workdir=wd, workers=1, timeout=900,
                     simulate="file=%s/b,num=%d" % (wd, num), depth=depth, extra=["-seed", str(vlib.seed())])
    out = []
    for k, f in enumerate(sorted(glob.glob(os.path.join(wd, "b_*")))):
        states = vlib.parse_sim_file(f)
        fin = states[-1]
        if not fin["swept"] or setof(fin["todo"]) or any(v != "none" for v in fin["tasks"].values()):
            continue       # cut off by the depth bound
        mp = states[0]["prog"]
        prog = build_program("vs%d" % k, mp)
        script = []
        for a, s in actions(states):
            if a == "Start":
                script.append("B:TOP.%s[]/main/0" % s)
            elif a == "Finish":
                script.append("E:TOP.%s[]/main/0" % s)
            elif a == "AsyncKill":
                script.append("V:ID.ps.TOP.%s.fork0" % s)
        disk = sorted("TOP.%s[]|-1|%s" % (mp["files"][x]["s"], mp["files"][x]["arg"])
                      for x in setof(fin["disk"]) if mp["files"][x]["arg"] != "none")
        out.append((prog, states[0]["mode"], script, disk))
    return out, r

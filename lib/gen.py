"""Seeded generator of well-typed abstract MRO programs over the feature
product of DESIGN.md 3.2: nesting depth, map mode per level (none / array /
typed map), one or two zipped split sources, length source (literal in the
invocation, pipeline input, run-time output of a stage), disabling per level
(none / pipeline input / run-time boolean of a stage at that level), sibling
stages with their own conditions, splitting stages, preflights.

Programs are well typed by construction; every run-time collection has at most
two elements."""
import random

from mro import (T, arrx, call, collect, const, echo, length, lit, objx, params, pipeline,
                 program, ref, self_, split, stage, struct, INST, CI, NONE, type_str)


def wrap(t, mode):
    """type of a collection of t for a map call of the given mode"""
    if mode == "array":
        if t["m"] and t["a"] == 0:
            return dict(t, a=1)
        return dict(t, a=t["a"] + 1)
    # typed map of t (t must not itself be a typed map)
    return T(t["b"], 0, 1, t["a"])


def can_map_wrap(t):
    return t["m"] == 0


def sample_value(rng, t, size=None, keys=None, base=0):
    """a value of type t; collections get `size` elements / `keys`"""
    if t["a"] > 0:
        n = rng.choice([0, 1, 2, 2]) if size is None else size
        return [sample_value(rng, dict(t, a=t["a"] - 1), None if t["a"] > 1 else None, keys, base + 10 * i)
                for i in range(n)]
    if t["m"]:
        ks = keys if keys is not None else rng.choice([[], ["a"], ["a", "b"], ["k.1", "b"]])
        return {k: sample_value(rng, T(t["b"], t["ia"]), None, None, base + 10 * (i + 1)) for i, k in enumerate(ks)}
    if t["b"] == "int":
        return base + rng.randrange(1, 9)
    if t["b"] == "bool":
        return rng.random() < 0.5
    if t["b"] == "string":
        return "s%d" % (base + rng.randrange(1, 9))
    raise ValueError(t)


def shape_like(rng, t, proto, base=100):
    """a value of type t with the same collection shape (lengths / keys) as proto"""
    if proto is None:
        return None
    if t["a"] > 0:
        return [shape_like(rng, dict(t, a=t["a"] - 1), p, base + 10 * i) for i, p in enumerate(proto)]
    if t["m"]:
        return {k: shape_like(rng, T(t["b"], t["ia"]), p, base + 10 * (i + 1)) for i, (k, p) in enumerate(proto.items())}
    return sample_value(rng, t, base=base)


class Gen:
    def __init__(self, rng, name, depth=None):
        self.modes = []
        self.kzip = 0
        self.rng = rng
        self.name = name
        self.stages = {}
        self.pipelines = []
        self.n = 0
        self.depth = depth if depth is not None else rng.choice([1, 2, 2, 3])

    def fresh(self, pfx):
        self.n += 1
        return "%s%d" % (pfx, self.n)

    def add_stage(self, st):
        self.stages[st["name"]] = st
        return st["name"]

    def echo_stage(self, t, nin=1):
        """stage with nin inputs of type t... output y = first input"""
        nm = "E_%s_%d" % (type_str(t).replace("[]", "A").replace("<", "M").replace(">", ""), nin)
        if nm not in self.stages:
            ins = ", ".join("%s x%d" % (type_str(t), i) for i in range(nin))
            self.add_stage(stage(nm, ins, "%s y" % type_str(t), {"y": echo("x0")}))
        return nm

    def const_stage(self, t, v, out="y"):
        nm = self.fresh("K")
        self.add_stage(stage(nm, "", "%s %s" % (type_str(t), out), {out: const(v)}))
        return nm

    def split_stage(self):
        nm = "SPL"
        if nm not in self.stages:
            self.add_stage(stage(nm, "int[] xs", "int[] ys, int n", {"ys": collect("co"), "n": length("xs")},
                                 split=True, chunks={"k": "len", "src": "xs"}, couts="int co",
                                 crules={"co": CI}))
        return nm

    # -- one pipeline level ----------------------------------------------------
    def level(self, depth, tx, tz):
        """Build a pipeline taking (tx x, tz z, bool g) and returning (ty y).
        Returns (pipeline name, ty)."""
        rng = self.rng
        name = self.fresh("P")
        ins = [("x", tx), ("z", tz), ("g", T("bool"))]
        calls = []
        if depth == 0:
            # leaf: stages on scalars (tx, tz are scalar int here)
            e1 = self.echo_stage(tx)
            c1 = self.fresh("W")
            dis1 = rng.choice([None, None, self_("g"), "local"])
            if dis1 == "local":
                k = self.const_stage(T("bool"), rng.random() < 0.5, "f")
                kid = self.fresh("F")
                calls.append(call(kid, k))
                dis1 = ref(kid, "f")
            calls.append(call(c1, e1, binds={"x0": self_("x")}, dis=dis1))
            e2 = self.echo_stage(tz, 1)
            c2 = self.fresh("W")
            src2 = rng.choice([self_("z"), self_("z"), ref(c1, "y")]) if tx == tz else self_("z")
            dis2 = rng.choice([None, None, None, self_("g")])
            if rng.random() < 0.2:
                k = self.const_stage(T("bool"), rng.random() < 0.5, "f")
                kid = self.fresh("F")
                calls.append(call(kid, k))
                dis2 = ref(kid, "f")
            calls.append(call(c2, e2, binds={"x0": src2}, dis=dis2))
            if rng.random() < 0.25 and tz["a"] == 0 and tz["m"] == 0:
                # a splitting stage fed by an array literal of references
                sp = self.split_stage()
                c3 = self.fresh("S")
                calls.append(call(c3, sp, binds={"xs": arrx(ref(c2, "y"), self_("z"))}))
                ty = T("int", 1)
                ret = {"y": ref(c3, "ys")}
            else:
                ty = tz
                ret = {"y": ref(c2, "y")}
            used = used_params(calls, ret)
            self.pipelines.append(pipeline(name, [i for i in ins if i[0] in used], [("y", ty)], calls, ret))
            return name, ty, used
        # inner level: call the child, plainly or mapped (decided top-down in _gen)
        lvl = len(self.modes) - depth
        mode = self.modes[lvl]
        nmapped = sum(1 for m in self.modes[:lvl] if m != "none")
        zipz = mode != "none" and nmapped < self.kzip
        ctx, ctz = tx, tz
        binds = {}
        if mode == "none":
            binds = {"x": self_("x"), "z": self_("z")}
        else:
            ok_x = unwrap(tx, mode)
            ok_z = unwrap(tz, mode)
            if ok_x is None:
                mode = "none"
                binds = {"x": self_("x"), "z": self_("z")}
            else:
                ctx = ok_x
                binds["x"] = split(self_("x"))
                if zipz and ok_z is not None:
                    ctz = ok_z
                    binds["z"] = split(self_("z"))
                else:
                    binds["z"] = self_("z")
        child, cty, cused = self.level(depth - 1, ctx, ctz)
        dis = rng.choice([None, None, self_("g"), "local"])
        if dis == "local":
            k = self.const_stage(T("bool"), rng.random() < 0.4, "f")
            kid = self.fresh("F")
            calls.append(call(kid, k))
            dis = ref(kid, "f")
        binds["g"] = rng.choice([self_("g"), lit(False)])
        binds = {k: v for k, v in binds.items() if k in cused}
        if mode != "none" and not any(v["k"] == "split" for v in binds.values()):
            mode = "none"
        cid = self.fresh("C")
        calls.append(call(cid, child, binds=binds, dis=dis, mode=mode))
        ty = cty if mode == "none" else wrap_result(cty, mode)
        if ty is None:
            raise Retry()
        ret = {"y": ref(cid, "y")}
        used = used_params(calls, ret)
        self.pipelines.append(pipeline(name, [i for i in ins if i[0] in used], [("y", ty)], calls, ret))
        return name, ty, used


class Retry(Exception):
    pass


def unwrap(t, mode):
    """element type when mapping over a collection of type t in `mode`, or None"""
    if mode == "array":
        if t["a"] > 0:
            return dict(t, a=t["a"] - 1)
        return None
    if t["a"] == 0 and t["m"] == 1:
        return T(t["b"], t["ia"])
    return None


def can_map_wrap_back(t):
    return True


def wrap_result(t, mode):
    if mode == "array":
        return dict(t, a=t["a"] + 1)
    if t["m"]:
        return None      # map<map<..>> is not a type
    return T(t["b"], 0, 1, t["a"])


def gen_program(seed, name=None, max_mapped=1):
    """One random program; retries internally until a typable one comes out.
    max_mapped bounds the number of nested mapped levels."""
    rng = random.Random(seed)
    for attempt in range(50):
        try:
            return _gen(rng, name or "g%d" % seed, max_mapped)
        except Retry:
            continue
    raise RuntimeError("generator failed")


def _gen(rng, name, max_mapped=1):
    g = Gen(rng, name)
    depth = g.depth
    # the collection structure, top-down: one mode per level; z is zipped with x
    # on the first kzip mapped levels and passed whole below
    modes = [rng.choice(["array", "array", "map", "none"]) for _ in range(depth)]
    while sum(1 for m in modes if m != "none") > max_mapped:
        i = rng.choice([i for i, m in enumerate(modes) if m != "none"])
        modes[i] = "none"
    mapped = [m for m in modes if m != "none"]
    kzip = rng.randint(0, len(mapped))
    g.modes, g.kzip = modes, kzip
    tx = T("int")
    tz = T("int")
    for li in range(len(mapped) - 1, -1, -1):
        m = mapped[li]
        tx = wrap_result(tx, m)
        if tx is None:
            raise Retry()
        if li < kzip:
            tz = wrap_result(tz, m)
            if tz is None:
                raise Retry()
    top_child, ty, tused = g.level(depth, tx, tz)
    # values: x nested over all mapped levels, z with the same shape on the
    # zipped levels
    xv = nested_value(rng, mapped, 0)
    zv = zip_shape(rng, xv, kzip)
    if rng.random() < 0.08:
        xv = None
        zv = None if kzip > 0 else zv
    calls = []
    tins = []
    targs = {}

    def source(nm, t, v):
        how = rng.choice(["arg", "stage", "stage"])
        if how == "arg":
            tins.append((nm, t))
            targs[nm] = v
            return self_(nm)
        k = g.const_stage(t, v)
        kid = g.fresh("G")
        calls.append(call(kid, k))
        return ref(kid, "y")

    ex = source("x", tx, xv) if "x" in tused else None
    ez = source("z", tz, zv) if "z" in tused else None
    gsrc = rng.choice(["lit", "arg", "stage"])
    gval = rng.random() < 0.25
    if "g" not in tused:
        eg = None
    elif gsrc == "lit":
        eg = lit(gval)
    elif gsrc == "arg":
        tins.append(("g", T("bool")))
        targs["g"] = gval
        eg = self_("g")
    else:
        k = g.const_stage(T("bool"), gval, "f")
        kid = g.fresh("F")
        calls.append(call(kid, k))
        eg = ref(kid, "f")
    if rng.random() < 0.3:
        chk = "CHK"
        g.add_stage(stage(chk, "int v", "", {}))
        calls.insert(0, call("PRE", chk, binds={"v": lit(1)}, pre=True))
    cid = g.fresh("C")
    calls.append(call(cid, top_child, binds={k: v for k, v in (("x", ex), ("z", ez), ("g", eg)) if v is not None}))
    # a consumer of the result at the top
    e = g.echo_stage(ty)
    calls.append(call("LAST", e, binds={"x0": ref(cid, "y")}))
    g.pipelines.append(pipeline("TOP", tins, [("o", ty), ("p", ty)], calls,
                                {"o": ref(cid, "y"), "p": ref("LAST", "y")}))
    return program(name, [], list(g.stages.values()), g.pipelines, "TOP", targs)


KEYSETS = [[], ["a"], ["a", "b"], ["k.1", "b"], ["x/y", "%2E"]]


def nested_value(rng, mapped, lvl, base=0):
    if lvl == len(mapped):
        return base + rng.randrange(1, 9)
    if mapped[lvl] == "array":
        n = rng.choice([0, 1, 2, 2])
        return [nested_value(rng, mapped, lvl + 1, base + 10 * (i + 1)) for i in range(n)]
    ks = rng.choice(KEYSETS)
    return {k: nested_value(rng, mapped, lvl + 1, base + 10 * (i + 1)) for i, k in enumerate(ks)}


def zip_shape(rng, xv, k, base=100):
    if k == 0 or xv is None:
        return base + rng.randrange(1, 9)
    if isinstance(xv, list):
        return [zip_shape(rng, v, k - 1, base + 10 * (i + 1)) for i, v in enumerate(xv)]
    return {kk: zip_shape(rng, v, k - 1, base + 10 * (i + 1)) for i, (kk, v) in enumerate(xv.items())}


def same_shape(tx, tz):
    return tx["a"] == tz["a"] and tx["m"] == tz["m"] and tx["ia"] == tz["ia"]


def exp_selfs(e, acc):
    k = e["k"]
    if k == "self":
        acc.add(e["id"])
    elif k == "arrx":
        for x in e["es"]:
            exp_selfs(x, acc)
    elif k == "objx":
        for f in e["fs"]:
            exp_selfs(f["e"], acc)
    elif k == "split":
        exp_selfs(e["e"], acc)


def used_params(calls, ret):
    acc = set()
    for c in calls:
        for b in c["binds"]:
            exp_selfs(b["e"], acc)
        if c["dis"]["k"] != "none":
            exp_selfs(c["dis"], acc)
    for e in ret.values():
        exp_selfs(e, acc)
    return acc

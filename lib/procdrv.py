"""Process driver: the real mrp and mrjob binaries (built with -tags verif),
the table-driven vstage executable, SIGKILL / signals at chosen file-system
effects, restarts."""
import json
import os
import shutil
import signal
import subprocess
import time

import mro
import vlib

MRP = "mrp_vf"      # distinct name: nobody's `pkill -x mrp` hits it


def build_root():
    """Build mrp, mrjob (tag verif) and vstage into a scratch root laid out like
    a Martian installation.  Returns the root."""
    root = os.path.join(vlib.BUILD, "mroot")
    bindir = os.path.join(root, "bin")
    os.makedirs(bindir, exist_ok=True)
    p = subprocess.run(["go", "build", "-tags", "verif", "-o", bindir + "/", "./cmd/mrp", "./cmd/mrjob"],
                       cwd=vlib.REPO, env=vlib.GOENV, stdout=subprocess.PIPE, stderr=subprocess.STDOUT,
                       text=True, timeout=900)
    if p.returncode != 0:
        raise vlib.Infra("go build of mrp/mrjob failed:\n" + p.stdout[-3000:])
    os.replace(os.path.join(bindir, "mrp"), os.path.join(bindir, MRP))
    vlib.go_build(pkgs=("./cmd/vstage",), outdir=bindir)
    for d in ("jobmanagers", "adapters"):
        dst = os.path.join(root, d)
        if os.path.lexists(dst):
            os.remove(dst)
        os.symlink(os.path.join(vlib.REPO, d), dst)
    return root


SUBMIT_SH = """#!/bin/sh
# a submit command: the job script arrives on stdin, the job id goes to stdout
f=$(mktemp "${TMPDIR:-/tmp}/vq.XXXXXX")
cat > "$f"
if [ -n "$VERIF_KILL_ON_SUBMIT" ] && grep -q -- "$VERIF_KILL_ON_SUBMIT" "$f" && mkdir "$VERIF_KILL_ONCE" 2>/dev/null; then
    # a submit command that waits for the job (qsub -sync y); mrp is killed outright before it returns
    setsid sh "$f" > /dev/null 2>&1 < /dev/null
    kill -9 $PPID
    exit 0
fi
setsid sh "$f" > /dev/null 2>&1 < /dev/null &
echo "j$!"
"""

QUEUE_TEMPLATE = """#!/bin/sh
# __MRO_JOB_NAME__ threads __MRO_THREADS__ mem __MRO_MEM_GB__
cd __MRO_JOB_WORKDIR__
__MRO_CMD__ > __MRO_STDOUT__ 2> __MRO_STDERR__
"""


def build_cluster_root(root):
    """A second installation root whose jobmanagers directory defines the job mode `verifq`:
    jobs are handed to a submit script that starts them detached from mrp.  Returns the root."""
    rq = os.path.join(vlib.BUILD, "mroot_q")
    shutil.rmtree(rq, ignore_errors=True)
    os.makedirs(os.path.join(rq, "bin"))
    for f in os.listdir(os.path.join(root, "bin")):
        shutil.copy2(os.path.join(root, "bin", f), os.path.join(rq, "bin", f))
    jm = os.path.join(rq, "jobmanagers")
    shutil.copytree(os.path.join(vlib.REPO, "jobmanagers"), jm)
    cfg = json.load(open(os.path.join(jm, "config.json")))
    sub = os.path.join(jm, "verifq_submit.sh")
    open(sub, "w").write(SUBMIT_SH)
    os.chmod(sub, 0o755)
    cfg["jobmodes"]["verifq"] = {"cmd": sub}
    json.dump(cfg, open(os.path.join(jm, "config.json"), "w"), indent=2)
    open(os.path.join(jm, "verifq.template"), "w").write(QUEUE_TEMPLATE)
    os.symlink(os.path.join(vlib.REPO, "adapters"), os.path.join(rq, "adapters"))
    return rq


def wait_group_gone(pgid, timeout=15.0):
    t0 = time.time()
    while time.time() - t0 < timeout:
        try:
            os.killpg(pgid, 0)
        except ProcessLookupError:
            return True
        except PermissionError:
            return True
        time.sleep(0.05)
    try:
        os.killpg(pgid, signal.SIGKILL)
    except Exception:
        pass
    return False


class Cycle:
    """One pipestance directory driven through one or more mrp incarnations."""

    def __init__(self, root, workdir, prog, sem, name, vdr="disable", delay_ms=20, faults=None, extra_args=(),
                 cores=4, mem=4, delays=None, vmap=None, rlimit_as_mb=0):
        self.root, self.wd, self.name = root, workdir, name
        os.makedirs(workdir, exist_ok=True)
        self.psid = "ps"
        self.psdir = os.path.join(workdir, self.psid)
        self.trace = os.path.join(workdir, "trace.ndjson")
        self.table = os.path.join(workdir, "table.json")
        self.mro = mro.render(prog, stage_lang="comp")
        open(os.path.join(workdir, "p.mro"), "w").write(self.mro)
        json.dump({"psdir": self.psdir, "invs": sem["inv"], "faults": faults or {}, "delay_ms": delay_ms, "delays_ms": delays or {}, "vmap_mb": vmap or {}},
                  open(self.table, "w"))
        self.vdr = vdr
        self.extra = list(extra_args)
        self.cores, self.mem = cores, mem
        self.rlimit_as_mb = rlimit_as_mb    # `ulimit -v` for mrp and its jobs (an address space limit that is no whole number of GB)
        self.log = []
        self.env_extra = {}

    def mark(self, ev, **kw):
        with open(self.trace, "a") as f:
            f.write(json.dumps(dict(kw, w="drv", ev=ev)) + "\n")

    def run(self, crash_at=0, signal_at=None, timeout=120, crash_group=False):
        """Start mrp on the pipestance; returns (exit status, seconds)."""
        env = dict(os.environ)
        env.update({"PATH": os.path.join(self.root, "bin") + ":" + env["PATH"], "MROPATH": self.wd,
                    "VERIF_TRACE": self.trace, "VSTAGE_TABLE": self.table, "MRO_FORCE_UUID": "verif",
                    "TMPDIR": self.wd})
        env.update(self.env_extra)
        env.pop("VERIF_CRASH_AT", None)
        env.pop("VERIF_SIGNAL_AT", None)
        env.pop("VERIF_CRASH_GROUP", None)
        if crash_at:
            env["VERIF_CRASH_AT"] = str(crash_at)
            if crash_group:
                env["VERIF_CRASH_GROUP"] = "1"   # every job dies with mrp, without a word
        if signal_at:
            env["VERIF_SIGNAL_AT"] = "%d:%d" % signal_at
        cmd = [os.path.join(self.root, "bin", MRP), "p.mro", self.psid, "--disable-ui", "--localcores=%d" % self.cores,
               "--localmem=%d" % self.mem, "--vdrmode=" + self.vdr] + self.extra
        t0 = time.time()
        out = open(os.path.join(self.wd, "mrp.out"), "a")
        pre = None
        if self.rlimit_as_mb:
            import resource
            lim = self.rlimit_as_mb << 20

            def pre():
                resource.setrlimit(resource.RLIMIT_AS, (lim, lim))
        p = subprocess.Popen(cmd, cwd=self.wd, env=env, stdout=out, stderr=subprocess.STDOUT,
                             start_new_session=True, preexec_fn=pre)
        try:
            rc = p.wait(timeout=timeout)
        except subprocess.TimeoutExpired:
            try:
                os.killpg(p.pid, signal.SIGKILL)
            except Exception:
                pass
            p.wait()
            rc = "timeout"
        gone = wait_group_gone(p.pid)
        out.close()
        if not gone:
            self.log.append("process group lingered")
        return rc, time.time() - t0

    def events(self):
        evs = []
        if os.path.exists(self.trace):
            for l in open(self.trace, errors="replace"):
                try:
                    evs.append(json.loads(l))
                except ValueError:
                    pass
        return evs

    def top_outs(self):
        try:
            for d in sorted(os.listdir(self.psdir)):
                p = os.path.join(self.psdir, d, "fork0", "_outs")
                if os.path.isfile(p) and not d.startswith("_") and d not in ("journal", "tmp", "outs"):
                    # (paths of file outputs: the pipestance directory differs from cycle to cycle)
                    return json.loads(open(p).read().replace(self.psdir, "$PS"))
        except Exception as e:
            return {"#error": str(e)}
        return None

    def locked(self):
        return os.path.exists(os.path.join(self.psdir, "_lock"))

    def remove_lock(self):
        try:
            os.remove(os.path.join(self.psdir, "_lock"))
        except FileNotFoundError:
            pass

    def cleanup(self):
        if os.environ.get("VERIF_KEEP"):
            return
        shutil.rmtree(self.wd, ignore_errors=True)

"""Programs and edits for the refactoring check (C19).  Stage behaviour is a
constant per (stage, output) so that it survives renames and removed inputs."""
import copy

import mro
from mro import T, call, const, lit, pipeline, program, ref, self_, split, stage


def base_programs():
    P = []
    # rich: alias, collision candidate (a call named B), sub-pipeline, mapped call, disabled, unused call / outputs
    A = stage("A", "int x, int k", "int y, int z, int[] arr",
              {"y": const(11), "z": const(12), "arr": const([5, 6])})
    B = stage("B", "int x", "int y, int w", {"y": const(21), "w": const(22)})
    G = stage("G", "", "bool t, bool f", {"t": const(True), "f": const(False)})
    U = stage("U", "int x", "int y", {"y": const(31)})
    SUB = pipeline("SUB", "int x, int unused_in", "int y, int u, int extra",
                   [call("A", binds={"x": self_("x"), "k": self_("unused_in")}),
                    call("B", binds={"x": ref("A", "y")})],
                   {"y": ref("B", "y"), "u": ref("A", "z"), "extra": ref("B", "w")})
    TOP = pipeline("TOP", "int x", "int o, int p, int[] q",
                   [call("G"),
                    call("SUB", binds={"x": self_("x"), "unused_in": lit(0)}),
                    call("A2", "A", binds={"x": ref("SUB", "y"), "k": lit(4)}),
                    call("B", binds={"x": ref("SUB", "u")}, dis=ref("G", "f")),
                    call("MB", "B", binds={"x": split(ref("A2", "arr"))}, mode="array"),
                    call("U", binds={"x": self_("x")}),
                    call("SKIP", "U", binds={"x": ref("A2", "y")}, dis=ref("G", "t"))],
                   {"o": ref("B", "y"), "p": ref("A2", "z"), "q": ref("MB", "y")})
    P.append(program("ref_rich", [], [A, B, G, U], [SUB, TOP], "TOP", {"x": 2}))
    # structs and projections
    P.append(program("ref_struct", [mro.struct("PT", "int a, int b")],
                     [stage("MK", "int n", "PT pt, PT[] pts", {"pt": const({"a": 1, "b": 2}), "pts": const([{"a": 3, "b": 4}])}),
                      stage("USE", "int a, int[] bs, PT whole", "int s", {"s": const(9)})],
                     [pipeline("TOP", "int n", "int s, int[] aas",
                               [call("MK", binds={"n": self_("n")}),
                                call("USE", binds={"a": ref("MK", "pt", "a"), "bs": ref("MK", "pts", "b"), "whole": ref("MK", "pt")})],
                               {"s": ref("USE", "s"), "aas": ref("MK", "pts", "a")})], "TOP", {"n": 1}))
    # a struct output of a middle pipeline (which itself calls a pipeline) used only through
    # a projection two members deep; other outputs of the same pipelines unused
    P.append(program("ref_deep", [mro.struct("INNER", "int value, int other"), mro.struct("RES", "INNER inner, int count")],
                     [stage("MK", "int n", "RES res, int side", {"res": const({"inner": {"value": 7, "other": 8}, "count": 1}), "side": const(3)}),
                      stage("USE", "int v", "int s", {"s": const(9)})],
                     [pipeline("LEAF", "int n", "RES res, int side",
                               [call("MK", binds={"n": self_("n")})], {"res": ref("MK", "res"), "side": ref("MK", "side")}),
                      pipeline("MIDDLE", "int n", "RES res, int spare",
                               [call("LEAF", binds={"n": self_("n")})], {"res": ref("LEAF", "res"), "spare": ref("LEAF", "side")}),
                      pipeline("TOP", "int n", "int s",
                               [call("MIDDLE", binds={"n": self_("n")}),
                                call("USE", binds={"v": ref("MIDDLE", "res", "inner", "value")})],
                               {"s": ref("USE", "s")})], "TOP", {"n": 1}))
    # two aliases of one stage referenced in ONE binding expression (array literal, struct
    # literal, return binding)
    P.append(program("ref_aliases", [mro.struct("PAIR", "int first, int second")],
                     [stage("AL", "int x", "int bam, int idx", {"bam": const(41), "idx": const(42)}),
                      stage("USE2", "int[] bams, PAIR p", "int n", {"n": const(2)})],
                     [pipeline("TOP", "int x", "int[] both, int n",
                               [call("AL_A", "AL", binds={"x": self_("x")}),
                                call("AL_B", "AL", binds={"x": self_("x")}),
                                call("USE2", binds={"bams": mro.arrx(ref("AL_A", "bam"), ref("AL_B", "bam")),
                                                    "p": mro.objx(first=ref("AL_A", "idx"), second=ref("AL_B", "idx"))})],
                               {"both": mro.arrx(ref("AL_B", "bam"), ref("AL_A", "bam")), "n": ref("USE2", "n")})], "TOP", {"x": 1}))
    # an unused call in the top-level pipeline is the only consumer of an output of a child
    # pipeline that itself calls a pipeline: removing unused calls takes two rounds (the call,
    # then the output and the call that feeds it)
    P.append(program("ref_feed", [],
                     [stage("A", "int x", "int y", {"y": const(51)}), stage("B", "int v", "int w", {"w": const(52)})],
                     [pipeline("INNER", "int x", "int y", [call("A", binds={"x": self_("x")})], {"y": ref("A", "y")}),
                      pipeline("MID", "int x", "int y, int z",
                               [call("INNER", binds={"x": self_("x")}), call("A2", "A", binds={"x": self_("x")})],
                               {"y": ref("INNER", "y"), "z": ref("A2", "y")}),
                      pipeline("TOP", "int x", "int r",
                               [call("MID", binds={"x": self_("x")}), call("B", binds={"v": ref("MID", "z")})],
                               {"r": ref("MID", "y")})], "TOP", {"x": 1}))
    # a stage called under the same call name from two pipelines of one file
    P.append(program("ref_two_callers", [],
                     [stage("A", "int x, int k", "int y", {"y": const(71)}), stage("B", "int v", "int w", {"w": const(72)})],
                     [pipeline("ONE", "int x", "int y", [call("A", binds={"x": self_("x"), "k": lit(1)})], {"y": ref("A", "y")}),
                      pipeline("TWO", "int x", "int y", [call("A", binds={"x": self_("x"), "k": lit(2)}), call("B", binds={"v": ref("A", "y")})],
                               {"y": ref("B", "w")}),
                      pipeline("TOP", "int x", "int r, int s",
                               [call("ONE", binds={"x": self_("x")}), call("TWO", binds={"x": self_("x")})],
                               {"r": ref("ONE", "y"), "s": ref("TWO", "y")})], "TOP", {"x": 1}))
    # the top-level pipeline has an input and an output of the same name
    P.append(program("ref_io_names", [],
                     [stage("S", "int v", "int w", {"w": const(81)})],
                     [pipeline("TOP", "int foo, int other", "int foo, int w2",
                               [call("S", binds={"v": self_("foo")}), call("S2", "S", binds={"v": self_("other")})],
                               {"foo": ref("S", "w"), "w2": ref("S2", "w")})], "TOP", {"foo": 1, "other": 2}))
    # the top-level pipeline calls a pipeline and uses none of its outputs; that pipeline uses the
    # outputs of a pipeline below it for a stage of its own (which retains a file: it has an effect)
    P.append(program("ref_unreferenced_mid", [],
                     [stage("A", "int x", "int y, int z", {"y": const(91), "z": const(92)}),
                      stage("KEEP", "int v", "file f", {"f": mro.FILE}, retain=["f"])],
                     [pipeline("SUB", "int x", "int y, int z", [call("A", binds={"x": self_("x")})], {"y": ref("A", "y"), "z": ref("A", "z")}),
                      pipeline("MID", "int x", "int n",
                               [call("SUB", binds={"x": self_("x")}), call("KEEP", binds={"v": ref("SUB", "y")})],
                               {"n": ref("SUB", "z")}),
                      pipeline("TOP", "int x", "int r",
                               [call("MID", binds={"x": self_("x")}), call("A", binds={"x": self_("x")})],
                               {"r": ref("A", "y")})], "TOP", {"x": 1}))
    # retain lists: a pipeline that retains several outputs of the same call (and one of an aliased
    # call of the same stage), a stage that retains one of its own outputs
    P.append(program("ref_retain", [],
                     [stage("MAKE", "int x", "file report, file table, file log, int n",
                            {"report": mro.FILE, "table": mro.FILE, "log": mro.FILE, "n": const(61)}, retain=["table"]),
                      stage("READ", "file f", "int n", {"n": const(62)})],
                     [pipeline("TOP", "int x", "int n, int m",
                               [call("MAKE", binds={"x": self_("x")}),
                                call("M2", "MAKE", binds={"x": self_("x")}),
                                call("READ", binds={"f": ref("MAKE", "report")})],
                               {"n": ref("READ", "n"), "m": ref("M2", "n")},
                               retain=[ref("MAKE", "report"), ref("MAKE", "table"), ref("M2", "table"), ref("MAKE", "log")])],
                     "TOP", {"x": 1}))
    return P


WILD = """stage A(
    in  int x,
    in  int k,
    out int y,
    out int z,
    src comp "s A",
)

stage B(
    in  int y,
    in  int z,
    out int w,
    src comp "s B",
)

pipeline SUB(
    in  int x,
    in  int k,
    out int y,
    out int z,
)
{
    call A(
        * = self,
    )

    return (
        * = A,
    )
}

pipeline TOP(
    in  int x,
    in  int k,
    out int w,
    out int y,
)
{
    call SUB(
        * = self,
    )

    call B(
        * = SUB,
    )

    return (
        w = B.w,
        y = SUB.y,
    )
}

call TOP(
    x = 1,
    k = 2,
)
"""

# programs given as MRO text (constructs the renderer does not produce: wildcard bindings);
# (name, source, {(stage, output): constant the stage returns})
SOURCES = [("ref_wild", WILD, {("A", "y"): 11, ("A", "z"): 12, ("B", "w"): 21})]


def names(p):
    return [c["name"] for c in p["stages"] + p["pipelines"]]


def callable_of(p, n):
    return mro.callable_of(p, n)


def refs_to(p, callee, out):
    """is output `out` of callable `callee` referred to anywhere (through any call of it)?"""
    import json
    for pl in p["pipelines"]:
        ids = [c["id"] for c in pl["calls"] if c["callee"] == callee]
        txt = json.dumps([c["binds"] for c in pl["calls"]] + [[c["dis"]] for c in pl["calls"]] + [pl["ret"]])
        for i in ids:
            if '"call": "%s", "out": "%s"' % (i, out) in txt or '"call": "%s", "out": ""' % i in txt:
                return True
    return False


def ops(p):
    """(label, [cli flags], description of the renaming for the comparison)"""
    out = []
    top = p["top"]["callee"]
    call_ids = {c["id"] for pl in p["pipelines"] for c in pl["calls"]}
    for n in names(p):
        out.append(("rename:%s" % n, ["--rename", "%s=%s_NEW" % (n, n)], {"callable": (n, n + "_NEW")}))
        # a new name that collides with an existing call name forces aliases
        for cid in sorted(call_ids - set(names(p)))[:2]:
            out.append(("rename_collide:%s>%s" % (n, cid), ["--rename", "%s=%s" % (n, cid)], {"callable": (n, cid)}))
        c = callable_of(p, n)
        for prm in c["ins"]:
            out.append(("rename_input:%s.%s" % (n, prm["n"]), ["--rename-input", "%s.%s=%s_in" % (n, prm["n"], prm["n"])],
                        {"input": (n, prm["n"], prm["n"] + "_in")}))
            if n != top and any(st["name"] == n for st in p["stages"]):
                out.append(("remove_input:%s.%s" % (n, prm["n"]), ["--remove-input", "%s.%s" % (n, prm["n"])],
                            {"removed_input": (n, prm["n"])}))
        for prm in c["outs"]:
            out.append(("rename_output:%s.%s" % (n, prm["n"]), ["--rename-output", "%s.%s=%s_out" % (n, prm["n"], prm["n"])],
                        {"output": (n, prm["n"], prm["n"] + "_out")}))
            if not refs_to(p, n, prm["n"]) and n != top:
                out.append(("remove_output:%s.%s" % (n, prm["n"]), ["--remove-output", "%s.%s" % (n, prm["n"])],
                            {"removed_output": (n, prm["n"])}))
    # several operations in one invocation: a callable that is called under an alias is renamed,
    # and a later operation has to find its calls again
    aliased = sorted({c["callee"] for pl in p["pipelines"] for c in pl["calls"] if c["id"] != c["callee"]})
    for n in aliased:
        c = callable_of(p, n)
        for prm in c["outs"][:2]:
            out.append(("rename_then_rename_output:%s.%s" % (n, prm["n"]),
                        ["--rename", "%s=%s_NEW" % (n, n), "--rename-output", "%s_NEW.%s=%s_o" % (n, prm["n"], prm["n"])],
                        {"callable": (n, n + "_NEW"), "output": (n, prm["n"], prm["n"] + "_o"), "combined": True}))
        for prm in c["ins"][:1]:
            out.append(("rename_then_rename_input:%s.%s" % (n, prm["n"]),
                        ["--rename", "%s=%s_NEW" % (n, n), "--rename-input", "%s_NEW.%s=%s_i" % (n, prm["n"], prm["n"])],
                        {"callable": (n, n + "_NEW"), "input": (n, prm["n"], prm["n"] + "_i"), "combined": True}))
        for prm in c["outs"]:
            if not refs_to(p, n, prm["n"]) and n != top:
                out.append(("rename_then_remove_output:%s.%s" % (n, prm["n"]),
                            ["--rename", "%s=%s_NEW" % (n, n), "--remove-output", "%s_NEW.%s" % (n, prm["n"])],
                            {"callable": (n, n + "_NEW"), "removed_output": (n, prm["n"]), "combined": True}))
    # two callables renamed in one invocation, the second being one whose calls (or whose body)
    # the edits of the first refer to
    pairs = []
    for pl in p["pipelines"]:
        ids = {c["id"]: c for c in pl["calls"]}
        for c in pl["calls"]:
            for b in c["binds"]:
                e = b["e"]["e"] if b["e"]["k"] == "split" else b["e"]
                if e["k"] == "ref" and e["call"] in ids and ids[e["call"]]["id"] == ids[e["call"]]["callee"] and c["id"] == c["callee"]:
                    pairs.append((ids[e["call"]]["callee"], c["callee"]))
        for c in pl["calls"]:
            if pl["name"] != top and c["id"] == c["callee"]:
                pairs.append((c["callee"], pl["name"]))
    for a, b in sorted(set(pairs))[:4]:
        if a != b:
            out.append(("rename_two:%s+%s" % (a, b), ["--rename", "%s=%s_NEW,%s=%s_NEW" % (a, a, b, b)],
                        {"callable": (a, a + "_NEW"), "callable2": (b, b + "_NEW"), "combined": True}))
    # several top-level calls, one of which is also called by another: what a pipeline named as a
    # top-level call returns is in use, whoever else calls it
    subs = sorted({c["callee"] for pl in p["pipelines"] if pl["name"] == top for c in pl["calls"]
                   if any(q["name"] == c["callee"] for q in p["pipelines"])})
    for sname in subs[:2]:
        for order in ((sname, top), (top, sname)):
            out.append(("remove_unused_outputs_tops:%s" % "+".join(order), ["--top-calls", ",".join(order)],
                        {"unused": True, "tops": list(order)}))
            out.append(("remove_unused_calls_tops:%s" % "+".join(order), ["--remove-unused-calls", "--top-calls", ",".join(order)],
                        {"unused": True, "tops": list(order)}))
    out.append(("remove_unused_calls", ["--remove-unused-calls", "--top-calls", top], {"unused": True}))
    out.append(("remove_unused_outputs", ["--top-calls", top], {"unused": True}))
    return out

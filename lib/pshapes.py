"""Top-level output signatures for the post-processing check (C13): file, user
file type with extension, path (directory), explicit output names, arrays and
typed maps of files, structs containing files, nested combinations, null and
missing files, symbolic links, strings that hold paths."""
from mro import (call, const, pipeline, program, ref, self_, split, stage, struct, INST, FILE, FILES, FMAP, FSTR, FSTRUCT,
                 FDIR, FMSTRUCT, FASTRUCT, FILES11, FMISSING, FLINK, FLINK2, FSM, FPLINK, FOUTSIDE, FMAPK, FILES2D, FSO, FINSIDE, FILES3D, FSHARDS)

FT = ("txt", "bam.bai")


def one(name, structs, outs, rules, top_outs=None, extra_stage_outs="", note=""):
    """a producer stage P with the given outputs, all returned by the top-level pipeline"""
    st = stage("P", "int x", outs, rules)
    names = [o["n"] for o in st["outs"]]
    tops = top_outs or outs
    return program(name, structs, [st],
                   [pipeline("TOP", "int x", tops, [call("P", binds={"x": self_("x")})],
                             {n: ref("P", n) for n in names})], "TOP", {"x": 1}, filetypes=FT)


def catalogue():
    P = []
    FS = struct("FS", "file f, int n")
    FS2 = struct("FS2", "txt report = summary.txt, file[] parts, string label")
    NEST = struct("NEST", "FS inner, map<file> byname")
    P.append(one("po_plain", [], "file f, txt t, bam.bai idx, int n, string s",
                 {"f": FILE, "t": FILE, "idx": FILE, "n": const(3), "s": const("text")}))
    P.append(one("po_named", [], "file f = custom.bin, txt t = report_final.txt, int n",
                 {"f": FILE, "t": FILE, "n": const(1)}))
    P.append(one("po_dir", [], "path d, path d2 = renamed_dir", {"d": FDIR, "d2": FDIR}))
    P.append(one("po_arrays", [], "file[] fs, txt[] ts, file[] many, file[] none, file[] isnull",
                 {"fs": FILES, "ts": FILES, "many": FILES11, "none": const([]), "isnull": const(None)}))
    P.append(one("po_maps", [], "map<file> fm, map<txt> tm, map<file> empty", {"fm": FMAP, "tm": FMAP, "empty": const({})}))
    P.append(one("po_struct", [FS], "FS s, FS[] ss, map<FS> ms", {"s": FSTRUCT, "ss": FASTRUCT, "ms": FMSTRUCT}))
    P.append(one("po_nulls", [FS], "file f, txt t, FS s, file gone, string p, map m",
                 {"f": const(None), "t": const(None), "s": const(None), "gone": FMISSING, "p": FSTR, "m": const({"k": 1})}))
    P.append(one("po_links", [], "file l, file f, txt chain", {"l": FLINK, "f": FILE, "chain": FLINK2}))
    P.append(one("po_outside", [FS], "file o, txt t, file[] os, FS s, file inside",
                 {"o": FOUTSIDE, "t": FOUTSIDE, "os": const(None), "s": const(None), "inside": FILE}))
    # a struct, an array of structs and a typed map of structs with one member inside the
    # pipestance and one outside of it
    FSOT = struct("FSO", "file f, file o")
    P.append(one("po_struct_outside", [FSOT], "FSO s, file g", {"s": FSO, "g": FILE}))
    P.append(one("po_arr3d", [], "txt[][][] cube, file[][][] raw", {"cube": FILES3D, "raw": FILES3D}))
    # shards written under their index in a sub-directory of the files directory
    P.append(one("po_shards", [], "txt[] parts, file[] more, int n", {"parts": FSHARDS, "more": FSHARDS, "n": const(2)}))
    # one directory returned under two names
    q2 = program("po_dir_twice", [], [stage("P", "int x", "path d, int n", {"d": FDIR, "n": const(1)})],
                 [pipeline("TOP", "int x", "path d, path again, int n", [call("P", binds={"x": self_("x")})],
                           {"d": ref("P", "d"), "again": ref("P", "d"), "n": ref("P", "n")})], "TOP", {"x": 1}, filetypes=FT)
    P.append(q2)
    # a directory and a file inside it returned side by side, in both orders of declaration
    P.append(one("po_file_in_dir", [], "path d, txt inner, int n", {"d": FDIR, "inner": FINSIDE, "n": const(1)}))
    P.append(one("po_file_in_dir_rev", [], "txt inner, path d, int n", {"inner": FINSIDE, "d": FDIR, "n": const(1)}))
    # mapped top-level calls: the invocation is `map call TOP(x = split ...)`; the files of every
    # fork go below outs/<index> or outs/<key>
    for nm, mode, xs in (("po_top_mapped_arr", "array", [1, 2, 3]), ("po_top_mapped_map", "map", {"a": 1, "b c": 2, "10": 3}),
                         ("po_top_mapped_one", "array", [7]), ("po_top_mapped_11", "array", list(range(11))),
                         ("po_top_mapped_oddkeys", "map", {"..": 1, "c/d": 2, "ok": 3, ".": 4})):
        st = stage("P", "int x", "file f, txt t, file[] fs, FS s, int n", {"f": FILE, "t": FILE, "fs": FILES, "s": FSTRUCT, "n": const(1)})
        P.append(program(nm, [FS], [st],
                         [pipeline("TOP", "int x", "file f, txt t, file[] fs, FS s, int n", [call("P", binds={"x": self_("x")})],
                                   {n_: ref("P", n_) for n_ in ("f", "t", "fs", "s", "n")})],
                         "TOP", {"x": xs}, filetypes=FT, top_mode=mode, top_split=("x",)))
    # files named by invocation arguments with paths relative to mrp's working directory, passed
    # through to the outputs (they lie outside the pipestance)
    q = program("po_relinput", [], [stage("P", "int x", "int n", {"n": const(1)})],
                [pipeline("TOP", "int x, file inp, txt t", "int n, file o, txt t2",
                          [call("P", binds={"x": self_("x")})],
                          {"n": ref("P", "n"), "o": self_("inp"), "t2": self_("t")})],
                "TOP", {"x": 1, "inp": "input/x.bin", "t": "input/deep/notes.txt"}, filetypes=FT)
    q["rel_files"] = {"o": "input/x.bin", "t2.txt": "input/deep/notes.txt"}
    P.append(q)
    P.append(one("po_arr2d", [], "txt[][] grid, file[][] raw", {"grid": FILES2D, "raw": FILES2D}))
    # typed maps of a user file type whose keys look like file names of that type
    P.append(one("po_mapkeys_ext", [], "map<txt> tm, map<file> fm",
                 {"tm": FMAPK("lung.txt", "liver", "liver.txt", "a.b", "txt"), "fm": FMAPK("x.txt", "x", "file")}))
    # keys that JSON and Go's %q spell differently (control characters, DEL), quotes, backslashes,
    # blanks and non-ASCII text: the rewritten record must stay valid JSON with the same keys
    P.append(one("po_mapkeys_ctl", [], "map<txt> tm, map<file> fm",
                 {"tm": FMAPK("a\x7fb", "esc\x1bx", "bell\x07", "q\"uote", "back\\slash", "sp ace", "\u00e9t\u00e9", "\u2028ls"),
                  "fm": FMAPK("tab\tx", "nl\nx", "\x01", "plain")}))
    # a struct whose path-ish members (string, map) come before its file member
    P.append(one("po_struct_order", [struct("SM", "string label, map m, file f")], "SM sm, SM[] sms",
                 {"sm": FSM, "sms": const([])}))
    P.append(one("po_mixed", [], "int a, file f, float b, txt t = x.txt, bool c, int[] xs, map<int> mi",
                 {"a": const(1), "f": FILE, "b": const(1.5), "t": FILE, "c": const(True), "xs": const([1, 2]), "mi": const({"k": 2})}))
    # through a sub-pipeline and from two stages; the top-level names differ from the stage's
    P.append(program("po_renamed", [FS],
                     [stage("A", "int x", "file f, FS s", {"f": FILE, "s": FSTRUCT}), stage("B", "int x", "txt f", {"f": FILE})],
                     [pipeline("SUB", "int x", "file inner", [call("A", binds={"x": self_("x")})], {"inner": ref("A", "f")}),
                      pipeline("TOP", "int x", "file first, txt second = second_output.txt, file third, FS packed",
                               [call("SUB", binds={"x": self_("x")}), call("A", binds={"x": self_("x")}), call("B", binds={"x": self_("x")})],
                               {"first": ref("SUB", "inner"), "second": ref("B", "f"), "third": ref("A", "f"), "packed": ref("A", "s")})],
                     "TOP", {"x": 1}, filetypes=FT))
    # a stage passes its input file through as a relative symbolic link; the file it points
    # at is an earlier top-level output produced at another depth of the pipestance
    P.append(program("po_passthrough", [],
                     [stage("A", "int x", "txt data", {"data": FILE}), stage("L", "txt inp", "txt alias", {"alias": FPLINK})],
                     [pipeline("SUB", "int x", "txt data", [call("A", binds={"x": self_("x")})], {"data": ref("A", "data")}),
                      pipeline("TOP", "int x", "txt data, txt alias, txt again",
                               [call("SUB", binds={"x": self_("x")}), call("L", binds={"inp": ref("SUB", "data")}),
                                call("L2", "L", binds={"inp": ref("L", "alias")})],
                               {"data": ref("SUB", "data"), "alias": ref("L", "alias"), "again": ref("L2", "alias")})],
                     "TOP", {"x": 1}, filetypes=FT))
    # mapped producer: arrays / maps of files assembled by the runtime
    P.append(program("po_mapped", [],
                     [stage("A", "int x", "file f, txt t", {"f": FILE, "t": FILE})],
                     [pipeline("TOP", "int[] xs, map<int> xm", "file[] fs, map<txt> tm",
                               [call("AA", "A", binds={"x": split(self_("xs"))}, mode="array"),
                                call("AM", "A", binds={"x": split(self_("xm"))}, mode="map")],
                               {"fs": ref("AA", "f"), "tm": ref("AM", "t")})],
                     "TOP", {"xs": [1, 2, 3], "xm": {"k1": 1, "k 2": 2}}, filetypes=FT))
    return P


def clash_catalogue():
    """declarations in which two outputs / members would be sent to the same file name
    (PostProc!Clash): the compiler has to refuse them; and near misses it must accept"""
    P = []
    P.append(one("pc_explicit_vs_id", [], "file summary, txt notes, file details = summary",
                 {"summary": FILE, "notes": FILE, "details": FILE}))
    P.append(one("pc_dir_vs_explicit", [], "txt[] plots, file archive = plots", {"plots": FILES, "archive": FILE}))
    P.append(one("pc_two_explicit", [], "file a = same.bin, txt b = same.bin", {"a": FILE, "b": FILE}))
    P.append(one("pc_ext_vs_explicit", [], "txt foo, file x = foo.txt", {"foo": FILE, "x": FILE}))
    P.append(one("pc_struct_members", [struct("CS", "file a, txt b = a, int n")], "CS s", {"s": const(None)}))
    P.append(one("pc_map_vs_explicit", [], "map<txt> tm, path d = tm", {"tm": FMAP, "d": FDIR}))
    # near misses: distinct names
    P.append(one("pn_ext_differs", [], "txt foo, file x = foo", {"foo": FILE, "x": FILE}))
    P.append(one("pn_nonfile_same", [], "int summary2, file details = summary2", {"summary2": const(1), "details": FILE}))
    return P

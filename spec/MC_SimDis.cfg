SPECIFICATION Spec
CONSTANTS
  Nodes <- DisNodes
  Pre <- DisPre
  Splits <- DisSplits
  Dyn <- DisNone
  DisBy <- DisDis
  MaxF = 1
  MaxC = 1
  MaxAtt = 1
  MaxCrash = 0
  MaxFail = 0
  EarlyChunks = FALSE
  Survive = FALSE

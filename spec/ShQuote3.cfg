CONSTANT N = 3
CONSTANT Alphabet <- FullAlphabet

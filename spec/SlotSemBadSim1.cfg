SPECIFICATION Spec
CONSTANTS
  Jobs = {1, 2, 3, 4}
  Limit = 1
  SignalOnEveryReturn = FALSE
  MaxCancel = 2

INVARIANTS WithinLimit OnlyLive


SPECIFICATION Spec
CONSTANTS
  Nodes <- MapNodes
  Pre <- MapPre
  Splits <- MapSplits
  Dyn <- MapDyn
  DisBy <- MapNone
  MaxF = 2
  MaxC = 1
  MaxAtt = 1
  MaxCrash = 0
  MaxFail = 0
  EarlyChunks = FALSE
  Survive = FALSE

SPECIFICATION Spec
CONSTANTS
  Jobs = {a, b, c, d}
  Limit = 2
  CountRunning = TRUE
INVARIANTS WithinLimit SemCovers
CHECK_DEADLOCK FALSE

SPECIFICATION TraceSpec
CONSTANTS
  Jobs = {"t"}
  RemoveFirst = TRUE
  MaxCrash = 1000
INVARIANTS NoRedo OneInstance SentinelMeansNotHandedOver
POSTCONDITION TraceAccepted
CHECK_DEADLOCK FALSE

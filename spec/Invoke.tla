------------------------------- MODULE Invoke -------------------------------
(* Invocation data <-> MRO call text (C16): martian/core/runtime.go
   BuildCallAst / convertToExp / fixExpressionTypes (data -> call) and
   BuildDataForAst / InvocationDataFromSource (call -> data).

   A row is a callable signature (input parameters in declaration order), a
   JSON argument value for some of them, and the subset that is split (mapped).
   ToCall gives the bindings the generated call must have - one per parameter,
   null for missing arguments; objects become struct literals where the
   parameter type says struct (at any depth, through arrays and typed maps) and
   map literals otherwise; a split argument is wrapped unless it is null.
   ToData reads a call back.  TLC checks on every row that the round trip
   restores the arguments and the split set, and writes the expected bindings
   for the replay through the real functions.

   values: the tagged values of MroSem, plus [k |-> "big", s] for integers that
   do not fit TLC's integers (carried as text). *)
EXTENDS Integers, Sequences, FiniteSets, TLC, Json

Rows == ndJsonDeserialize("inv_rows.ndjson")

Null == [k |-> "null"]
IsNull(v) == v.k = "null"
Range(s) == {s[i] : i \in DOMAIN s}
Has(s, name) == \E j \in DOMAIN s : s[j].n = name
Lookup(s, name) == s[CHOOSE j \in DOMAIN s : s[j].n = name]
HasName(s, name) == \E j \in DOMAIN s : s[j].name = name
ByName(s, name) == s[CHOOSE j \in DOMAIN s : s[j].name = name]

IsArr(t) == t.a > 0
IsTMap(t) == t.a = 0 /\ t.m = 1
Elem(t) == IF t.a > 0 THEN [t EXCEPT !.a = t.a - 1] ELSE [b |-> t.b, a |-> t.ia, m |-> 0, ia |-> 0]
IsStruct(r, t) == t.a = 0 /\ t.m = 0 /\ HasName(r.structs, t.b)

(* data -> expression, guided by the parameter type *)
RECURSIVE CallExp(_, _, _)
CallExp(r, t, v) ==
    CASE v.k = "arr" -> [k |-> "arrx", es |-> [i \in DOMAIN v.a |-> CallExp(r, IF IsArr(t) THEN Elem(t) ELSE t, v.a[i])]]
      [] v.k = "obj" ->
            IF IsTMap(t)
            THEN [k |-> "objx", kind |-> "map", fs |-> [x \in DOMAIN v.o |-> CallExp(r, Elem(t), v.o[x])]]
            ELSE IF IsStruct(r, t)
            THEN LET fs == ByName(r.structs, t.b).fields IN
                 [k |-> "objx", kind |-> "struct",
                  fs |-> [x \in DOMAIN v.o |-> CallExp(r, IF Has(fs, x) THEN Lookup(fs, x).t ELSE [b |-> "map", a |-> 0, m |-> 0, ia |-> 0], v.o[x])]]
            ELSE [k |-> "objx", kind |-> "map", fs |-> [x \in DOMAIN v.o |-> CallExp(r, [b |-> "map", a |-> 0, m |-> 0, ia |-> 0], v.o[x])]]
      [] OTHER -> [k |-> "lit", v |-> v]

Arg(r, n) == IF Has(r.args, n) THEN Lookup(r.args, n).v ELSE Null
IsSplit(r, n) == \E i \in DOMAIN r.split : r.split[i] = n

(* the value of a split argument is a collection of the parameter's type *)
CollType(t, v) == IF v.k = "obj" THEN [b |-> t.b, a |-> 0, m |-> 1, ia |-> t.a] ELSE [t EXCEPT !.a = t.a + 1]
ToCall(r) ==
    [i \in DOMAIN r.params |->
        LET p == r.params[i]
            e == CallExp(r, IF IsSplit(r, p.n) THEN CollType(p.t, Arg(r, p.n)) ELSE p.t, Arg(r, p.n))
        IN [n |-> p.n, e |-> IF IsSplit(r, p.n) /\ ~IsNull(Arg(r, p.n)) THEN [k |-> "split", e |-> e] ELSE e]]

(* expression -> data *)
RECURSIVE ValueOf(_)
ValueOf(e) ==
    CASE e.k = "lit" -> e.v
      [] e.k = "arrx" -> [k |-> "arr", a |-> [i \in DOMAIN e.es |-> ValueOf(e.es[i])]]
      [] e.k = "objx" -> [k |-> "obj", o |-> [x \in DOMAIN e.fs |-> ValueOf(e.fs[x])]]
      [] e.k = "split" -> ValueOf(e.e)
ToData(call) ==
    [args |-> [i \in DOMAIN call |-> [n |-> call[i].n, v |-> ValueOf(call[i].e)]],
     split |-> {call[i].n : i \in {j \in DOMAIN call : call[j].e.k = "split"}}]

RoundTrip(r) ==
    LET d == ToData(ToCall(r)) IN
    /\ \A i \in DOMAIN r.params : d.args[i].n = r.params[i].n /\ d.args[i].v = Arg(r, r.params[i].n)
    /\ d.split = {n \in Range(r.split) : ~IsNull(Arg(r, n))}
(* the other direction: a call built from data, read back, and built again is the same call *)
Stable(r) ==
    LET c == ToCall(r)
        d == ToData(c)
        r2 == [r EXCEPT !.args = d.args, !.split = [i \in 1..Cardinality(d.split) |-> (CHOOSE s \in [1..Cardinality(d.split) -> d.split] : \A a, b \in 1..Cardinality(d.split) : a # b => s[a] # s[b])[i]]]
    IN ToCall(r2) = c

ASSUME \A i \in DOMAIN Rows : RoundTrip(Rows[i]) /\ Stable(Rows[i])
ASSUME ndJsonSerialize("inv_out.ndjson", [i \in DOMAIN Rows |-> [id |-> Rows[i].id, call |-> ToCall(Rows[i])]])
=============================================================================

SPECIFICATION Spec
CONSTANTS
  Mrp = {a, b, c}
  RemoveWhenRefused = FALSE
INVARIANTS OneHolder HolderIntact
PROPERTIES SomeoneFinishes
CHECK_DEADLOCK FALSE

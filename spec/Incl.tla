------------------------------- MODULE Incl -------------------------------
(* The include machinery of the parser (parser.go getIncludes / ErrorList.If)
   as far as C08 needs it: a source file carries a sequence of @include
   directives; each included file either parses, or does not exist, or has a
   syntax error, or parses but declares something twice, or itself includes
   further files.  Every directive is processed (an error does not stop the
   others), the outcomes are collected in a list with one slot per directive
   - empty for a good file - and the list is flattened into the error that is
   reported.  C08 demands: the result is a tree (no slot filled) or a message
   that can be printed and carries a position.  The theorem below is the
   design-level statement (flattening never leaves an empty slot, whatever
   the pattern of good and bad files); the rows are replayed through the real
   parser, where `a printable, located message` is judged on the real text. *)
EXTENDS Naturals, Sequences, FiniteSets, TLC, Json

CONSTANT MaxLen
Leaf == {"good", "missing", "syntax", "dupdecl", "cycle"}
Nested == {"nest_good", "nest_bad_good_bad", "nest_good_bad", "nest_missing_good_syntax"}
Kinds == Leaf \cup Nested

(* the slots a kind contributes: <<>> for none, else the located errors *)
NestSeq(k) == CASE k = "nest_good" -> <<"good", "good">>
                [] k = "nest_bad_good_bad" -> <<"syntax", "good", "missing">>
                [] k = "nest_good_bad" -> <<"good", "syntax">>
                [] k = "nest_missing_good_syntax" -> <<"missing", "good", "syntax">>
                [] OTHER -> <<>>
Nil == "nil"
LeafSlot(k) == IF k = "good" THEN Nil ELSE k
Slots(seq) == [i \in DOMAIN seq |-> IF seq[i] \in Leaf THEN <<LeafSlot(seq[i])>>
                                       ELSE [j \in DOMAIN NestSeq(seq[i]) |-> LeafSlot(NestSeq(seq[i])[j])]]
(* ErrorList.If: nested lists are flattened, empty slots dropped *)
RECURSIVE Flat(_)
Flat(ss) == IF ss = <<>> THEN <<>> ELSE SelectSeq(Head(ss), LAMBDA e : e # Nil) \o Flat(Tail(ss))
Outcome(seq) == IF Flat(Slots(seq)) = <<>> THEN "tree" ELSE "error"

Seqs == UNION {[1..n -> Kinds] : n \in 1..MaxLen}
ASSUME \A s \in Seqs : \A i \in DOMAIN Flat(Slots(s)) : Flat(Slots(s))[i] # Nil
ASSUME \A s \in Seqs : (Outcome(s) = "tree") <=> (\A i \in DOMAIN s : s[i] \in {"good", "nest_good"})

RECURSIVE SetSeq(_)
SetSeq(S) == IF S = {} THEN <<>> ELSE LET x == CHOOSE x \in S : TRUE IN <<x>> \o SetSeq(S \ {x})
ASSUME ndJsonSerialize("incl_rows.ndjson", SetSeq({[seq |-> s, outcome |-> Outcome(s), nerr |-> Len(Flat(Slots(s)))] : s \in Seqs}))
=============================================================================

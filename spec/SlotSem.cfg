SPECIFICATION LiveSpec
CONSTANTS
  Jobs = {1, 2, 3, 4}
  Limit = 2
  SignalOnEveryReturn = TRUE
  MaxCancel = 2
VIEW View
INVARIANTS WithinLimit OnlyLive NoStall
PROPERTIES Admitted

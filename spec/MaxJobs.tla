------------------------------ MODULE MaxJobs ------------------------------
(* The --maxjobs limit in cluster mode (C12): martian/core/maxjobs_semaphore.go,
   jobmanager_remote.go (execJob, endJob, resetMaxJobs, reattach) and
   stage.go (Metadata.reattachJob, Fork.reattachJobs).

   Every job handed to the job manager waits (in a goroutine) for a slot of the
   semaphore, is submitted, sits in the cluster queue, runs and ends; mrp
   releases the slot when it notices the end.  mrp may exit at any time and be
   restarted: the cluster jobs live on, the semaphore is rebuilt, and the jobs
   found queued or running are re-attached.  CountRunning says whether
   re-attaching counts a job that is already running (the repaired code) or
   only one still waiting in the cluster queue (the code as found).

   Invariant: the number of jobs on the cluster never exceeds Limit. *)
EXTENDS Integers, FiniteSets

CONSTANTS Jobs, Limit, CountRunning

VARIABLES st,      \* job -> "new" | "waiting" | "queued" | "running" | "ended" | "done"
          sem,     \* jobs holding a slot
          up       \* mrp is running

vars == <<st, sem, up>>

Init == st = [j \in Jobs |-> "new"] /\ sem = {} /\ up = TRUE

OnCluster == {j \in Jobs : st[j] \in {"queued", "running"}}

(* Node.runJob -> execJob: the job waits for a slot *)
Hand(j) == up /\ st[j] = "new" /\ st' = [st EXCEPT ![j] = "waiting"] /\ UNCHANGED <<sem, up>>
(* MaxJobsSemaphore.Acquire succeeds, sendJob submits *)
Submit(j) == /\ up /\ st[j] = "waiting" /\ Cardinality(sem) < Limit
             /\ sem' = sem \cup {j} /\ st' = [st EXCEPT ![j] = "queued"] /\ UNCHANGED up
(* the cluster starts and ends the job, whether or not mrp lives *)
Begin(j) == st[j] = "queued" /\ st' = [st EXCEPT ![j] = "running"] /\ UNCHANGED <<sem, up>>
End(j) == st[j] = "running" /\ st' = [st EXCEPT ![j] = "ended"] /\ UNCHANGED <<sem, up>>
(* mrp notices the end: endJob releases the slot *)
Notice(j) == /\ up /\ st[j] = "ended"
             /\ st' = [st EXCEPT ![j] = "done"] /\ sem' = sem \ {j} /\ UNCHANGED up
(* mrp exits (failure elsewhere, signal); jobs waiting for a slot die with it *)
Exit == /\ up /\ up' = FALSE /\ sem' = {}
        /\ st' = [j \in Jobs |-> IF st[j] = "waiting" THEN "new" ELSE st[j]]
(* restart: resetMaxJobs, reattachJobs *)
Restart == /\ ~up /\ up' = TRUE
           /\ sem' = {j \in Jobs : st[j] = "queued" \/ (CountRunning /\ st[j] = "running")}
           /\ UNCHANGED st

Next == \/ \E j \in Jobs : Hand(j) \/ Submit(j) \/ Begin(j) \/ End(j) \/ Notice(j)
        \/ Exit \/ Restart
Spec == Init /\ [][Next]_vars

WithinLimit == Cardinality(OnCluster) <= Limit
(* what the semaphore believes covers what is on the cluster while mrp runs *)
SemCovers == up /\ CountRunning => OnCluster \subseteq sem
=============================================================================

CONSTANTS
  N = 3
  Alphabet <- FullAlphabet

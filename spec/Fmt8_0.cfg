CONSTANTS
  N = 8
  Sep = 0

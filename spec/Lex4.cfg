CONSTANTS
  N = 4
  Alphabet <- FullAlphabet

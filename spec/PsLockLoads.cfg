SPECIFICATION Spec
CONSTANTS
  Mrp = {m1, m2, m3}
  Atomic = TRUE
  InspectorLoadsLock = TRUE
  InspectorCleansUp = FALSE
INVARIANTS OneWriter HolderHasFile

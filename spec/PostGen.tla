------------------------------ MODULE PostGen ------------------------------
EXTENDS PostProc, Json
Progs == ndJsonDeserialize("progs.ndjson")
ASSUME \A i \in DOMAIN Progs : Distinct(Progs[i])
ASSUME ndJsonSerialize("post_out.ndjson", [i \in DOMAIN Progs |-> [name |-> Progs[i].name, outs |-> Materialise(Progs[i])]])
=============================================================================

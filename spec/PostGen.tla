------------------------------ MODULE PostGen ------------------------------
EXTENDS PostProc, Json
Progs == ndJsonDeserialize("progs.ndjson")
ASSUME \A i \in DOMAIN Progs : ~Clash(Progs[i]) => Distinct(Progs[i])
ASSUME ndJsonSerialize("post_out.ndjson", [i \in DOMAIN Progs |->
          [name |-> Progs[i].name, clash |-> Clash(Progs[i]),
           outs |-> IF Clash(Progs[i]) THEN Null ELSE Materialise(Progs[i])]])
=============================================================================

-------------------------------- MODULE Fmt --------------------------------
(* Comments in the canonical formatter (C09): martian/syntax/lexer.go
   (attachComments, compileComments) and formatter.go (printer.printComments).

   A scope (the parameters of a stage, the bindings of a call, the elements of
   a collection, the declarations of a file ...) is a sequence of lines, each a
   comment "c", a blank line "b" or an element "e".  The parser hangs every
   comment on the first element at or after it: comments directly above the
   element (no blank line in between) become the element's own comments, the
   others its scope comments; the printer writes the scope comments (keeping a
   single blank line where there was exactly one line between two of them), a
   blank line, the own comments, the element.  Elements are separated by Sep
   blank lines by the construct's own printing code.

   TLC checks on all layouts of up to N lines that no comment is lost, that
   each comment followed by an element of its scope is kept exactly once, and
   that formatting the formatted layout changes nothing.  The rows (layout,
   formatted layout) are replayed through the real formatter for every
   construct family. *)
EXTENDS Integers, Sequences, FiniteSets, TLC, Json, SequencesExt

CONSTANTS N, Sep

Kinds == {"c", "b", "e"}

(* lines carry identities so that comments can be followed: [k, id] *)
Mk(ks) == [i \in DOMAIN ks |-> [k |-> ks[i], id |-> i]]

ElemLines(L) == {i \in DOMAIN L : L[i].k = "e"}
ComLines(L) == {i \in DOMAIN L : L[i].k = "c"}

RECURSIVE SortedSeq(_)
SortedSeq(S) == IF S = {} THEN <<>> ELSE LET m == CHOOSE x \in S : \A y \in S : x <= y IN <<m>> \o SortedSeq(S \ {m})

(* attachComments for one element at line n, given the still unattached comment
   lines cs (ascending): <<scope comments, own comments>> *)
RECURSIVE Group(_, _, _)
Group(cs, scope, own) ==
    IF cs = <<>> THEN <<scope, own>>
    ELSE IF own # <<>> /\ own[Len(own)] < Head(cs) - 1
         THEN Group(Tail(cs), scope \o own, <<Head(cs)>>)
         ELSE Group(Tail(cs), scope, Append(own, Head(cs)))
AttachOne(cs, n) ==
    LET g == Group(cs, <<>>, <<>>)
    IN IF g[2] # <<>> /\ g[2][Len(g[2])] < n - 1 THEN <<g[1] \o g[2], <<>> >> ELSE g

(* the printer, element by element.  last = line number (in the SOURCE) of the
   last thing printed, as printer.lastComment has it *)
RECURSIVE PrintScope(_, _, _)
PrintScope(L, cs, last) ==   \* scope comments cs (source lines); last = source line of the
                             \* previous comment printed for this element, 0 if none
    IF cs = <<>> THEN <<>>
    ELSE LET c == Head(cs)
             \* a single blank line between two blocks of comments is kept (the line of
             \* the previous element says nothing: it may span several lines)
             gap == IF last # 0 /\ last = c - 2 THEN <<[k |-> "b", id |-> 0]>> ELSE <<>>
         IN gap \o <<L[c]>> \o PrintScope(L, Tail(cs), c)

RECURSIVE PrintElems(_, _, _, _, _)
PrintElems(L, elems, from, last, first) ==   \* from: first source line not yet consumed
    IF elems = <<>> THEN <<>>
    ELSE LET n == Head(elems)
             cs == SortedSeq({i \in ComLines(L) : i >= from /\ i < n})
             a == AttachOne(cs, n)
             sepLines == IF first THEN <<>> ELSE [i \in 1..Sep |-> [k |-> "b", id |-> 0]]
             sc == PrintScope(L, a[1], 0)
         IN sepLines
            \o sc \o (IF a[1] # <<>> THEN <<[k |-> "b", id |-> 0]>> ELSE <<>>)
            \o [i \in DOMAIN a[2] |-> L[a[2][i]]]
            \o <<L[n]>>
            \o PrintElems(L, Tail(elems), n + 1, n, FALSE)

(* comments after the last element of the scope are not printed here (they go to
   a later node or to the end of the file): "trailing" *)
Trailing(L) == LET es == ElemLines(L) IN
               IF es = {} THEN ComLines(L) ELSE {i \in ComLines(L) : i > (CHOOSE m \in es : \A y \in es : y <= m)}

Format(L) == PrintElems(L, SortedSeq(ElemLines(L)), 1, 0, TRUE)

(* renumber a printed layout as a fresh source *)
Kinds2(P) == [i \in DOMAIN P |-> P[i].k]
Ids(P, k) == [i \in {j \in DOMAIN P : P[j].k = k} |-> P[i].id]

(* ---- theorems ---- *)
Restricted(L) == Trailing(L) = {}
KeptOnce(L) ==
    LET P == Format(L) IN
    \A c \in ComLines(L) \ Trailing(L) : Cardinality({j \in DOMAIN P : P[j].k = "c" /\ P[j].id = c}) = 1
SameElems(L) ==
    LET P == Format(L) IN SortedSeq(ElemLines(L)) = [i \in 1..Cardinality(ElemLines(L)) |->
                                                       P[SortedSeq({j \in DOMAIN P : P[j].k = "e"})[i]].id]
(* comments keep their order *)
Order(L) ==
    LET P == Format(L)
        pc == SortedSeq({j \in DOMAIN P : P[j].k = "c"})
    IN \A i, j \in DOMAIN pc : i < j => P[pc[i]].id < P[pc[j]].id
(* the second formatting reproduces the first: same kinds line by line, and the
   comment attached at each position is the same one *)
Idempotent(L) ==
    LET P == Format(L)
        Q == Format(Mk(Kinds2(P)))
    IN Restricted(L) => /\ Kinds2(Q) = Kinds2(P)
                        /\ \A j \in DOMAIN Q : Q[j].k = "c" => Q[j].id = j

RECURSIVE Layouts(_)
Layouts(n) == IF n = 0 THEN {<<>>} ELSE LET S == Layouts(n - 1) IN S \cup {Append(s, k) : s \in {t \in S : Len(t) = n - 1}, k \in Kinds}
All == {Mk(ks) : ks \in Layouts(N)}


Rows == LET s == SetToSeq(All) IN
        [i \in DOMAIN s |-> [src |-> Kinds2(s[i]), out |-> Format(s[i]),
                             trailing |-> SortedSeq(Trailing(s[i])), restricted |-> Restricted(s[i])]]
ASSUME ndJsonSerialize("fmt_rows.ndjson", Rows)
ASSUME \A L \in All : KeptOnce(L) /\ SameElems(L) /\ Order(L)
ASSUME \A L \in All : Idempotent(L)
===========================================================================

------------------------------ MODULE PostProc ------------------------------
(* Where the final outputs end up (C13): martian/core/post_process.go
   (Fork.postProcess, handleOuts, moveOutFiles / moveOutDir / moveOutArrayDir /
   moveOutFile) and syntax/struct_type.go GetOutFilename.

   For every output parameter of the top-level pipeline the value is walked
   along its type: a file (file, path, user file type) is moved to
   <outs>/<name>; an array, typed map or struct that contains files becomes a
   directory <outs>/<name>/ whose entries are named by zero-padded index, key or
   member; <name> is the explicit output name if there is one, the parameter's
   id for file / path / complex types, id.TYPE for user file types.  Everything
   else - including strings that happen to hold paths - stays as it is, null
   stays null.  Materialise gives the rewritten outputs record with every moved
   file replaced by [k |-> "moved", f (the file), rel (path below outs/)]. *)
EXTENDS MroSem

UserFile(p, b) == \E i \in DOMAIN p.filetypes : p.filetypes[i] = b
IsFileBase(p, b) == b \in {"file", "path"} \/ UserFile(p, b)

(* does a value of this type contain files that are moved *)
RECURSIVE HasFiles(_, _, _)
HasFiles(p, t, seen) ==
    IF t.a > 0 \/ t.m = 1 THEN HasFiles(p, [b |-> t.b, a |-> 0, m |-> 0, ia |-> 0], seen)
    ELSE IF IsFileBase(p, t.b) THEN TRUE
    ELSE IF HasName(p.structs, t.b) /\ t.b \notin seen THEN
        \E i \in DOMAIN Fields(p, t) : HasFiles(p, Fields(p, t)[i].t, seen \cup {t.b})
    ELSE FALSE

IsScalarFile(p, t) == t.a = 0 /\ t.m = 0 /\ IsFileBase(p, t.b)
IsComplex(p, t) == t.a > 0 \/ t.m = 1 \/ HasName(p.structs, t.b)

(* StructMember.GetOutFilename *)
OutName(p, m) ==
    IF m.outname # "" THEN m.outname
    ELSE IF IsComplex(p, m.t) \/ m.t.b \in {"file", "path"} THEN m.n
    ELSE m.n \o "." \o m.t.b

Join(root, name) == IF root = "" THEN name ELSE root \o "/" \o name
Width(n) == IF n < 10 THEN 1 ELSE IF n < 100 THEN 2 ELSE 3
Pad(i, w) == LET s == ToString(i) IN
             IF w = 1 \/ i >= 100 THEN s
             ELSE IF w = 2 THEN (IF i < 10 THEN "0" \o s ELSE s)
             ELSE (IF i < 10 THEN "00" \o s ELSE IF i < 100 THEN "0" \o s ELSE s)

Member(n, t, o) == [n |-> n, t |-> t, outname |-> o]

HasSlash(x) == \E i \in 1..Len(x) : SubSeq(x, i, i) = "/"
LegalName(x) == x \notin {"", ".", ".."} /\ ~HasSlash(x)

RECURSIVE Mat(_, _, _, _)
Mat(p, m, v, root) ==
    IF IsNull(v) THEN v
    ELSE IF IsScalarFile(p, m.t) THEN
        IF v.k = "file" THEN [k |-> "moved", f |-> v, rel |-> Join(root, OutName(p, m))] ELSE v
    ELSE IF ~HasFiles(p, m.t, {}) THEN v
    ELSE LET dir == Join(root, OutName(p, m)) IN
        IF m.t.a > 0 THEN
            IF v.k = "arr"
            THEN VArr([i \in DOMAIN v.a |-> Mat(p, Member(Pad(i - 1, Width(Len(v.a))), Elem(m.t), ""), v.a[i], dir)])
            ELSE v
        ELSE IF m.t.m = 1 THEN
            \* a key that cannot be a file name (empty, ".", "..", or holding a "/") has no place under
            \* outs/: nothing is demanded of that entry (it may be left out), the others are moved
            IF v.k = "obj" THEN VObj([x \in DOMAIN v.o |-> IF LegalName(x) THEN Mat(p, Member(x, Elem(m.t), ""), v.o[x], dir)
                                                          ELSE [k |-> "any"]]) ELSE v
        ELSE \* struct
            IF v.k = "obj"
            THEN LET fs == Fields(p, m.t) IN
                 VObj([x \in DOMAIN v.o |->
                         IF Has(fs, x) THEN LET f == Lookup(fs, x) IN Mat(p, Member(x, f.t, f.outname), v.o[x], dir)
                         ELSE v.o[x]])
            ELSE v

Materialise(p) ==
    LET pl == ByName(p.pipelines, p.top.callee)
        r == Run(p)
        \* a mapped top-level call: the files of fork k go below outs/k (the index is not padded)
        fork(k) == IF IsNull(r.outs[k]) THEN r.outs[k]
                   ELSE VObj([x \in DOMAIN r.outs[k].o |->
                                LET o == Lookup(pl.outs, x) IN Mat(p, Member(x, o.t, o.outname), r.outs[k].o[x], k)])
    IN IF p.top.mode = "none"
       THEN VObj([x \in DOMAIN r.outs |-> LET o == Lookup(pl.outs, x) IN Mat(p, Member(x, o.t, o.outname), r.outs[x], "")])
       ELSE IF IsNull(r.topval) THEN r.topval
       ELSE IF p.top.mode = "array" THEN VArr([i \in DOMAIN r.topval.a |-> fork(ToString(i - 1))])
       ELSE VObj([k \in DOMAIN r.outs |-> IF LegalName(k) THEN fork(k) ELSE [k |-> "any"]])

(* no two files are sent to the same place *)
RECURSIVE Moved(_)
Moved(v) == CASE v.k = "moved" -> {v}
              [] v.k = "arr" -> UNION {Moved(v.a[i]) : i \in DOMAIN v.a}
              [] v.k = "obj" -> UNION {Moved(v.o[x]) : x \in DOMAIN v.o}
              [] OTHER -> {}
Distinct(p) == LET ms == Moved(Materialise(p)) IN \A a \in ms, b \in ms : a.rel = b.rel => a = b

(* compile_types.go StructType.compile (also used for the outputs of every stage and
   pipeline): two members of one declaration that would be sent to the same file name
   must be refused by the compiler - it is what makes Distinct hold *)
ClashIn(p, ms) == \E i, j \in DOMAIN ms : i < j /\ HasFiles(p, ms[i].t, {}) /\ HasFiles(p, ms[j].t, {})
                                           /\ OutName(p, ms[i]) = OutName(p, ms[j])
Clash(p) == \/ \E i \in DOMAIN p.stages : ClashIn(p, p.stages[i].outs)
            \/ \E i \in DOMAIN p.pipelines : ClashIn(p, p.pipelines[i].outs)
            \/ \E i \in DOMAIN p.structs : ClashIn(p, p.structs[i].fields)
=============================================================================

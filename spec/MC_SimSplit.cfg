SPECIFICATION Spec
CONSTANTS
  Nodes <- SplitNodes
  Pre <- SplitPre
  Splits <- SplitSplits
  Dyn <- SplitNone
  DisBy <- SplitNone
  MaxF = 1
  MaxC = 2
  MaxAtt = 1
  MaxCrash = 0
  MaxFail = 0
  EarlyChunks = FALSE
  Survive = FALSE

SPECIFICATION Spec
CONSTANTS
  Nodes <- ChainNodes
  Pre <- ChainPre
  Splits <- NoSplits
  Dyn <- DynB
  DisBy <- NoDyn
  MaxF = 2
  MaxC = 1
  MaxAtt = 2
  MaxCrash = 1
  MaxFail = 0
  EarlyChunks = FALSE
  Survive = TRUE
VIEW View
INVARIANTS TypeOK BeliefSound AtMostOnce ExactlyOnceAtEnd FailureFailsRun LockHeld
PROPERTIES StartsAfterDeps NoRedoOfRecorded DependentsNeverStart

SPECIFICATION Spec
CONSTANTS
  Jobs = {j1}
  RemoveFirst = FALSE
  MaxCrash = 1
INVARIANTS TypeOK NoRedo
CHECK_DEADLOCK FALSE

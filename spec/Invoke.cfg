

------------------------------ MODULE LocalJM ------------------------------
(* Admission of local jobs (C12): martian/core/jobmanager_local.go
   LocalJobManager.Enqueue.  Every job is a goroutine which, with the request
   already clamped to the limits (SysReqs), acquires hundredths of a core from
   the thread semaphore, then MB from the memory semaphore, runs its process,
   and releases in the opposite order (deferred calls).  Both semaphores are
   ResourceSemaphores: strictly first come first served, a waiter is granted
   only when it is the oldest and fits (ResSem.tla; here one atomic step per
   Acquire outcome).

   TLC checks, for every set of clamped requests over a small grid and every
   interleaving, that the reservations of the jobs holding a resource never
   exceed the limit, and - under fairness of the steps a goroutine can take -
   that every job runs and ends: holding cores while waiting for memory cannot
   deadlock because all jobs acquire in the same order and a running job
   always ends.  Real mrp processes are run under small limits and the
   process start / exit events of the job manager are checked against the same
   invariant with the reservations mrp recorded for each job. *)
EXTENDS Integers, Sequences, FiniteSets

CONSTANTS Jobs, MaxCores, MaxMem,
          Grid      \* the clamped requests a job may have: [c |-> cores, m |-> GB]

VARIABLES req,      \* job -> its request (chosen at the start, every assignment is explored)
          pc,       \* job -> "new" | "wcores" | "wmem" | "run" | "rel" | "done"
          qc, qm,   \* FIFO queues of the two semaphores (waiting jobs)
          hc, hm    \* jobs holding cores / memory
vars == <<req, pc, qc, qm, hc, hm>>

Sum(S, f(_)) == LET RECURSIVE Go(_)
                    Go(T) == IF T = {} THEN 0 ELSE LET x == CHOOSE y \in T : TRUE IN f(x) + Go(T \ {x})
                IN Go(S)
C(j) == req[j].c
M(j) == req[j].m
FreeC == MaxCores - Sum(hc, C)
FreeM == MaxMem - Sum(hm, M)

Init == req \in [Jobs -> Grid] /\ pc = [j \in Jobs |-> "new"] /\ qc = <<>> /\ qm = <<>> /\ hc = {} /\ hm = {}

(* Acquire(cores): granted at once if nobody waits and it fits, else queued *)
WantCores(j) ==
    /\ pc[j] = "new"
    /\ IF qc = <<>> /\ C(j) <= FreeC
       THEN pc' = [pc EXCEPT ![j] = "wmem0"] /\ hc' = hc \cup {j} /\ UNCHANGED qc
       ELSE pc' = [pc EXCEPT ![j] = "wcores"] /\ qc' = Append(qc, j) /\ UNCHANGED hc
    /\ UNCHANGED <<qm, hm, req>>
(* runJobs of the thread semaphore: the oldest waiter, if it fits *)
GrantCores ==
    /\ qc # <<>> /\ C(Head(qc)) <= FreeC
    /\ hc' = hc \cup {Head(qc)} /\ pc' = [pc EXCEPT ![Head(qc)] = "wmem0"] /\ qc' = Tail(qc)
    /\ UNCHANGED <<qm, hm, req>>
WantMem(j) ==
    /\ pc[j] = "wmem0"
    /\ IF qm = <<>> /\ M(j) <= FreeM
       THEN pc' = [pc EXCEPT ![j] = "run"] /\ hm' = hm \cup {j} /\ UNCHANGED qm
       ELSE pc' = [pc EXCEPT ![j] = "wmem"] /\ qm' = Append(qm, j) /\ UNCHANGED hm
    /\ UNCHANGED <<qc, hc, req>>
GrantMem ==
    /\ qm # <<>> /\ M(Head(qm)) <= FreeM
    /\ hm' = hm \cup {Head(qm)} /\ pc' = [pc EXCEPT ![Head(qm)] = "run"] /\ qm' = Tail(qm)
    /\ UNCHANGED <<qc, hc, req>>
(* the process ends; the deferred releases run: memory first, then cores *)
Exit(j) == pc[j] = "run" /\ pc' = [pc EXCEPT ![j] = "rel"] /\ hm' = hm \ {j} /\ UNCHANGED <<qc, qm, hc, req>>
Release(j) == pc[j] = "rel" /\ pc' = [pc EXCEPT ![j] = "done"] /\ hc' = hc \ {j} /\ UNCHANGED <<qc, qm, hm, req>>

Next == \/ \E j \in Jobs : WantCores(j) \/ WantMem(j) \/ Exit(j) \/ Release(j)
        \/ GrantCores \/ GrantMem
Spec == Init /\ [][Next]_vars /\ WF_vars(Next)
        /\ \A j \in Jobs : WF_vars(WantCores(j)) /\ WF_vars(WantMem(j)) /\ WF_vars(Exit(j)) /\ WF_vars(Release(j))
        /\ WF_vars(GrantCores) /\ WF_vars(GrantMem)

MCGrid == {[c |-> 1, m |-> 1], [c |-> 2, m |-> 1], [c |-> 3, m |-> 3], [c |-> 1, m |-> 2]}

WithinLimits == Sum(hc, C) <= MaxCores /\ Sum(hm, M) <= MaxMem
RunningHold == \A j \in Jobs : pc[j] = "run" => j \in hc /\ j \in hm
AllDone == <>(\A j \in Jobs : pc[j] = "done")
=============================================================================

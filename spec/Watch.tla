------------------------------- MODULE Watch -------------------------------
(* How mrp learns that a job has died without writing anything (C06, the
   manifestations "dying from a signal" / node lost): the heartbeat time-out
   (metadata.go checkHeartbeat) and, in cluster mode, the queue query
   (pipestance.go queryQueue, metadata.go failNotRunning / endRefresh).

   Time is kept as ages (time since the last heartbeat, since the mark, since the last
   query), saturating just above the period they are compared with; time only passes
   after the run loop has refreshed (its period is far below the grace period).  One job: it is submitted, may start (writes _log), may
   send heartbeats, may complete, and may vanish at any moment before it
   completes.  The run loop refreshes (reads the journal, then endRefresh with
   the start of the refresh minus the grace period), checks heartbeats, and -
   at most once per QueryEvery - asks the cluster which jobs it knows; the
   answer arrives later (the query runs in a goroutine) and marks the job
   "not in the queue since <now>" if it is still believed queued or running.

   ClearMark = "acted" is the code: the mark is forgotten only when endRefresh
   acts on it.  ClearMark = "always" is the variant that forgets it on every
   refresh; it violates VanishedFails (liveness) - the mark never survives the
   grace period.

   Properties: a job that completes is never failed by either mechanism
   (NoFalseFailure, provided its notification is read before the grace period
   ends); a job that vanishes is eventually failed (VanishedFails, fairness on
   the loop and on time). *)
EXTENDS Integers, TLC

CONSTANTS Grace,        \* queue_query_grace_secs
          QueryEvery,   \* interval between two queue queries
          HbTimeout,    \* heartbeat time-out
          ClearMark,    \* "acted" | "always"
          HasQueue      \* BOOLEAN: the job mode has a queue query

VARIABLES job,       \* "queued" | "running" | "done" | "vanished"   the truth
          wasRunning,\* the job had written _log before it vanished
          seen,      \* what mrp has read: "queued" | "running" | "complete" | "failed"
          journal,   \* notifications not yet read: subset of {"log", "heartbeat", "complete"}
          hbAge,     \* time since the last heartbeat mrp took note of (-1: none)
          markAge,   \* time since notRunningSince (-1: no mark)
          qAge,      \* time since the last query finished (-1: never)
          asking,    \* a query is in flight; what the cluster answered: "known" | "unknown" | "none"
          refreshed, \* the loop has refreshed since time last passed
          cause      \* why mrp failed the job: "" | "heartbeat" | "queue"
vars == <<job, wasRunning, seen, journal, hbAge, markAge, qAge, asking, refreshed, cause>>

Init == /\ job = "queued" /\ wasRunning = FALSE /\ seen = "queued" /\ journal = {}
        /\ hbAge = -1 /\ markAge = -1 /\ qAge = -1 /\ asking = "none" /\ refreshed = FALSE /\ cause = ""

Live == seen \in {"queued", "running"}
Older(a, cap) == IF a = -1 THEN -1 ELSE IF a >= cap THEN cap ELSE a + 1
Tick == /\ (Live => refreshed)
        /\ hbAge' = Older(hbAge, HbTimeout + 1) /\ markAge' = Older(markAge, Grace + 1) /\ qAge' = Older(qAge, QueryEvery)
        /\ refreshed' = FALSE
        /\ UNCHANGED <<job, wasRunning, seen, journal, asking, cause>>

(* ---- the job *)
Start == /\ job = "queued" /\ job' = "running" /\ wasRunning' = TRUE /\ journal' = journal \cup {"log"}
         /\ UNCHANGED <<seen, hbAge, markAge, qAge, asking, refreshed, cause>>
Beat == /\ job = "running" /\ journal' = journal \cup {"heartbeat"}
        /\ UNCHANGED <<job, wasRunning, seen, hbAge, markAge, qAge, asking, refreshed, cause>>
Complete == /\ job = "running" /\ job' = "done" /\ journal' = journal \cup {"complete"}
            /\ UNCHANGED <<wasRunning, seen, hbAge, markAge, qAge, asking, refreshed, cause>>
Vanish == /\ job \in {"queued", "running"} /\ job' = "vanished"
          /\ UNCHANGED <<wasRunning, seen, journal, hbAge, markAge, qAge, asking, refreshed, cause>>

(* ---- the run loop: RefreshState (journal, then endRefresh), CheckHeartbeats *)
Refresh ==
    LET seen1 == IF "complete" \in journal THEN "complete"
                 ELSE IF "log" \in journal /\ seen = "queued" THEN "running" ELSE seen
        hb1 == IF "heartbeat" \in journal \/ ("log" \in journal /\ hbAge = -1) THEN 0 ELSE hbAge
        act == markAge > Grace
    IN /\ Live
       /\ journal' = {}
       /\ hbAge' = hb1
       /\ IF act /\ seen1 \in {"queued", "running"}
          THEN seen' = "failed" /\ cause' = "queue"
          ELSE seen' = seen1 /\ UNCHANGED cause
       /\ markAge' = IF ClearMark = "always" \/ act THEN -1 ELSE markAge
       /\ refreshed' = TRUE
       /\ UNCHANGED <<job, wasRunning, qAge, asking>>
CheckHeartbeat ==
    /\ seen = "running" /\ hbAge > HbTimeout
    /\ seen' = "failed" /\ cause' = "heartbeat"
    /\ UNCHANGED <<job, wasRunning, journal, hbAge, markAge, qAge, asking, refreshed>>
(* queryQueue: at most one in flight, at most every QueryEvery *)
Ask == /\ HasQueue /\ Live /\ asking = "none" /\ (qAge = -1 \/ qAge >= QueryEvery)
       /\ asking' = IF job \in {"queued", "running"} THEN "known" ELSE "unknown"
       /\ UNCHANGED <<job, wasRunning, seen, journal, hbAge, markAge, qAge, refreshed, cause>>
Answer == /\ asking # "none"
          /\ markAge' = IF asking = "unknown" /\ Live /\ markAge = -1 THEN 0 ELSE markAge
          /\ qAge' = 0 /\ asking' = "none"
          /\ UNCHANGED <<job, wasRunning, seen, journal, hbAge, refreshed, cause>>

Next == Tick \/ Start \/ Beat \/ Complete \/ Vanish \/ Refresh \/ CheckHeartbeat \/ Ask \/ Answer
Spec == Init /\ [][Next]_vars
Fair == WF_vars(Tick) /\ WF_vars(Refresh) /\ WF_vars(CheckHeartbeat) /\ WF_vars(Ask) /\ WF_vars(Answer)
LiveSpec == Spec /\ Fair

(* a job that is alive or has completed is not failed by the queue check *)
NoFalseFailure == (seen = "failed" /\ cause = "queue") => job = "vanished"
(* a job that vanishes is failed in the end: after it had started by the heartbeat time-out,
   and in cluster mode by the queue check *)
VanishedFails == (job = "vanished" /\ (HasQueue \/ wasRunning)) ~> (seen \in {"failed", "complete"})
=============================================================================

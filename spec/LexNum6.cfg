CONSTANTS
  N = 6
  Alphabet <- NumAlphabet

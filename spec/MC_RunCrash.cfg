SPECIFICATION Spec
CONSTANTS
  Nodes <- ChainNodes
  Pre <- ChainPre
  Splits <- ChainSplits
  Dyn <- NoDyn
  DisBy <- NoDyn
  MaxF = 1
  MaxC = 1
  MaxAtt = 2
  MaxCrash = 1
  MaxFail = 0
  EarlyChunks = FALSE
  Survive = TRUE
VIEW View
INVARIANTS TypeOK BeliefSound AtMostOnce ExactlyOnceAtEnd FailureFailsRun LockHeld
PROPERTIES StartsAfterDeps NoRedoOfRecorded DependentsNeverStart





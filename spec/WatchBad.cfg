SPECIFICATION LiveSpec
CONSTANTS
  Grace = 2
  QueryEvery = 3
  HbTimeout = 6
  ClearMark = "always"
  HasQueue = TRUE
INVARIANTS NoFalseFailure
PROPERTIES VanishedFails

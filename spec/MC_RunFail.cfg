SPECIFICATION Spec
CONSTANTS
  Nodes <- TriNodes
  Pre <- TriPre
  Splits <- TriSplits
  Dyn <- TriNone
  DisBy <- TriNone
  MaxF = 1
  MaxC = 1
  MaxAtt = 1
  MaxCrash = 0
  MaxFail = 1
  EarlyChunks = FALSE
  Survive = FALSE
VIEW View
INVARIANTS TypeOK BeliefSound AtMostOnce ExactlyOnceAtEnd FailureFailsRun LockHeld
PROPERTIES StartsAfterDeps NoRedoOfRecorded DependentsNeverStart

SPECIFICATION Spec
CONSTANTS
  Jobs = {a, b, c}
  Limit = 1
  CountRunning = FALSE
INVARIANTS WithinLimit
CHECK_DEADLOCK FALSE

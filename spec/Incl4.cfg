CONSTANT MaxLen = 4

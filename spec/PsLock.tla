------------------------------- MODULE PsLock -------------------------------
(* The pipestance write lock (C15, last clause): martian/core/pipestance.go
   Pipestance.Lock / Unlock as used by InvokePipeline and
   ReattachToPipestance.  Each mrp instance that wants to write looks for the
   _lock file and then creates it; Atomic says whether creating it fails when
   it already exists (O_EXCL, the repaired code) or overwrites it (the code as
   found).  Read-only instances (mrp --inspect) attach without looking at the lock
   and may be refused (the definitions they bring mean something else) or accepted;
   InspectorCleansUp says whether a refused one "releases" the pipestance on its way
   out - Unlock just removes the file, whoever wrote it (a seeded change did that;
   PsLockInspect.cfg shows TLC finding the second writer).  TLC checks that at most
   one instance ever believes it holds the pipestance, over all orders of attach
   attempts, inspections and exits. *)
EXTENDS Integers, FiniteSets

CONSTANTS Mrp,       \* instances
          Atomic,    \* BOOLEAN
          InspectorCleansUp   \* BOOLEAN

VARIABLES file,      \* the _lock file exists
          pc         \* instance -> "idle" | "checked" | "holding" | "refused"

Init == file = FALSE /\ pc = [m \in Mrp |-> "idle"]

(* metadata.loadCache(); metadata.exists(Lock) *)
Check(m) == /\ pc[m] = "idle"
            /\ pc' = [pc EXCEPT ![m] = IF file THEN "refused" ELSE "checked"]
            /\ UNCHANGED file
(* creating the file *)
Create(m) == /\ pc[m] = "checked"
             /\ IF Atomic /\ file
                THEN pc' = [pc EXCEPT ![m] = "refused"] /\ UNCHANGED file
                ELSE pc' = [pc EXCEPT ![m] = "holding"] /\ file' = TRUE
(* the instance exits (or is told to by a handled signal) and unlocks *)
Exit(m) == /\ pc[m] = "holding"
           /\ pc' = [pc EXCEPT ![m] = "idle"] /\ file' = FALSE
Retry(m) == /\ pc[m] = "refused"
            /\ pc' = [pc EXCEPT ![m] = "idle"] /\ UNCHANGED file

(* a read-only attach by an instance that holds nothing; refused or not, it leaves *)
Inspect(m, refused) ==
    /\ pc[m] = "idle"
    /\ file' = IF refused /\ InspectorCleansUp THEN FALSE ELSE file
    /\ UNCHANGED pc

Next == \E m \in Mrp : Check(m) \/ Create(m) \/ Exit(m) \/ Retry(m) \/ \E r \in BOOLEAN : Inspect(m, r)
Spec == Init /\ [][Next]_<<file, pc>>

OneWriter == Cardinality({m \in Mrp : pc[m] = "holding"}) <= 1
HolderHasFile == (\E m \in Mrp : pc[m] = "holding") => file
=============================================================================

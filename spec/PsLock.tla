------------------------------- MODULE PsLock -------------------------------
(* The pipestance write lock (C15, last clause): martian/core/pipestance.go
   Pipestance.Lock / Unlock as used by InvokePipeline and
   ReattachToPipestance.  Each mrp instance that wants to write looks for the
   _lock file and then creates it; Atomic says whether creating it fails when
   it already exists (O_EXCL, the repaired code) or overwrites it (the code as
   found).  Read-only instances (mrp --inspect) attach without looking at the lock
   and may be refused (the definitions they bring mean something else) or accepted;
   InspectorCleansUp says whether a refused one "releases" the pipestance on its way
   out - Unlock just removes the file, whoever wrote it (a seeded change did that;
   PsLockInspect.cfg shows TLC finding the second writer).  TLC checks that at most
   one instance ever believes it holds the pipestance, over all orders of attach
   attempts, inspections and exits. *)
EXTENDS Integers, FiniteSets

CONSTANTS Mrp,       \* instances
          Atomic,    \* BOOLEAN
          InspectorCleansUp,  \* BOOLEAN
          InspectorLoadsLock  \* BOOLEAN: an accepted inspector reads the metadata directory, the lock
                              \* file among the rest, into its own cache (a seeded change did that);
                              \* whether an instance may write is answered from that cache

VARIABLES file,      \* the _lock file exists
          pc,        \* instance -> "idle" | "checked" | "holding" | "refused" | "inspecting"
          sees       \* instance -> its cached belief that the lock file is there (= "I am the writer":
                     \* Pipestance.readOnly() is !metadata.exists(Lock))

Init == file = FALSE /\ pc = [m \in Mrp |-> "idle"] /\ sees = [m \in Mrp |-> FALSE]

(* metadata.loadCache(); metadata.exists(Lock) *)
Check(m) == /\ pc[m] = "idle"
            /\ pc' = [pc EXCEPT ![m] = IF file THEN "refused" ELSE "checked"]
            /\ UNCHANGED <<file, sees>>
(* creating the file *)
Create(m) == /\ pc[m] = "checked"
             /\ IF Atomic /\ file
                THEN pc' = [pc EXCEPT ![m] = "refused"] /\ UNCHANGED <<file, sees>>
                ELSE pc' = [pc EXCEPT ![m] = "holding"] /\ file' = TRUE /\ sees' = [sees EXCEPT ![m] = TRUE]
(* the instance exits (or is told to by a handled signal) and unlocks *)
Exit(m) == /\ pc[m] = "holding"
           /\ pc' = [pc EXCEPT ![m] = "idle"] /\ file' = FALSE /\ sees' = [sees EXCEPT ![m] = FALSE]
Retry(m) == /\ pc[m] = "refused"
            /\ pc' = [pc EXCEPT ![m] = "idle"] /\ UNCHANGED <<file, sees>>

(* a read-only attach by an instance that holds nothing; refused or not, it leaves *)
Inspect(m, refused) ==
    /\ pc[m] = "idle"
    /\ file' = IF refused /\ InspectorCleansUp THEN FALSE ELSE file
    /\ IF refused THEN UNCHANGED <<pc, sees>>
       ELSE /\ pc' = [pc EXCEPT ![m] = "inspecting"]      \* an accepted inspector stays and runs its loop
            /\ sees' = [sees EXCEPT ![m] = InspectorLoadsLock /\ file]
Leave(m) == /\ pc[m] = "inspecting"
            /\ pc' = [pc EXCEPT ![m] = "idle"] /\ sees' = [sees EXCEPT ![m] = FALSE] /\ UNCHANGED file

Next == \E m \in Mrp : Check(m) \/ Create(m) \/ Exit(m) \/ Retry(m) \/ Leave(m) \/ \E r \in BOOLEAN : Inspect(m, r)
Spec == Init /\ [][Next]_<<file, pc, sees>>

(* at most one instance holds the lock, and at most one believes it may write *)
OneWriter == /\ Cardinality({m \in Mrp : pc[m] = "holding"}) <= 1
             /\ Cardinality({m \in Mrp : sees[m]}) <= 1
HolderHasFile == (\E m \in Mrp : pc[m] = "holding") => file
=============================================================================

SPECIFICATION Spec
CONSTANTS
  N = 2
  MaxRetries = 1
  Forever = 99
INVARIANTS Bounded NoRetryOfPermanent Predicted
PROPERTIES Terminates
CHECK_DEADLOCK FALSE

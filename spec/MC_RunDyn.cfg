SPECIFICATION Spec
CONSTANTS
  Nodes <- ChainNodes
  Pre <- ChainPre
  Splits <- NoSplits
  Dyn <- DynB
  DisBy <- NoDyn
  MaxF = 2
  MaxC = 1
  MaxAtt = 1
  MaxCrash = 0
  MaxFail = 0
  Survive = FALSE
VIEW View
INVARIANTS TypeOK BeliefSound AtMostOnce ExactlyOnceAtEnd FailureFailsRun LockHeld
PROPERTIES StartsAfterDeps NoRedoOfRecorded DependentsNeverStart

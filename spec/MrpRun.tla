------------------------------ MODULE MrpRun ------------------------------
(* The mrp runtime as a state machine (DESIGN.md 3.1): the durable state is a
   tree of sentinel files; mrp's memory is a belief about it, refreshed only
   through the journal; jobs are separate processes; mrp may crash at any
   moment and a new mrp rebuilds everything from the directory tree.

   martian/core: metadata.go (sentinels, uniquifier, cache), node.go
   (refreshState, step, getState, expandForks, frontier), stage.go
   (Fork.getState/stepStage/doSplit/doChunks/doJoin/doComplete, Chunk.step),
   pipestance.go (LoadMetadata, RestoreForks, Reset, RestartLocalJobs),
   jobmanager_local.go (Enqueue/executeLocal), cmd/mrp/runloop.go.

   The program is abstracted to its stage nodes:
     Nodes            stage call nodes
     Pre[n]           prenodes of n (must be complete or disabled)
     Splits[n]        does the stage split
     Dyn[n]           "" or the node whose output decides n's fork count
     DisBy[n]         "" or the node whose boolean output disables n
   Environment choices are made when they happen: chunk count of a split,
   collection length and flag produced by a node, job failures.

   A metadata object is md = <<n, f, k, c>> (node, fork, kind, chunk); every
   reset creates a new attempt (the uniquified directory name-u<id>). *)
EXTENDS Integers, Sequences, FiniteSets, TLC

CONSTANTS Nodes, Pre, Splits, Dyn, DisBy,
          MaxF,        \* max forks per node (collection lengths 0..MaxF)
          MaxC,        \* max chunks per fork (split returns 0..MaxC)
          MaxAtt,      \* max attempts per metadata object
          MaxCrash,    \* number of crashes explored
          MaxFail,     \* number of job failures explored
          Survive,     \* may local jobs survive a crash of mrp (orphans)
          EarlyChunks  \* FALSE: the code as it is.  TRUE: a variant of Fork.getState that takes a split
                       \* for finished as soon as its _stage_defs is known (it violates StartsAfterDeps)

Kinds == {"split", "chunk", "join"}
Forks == 0..(MaxF - 1)
Chunks == 0..(MaxC - 1)
MDs == {<<n, f, k, c>> : n \in Nodes, f \in Forks, k \in Kinds, c \in Chunks} \
          {<<n, f, k, c>> \in Nodes \X Forks \X {"split", "join"} \X Chunks : c # 0}
Atts == 1..MaxAtt
Names == {"jobinfo", "queued", "log", "outs", "defs", "complete", "errors"}
FNames == {"outs", "complete", "errors", "disabled"}

VARIABLES
    \* ---- durable: the directory tree
    disk,      \* [MDs \X Atts -> SUBSET Names]   files of every attempt directory
    lnk,       \* [MDs -> 0..MaxAtt]             the attempt the plain name links to (0: none)
    fdisk,     \* [Nodes \X Forks -> SUBSET FNames] fork-level files
    journal,   \* set of [md, a, name]            notifications not yet consumed
    locked,    \* _lock exists
    \* ---- environment values fixed when produced (written in _outs/_stage_defs)
    nchunks,   \* [Nodes \X Forks -> -1..MaxC]    what the split returned (-1: not yet)
    len,       \* [Nodes -> -1..MaxF]             length of the collection a node produced
    flag,      \* [Nodes -> {"?", "t", "f"}]      boolean a node produced
    \* ---- job processes
    proc,      \* [MDs \X Atts -> {"none","queued","running","written","done","dead"}]
    \* ---- mrp's memory (lost in a crash)
    up,        \* an mrp process is alive
    uq,        \* [MDs -> 0..MaxAtt]              uniquifier mrp holds for md
    belief,    \* [MDs -> SUBSET Names]           Metadata.contents
    fbelief,   \* [Nodes \X Forks -> SUBSET FNames]
    chunksOf,  \* [Nodes \X Forks -> -1..MaxC]    chunk objects created (-1: none yet)
    ran,       \* [MDs -> BOOLEAN]                hasBeenRun / split_has_run / join_has_run
    nf,        \* [Nodes -> -1..MaxF]             fork count known to mrp (-1: not expanded)
    nstate,    \* [Nodes -> {"waiting","running","complete","disabled","failed"}]
    frontier,  \* SUBSET Nodes
    result,    \* "running", "complete", "failed"   what mrp reported when it exited
    \* ---- history (monitors only)
    execs,     \* [MDs -> Nat]   how often a process of md started
    recorded,  \* metadata objects whose completion was on disk when mrp was interrupted
    crashes, fails

durable == <<disk, lnk, fdisk, journal, locked, nchunks, len, flag>>
memory == <<uq, belief, fbelief, chunksOf, ran, nf, nstate, frontier>>
hist == <<execs, recorded, crashes, fails>>
vars == <<durable, proc, up, memory, result, hist>>

---------------------------------------------------------------------------
NF(n) == IF nf[n] <= 0 THEN 1 ELSE nf[n]          \* fork objects of node n (placeholder when 0/unknown)
FKnown(n) == Dyn[n] = "" \/ nf[n] >= 0
StaticNF(n) == IF Dyn[n] = "" THEN 1 ELSE -1

MdState(names) ==     \* Metadata._getStateNoLock
    IF "errors" \in names THEN "failed"
    ELSE IF "complete" \in names THEN "complete"
    ELSE IF "log" \in names THEN "running"
    ELSE IF "jobinfo" \in names THEN "queued"
    ELSE "none"

(* Fork.getState, from mrp's belief *)
ForkState(n, f) ==
    LET fb == fbelief[<<n, f>>]
        js == MdState(belief[<<n, f, "join", 0>>])
        ss == MdState(belief[<<n, f, "split", 0>>])
        nc == chunksOf[<<n, f>>]
        cs == [c \in 0..(nc - 1) |-> MdState(belief[<<n, f, "chunk", c>>])]
    IN IF "errors" \in fb THEN "failed"
       ELSE IF "complete" \in fb THEN "complete"
       ELSE IF "disabled" \in fb THEN "disabled"
       ELSE IF js # "none" THEN (IF js = "failed" THEN "failed" ELSE "join_" \o js)
       ELSE IF nc > 0 /\ \E c \in 0..(nc - 1) : cs[c] = "failed" THEN "failed"
       ELSE IF nc > 0 /\ \A c \in 0..(nc - 1) : cs[c] = "complete" THEN "chunks_complete"
       ELSE IF nc > 0 /\ \A c \in 0..(nc - 1) : cs[c] \in {"queued", "running", "complete"} THEN "chunks_running"
       ELSE IF ss # "none" THEN (IF ss = "failed" THEN "failed"
                                 ELSE IF EarlyChunks /\ ss = "running" /\ "defs" \in belief[<<n, f, "split", 0>>] THEN "split_complete"
                                 ELSE "split_" \o ss)
       ELSE "ready"

(* Node.getState *)
RECURSIVE NodeState(_)
NodeState(n) ==
    LET fs == {ForkState(n, f) : f \in 0..(NF(n) - 1)}
    IN IF "failed" \in fs THEN "failed"
       ELSE IF fs \subseteq {"complete", "disabled"}
            THEN (IF fs = {"disabled"} THEN "disabled" ELSE "complete")
       ELSE IF \E p \in Pre[n] : NodeState(p) \notin {"complete", "disabled"} THEN "waiting"
       ELSE "running"

(* disk truth used by the properties *)
ForkDoneOnDisk(n, f) == fdisk[<<n, f>>] \cap {"complete", "disabled"} # {}
(* all forks of node n have finished (or are disabled) on disk *)
NodeDoneOnDisk(n) ==
    /\ (Dyn[n] # "" => len[Dyn[n]] >= 0)
    /\ LET k == IF Dyn[n] = "" \/ len[Dyn[n]] <= 0 THEN 1 ELSE len[Dyn[n]]
       IN \A g \in 0..(k - 1) : ForkDoneOnDisk(n, g)
CurDisk(md) == IF lnk[md] = 0 THEN {} ELSE disk[<<md, lnk[md]>>]

---------------------------------------------------------------------------
Init ==
    /\ disk = [x \in MDs \X Atts |-> {}]
    /\ lnk = [m \in MDs |-> 0]
    /\ fdisk = [x \in Nodes \X Forks |-> {}]
    /\ journal = {}
    /\ locked = TRUE
    /\ nchunks = [x \in Nodes \X Forks |-> -1]
    /\ len = [n \in Nodes |-> -1]
    /\ flag = [n \in Nodes |-> "?"]
    /\ proc = [x \in MDs \X Atts |-> "none"]
    /\ up = TRUE
    /\ uq = [m \in MDs |-> 0]
    /\ belief = [m \in MDs |-> {}]
    /\ fbelief = [x \in Nodes \X Forks |-> {}]
    /\ chunksOf = [x \in Nodes \X Forks |-> -1]
    /\ ran = [m \in MDs |-> FALSE]
    /\ nf = [n \in Nodes |-> StaticNF(n)]
    /\ nstate = [n \in Nodes |-> "waiting"]
    /\ frontier = Nodes
    /\ result = "running"
    /\ execs = [m \in MDs |-> 0]
    /\ recorded = {}
    /\ crashes = 0 /\ fails = 0

---------------------------------------------------------------------------
(* run loop: RefreshState - consume the journal.  An entry is attributed to the
   metadata object of its name and accepted only if it carries the uniquifier
   mrp holds for that object (Metadata.cache). *)
Refresh ==
    /\ up /\ result = "running" /\ journal # {}
    /\ belief' = [m \in MDs |-> belief[m] \cup {e.name : e \in {x \in journal : x.md = m /\ x.a = uq[m]}}]
    /\ journal' = {}
    /\ UNCHANGED <<disk, lnk, fdisk, locked, nchunks, len, flag, proc, up, uq, fbelief, chunksOf,
                   ran, nf, nstate, frontier, result, hist>>

(* Node.runJob: _queued_locally + _jobinfo, hand over to the job manager.
   The directory of md is (re)created uniquified if mrp holds no uniquifier. *)
NewAtt(md) == lnk[md] + 1
Submit(mds) ==       \* effect on durable/memory of submitting the set mds
    /\ \A md \in mds : uq[md] # 0 \/ NewAtt(md) <= MaxAtt
    /\ LET att(md) == IF uq[md] = 0 THEN NewAtt(md) ELSE uq[md] IN
       /\ uq' = [m \in MDs |-> IF m \in mds THEN att(m) ELSE uq[m]]
       /\ lnk' = [m \in MDs |-> IF m \in mds THEN att(m) ELSE lnk[m]]
       /\ disk' = [x \in MDs \X Atts |->
                     IF x[1] \in mds /\ x[2] = att(x[1]) THEN disk[x] \cup {"queued", "jobinfo"} ELSE disk[x]]
       /\ belief' = [m \in MDs |-> IF m \in mds THEN belief[m] \cup {"queued", "jobinfo"} ELSE belief[m]]
       /\ proc' = [x \in MDs \X Atts |->
                     IF x[1] \in mds /\ x[2] = att(x[1]) THEN "queued" ELSE proc[x]]
       /\ ran' = [m \in MDs |-> ran[m] \/ m \in mds]

(* is fork f of n disabled (Fork.disabled): zero-length collection or flag *)
IsDisabled(n, f) == (Dyn[n] # "" /\ nf[n] = 0) \/ (DisBy[n] # "" /\ flag[DisBy[n]] = "t")

(* stub files mrp writes itself for a stage that does not split *)
Stub(md, names) ==
    /\ lnk' = [lnk EXCEPT ![md] = 1]
    /\ uq' = [uq EXCEPT ![md] = 1]
    /\ disk' = [disk EXCEPT ![<<md, 1>>] = @ \cup names]
    /\ belief' = [belief EXCEPT ![md] = @ \cup names]

(* Fork.stepStage: one phase transition, decided on mrp's belief *)
StepFork(n, f) ==
    /\ up /\ result = "running" /\ n \in frontier /\ nstate[n] = "running" /\ f \in 0..(NF(n) - 1)
    /\ LET st == ForkState(n, f)
           smd == <<n, f, "split", 0>>
           jmd == <<n, f, "join", 0>>
       IN
       \/ \* doSplit: disabled
          /\ st = "ready" /\ IsDisabled(n, f)
          /\ fdisk' = [fdisk EXCEPT ![<<n, f>>] = @ \cup {"outs", "disabled"}]
          /\ fbelief' = [fbelief EXCEPT ![<<n, f>>] = @ \cup {"outs", "disabled"}]
          /\ UNCHANGED <<disk, lnk, journal, locked, nchunks, len, flag, proc, up, uq, belief, chunksOf,
                         ran, nf, nstate, frontier, result, hist>>
       \/ \* doSplit: submit the split job (once)
          /\ st = "ready" /\ ~IsDisabled(n, f) /\ Splits[n] /\ ~ran[smd]
          /\ Submit({smd})
          /\ UNCHANGED <<fdisk, journal, locked, nchunks, len, flag, up, fbelief, chunksOf, nf, nstate,
                         frontier, result, hist>>
       \/ \* doSplit: stage does not split - stub _stage_defs and _complete
          /\ st = "ready" /\ ~IsDisabled(n, f) /\ ~Splits[n]
          /\ Stub(smd, {"defs", "complete"})
          /\ nchunks' = [nchunks EXCEPT ![<<n, f>>] = 1]
          /\ UNCHANGED <<fdisk, journal, locked, len, flag, proc, up, fbelief, chunksOf, ran, nf, nstate,
                         frontier, result, hist>>
       \/ \* doChunks: read _stage_defs, create the chunks, submit each once
          /\ st = "split_complete" /\ nchunks[<<n, f>>] > 0
          /\ LET nc == nchunks[<<n, f>>]
                 todo == {<<n, f, "chunk", c>> : c \in 0..(nc - 1)}
                 new == {m \in todo : ~ran[m] /\ MdState(belief[m]) = "none"}
             IN /\ chunksOf' = [chunksOf EXCEPT ![<<n, f>>] = nc]
                /\ Submit(new)
          /\ UNCHANGED <<fdisk, journal, locked, nchunks, len, flag, up, fbelief, nf, nstate, frontier,
                         result, hist>>
       \/ \* doJoin (after the chunks, or directly when the split returned no chunk)
          /\ st = "chunks_complete" \/ (st = "split_complete" /\ nchunks[<<n, f>>] = 0)
          /\ IF Splits[n]
             THEN /\ ~ran[jmd]
                  /\ Submit({jmd})
                  /\ UNCHANGED <<fdisk, journal, locked, nchunks, len, flag, up, fbelief, chunksOf, nf,
                                 nstate, frontier, result, hist>>
             ELSE /\ Stub(jmd, {"outs", "complete"})
                  /\ UNCHANGED <<fdisk, journal, locked, nchunks, len, flag, proc, up, fbelief, chunksOf,
                                 ran, nf, nstate, frontier, result, hist>>
       \/ \* doComplete: copy the join's outs to the fork, validate, mark complete
          /\ st = "join_complete"
          /\ fdisk' = [fdisk EXCEPT ![<<n, f>>] = @ \cup {"outs", "complete"}]
          /\ fbelief' = [fbelief EXCEPT ![<<n, f>>] = @ \cup {"outs", "complete"}]
          /\ UNCHANGED <<disk, lnk, journal, locked, nchunks, len, flag, proc, up, uq, belief, chunksOf,
                         ran, nf, nstate, frontier, result, hist>>

(* Node.step: recompute the node state; expand dynamic forks on the transition
   to running; maintain the frontier *)
Post(n) == {m \in Nodes : n \in Pre[m]}
NodeUpdate(n) ==
    /\ up /\ result = "running" /\ n \in frontier
    /\ LET new == NodeState(n) IN
       IF new = "running" /\ nstate[n] # "running" /\ ~FKnown(n)
       THEN \* expandForks(true): the collection is in the producer's outs
            /\ len[Dyn[n]] >= 0
            /\ nf' = [nf EXCEPT ![n] = len[Dyn[n]]]
            /\ UNCHANGED <<nstate, frontier>>
       ELSE /\ nstate' = [nstate EXCEPT ![n] = new]
            /\ nstate[n] # new
            /\ frontier' = CASE new \in {"failed", "running"} -> frontier \cup {n}
                             [] new \in {"complete", "disabled"} -> (frontier \cup Post(n)) \ {n}
                             [] OTHER -> frontier
            /\ UNCHANGED nf
    /\ UNCHANGED <<durable, proc, up, uq, belief, fbelief, chunksOf, ran, result, hist>>

(* Pipestance.GetState + cleanup: mrp reports and exits *)
Finish ==
    /\ up /\ result = "running"
    /\ \/ /\ \A n \in Nodes : nstate[n] \in {"complete", "disabled"}
          /\ result' = "complete"
       \/ /\ \E n \in frontier : nstate[n] = "failed"
          /\ result' = "failed"
    /\ locked' = FALSE
    /\ up' = FALSE
    \* local jobs die with mrp
    /\ proc' = [x \in MDs \X Atts |-> IF proc[x] \in {"queued", "running", "written"} THEN "dead" ELSE proc[x]]
    /\ UNCHANGED <<disk, lnk, fdisk, journal, nchunks, len, flag, memory, hist>>

---------------------------------------------------------------------------
(* job processes (local job manager goroutine + the stage process) *)
Deps(n) == Pre[n]
JobStart(md, a) ==
    /\ proc[<<md, a>>] = "queued" /\ up
    /\ proc' = [proc EXCEPT ![<<md, a>>] = "running"]
    /\ disk' = [disk EXCEPT ![<<md, a>>] = @ \ {"queued"}]
    /\ belief' = IF uq[md] = a THEN [belief EXCEPT ![md] = @ \ {"queued"}] ELSE belief
    /\ execs' = [execs EXCEPT ![md] = @ + 1]
    /\ UNCHANGED <<lnk, fdisk, journal, locked, nchunks, len, flag, up, uq, fbelief, chunksOf, ran, nf,
                   nstate, frontier, result, recorded, crashes, fails>>

JobLog(md, a) ==
    /\ proc[<<md, a>>] = "running" /\ "log" \notin disk[<<md, a>>]
    /\ disk' = [disk EXCEPT ![<<md, a>>] = @ \cup {"log"}]
    /\ journal' = journal \cup {[md |-> md, a |-> a, name |-> "log"]}
    /\ UNCHANGED <<lnk, fdisk, locked, nchunks, len, flag, proc, up, memory, result, hist>>

(* a split job publishes its chunk definitions and tells mrp about them before it
   finishes (the Go adapter journals stage_defs; the job's end-of-job work follows) *)
JobDefs(md, a) ==
    /\ proc[<<md, a>>] = "running" /\ md[3] = "split" /\ "defs" \notin disk[<<md, a>>]
    /\ disk' = [disk EXCEPT ![<<md, a>>] = @ \cup {"defs"}]
    /\ journal' = journal \cup {[md |-> md, a |-> a, name |-> "defs"]}
    /\ IF nchunks[<<md[1], md[2]>>] = -1
       THEN \E c \in 0..MaxC : nchunks' = [nchunks EXCEPT ![<<md[1], md[2]>>] = c]
       ELSE UNCHANGED nchunks
    /\ UNCHANGED <<lnk, fdisk, locked, len, flag, proc, up, memory, result, hist>>

(* the job writes its outputs and the completion marker ... *)
JobWrite(md, a) ==
    /\ proc[<<md, a>>] = "running"
    /\ LET n == md[1] f == md[2] k == md[3] IN
       /\ disk' = [disk EXCEPT ![<<md, a>>] = @ \cup {IF k = "split" THEN "defs" ELSE "outs", "complete"}]
       /\ IF k = "split" /\ nchunks[<<n, f>>] = -1
          THEN \E c \in 0..MaxC : nchunks' = [nchunks EXCEPT ![<<n, f>>] = c]
          ELSE UNCHANGED nchunks
       \* the last job of a fork fixes what the node's outputs carry
       /\ IF (k = "join" \/ (k = "chunk" /\ ~Splits[n])) /\ len[n] = -1
          THEN \E x \in 0..MaxF, b \in {"t", "f"} : len' = [len EXCEPT ![n] = x] /\ flag' = [flag EXCEPT ![n] = b]
          ELSE UNCHANGED <<len, flag>>
    /\ proc' = [proc EXCEPT ![<<md, a>>] = "written"]
    /\ UNCHANGED <<lnk, fdisk, journal, locked, up, memory, result, hist>>

(* ... and then notifies mrp through the journal *)
JobNotify(md, a) ==
    /\ proc[<<md, a>>] = "written"
    /\ journal' = journal \cup {[md |-> md, a |-> a, name |-> "complete"]}
    /\ proc' = [proc EXCEPT ![<<md, a>>] = "done"]
    /\ UNCHANGED <<disk, lnk, fdisk, locked, nchunks, len, flag, up, memory, result, hist>>

JobFail(md, a) ==
    /\ proc[<<md, a>>] = "running" /\ fails < MaxFail
    /\ disk' = [disk EXCEPT ![<<md, a>>] = @ \cup {"errors"}]
    /\ journal' = journal \cup {[md |-> md, a |-> a, name |-> "errors"]}
    /\ proc' = [proc EXCEPT ![<<md, a>>] = "done"]
    /\ fails' = fails + 1
    /\ UNCHANGED <<lnk, fdisk, locked, nchunks, len, flag, up, memory, result, execs, recorded, crashes>>

---------------------------------------------------------------------------
(* crash of mrp at any moment: memory is lost; queued jobs (goroutines) vanish;
   running jobs die with it or survive as orphans *)
Crash ==
    /\ up /\ result = "running" /\ crashes < MaxCrash
    /\ up' = FALSE
    /\ crashes' = crashes + 1
    /\ \E surv \in (IF Survive THEN SUBSET {x \in MDs \X Atts : proc[x] \in {"running", "written"}} ELSE {{}}) :
         proc' = [x \in MDs \X Atts |->
                    IF proc[x] = "queued" THEN "none"
                    ELSE IF proc[x] \in {"running", "written"} /\ x \notin surv THEN "dead"
                    ELSE proc[x]]
    /\ recorded' = recorded \cup {m \in MDs : "complete" \in CurDisk(m)}
    /\ UNCHANGED <<durable, memory, result, execs, fails>>

(* a new mrp on the same directory: operator removed the stale lock;
   loadCache / discoverUniquify / RestoreForks / Reset / RestartLocalJobs *)
ResetNeeded(md) ==
    LET a == lnk[md]
        st == MdState(CurDisk(md))
    IN a # 0 /\ (st = "failed"
                 \/ "queued" \in CurDisk(md)                                \* restartQueuedLocal
                 \/ st = "queued"                                           \* restartLocal
                 \/ (st = "running" /\ proc[<<md, a>>] \notin {"running", "written"}))  \* pid not alive
Restart ==
    /\ ~up /\ result = "running"
    /\ up' = TRUE /\ locked' = TRUE
    /\ LET reset == {md \in MDs : ResetNeeded(md)}
           a2(md) == IF md \in reset THEN lnk[md] + 1 ELSE lnk[md]
       IN
       /\ \A md \in reset : lnk[md] + 1 <= MaxAtt
       /\ lnk' = [m \in MDs |-> a2(m)]
       /\ uq' = [m \in MDs |-> a2(m)]
       /\ disk' = disk          \* old attempt directories stay behind
       /\ belief' = [m \in MDs |-> IF m \in reset THEN {} ELSE CurDisk(m)]
       \* uncheckedReset removes the journal entries of the attempt it resets
       /\ journal' = {e \in journal : ~(e.md \in reset /\ e.a = lnk[e.md])}
       /\ fbelief' = fdisk
       /\ chunksOf' = [x \in Nodes \X Forks |->
                         IF "defs" \in CurDisk(<<x[1], x[2], "split", 0>>) /\ nchunks[x] > 0
                         THEN nchunks[x] ELSE -1]
       /\ ran' = [m \in MDs |-> FALSE]
       \* RestoreForks: expand wherever the producer's outputs are there
       /\ nf' = [n \in Nodes |-> IF Dyn[n] = "" THEN 1
                                 ELSE IF len[Dyn[n]] >= 0 /\ (\E f \in Forks : "complete" \in fdisk[<<Dyn[n], f>>])
                                      THEN len[Dyn[n]] ELSE -1]
    /\ frontier' = Nodes
    /\ nstate' = [n \in Nodes |-> "waiting"]     \* recomputed by the first NodeUpdate steps
    /\ UNCHANGED <<fdisk, nchunks, len, flag, proc, result, hist>>

---------------------------------------------------------------------------
Next ==
    \/ Refresh
    \/ \E n \in Nodes, f \in Forks : StepFork(n, f)
    \/ \E n \in Nodes : NodeUpdate(n)
    \/ Finish
    \/ \E md \in MDs, a \in Atts :
          JobStart(md, a) \/ JobLog(md, a) \/ JobDefs(md, a) \/ JobWrite(md, a) \/ JobNotify(md, a) \/ JobFail(md, a)
    \/ Crash \/ Restart

Spec == Init /\ [][Next]_vars

Fairness ==
    /\ WF_vars(Refresh) /\ WF_vars(Finish) /\ WF_vars(Restart)
    /\ \A n \in Nodes : WF_vars(NodeUpdate(n)) /\ \A f \in Forks : WF_vars(StepFork(n, f))
    /\ \A md \in MDs, a \in Atts :
          WF_vars(JobStart(md, a)) /\ WF_vars(JobWrite(md, a)) /\ WF_vars(JobNotify(md, a))
LiveSpec == Spec /\ Fairness

---------------------------------------------------------------------------
(* Properties *)

TypeOK ==
    /\ \A x \in MDs \X Atts : disk[x] \subseteq Names
    /\ \A m \in MDs : lnk[m] \in 0..MaxAtt /\ uq[m] \in 0..MaxAtt
    /\ result \in {"running", "complete", "failed"}

(* C11: whatever mrp believes about a metadata object is true of the attempt
   it holds: notifications of other attempts (orphans) are never attributed *)
BeliefSound ==
    up => \A m \in MDs : uq[m] # 0 => belief[m] \ {"queued", "jobinfo"} \subseteq disk[<<m, uq[m]>>]

(* C02: a job's process starts only when everything it depends on has finished
   on disk, and split < chunks < join inside a fork *)
StartOk(md) ==
    LET n == md[1] f == md[2] k == md[3] IN
    /\ \A p \in Pre[n] : NodeDoneOnDisk(p)
    /\ (k = "chunk" => "complete" \in CurDisk(<<n, f, "split", 0>>))
    /\ (k = "join" => /\ "complete" \in CurDisk(<<n, f, "split", 0>>)
                      /\ \A c \in 0..(nchunks[<<n, f>>] - 1) : "complete" \in CurDisk(<<n, f, "chunk", c>>))
StartsAfterDeps ==
    [][\A md \in MDs : execs'[md] > execs[md] => StartOk(md)]_vars

(* C03: without crash and failure no job is executed twice *)
AtMostOnce == (crashes = 0 /\ fails = 0) => \A m \in MDs : execs[m] <= 1

(* C03: at a successful end every enabled fork ran split, its chunks and join once;
   nothing ran for disabled forks *)
ExpectedExecs(md) ==
    LET n == md[1] f == md[2] k == md[3] c == md[4]
        nforks == IF Dyn[n] = "" THEN 1 ELSE len[Dyn[n]]
        enabled == f < nforks /\ ~(DisBy[n] # "" /\ flag[DisBy[n]] = "t")
    IN IF ~enabled THEN 0
       ELSE IF k = "split" THEN (IF Splits[n] THEN 1 ELSE 0)
       ELSE IF k = "join" THEN (IF Splits[n] THEN 1 ELSE 0)
       ELSE IF c < nchunks[<<n, f>>] THEN 1 ELSE 0
ExactlyOnceAtEnd ==
    (result = "complete" /\ crashes = 0) => \A m \in MDs : execs[m] = ExpectedExecs(m)

(* C05: work whose completion is on disk is not executed again *)
NoRedoOfRecorded ==
    [][\A md \in MDs : execs'[md] > execs[md] => md \notin recorded]_vars

(* C06: a recorded failure never ends in a reported success *)
FailureFailsRun ==
    result = "complete" => \A m \in MDs : "errors" \notin CurDisk(m)
DependentsNeverStart ==
    [][\A md \in MDs : execs'[md] > execs[md] =>
          \A p \in Pre[md[1]] : \A g \in Forks : "errors" \notin fdisk[<<p, g>>]
                                  /\ \A k \in Kinds, c \in Chunks :
                                        <<p, g, k, c>> \in MDs => "errors" \notin CurDisk(<<p, g, k, c>>)]_vars

(* C15: only one mrp at a time holds the directory *)
LockHeld == up => locked

(* progress: without faults the pipestance ends *)
EventuallyDone == <>(result # "running")

View == <<durable, proc, up, memory, result, crashes, fails>>
===========================================================================

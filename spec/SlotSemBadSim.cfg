SPECIFICATION Spec
CONSTANTS
  Jobs = {1, 2, 3, 4}
  Limit = 2
  SignalOnEveryReturn = FALSE
  MaxCancel = 2

INVARIANTS WithinLimit OnlyLive


------------------------------ MODULE ForkNames ------------------------------
(* Fork identities and journal names (C11): martian/core/fork.go (makeKeySafe,
   forkString), stage.go (encodeJournalName, Fork.updateId, NewChunk),
   metadata.go (journalFile, UpdateJournal), node.go (jobJournalRe,
   parseRunFilename, getFork).

   Strings are sequences of one-character strings.  The model states
     - how a map key / array index becomes a fork directory name,
     - how a job's journal file name is built,
     - how the journal regular expression jobJournalRe (anything, ".fork", a
       run of non-dots, optionally ".chnk" digits, optionally ".u" ten hex
       digits, ".", anything) takes such a name apart (leftmost, greedy, with
       backtracking),
   and TLC checks over all keys up to length N that names are injective on
   forks and that parsing a constructed name gives back exactly its parts. *)
EXTENDS Integers, Sequences, FiniteSets, TLC, Json, SequencesExt

CONSTANTS N,           \* maximal key length
          Alphabet     \* sequence of characters keys are made of

Str(s) == s    \* documentation only: strings are sequences of characters

S(t) == CASE t = "fork" -> <<"f", "o", "r", "k">>
          [] t = "fork_" -> <<"f", "o", "r", "k", "_">>
          [] t = ".fork" -> <<".", "f", "o", "r", "k">>
          [] t = ".chnk" -> <<".", "c", "h", "n", "k">>
          [] t = ".u" -> <<".", "u">>

Digits == {"0", "1", "2", "3", "4", "5", "6", "7", "8", "9"}
Hex == Digits \cup {"a", "b", "c", "d", "e", "f"}

(* url.PathEscape, per character of the alphabet *)
Esc(c) == CASE c = "/" -> <<"%", "2", "F">>
            [] c = "%" -> <<"%", "2", "5">>
            [] c = " " -> <<"%", "2", "0">>
            [] c = "é" -> <<"%", "C", "3", "%", "A", "9">>
            [] c = "?" -> <<"%", "3", "F">>
            [] c = ";" -> <<"%", "3", "B">>
            [] OTHER -> <<c>>
RECURSIVE KeySafe(_)
KeySafe(k) == IF k = <<>> THEN <<>> ELSE Esc(Head(k)) \o KeySafe(Tail(k))

DigitOf(d) == CASE d = 0 -> "0" [] d = 1 -> "1" [] d = 2 -> "2" [] d = 3 -> "3" [] d = 4 -> "4"
                [] d = 5 -> "5" [] d = 6 -> "6" [] d = 7 -> "7" [] d = 8 -> "8" [] d = 9 -> "9"
RECURSIVE Dec(_)
Dec(n) == IF n < 10 THEN <<DigitOf(n)>> ELSE Dec(n \div 10) \o <<DigitOf(n % 10)>>
RECURSIVE Pad(_, _)
Pad(s, w) == IF Len(s) >= w THEN s ELSE Pad(<<"0">> \o s, w)
WidthFor(n) == IF n < 10 THEN 1 ELSE IF n < 100 THEN 2 ELSE IF n < 1000 THEN 3 ELSE 4

(* fork directory names *)
ForkDirKey(k) == S("fork_") \o KeySafe(k)
ForkDirIdx(i) == S("fork") \o Dec(i)

(* encodeJournalName: '.' and '/' may not appear in the fork part of a journal name.
   EscapePercent = FALSE is the encoding martian had: the '/' between the components of a
   nested fork id became %2F like a '/' inside a key (already %2F in the id), so the forks
   (a, a/fork_a) and (a/fork_a, a) shared their journal names - NestedInjective fails
   (ForkNamesOld.cfg); found on real runs (program nest_map_map) and repaired in /repo. *)
CONSTANT EscapePercent
RECURSIVE JEnc(_)
JEnc(s) == IF s = <<>> THEN <<>>
           ELSE (IF Head(s) = "." THEN <<"%", "2", "E">>
                 ELSE IF Head(s) = "/" THEN <<"%", "2", "F">>
                 ELSE IF Head(s) = "%" /\ EscapePercent THEN <<"%", "2", "5">>
                 ELSE <<Head(s)>>) \o JEnc(Tail(s))

(* journal file name of a job:
   <node>.<fork>[.chnk<i>][.u<uniq>].<pre><file>   chunk < 0: none; uniq <<>>: none *)
JournalName(node, dir, chunk, nchunks, uniq, prefile) ==
    node \o <<".">> \o JEnc(dir)
    \o (IF chunk >= 0 THEN S(".chnk") \o Pad(Dec(chunk), WidthFor(nchunks)) ELSE <<>>)
    \o (IF uniq # <<>> THEN S(".u") \o uniq ELSE <<>>)
    \o <<".">> \o prefile

---------------------------------------------------------------------------
(* the journal regular expression *)
StartsWith(s, p) == Len(s) >= Len(p) /\ SubSeq(s, 1, Len(p)) = p
Drop(s, n) == SubSeq(s, n + 1, Len(s))
RECURSIVE Run(_, _)
Run(s, set) == IF s # <<>> /\ Head(s) \in set THEN 1 + Run(Tail(s), set) ELSE 0

NoMatch == [ok |-> FALSE]
(* after the fork index: optional chunk group, optional uniquifier group, a dot,
   the rest - each optional group is tried present first, then absent *)
TailU(rest, chunk) ==
    LET withU == IF StartsWith(rest, S(".u")) /\ Run(Drop(rest, 2), Hex) >= 10
                    /\ Len(rest) >= 13 /\ rest[13] = "."
                 THEN [ok |-> TRUE, chunk |-> chunk, uniq |-> SubSeq(rest, 3, 12), file |-> Drop(rest, 13)]
                 ELSE NoMatch
    IN IF withU.ok THEN withU
       ELSE IF rest # <<>> /\ Head(rest) = "."
            THEN [ok |-> TRUE, chunk |-> chunk, uniq |-> <<>>, file |-> Tail(rest)]
            ELSE NoMatch
(* the digit run is greedy but may give digits back *)
RECURSIVE TryChunk(_, _)
TryChunk(rest, nd) ==     \* rest starts with ".chnk"; take nd digits
    IF nd = 0 THEN NoMatch
    ELSE LET m == TailU(Drop(rest, 5 + nd), SubSeq(rest, 6, 5 + nd))
         IN IF m.ok THEN m ELSE TryChunk(rest, nd - 1)
TailChunk(rest) ==
    LET withC == IF StartsWith(rest, S(".chnk")) THEN TryChunk(rest, Run(Drop(rest, 5), Digits)) ELSE NoMatch
    IN IF withC.ok THEN withC ELSE TailU(rest, <<>>)
(* the run of non-dots is greedy but may give characters back *)
RECURSIVE TryIdx(_, _)
TryIdx(after, n) ==        \* after: text following ".fork"; take n non-dot characters
    IF n = 0 THEN NoMatch
    ELSE LET m == TailChunk(Drop(after, n))
         IN IF m.ok THEN [m EXCEPT !.ok = TRUE] @@ [idx |-> SubSeq(after, 1, n)] ELSE TryIdx(after, n - 1)
(* the leading "anything" is greedy: the last position at which the rest matches *)
RECURSIVE ParseFrom(_, _)
ParseFrom(s, p) ==          \* try group 1 = s[1..p-1]
    IF p < 1 THEN NoMatch
    ELSE IF StartsWith(Drop(s, p - 1), S(".fork"))
         THEN LET after == Drop(s, p + 4)
                  m == TryIdx(after, Run(after, {c \in {after[i] : i \in DOMAIN after} : c # "."}))
              IN IF m.ok THEN m @@ [node |-> SubSeq(s, 1, p - 1)] ELSE ParseFrom(s, p - 1)
         ELSE ParseFrom(s, p - 1)
Parse(s) == ParseFrom(s, Len(s))

---------------------------------------------------------------------------
RECURSIVE Ext(_, _)
Ext(ss, i) == IF i > Len(Alphabet) THEN <<>>
              ELSE [k \in DOMAIN ss |-> Append(ss[k], Alphabet[i])] \o Ext(ss, i + 1)
RECURSIVE Level(_)
Level(n) == IF n = 0 THEN << <<>> >> ELSE Ext(Level(n - 1), 1)
RECURSIVE UpTo(_)
UpTo(n) == IF n = 0 THEN Level(0) ELSE UpTo(n - 1) \o Level(n)
KeyAlphabet == <<"a", "2", "E", "F", "_", "u", ".", "/", "%", " ", "é", "-", "1", "?", ";", "k">>
SmallAlphabet == <<"a", ".", "/", "%", "2", "E", "_", " ">>
Keys == UpTo(N)
KeySet == {Keys[i] : i \in DOMAIN Keys}

Nodes == { <<"T", ".", "A">>, <<"T", ".", "f", "o", "r", "k", "1">>, <<"T", ".", "c", "h", "n", "k", "2">>,
           <<"f", "o", "r", "k", "_", "a", ".", "B">> }
Uniqs == { <<>>, <<"0", "1", "2", "3", "4", "5", "6", "7", "8", "9">>, <<"a", "b", "c", "d", "e", "f", "0", "0", "0", "0">> }
Files == { <<"c", "o", "m", "p", "l", "e", "t", "e">>, <<"s", "p", "l", "i", "t", "_", "l", "o", "g">>,
           <<"j", "o", "i", "n", "_", "e", "r", "r", "o", "r", "s">> }
ChunkCases == { <<-1, 1>>, <<0, 1>>, <<9, 10>>, <<10, 11>>, <<7, 100>> }

(* theorems *)
Injective ==
    /\ \A k1 \in KeySet, k2 \in KeySet : k1 # k2 =>
          /\ ForkDirKey(k1) # ForkDirKey(k2)
          /\ JEnc(ForkDirKey(k1)) # JEnc(ForkDirKey(k2))
    /\ \A i \in 0..120, j \in 0..120 : i # j => ForkDirIdx(i) # ForkDirIdx(j)
    /\ \A k \in KeySet, i \in 0..120 : ForkDirKey(k) # ForkDirIdx(i)

RoundTripOf(node, dir, cc, uniq, file) ==
    LET name == JournalName(node, dir, cc[1], cc[2], uniq, file)
        m == Parse(name)
    IN /\ m.ok
       /\ m.node = node
       /\ S("fork") \o m.idx = JEnc(dir)
       /\ (cc[1] < 0 => m.chunk = <<>>)
       /\ (cc[1] >= 0 => m.chunk = Pad(Dec(cc[1]), WidthFor(cc[2])))
       /\ m.uniq = uniq
       /\ m.file = file
RoundTrip ==
    \A node \in Nodes, cc \in ChunkCases, uniq \in Uniqs, file \in Files :
        /\ \A k \in KeySet : RoundTripOf(node, ForkDirKey(k), cc, uniq, file)
        /\ \A i \in {0, 1, 9, 10, 11, 100} : RoundTripOf(node, ForkDirIdx(i), cc, uniq, file)
(* getFork: a purely numeric fork part selects by position, anything else by name;
   names of map forks never look numeric *)
NotNumeric == \A k \in KeySet : LET idx == Drop(JEnc(ForkDirKey(k)), 4) IN ~(\A i \in DOMAIN idx : idx[i] \in Digits)

(* nested mapped calls: the fork id has one component per map-keyed dimension and one
   per run of array dimensions, joined by "/" (fork.go ForkId.forkId); the journal name
   encodes the whole id.  Keys here are concatenations of up to three tokens chosen to
   make components run into each other. *)
Tokens == << <<"a">>, <<"/">>, <<"%">>, <<"2", "F">>, <<"/", "f", "o", "r", "k", "_">>, <<".">> >>
RECURSIVE TExt(_, _)
TExt(ss, i) == IF i > Len(Tokens) THEN <<>>
               ELSE [k \in DOMAIN ss |-> ss[k] \o Tokens[i]] \o TExt(ss, i + 1)
RECURSIVE TLevel(_)
TLevel(n) == IF n = 0 THEN << <<>> >> ELSE TExt(TLevel(n - 1), 1)
NKeys == TLevel(0) \o TLevel(1) \o TLevel(2) \o TLevel(3)
NKeySet == {NKeys[i] : i \in DOMAIN NKeys}
NestDir(d1, d2) == d1 \o <<"/">> \o d2
Components == {ForkDirKey(k) : k \in NKeySet} \cup {ForkDirIdx(i) : i \in {0, 1, 10}}
NestedInjective ==
    LET pairs == Components \X Components
        dirs == {NestDir(p[1], p[2]) : p \in pairs}
        jn == {JEnc(NestDir(p[1], p[2])) : p \in pairs}
        single == {JEnc(c) : c \in Components}
    IN /\ Cardinality(dirs) = Cardinality(pairs)
       /\ Cardinality(jn) = Cardinality(pairs)
       /\ jn \cap single = {}
       /\ \A x \in jn : \A i \in DOMAIN x : x[i] \notin {".", "/"}

ASSUME Injective
ASSUME RoundTrip
ASSUME NotNumeric
ASSUME NestedInjective

(* rows for the replay through the real functions *)
KeyRows == [i \in DOMAIN Keys |-> [key |-> Keys[i], safe |-> KeySafe(Keys[i]), dir |-> ForkDirKey(Keys[i]),
                                   jfork |-> JEnc(ForkDirKey(Keys[i]))]]
ASSUME ndJsonSerialize("forknames_keys.ndjson", KeyRows)
NestRows == LET ks == SetToSeq({k \in NKeySet : Len(k) <= 7}) IN
            [i \in DOMAIN ks |-> [key |-> ks[i], dir |-> ForkDirKey(ks[i]),
                                   jpair |-> JEnc(NestDir(ForkDirKey(ks[i]), ForkDirKey(ks[((i * 7) % Len(ks)) + 1]))),
                                   other |-> ks[((i * 7) % Len(ks)) + 1]]]
ASSUME ndJsonSerialize("forknames_nested.ndjson", NestRows)
===========================================================================

SPECIFICATION Spec
CONSTANTS
  Nodes <- ChainNodes
  Pre <- ChainPre
  Splits <- ChainSplits
  Dyn <- NoDyn
  DisBy <- NoDyn
  MaxF = 1
  MaxC = 2
  MaxAtt = 1
  MaxCrash = 0
  MaxFail = 0
  EarlyChunks = FALSE
  Survive = FALSE
VIEW View
INVARIANTS TypeOK BeliefSound AtMostOnce ExactlyOnceAtEnd FailureFailsRun LockHeld
PROPERTIES StartsAfterDeps NoRedoOfRecorded DependentsNeverStart

-------------------------------- MODULE Lex --------------------------------
(* The MRO scanner (C08): martian/syntax/tokenizer.go (keywordToken, the four
   regular expressions, leadingSpace, tokCommentRule, nextToken) and the loop of
   lexer.go mmLexInfo.Lex, over a class alphabet with one representative per
   class of bytes the rules distinguish:

     letters   "a" "s" (the keyword `as`)  "e" (exponent)  "x" "n" (escapes)
     "_"       digits "0" "1" (octal) "9"   "-" "+" "." ":"   quote and backslash
     " " and newline   "#"   punctuation "(" "="
     "L" a non-ASCII letter (2 bytes)  "N" a non-ASCII space (2 bytes)
     "X" a byte that is not valid UTF-8

   The rules are written as the code has them so that the token boundaries of
   the real scanner can be compared with the model's on every string.  (The
   first version of this model had to include an optional colon inside floats,
   `(:?` for `(?:` in tokFloatRule; the replay of its rows showed the parser
   crashing on "0:e0" - repaired in /repo, see known_findings.json.)  TLC evaluates Tokens on all strings up to length N and writes the
   rows replayed through the real scanner and parsers. *)
EXTENDS Integers, Sequences, FiniteSets, TLC, Json

CONSTANTS N, Alphabet

IsDigit(c) == c \in {"0", "1", "9"}
IsAlpha(c) == c \in {"a", "s", "e", "x", "n"}
IsWord(c) == IsDigit(c) \/ IsAlpha(c) \/ c = "_"
IsHex(c) == IsDigit(c) \/ c \in {"a", "e"}
IsOct(c) == c \in {"0", "1"}
IsSpace(c) == c \in {" ", "\n", "N"}
Punct == {"(", "=", ".", ":"}
LenB(c) == IF c \in {"L", "N"} THEN 2 ELSE 1

At(s, i) == IF i >= 1 /\ i <= Len(s) THEN s[i] ELSE ""      \* "" = no character
(* \b after the first i characters (ASCII word boundary) *)
Boundary(s, i) == (i >= 1 /\ IsWord(At(s, i))) # (i + 1 <= Len(s) /\ IsWord(At(s, i + 1)))

Digits == {"0", "1", "9"}
WordChars == Digits \cup {"a", "s", "e", "x", "n", "_"}
SpaceChars == {" ", "\n", "N"}
RECURSIVE RunLen(_, _, _)
RunLen(s, i, S) == IF i <= Len(s) /\ s[i] \in S THEN 1 + RunLen(s, i + 1, S) ELSE 0

(* tokIntRule  ^-?0*\d{1,19}\b   (the 19-digit cap is exercised with concrete numerals) *)
IntLen(s) ==
    LET m == IF At(s, 1) = "-" THEN 1 ELSE 0
        d == RunLen(s, m + 1, Digits)
    IN IF d >= 1 /\ Boundary(s, m + d) THEN m + d ELSE 0

(* tokFloatRule  ^-?\d+(?:(?:\.\d+)?[eE][+-]?|\.)\d+\b *)
FloatLen(s) ==
    LET m == IF At(s, 1) = "-" THEN 1 ELSE 0
        d1 == RunLen(s, m + 1, Digits)
        p0 == m + d1                          \* characters consumed so far
        tail(p) ==                            \* \d+\b from position p + 1
            LET d == RunLen(s, p + 1, Digits) IN IF d >= 1 /\ Boundary(s, p + d) THEN p + d ELSE 0
        altA(p) ==                            \* (?:\.\d+)?[eE][+-]? after p characters
            LET withFrac == IF At(s, p + 1) = "." /\ RunLen(s, p + 2, Digits) >= 1
                            THEN p + 1 + RunLen(s, p + 2, Digits) ELSE 0
                expo(q) == IF At(s, q + 1) = "e"
                           THEN LET sg == IF At(s, q + 2) \in {"+", "-"} THEN 1 ELSE 0
                                    withS == tail(q + 1 + sg)
                                IN IF withS > 0 THEN withS ELSE IF sg = 1 THEN tail(q + 1) ELSE 0
                           ELSE 0
                a == IF withFrac > 0 THEN expo(withFrac) ELSE 0
            IN IF a > 0 THEN a ELSE expo(p)
        a == altA(p0)
        b == IF At(s, p0 + 1) = "." THEN tail(p0 + 1) ELSE 0
    IN IF d1 = 0 THEN 0 ELSE IF a > 0 THEN a ELSE b

(* tokStringRule: length of the literal starting at s[1] = quote, 0 if none *)
RECURSIVE StrFrom(_, _)
StrFrom(s, i) ==      \* i: next character to look at
    IF i > Len(s) THEN 0
    ELSE IF s[i] = "\"" THEN i
    ELSE IF s[i] = "\\" THEN
        LET c == At(s, i + 1) IN
        IF c \in {"a", "n", "\\", "\""} THEN StrFrom(s, i + 2)
        ELSE IF IsOct(c) /\ IsOct(At(s, i + 2)) /\ IsOct(At(s, i + 3)) THEN StrFrom(s, i + 4)
        ELSE IF c = "x" /\ IsHex(At(s, i + 2)) /\ IsHex(At(s, i + 3)) THEN StrFrom(s, i + 4)
        ELSE 0
    ELSE StrFrom(s, i + 1)
StringLen(s) == StrFrom(s, 2)

(* tokCommentRule: to the end of the line, or up to an invalid byte *)
RECURSIVE ComFrom(_, _)
ComFrom(s, i) == IF i > Len(s) THEN Len(s)
                 ELSE IF s[i] = "X" THEN i - 1
                 ELSE IF s[i] = "\n" THEN i
                 ELSE ComFrom(s, i + 1)

(* tokIdRule  ^_?[[:alpha:]]\w*\b *)
IdLen(s) ==
    LET u == IF At(s, 1) = "_" THEN 1 ELSE 0
    IN IF IsAlpha(At(s, u + 1)) THEN u + 1 + RunLen(s, u + 2, WordChars) ELSE 0

KwAs(s) == Len(s) >= 2 /\ s[1] = "a" /\ s[2] = "s" /\ ~(Len(s) > 2 /\ IsWord(s[3]))

(* nextToken: <<name, length in characters>>; length 0 = INVALID *)
NextToken(s) ==
    LET c == s[1] IN
    CASE c \in Punct -> <<"'" \o c \o "'", 1>>
      [] c = "\"" -> IF StringLen(s) > 0 THEN <<"LITSTRING", StringLen(s)>> ELSE <<"INVALID", 0>>
      [] c = "#" -> <<"COMMENT", ComFrom(s, 2)>>
      [] IsSpace(c) /\ c # "N" -> <<"SKIP", RunLen(s, 1, SpaceChars)>>
      [] c = "N" -> <<"SKIP", RunLen(s, 1, SpaceChars)>>
      [] IsDigit(c) \/ c = "-" ->
            IF FloatLen(s) > 0 THEN <<"NUM_FLOAT", FloatLen(s)>>
            ELSE IF IntLen(s) > 0 THEN <<"NUM_INT", IntLen(s)>> ELSE <<"INVALID", 0>>
      [] c = "a" /\ KwAs(s) -> <<"AS", 2>>
      [] IsAlpha(c) \/ c = "_" -> IF IdLen(s) > 0 THEN <<"ID", IdLen(s)>> ELSE <<"INVALID", 0>>
      [] OTHER -> <<"INVALID", 0>>         \* "+", backslash, "L", "X"

RECURSIVE Bytes(_)
Bytes(s) == IF s = <<>> THEN 0 ELSE LenB(Head(s)) + Bytes(Tail(s))

RECURSIVE Tokens(_)
Tokens(s) ==
    IF s = <<>> THEN <<>>
    ELSE LET t == NextToken(s) IN
         IF t[2] = 0 THEN <<[k |-> "INVALID", n |-> 0]>>
         ELSE <<[k |-> t[1], n |-> Bytes(SubSeq(s, 1, t[2]))]>> \o Tokens(SubSeq(s, t[2] + 1, Len(s)))

---------------------------------------------------------------------------
(* Properties of the scanner itself, checked on every string:
   every token consumes input (the Lex loop makes progress), the cut is a
   partition of a prefix of the input, and only the last token may be INVALID *)
RECURSIVE SumN(_)
SumN(ts) == IF ts = <<>> THEN 0 ELSE Head(ts).n + SumN(Tail(ts))
Progress(s) ==
    LET ts == Tokens(s) IN
    /\ \A i \in DOMAIN ts : ts[i].k = "INVALID" => i = Len(ts)
    /\ \A i \in DOMAIN ts : ts[i].k # "INVALID" => ts[i].n > 0
    /\ SumN(ts) <= Bytes(s)
    /\ (ts # <<>> /\ ts[Len(ts)].k # "INVALID") => SumN(ts) = Bytes(s)

RECURSIVE Ext(_, _)
Ext(ss, i) == IF i > Len(Alphabet) THEN <<>>
              ELSE [k \in DOMAIN ss |-> Append(ss[k], Alphabet[i])] \o Ext(ss, i + 1)
RECURSIVE Level(_)
Level(n) == IF n = 0 THEN << <<>> >> ELSE Ext(Level(n - 1), 1)
RECURSIVE UpTo(_)
UpTo(n) == IF n = 0 THEN Level(0) ELSE UpTo(n - 1) \o Level(n)
Strings == UpTo(N)

FullAlphabet == <<"a", "s", "e", "x", "n", "_", "0", "1", "9", "-", "+", ".", ":", "\"", "\\", " ", "\n", "#",
                  "(", "=", "L", "N", "X">>
NumAlphabet == <<"1", "0", "-", ".", "e", "+", ":", "a", " ">>
StrAlphabet == <<"\"", "\\", "n", "x", "a", "0", "1", "9", "L", "X">>

ASSUME \A i \in DOMAIN Strings : Progress(Strings[i])
ASSUME ndJsonSerialize("lex_rows.ndjson", [i \in DOMAIN Strings |-> [s |-> Strings[i], toks |-> Tokens(Strings[i])]])
===========================================================================

SPECIFICATION LiveSpec
CONSTANTS
  Grace = 2
  QueryEvery = 3
  HbTimeout = 6
  ClearMark = "acted"
  HasQueue = FALSE
INVARIANTS NoFalseFailure
PROPERTIES VanishedFails

CONSTANT N = 4
CONSTANT Alphabet <- SmallAlphabet

CONSTANT N = 4
CONSTANT Alphabet <- SmallAlphabet
CONSTANT EscapePercent = TRUE

------------------------------ MODULE PsCreate ------------------------------
(* Several mrp instances are started on a pipestance that does not exist yet (C15,
   "all orders of start / attach attempts"): martian/core/runtime.go
   Runtime.InvokePipeline.  Each instance
     1. creates the directory if need be and looks whether it is empty (CheckEmpty) -
        a directory with anything in it sends the instance down the re-attach path,
        which PsLock.tla covers;
     2. instantiates the pipeline: makes the directories of its nodes (MakeNodes) and
        takes the lock (Lock: refused if the lock file is there - O_EXCL);
     3. after ANY error of step 2 removes the whole directory, "if instantiation
        failed, delete the pipestance folder" (Cleanup) - RemoveWhenRefused says whether
        that includes the refusal by another instance's lock (the code as found) or
        not (the repaired code);
     4. as the holder writes the top-level metadata (WriteMeta), runs, and unlocks
        when it ends (Finish).
   Nothing orders step 1 of one instance against the steps of another.  TLC checks,
   over all interleavings, that what a holder has created stays there while it holds
   the pipestance, and that there is never more than one holder. *)
EXTENDS Integers, FiniteSets

CONSTANTS Mrp,               \* instances
          RemoveWhenRefused  \* BOOLEAN

VARIABLES dir,     \* what is in the pipestance directory: a subset of {"nodes", "lock", "meta"}
          pc,      \* instance -> where it is
          last     \* the last action (for the replay on real processes)

vars == <<dir, pc, last>>
Init == dir = {} /\ pc = [m \in Mrp |-> "start"] /\ last = <<"init", CHOOSE m \in Mrp : TRUE>>

CheckEmpty(m) == /\ pc[m] = "start"
                 /\ pc' = [pc EXCEPT ![m] = IF dir = {} THEN "empty" ELSE "exists"]
                 /\ UNCHANGED dir /\ last' = <<"CheckEmpty", m>>
MakeNodes(m) == /\ pc[m] = "empty"
                /\ dir' = dir \cup {"nodes"}
                /\ pc' = [pc EXCEPT ![m] = "made"] /\ last' = <<"MakeNodes", m>>
Lock(m) == /\ pc[m] = "made"
           /\ IF "lock" \in dir
              THEN pc' = [pc EXCEPT ![m] = "refused"] /\ UNCHANGED dir
              ELSE pc' = [pc EXCEPT ![m] = "holding"] /\ dir' = dir \cup {"lock"}
           /\ last' = <<"Lock", m>>
Cleanup(m) == /\ pc[m] = "refused"
              /\ dir' = IF RemoveWhenRefused THEN {} ELSE dir
              /\ pc' = [pc EXCEPT ![m] = "gone"] /\ last' = <<"Cleanup", m>>
WriteMeta(m) == /\ pc[m] = "holding"
                /\ dir' = dir \cup {"meta"}
                /\ pc' = [pc EXCEPT ![m] = "running"] /\ last' = <<"WriteMeta", m>>
Finish(m) == /\ pc[m] = "running"
             /\ dir' = dir \ {"lock"}
             /\ pc' = [pc EXCEPT ![m] = "done"] /\ last' = <<"Finish", m>>

Next == \E m \in Mrp : CheckEmpty(m) \/ MakeNodes(m) \/ Lock(m) \/ Cleanup(m) \/ WriteMeta(m) \/ Finish(m)
Spec == Init /\ [][Next]_vars /\ \A m \in Mrp : WF_vars(CheckEmpty(m) \/ MakeNodes(m) \/ Lock(m) \/ Cleanup(m) \/ WriteMeta(m) \/ Finish(m))

OneHolder == Cardinality({m \in Mrp : pc[m] \in {"holding", "running"}}) <= 1
(* what the holder has made is there as long as it holds the pipestance *)
HolderIntact == \A m \in Mrp : /\ pc[m] \in {"holding", "running"} => {"nodes", "lock"} \subseteq dir
                               /\ pc[m] = "running" => "meta" \in dir
(* exactly one of the instances that found the directory empty gets to run it to the end *)
SomeoneFinishes == <>(\E m \in Mrp : pc[m] = "done")
=============================================================================

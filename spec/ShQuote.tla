------------------------------ MODULE ShQuote ------------------------------
(* martian/core/shell_quote.go appendShellSafeQuote, and the reader it is
   written for: how a POSIX shell reads a double-quoted word.

   Characters are one-element strings; "<FF>" and "<80>" stand for bytes that
   are not valid UTF-8 (the harness concretises them).  A string is a sequence
   of characters.  ShRead returns the sequence of characters the shell hands to
   the command, with the markers "<EXPAND>" / "<CMDSUB>" where the shell would
   substitute a parameter or run a command instead of passing text through. *)
EXTENDS Integers, Sequences, TLC, Json

FullAlphabet == <<"a", " ", "\"", "'", "$", "`", "\\", "\n", "*", "!", "#", ";", "&", "|", "(",
                  "~", "{", "\t", "é", "<FF>", "7", "=", "_", ":", "/", "\r">>
SpecialAlphabet == <<"a", "\"", "$", "`", "\\", "\n", "'", "<FF>", "7">>
CONSTANT Alphabet
Invalid == {"<FF>", "<80>"}
Octal(c) == IF c = "<FF>" THEN <<"\\", "3", "7", "7">> ELSE <<"\\", "2", "0", "0">>

(* the quoting function, as the code does it *)
RECURSIVE QuoteBody(_)
QuoteBody(s) ==
    IF s = <<>> THEN <<>>
    ELSE LET c == Head(s) IN
         (IF c \in Invalid THEN Octal(c)
          ELSE IF c \in {"\\", "\"", "$", "`"} THEN <<"\\", c>>
          ELSE <<c>>) \o QuoteBody(Tail(s))
Quote(s) == <<"\"">> \o QuoteBody(s) \o <<"\"">>

(* POSIX 2.2.3 Double-Quotes: $ and ` keep their special meaning; a backslash
   quotes only $ ` " \ and newline (the latter is a line continuation) *)
RECURSIVE ReadDq(_)
ReadDq(w) ==      \* w: the characters after the opening quote
    IF w = <<>> THEN <<"<UNTERMINATED>">>
    ELSE LET c == Head(w) IN
         IF c = "\"" THEN (IF Tail(w) = <<>> THEN <<>> ELSE <<"<TRAILING>">>)
         ELSE IF c = "$" THEN <<"<EXPAND>">> \o ReadDq(Tail(w))
         ELSE IF c = "`" THEN <<"<CMDSUB>">> \o ReadDq(Tail(w))
         ELSE IF c = "\\" /\ Len(w) >= 2 THEN
              LET d == w[2] IN
              IF d \in {"$", "`", "\"", "\\"} THEN <<d>> \o ReadDq(SubSeq(w, 3, Len(w)))
              ELSE IF d = "\n" THEN ReadDq(SubSeq(w, 3, Len(w)))
              ELSE <<"\\", d>> \o ReadDq(SubSeq(w, 3, Len(w)))
         ELSE <<c>> \o ReadDq(Tail(w))
ShRead(w) == IF w # <<>> /\ Head(w) = "\"" THEN ReadDq(Tail(w)) ELSE <<"<UNQUOTED>">>

RoundTrips(s) == ShRead(Quote(s)) = s

(* all strings over the alphabet up to length n, as a sequence *)
RECURSIVE Ext(_, _)
Ext(ss, i) == IF i > Len(Alphabet) THEN <<>>
              ELSE [k \in DOMAIN ss |-> Append(ss[k], Alphabet[i])] \o Ext(ss, i + 1)
RECURSIVE Level(_)
Level(n) == IF n = 0 THEN << <<>> >> ELSE Ext(Level(n - 1), 1)
RECURSIVE UpTo(_)
UpTo(n) == IF n = 0 THEN Level(0) ELSE UpTo(n - 1) \o Level(n)

CONSTANT N
Strs == UpTo(N)
Rows == [k \in DOMAIN Strs |-> [s |-> Strs[k], q |-> Quote(Strs[k]), r |-> ShRead(Quote(Strs[k])),
                                ok |-> RoundTrips(Strs[k])]]

(* The theorem, checked by TLC on the model: every string without invalid bytes
   survives.  Strings with invalid bytes do not (the code writes them as \ooo,
   which the shell does not decode): recorded finding. *)
HasInvalid(s) == \E i \in DOMAIN s : s[i] \in Invalid
Theorem == \A k \in DOMAIN Rows : ~HasInvalid(Rows[k].s) => Rows[k].ok
ASSUME Theorem
ASSUME ndJsonSerialize("shquote_rows.ndjson", Rows)
===========================================================================

CONSTANTS
  N = 5
  Alphabet <- NumAlphabet

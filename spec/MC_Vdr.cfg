SPECIFICATION Spec
CONSTANTS
  Progs <- MCProgs
  Modes <- MCModes
INVARIANTS TypeOK NothingNeededRemoved FinalClean ReportExact OnlyVolatile
CHECK_DEADLOCK FALSE

CONSTANT CoreLimits = {1, 2, 4}
CONSTANT MemLimits = {1, 2, 4}
CONSTANT ThreadsPerJob = 1
CONSTANT MemGBPerJob = 1
CONSTANT ExtraVmemGB = 1

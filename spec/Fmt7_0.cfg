CONSTANTS
  N = 7
  Sep = 0

CONSTANT N = 5
CONSTANT Alphabet <- SpecialAlphabet

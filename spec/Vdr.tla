-------------------------------- MODULE Vdr --------------------------------
(* Volatile data removal (C04, C14) as martian/core/storage.go and stage.go do
   it, for one (unforked) fork per stage:

     fileArgs[s]   output argument -> holders keeping it alive (consumers, "TOP"
                   for top-level outputs and retain declarations)
                                      (Fork.fileArgs, attachToFileParents, setupRetains)
     postNodes[s]  consumers that must finish before s's files may go
                                      (Fork.filePostNodes)
     cache[s]      file -> arguments naming it, or NoCache
                                      (Fork.fileParamMap, cacheParamFileMap)
     killed[s]     the final kill report of s was written (getVdrKillReport)

   One action per critical section (every call of cacheParamFileMap and of
   partialVdrKill holds the fork's storage lock and is one step):
     Start(s)       the stage code starts and opens its file arguments
     Finish(s)      the stage code has ended, Fork.doComplete: the files exist;
                    post mode: cache + partialVdrKill inline; otherwise the
                    cleanup goroutine is spawned, and Node.step (case Complete)
                    runs cachePerf = partialVdrKill on the producers and on s
     MainStep       the run loop works off those inline calls, in order
     AsyncCache(s)  first half of the goroutine of doComplete
     AsyncKill(s)   second half: partialVdrKill
     FinalSweep     Pipestance.VDRKill at completion, one fork after the other

   Start/Finish/MainStep are the run loop's thread; the goroutines race it. *)
EXTENDS Integers, Sequences, FiniteSets, TLC

CONSTANTS Progs,      \* set of programs (see MC_Vdr)
          Modes       \* subset of {"rolling", "post", "strict"}

VARIABLES prog, mode,
          st,         \* stage -> "waiting" | "running" | "complete"
          disk,       \* files present
          fileArgs, postNodes, cache, killed,
          todo,       \* inline cleanup calls the run loop still has to make: Seq of <<op, stage>>
          tasks,      \* stage -> "none" | "cache" | "kill"  (the goroutine of doComplete)
          swept,      \* the final sweep has been started
          reported,   \* stage -> number of files its kill reports claim
          removed,    \* stage -> number of files actually removed
          bad         \* property violations observed (ghost)

vars == <<prog, mode, st, disk, fileArgs, postNodes, cache, killed, todo, tasks, swept, reported, removed, bad>>

NoCache == [none |-> TRUE]
Stages == prog.stages
FilesOf(s) == {f \in DOMAIN prog.files : prog.files[f].s = s}
Arg(f) == prog.files[f].arg          \* "none": no output names the file
Producers(c) == {b[1] : b \in prog.binds[c]}
(* consumers whose bindings name the output argument a of s *)
ConsumersOf(s, a) == {c \in Stages : <<s, a>> \in prog.binds[c]}
HeldByTop(s, a) == <<s, a>> \in prog.top
StrictVol(s) == prog.vol[s] = "strict" \/ (mode = "strict" /\ prog.vol[s] # "false")
IsVolatile(s) == StrictVol(s) \/ prog.vol[s] = "vol"
ArgsOf(s) == {Arg(f) : f \in FilesOf(s)} \ {"none"}

Init ==
    /\ prog \in Progs /\ mode \in Modes
    /\ st = [s \in Stages |-> "waiting"]
    /\ disk = {}
    /\ fileArgs = [s \in Stages |->
                     [a \in {x \in ArgsOf(s) : ConsumersOf(s, x) # {} \/ HeldByTop(s, x)} |->
                        ConsumersOf(s, a) \cup (IF HeldByTop(s, a) THEN {"TOP"} ELSE {})]]
    /\ postNodes = [s \in Stages |-> UNION {ConsumersOf(s, a) : a \in ArgsOf(s)}]
    /\ cache = [s \in Stages |-> NoCache]
    /\ killed = [s \in Stages |-> FALSE]
    /\ todo = <<>>
    /\ tasks = [s \in Stages |-> "none"]
    /\ swept = FALSE
    /\ reported = [s \in Stages |-> 0] /\ removed = [s \in Stages |-> 0]
    /\ bad = {}

(* ---- the pieces of storage.go, as functions of the state of one stage ---- *)
(* an argument nobody holds is dropped (removeFileArg / removeFilePostNodes) *)
Prune(fa) == [a \in {x \in DOMAIN fa : fa[x] # {}} |-> fa[a]]
(* removeFilePostNodes(done): consumers that completed stop holding arguments *)
Release(fa, done) == Prune([a \in DOMAIN fa |-> fa[a] \ done])
(* cacheParamFileMap: per file on disk the arguments naming it; arguments that name
   no file of the stage are dropped *)
Compute(s, fa) == [f \in FilesOf(s) \cap disk |-> {a \in DOMAIN fa : a = Arg(f)}]
Named(c, fa) == [a \in {x \in DOMAIN fa : \E f \in DOMAIN c : x \in c[f]} |-> fa[a]]
(* updateParamFileCache *)
Update(c, fa) == [f \in DOMAIN c |-> c[f] \cap DOMAIN fa]

(* partialVdrKill(s): new <<fileArgs[s], postNodes[s], cache[s], killed[s]>> and the
   files removed, given the states of the consumers *)
Partial(s) ==
    LET done == {c \in postNodes[s] : st[c] = "complete"}
        pn == postNodes[s] \ done
        fa == Release(fileArgs[s], done)
        some(doneflag) ==        \* vdrKillSome
            LET c0 == IF cache[s] = NoCache THEN Compute(s, fa) ELSE Update(cache[s], fa)
                fa2 == IF cache[s] = NoCache THEN Named(c0, fa) ELSE fa
                kill == {f \in DOMAIN c0 : c0[f] = {}}
                c1 == [f \in DOMAIN c0 \ kill |-> c0[f]]
            IN [fa |-> fa2, pn |-> pn, cache |-> c1, kill |-> kill,
                killed |-> (DOMAIN c1 = {} \/ doneflag \/ pn = {})]
        keep == [fa |-> fa, pn |-> pn, cache |-> cache[s], kill |-> {}, killed |-> FALSE]
    IN IF st[s] # "complete" \/ killed[s]
       THEN [fa |-> fileArgs[s], pn |-> postNodes[s], cache |-> cache[s], kill |-> {}, killed |-> killed[s]]
       ELSE IF pn = {} THEN
            IF IsVolatile(s) THEN some(TRUE)
            ELSE [keep EXCEPT !.killed = TRUE]        \* only chunk files would go (none here)
       ELSE IF StrictVol(s) THEN some(FALSE)
       ELSE keep

(* what makes a removal wrong (C04): the file is named by an argument the top level
   or a retain holds, or by one bound to a consumer that has not finished *)
Needed(f) == Arg(f) # "none" /\ (HeldByTop(prog.files[f].s, Arg(f))
                                 \/ \E c \in ConsumersOf(prog.files[f].s, Arg(f)) : st[c] # "complete")

DoKill(s) ==
    LET r == Partial(s) IN
    /\ fileArgs' = [fileArgs EXCEPT ![s] = r.fa]
    /\ postNodes' = [postNodes EXCEPT ![s] = r.pn]
    /\ cache' = [cache EXCEPT ![s] = r.cache]
    /\ killed' = [killed EXCEPT ![s] = r.killed]
    /\ disk' = disk \ r.kill
    /\ reported' = [reported EXCEPT ![s] = @ + Cardinality(r.kill)]
    /\ removed' = [removed EXCEPT ![s] = @ + Cardinality(r.kill \cap disk)]
    /\ bad' = bad \cup {<<"needed file removed", f>> : f \in {g \in r.kill : Needed(g)}}

DoCache(s) ==
    LET c == Compute(s, fileArgs[s]) IN
    /\ cache' = [cache EXCEPT ![s] = c]
    /\ fileArgs' = [fileArgs EXCEPT ![s] = Named(c, fileArgs[s])]
    /\ UNCHANGED <<postNodes, killed, disk, reported, removed, bad>>

---------------------------------------------------------------------------
Start(s) ==
    /\ st[s] = "waiting" /\ ~swept /\ todo = <<>>
    /\ \A p \in Producers(s) : st[p] = "complete"
    /\ st' = [st EXCEPT ![s] = "running"]
    /\ bad' = bad \cup {<<"file missing at start", f, s>> :
                          f \in {g \in DOMAIN prog.files : <<prog.files[g].s, Arg(g)>> \in prog.binds[s] /\ g \notin disk}}
    /\ UNCHANGED <<prog, mode, disk, fileArgs, postNodes, cache, killed, todo, tasks, swept, reported, removed>>

RECURSIVE SeqOf(_)
SeqOf(S) == IF S = {} THEN <<>> ELSE LET x == CHOOSE x \in S : TRUE IN <<x>> \o SeqOf(S \ {x})

Finish(s) ==
    /\ st[s] = "running" /\ todo = <<>>
    /\ st' = [st EXCEPT ![s] = "complete"]
    /\ disk' = disk \cup FilesOf(s)
    /\ IF mode = "post"
       THEN /\ todo' = << <<"cache", s>>, <<"kill", s>> >>
            /\ UNCHANGED tasks
       ELSE /\ tasks' = [tasks EXCEPT ![s] = "cache"]
            /\ todo' = [i \in 1..Cardinality(Producers(s)) |-> <<"kill", SeqOf(Producers(s))[i]>>] \o << <<"kill", s>> >>
    /\ UNCHANGED <<prog, mode, fileArgs, postNodes, cache, killed, swept, reported, removed, bad>>

MainStep ==
    /\ todo # <<>>
    /\ todo' = Tail(todo)
    /\ IF Head(todo)[1] = "cache" THEN DoCache(Head(todo)[2]) ELSE DoKill(Head(todo)[2])
    /\ UNCHANGED <<prog, mode, st, tasks, swept>>

AsyncCache(s) ==
    /\ tasks[s] = "cache"
    /\ tasks' = [tasks EXCEPT ![s] = "kill"]
    /\ DoCache(s)
    /\ UNCHANGED <<prog, mode, st, todo, swept>>

AsyncKill(s) ==
    /\ tasks[s] = "kill"
    /\ tasks' = [tasks EXCEPT ![s] = "none"]
    /\ DoKill(s)
    /\ UNCHANGED <<prog, mode, st, todo, swept>>

FinalSweep ==
    /\ ~swept /\ todo = <<>> /\ \A s \in Stages : st[s] = "complete"
    /\ swept' = TRUE
    /\ todo' = [i \in 1..Cardinality(Stages) |-> <<"kill", SeqOf(Stages)[i]>>]
    /\ UNCHANGED <<prog, mode, st, disk, fileArgs, postNodes, cache, killed, tasks, reported, removed, bad>>

Next == \/ \E s \in Stages : Start(s) \/ Finish(s) \/ AsyncCache(s) \/ AsyncKill(s)
        \/ MainStep \/ FinalSweep

Spec == Init /\ [][Next]_vars

---------------------------------------------------------------------------
TypeOK == /\ disk \subseteq DOMAIN prog.files
          /\ \A s \in Stages : st[s] \in {"waiting", "running", "complete"} /\ tasks[s] \in {"none", "cache", "kill"}

(* C04 *)
NothingNeededRemoved == bad = {}
(* C14: at the end nothing a volatile stage wrote survives unless held by the top level *)
Quiet == swept /\ todo = <<>> /\ \A s \in Stages : tasks[s] = "none"
MustGo(f) == IsVolatile(prog.files[f].s) /\ ~(Arg(f) # "none" /\ HeldByTop(prog.files[f].s, Arg(f)))
FinalClean == Quiet => \A f \in disk : ~MustGo(f)
(* C14: reports say what was removed *)
ReportExact == \A s \in Stages : reported[s] = removed[s]
(* only volatile stages lose files at all *)
OnlyVolatile == \A f \in DOMAIN prog.files : (st[prog.files[f].s] = "complete" /\ f \notin disk) => IsVolatile(prog.files[f].s)
===========================================================================

CONSTANTS
  N = 5
  Sep = 1

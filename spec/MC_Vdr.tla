------------------------------- MODULE MC_Vdr -------------------------------
EXTENDS Vdr

F(s, a) == [s |-> s, arg |-> a]
(* one producer with three files (two named by outputs a and b, one unreferenced),
   two consumers; variants of who holds what and of the annotations *)
Base(vol, binds1, binds2, top) ==
    [stages |-> {"P", "C1", "C2"},
     files |-> [f1 |-> F("P", "a"), f2 |-> F("P", "b"), f3 |-> F("P", "none"), g1 |-> F("C1", "r")],
     binds |-> [P |-> {}, C1 |-> binds1, C2 |-> binds2],
     top |-> top,
     vol |-> [P |-> vol, C1 |-> "none", C2 |-> "none"]]
(* a chain P -> Q -> C, all volatile, plus a late consumer of P *)
Chain3(volp, volq) ==
    [stages |-> {"P", "Q", "C"},
     files |-> [f1 |-> F("P", "a"), f2 |-> F("P", "b"), g1 |-> F("Q", "a"), g2 |-> F("Q", "none")],
     binds |-> [P |-> {}, Q |-> {<<"P", "a">>}, C |-> {<<"Q", "a">>, <<"P", "b">>}],
     top |-> {},
     vol |-> [P |-> volp, Q |-> volq, C |-> "none"]]

MCProgs ==
    {Base(v, b1, b2, t) : v \in {"none", "vol", "strict", "false"},
                          b1 \in {{<<"P", "a">>}, {<<"P", "a">>, <<"P", "b">>}},
                          b2 \in {{}, {<<"P", "b">>}, {<<"P", "a">>}},
                          t \in {{}, {<<"P", "b">>}, {<<"C1", "r">>}}}
    \cup {Chain3(vp, vq) : vp \in {"vol", "strict"}, vq \in {"vol", "strict", "none"}}
MCModes == {"rolling", "post", "strict"}
=============================================================================

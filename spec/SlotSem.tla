------------------------------ MODULE SlotSem ------------------------------
(* The slot semaphore behind --maxjobs with its condition variable made
   explicit (martian/core/maxjobs_semaphore.go): one goroutine per job calls
   Acquire; sections under the mutex are atomic actions; cond.Wait parks the
   goroutine and gives the mutex up; cond.Signal wakes one parked goroutine if
   there is one (nothing is remembered otherwise), Broadcast all of them.  A
   job may be cancelled (its metadata leaves the queued state: killed, error
   written) at any moment while its goroutine waits.

   SignalOnEveryReturn = TRUE is the code: Acquire defers cond.Signal(), so a
   goroutine that was woken and finds its job cancelled passes the wake-up
   on.  FALSE is the variant that signals only after a successful acquisition;
   it violates NoStall (a wake-up is swallowed by a cancelled waiter).

   C12 (cluster half): never more than Limit slots taken; whenever a slot is
   free and a job that is not cancelled waits for it, a wake-up is on its
   way (NoStall) - and under fairness every such job is eventually admitted. *)
EXTENDS Integers, FiniteSets, Sequences, TLC

CONSTANTS Jobs, Limit, SignalOnEveryReturn, MaxCancel

VARIABLES pc,        \* job -> "new" | "enter" | "parked" | "woken" | "sig" | "held" | "refused" | "released"
          running,   \* jobs holding a slot
          cancelled, \* jobs whose metadata is no longer queued
          finished,  \* jobs that hold a slot and whose cluster job has ended (FindDone / Release will drop them)
          hist       \* last action, for replay
vars == <<pc, running, cancelled, finished, hist>>

Init == /\ pc = [j \in Jobs |-> "new"] /\ running = {} /\ cancelled = {} /\ finished = {}
        /\ hist = [a |-> "init", j |-> 0]

Parked == {j \in Jobs : pc[j] = "parked"}
Room == Cardinality(running) < Limit

(* cond.Signal / Broadcast as part of the action that calls them under the mutex *)
SignalFrom(p) == IF {j \in Jobs : p[j] = "parked"} = {} THEN {p}
                 ELSE {[p EXCEPT ![w] = "woken"] : w \in {j \in Jobs : p[j] = "parked"}}
BroadcastFrom(p) == [j \in Jobs |-> IF p[j] = "parked" THEN "woken" ELSE p[j]]

(* execJob starts a goroutine that calls Acquire *)
Call(j) == /\ pc[j] = "new" /\ pc' = [pc EXCEPT ![j] = "enter"]
           /\ hist' = [a |-> "Call", j |-> j] /\ UNCHANGED <<running, cancelled, finished>>

(* one pass of the loop under the mutex, from the call or after a wake-up.
   The deferred Signal runs after the mutex is given up: a step of its own ("sig"). *)
Pass(j) ==
    /\ pc[j] \in {"enter", "woken"}
    /\ hist' = [a |-> "Pass", j |-> j]
    /\ IF j \in cancelled
       THEN \* `return false`
            /\ pc' = [pc EXCEPT ![j] = IF SignalOnEveryReturn THEN "sig" ELSE "refused"]
            /\ UNCHANGED <<running, cancelled, finished>>
       ELSE IF ~Room
       THEN /\ pc' = [pc EXCEPT ![j] = "parked"]
            /\ UNCHANGED <<running, cancelled, finished>>
       ELSE /\ running' = running \cup {j}
            /\ pc' = [pc EXCEPT ![j] = "sig"]
            /\ UNCHANGED <<cancelled, finished>>
(* the deferred cond.Signal() *)
DeferredSignal(j) ==
    /\ pc[j] = "sig"
    /\ \E p \in SignalFrom([pc EXCEPT ![j] = IF j \in running THEN "held" ELSE "refused"]) : pc' = p
    /\ hist' = [a |-> "DeferredSignal", j |-> j]
    /\ UNCHANGED <<running, cancelled, finished>>

(* the job is cancelled while it waits (kill, queue check writes an error) *)
Cancel(j) == /\ pc[j] \in {"enter", "parked", "woken"} /\ j \notin cancelled
             /\ Cardinality(cancelled) < MaxCancel
             /\ cancelled' = cancelled \cup {j}
             /\ hist' = [a |-> "Cancel", j |-> j] /\ UNCHANGED <<pc, running, finished>>

(* the cluster job ends; mrp notices: endJob -> Release *)
Release(j) == /\ pc[j] = "held" /\ j \in running
              /\ running' = running \ {j}
              /\ \E p \in SignalFrom([pc EXCEPT ![j] = "released"]) : pc' = p
              /\ finished' = finished \ {j}
              /\ hist' = [a |-> "Release", j |-> j] /\ UNCHANGED cancelled
(* ... or it ends unnoticed and the periodic FindDone drops it *)
End(j) == /\ pc[j] = "held" /\ j \in running /\ j \notin finished
          /\ finished' = finished \cup {j}
          /\ hist' = [a |-> "End", j |-> j] /\ UNCHANGED <<pc, running, cancelled>>
FindDone ==
    /\ finished # {}
    /\ running' = running \ finished
    /\ LET p0 == [j \in Jobs |-> IF j \in finished THEN "released" ELSE pc[j]]
           spare == Limit - Cardinality(running \ finished)
       IN IF spare > 1 THEN pc' = BroadcastFrom(p0)
          ELSE IF spare = 1 THEN \E p \in SignalFrom(p0) : pc' = p
          ELSE pc' = p0
    /\ finished' = {}
    /\ hist' = [a |-> "FindDone", j |-> 0] /\ UNCHANGED cancelled

Next == \/ \E j \in Jobs : Call(j) \/ Pass(j) \/ DeferredSignal(j) \/ Cancel(j) \/ Release(j) \/ End(j)
        \/ FindDone
Spec == Init /\ [][Next]_vars
Fair == /\ \A j \in Jobs : WF_vars(Pass(j)) /\ WF_vars(DeferredSignal(j)) /\ WF_vars(Release(j)) /\ WF_vars(Call(j))
        /\ WF_vars(FindDone)
LiveSpec == Spec /\ Fair

WithinLimit == Cardinality(running) <= Limit
OnlyLive == running \cap {j \in Jobs : pc[j] \in {"new", "enter", "parked", "woken", "refused"}} = {}
(* a free slot and a live waiter, and nobody on the way to take it or to pass a wake-up on *)
InFlight == {j \in Jobs : pc[j] \in {"enter", "woken", "sig"}}
NoStall == ~(Room /\ (Parked \ cancelled) # {} /\ InFlight = {} /\ finished = {})
(* every job that is called and never cancelled gets a slot *)
Admitted == \A j \in Jobs : (pc[j] = "enter" /\ j \notin cancelled) ~> (pc[j] \in {"held", "released"} \/ j \in cancelled)
View == <<pc, running, cancelled, finished>>
=============================================================================

SPECIFICATION Spec
INVARIANT Report

------------------------------ MODULE MroSem ------------------------------
(* Reference (denotational) semantics of MRO programs: DESIGN.md Appendix A.

   A program is data (the JSON form written by the shape generator and read
   with the Json module, see MroAst in DESIGN.md):

     p.structs   : Seq [name, fields : Seq [n, t]]
     p.stages    : Seq [name, ins, outs : Seq [n, t], split : BOOLEAN,
                        chunks : [k, ...], couts : Seq [n, t, r],
                        rules : Seq [n, r]]          (behaviour of the stage)
     p.pipelines : Seq [name, ins, outs : Seq [n, t],
                        calls : Seq [id, callee, binds : Seq [n, e], dis : e,
                                     mode, pre, vol],
                        ret : Seq [n, e]]            (calls in dependency order)
     p.top       : [callee, args : Seq [n, e]]

   types        t = [b, a, m, ia]     base name, array dim, typed-map flag,
                                      array dim inside the typed map
   values       tagged records (distinct field per kind, so that sets and
                equality of mixed values are well defined in TLC):
                [k |-> "null"] [k |-> "bool", b] [k |-> "int", i]
                [k |-> "float", f] [k |-> "str", s] [k |-> "arr", a : Seq]
                [k |-> "obj", o : [STRING -> value]]
   expressions  [k |-> "lit", v] [k |-> "self", id, path] [k |-> "ref", call,
                out, path] [k |-> "arrx", es] [k |-> "objx", fs : Seq [n, e]]
                [k |-> "split", e] [k |-> "none"]

   Everything below is a constant-level function of the program; TLC evaluates
   it in ASSUME / constant definitions and the harness compares the result with
   what the real runtime does. *)
EXTENDS Integers, Sequences, FiniteSets, TLC

Null == [k |-> "null"]
VBool(x) == [k |-> "bool", b |-> x]
VInt(x) == [k |-> "int", i |-> x]
VStr(x) == [k |-> "str", s |-> x]
VArr(x) == [k |-> "arr", a |-> x]
VObj(x) == [k |-> "obj", o |-> x]
IsNull(v) == v.k = "null"

Range(s) == {s[i] : i \in DOMAIN s}
SeqToFn(s) == [x \in {s[i].n : i \in DOMAIN s} |->
                 (CHOOSE j \in DOMAIN s : s[j].n = x /\ \A l \in 1..(j-1) : s[l].n # x)]
Lookup(s, name) == s[CHOOSE j \in DOMAIN s : s[j].n = name]
Has(s, name) == \E j \in DOMAIN s : s[j].n = name
ByName(s, name) == s[CHOOSE j \in DOMAIN s : s[j].name = name]
HasName(s, name) == \E j \in DOMAIN s : s[j].name = name

RECURSIVE SetToSortedSeq(_)
SetToSortedSeq(S) ==    \* strings have no order in TLA+; any fixed order will do
    IF S = {} THEN <<>>
    ELSE LET x == CHOOSE x \in S : TRUE IN <<x>> \o SetToSortedSeq(S \ {x})

RECURSIVE JoinStr(_, _)
JoinStr(s, sep) == IF s = <<>> THEN ""
                   ELSE IF Len(s) = 1 THEN s[1]
                   ELSE s[1] \o sep \o JoinStr(Tail(s), sep)

---------------------------------------------------------------------------
(* Types *)
TScalar(b) == [b |-> b, a |-> 0, m |-> 0, ia |-> 0]
TBool == TScalar("bool")
IsArr(t) == t.a > 0
IsTMap(t) == t.a = 0 /\ t.m = 1
Elem(t) == IF t.a > 0 THEN [t EXCEPT !.a = t.a - 1]
           ELSE [b |-> t.b, a |-> t.ia, m |-> 0, ia |-> 0]
IsStruct(p, t) == t.a = 0 /\ t.m = 0 /\ HasName(p.structs, t.b)
Fields(p, t) == ByName(p.structs, t.b).fields
ArrOf(t) == IF t.m = 1 /\ t.a = 0 THEN [t EXCEPT !.a = 1] ELSE [t EXCEPT !.a = t.a + 1]

(* Conversion at a binding: narrow structs to the declared fields. *)
RECURSIVE Conv(_, _, _)
Conv(p, t, v) ==
    IF IsNull(v) THEN v
    ELSE IF IsArr(t) THEN
        IF v.k = "arr" THEN VArr([i \in DOMAIN v.a |-> Conv(p, Elem(t), v.a[i])]) ELSE v
    ELSE IF IsTMap(t) THEN
        IF v.k = "obj" THEN VObj([x \in DOMAIN v.o |-> Conv(p, Elem(t), v.o[x])]) ELSE v
    ELSE IF IsStruct(p, t) THEN
        IF v.k = "obj" THEN
            LET fs == Fields(p, t) IN
            VObj([x \in {fs[i].n : i \in DOMAIN fs} |->
                    IF x \in DOMAIN v.o THEN Conv(p, Lookup(fs, x).t, v.o[x]) ELSE Null])
        ELSE v
    ELSE v

(* Projection of a path of struct fields through arrays and typed maps. *)
RECURSIVE Proj(_, _, _, _)
Proj(p, t, v, path) ==
    IF path = <<>> THEN v
    ELSE IF IsNull(v) THEN Null
    ELSE IF IsArr(t) THEN
        IF v.k = "arr" THEN VArr([i \in DOMAIN v.a |-> Proj(p, Elem(t), v.a[i], path)]) ELSE Null
    ELSE IF IsTMap(t) THEN
        IF v.k = "obj" THEN VObj([x \in DOMAIN v.o |-> Proj(p, Elem(t), v.o[x], path)]) ELSE Null
    ELSE IF IsStruct(p, t) /\ v.k = "obj" /\ Has(Fields(p, t), Head(path)) THEN
        Proj(p, Lookup(Fields(p, t), Head(path)).t,
             IF Head(path) \in DOMAIN v.o THEN v.o[Head(path)] ELSE Null, Tail(path))
    ELSE Null

RECURSIVE ProjType(_, _, _)
ProjType(p, t, path) ==
    IF path = <<>> THEN t
    ELSE IF IsArr(t) THEN ArrOf(ProjType(p, Elem(t), path))
    ELSE IF IsTMap(t) THEN
        LET e == ProjType(p, Elem(t), path) IN [b |-> e.b, a |-> 0, m |-> 1, ia |-> e.a]
    ELSE ProjType(p, Lookup(Fields(p, t), Head(path)).t, Tail(path))

---------------------------------------------------------------------------
(* Instance identities: "TOP.SUB.CALL[i,k]" *)
InstId(path, idx) == path \o "[" \o JoinStr(idx, ",") \o "]"

IsStage(p, name) == HasName(p.stages, name)

(* A call result: outputs with, per output, the set of stage instances that
   produced the data (provenance), plus the list of stage invocations made. *)
EmptyRes == [dis |-> TRUE, outs |-> <<>>, pv |-> <<>>, inv |-> <<>>, allpv |-> {}]

(* Behaviour rules of stages (uninterpreted-but-known functions). *)
RuleVal(r, args, inst, oname, ci, couts) ==
    CASE r.k = "const" -> r.v
      [] r.k = "echo"  -> args[r.src]
      [] r.k = "inst"  -> VStr(inst \o ":" \o oname)
      [] r.k = "ci"    -> VInt(ci)
      [] r.k = "collect" -> VArr([i \in DOMAIN couts |-> couts[i][r.src]])
      [] r.k = "len" -> IF args[r.src].k = "arr" THEN VInt(Len(args[r.src].a)) ELSE VInt(0)

ChunkCount(st, args) ==
    IF ~st.split THEN 1
    ELSE CASE st.chunks.k = "fixed" -> st.chunks.c
           [] st.chunks.k = "len" -> IF args[st.chunks.src].k = "arr"
                                      THEN Len(args[st.chunks.src].a) ELSE 0

(* Run one stage instance: the invocations it makes and its outputs. *)
StageRun(p, st, args, path, idx, deps) ==
    LET inst == InstId(path, idx)
        n == ChunkCount(st, args)
        cargs(i) == IF st.split THEN [x \in DOMAIN args \cup {"ci"} |->
                                         IF x = "ci" THEN VInt(i - 1) ELSE args[x]]
                    ELSE args
        couts == [i \in 1..n |->
                    IF st.split
                    THEN [x \in {st.couts[j].n : j \in DOMAIN st.couts} |->
                            RuleVal(Lookup(st.couts, x).r, cargs(i), inst, x, i - 1, <<>>)]
                    ELSE [x \in {st.rules[j].n : j \in DOMAIN st.rules} |->
                            RuleVal(Lookup(st.rules, x).r, args, inst, x, 0, <<>>)]]
        outs == IF st.split
                THEN [x \in {st.rules[j].n : j \in DOMAIN st.rules} |->
                        RuleVal(Lookup(st.rules, x).r, args, inst, x, 0, couts)]
                ELSE couts[1]
        inv == (IF st.split THEN <<[inst |-> inst, call |-> path, idx |-> idx, kind |-> "split",
                                    chunk |-> 0, args |-> VObj(args), nchunks |-> n,
                                    deps |-> deps, couts |-> Null]>> ELSE <<>>)
               \o [i \in 1..n |-> [inst |-> inst, call |-> path, idx |-> idx, kind |-> "main",
                                   chunk |-> i - 1, args |-> VObj(cargs(i)), nchunks |-> n,
                                   deps |-> deps, couts |-> Null]]
               \o (IF st.split THEN <<[inst |-> inst, call |-> path, idx |-> idx, kind |-> "join",
                                       chunk |-> 0, args |-> VObj(args), nchunks |-> n, deps |-> deps,
                                       couts |-> VArr([i \in 1..n |-> VObj(couts[i])])]>> ELSE <<>>)
    IN [dis |-> FALSE, outs |-> outs, inv |-> inv, insts |-> {inst},
        pv |-> [x \in DOMAIN outs |-> {inst}], allpv |-> {inst}]

---------------------------------------------------------------------------
(* Expressions.  env = [self  : param -> value,  selfpv : param -> prov,
                       selft : param -> type,
                       res   : call id -> result, rest : call id -> out -> type] *)
ResVal(p, r) == IF r.dis THEN Null ELSE VObj(r.outs)

RECURSIVE Eval(_, _, _)
Eval(p, env, e) ==
    CASE e.k = "lit" -> [v |-> e.v, pv |-> {}]
      [] e.k = "self" ->
            [v |-> Proj(p, env.selft[e.id], env.self[e.id], e.path), pv |-> env.selfpv[e.id]]
      [] e.k = "ref" ->
            LET r == env.res[e.call] IN
            IF r.dis THEN [v |-> Null, pv |-> r.allpv]
            ELSE IF e.out = "" THEN [v |-> r.val, pv |-> r.allpv]
            ELSE [v |-> Proj(p, env.rest[e.call], r.val, <<e.out>> \o e.path),
                  pv |-> r.opv[e.out]]
      [] e.k = "arrx" ->
            LET xs == [i \in DOMAIN e.es |-> Eval(p, env, e.es[i])] IN
            [v |-> VArr([i \in DOMAIN xs |-> xs[i].v]), pv |-> UNION {xs[i].pv : i \in DOMAIN xs}]
      [] e.k = "objx" ->
            LET xs == [i \in DOMAIN e.fs |-> Eval(p, env, e.fs[i].e)] IN
            [v |-> VObj([x \in {e.fs[i].n : i \in DOMAIN e.fs} |->
                           xs[CHOOSE i \in DOMAIN e.fs : e.fs[i].n = x].v]),
             pv |-> UNION {xs[i].pv : i \in DOMAIN xs}]
      [] e.k = "split" -> Eval(p, env, e.e)

(* The result of a (possibly mapped) call as a value of the caller:
   .val  value of the whole call (object of outputs; array/map of those when
         mapped; Null when disabled), .opv provenance per output *)

Callee(p, name) == IF IsStage(p, name) THEN ByName(p.stages, name) ELSE ByName(p.pipelines, name)

StructTypeOfOuts(p, name) == [b |-> "@" \o name, a |-> 0, m |-> 0, ia |-> 0]

(* types of call results: we register one pseudo struct "@callee" per callable *)
OutsAsFields(c) == c.outs
AllStructs(p) == p.structs \o [i \in DOMAIN p.stages |-> [name |-> "@" \o p.stages[i].name, fields |-> p.stages[i].outs]]
                           \o [i \in DOMAIN p.pipelines |-> [name |-> "@" \o p.pipelines[i].name, fields |-> p.pipelines[i].outs]]

RECURSIVE EvalPipe(_, _, _, _, _, _, _)
RECURSIVE EvalCall(_, _, _, _, _, _)
RECURSIVE EvalCalls(_, _, _, _, _, _)

(* one instance of a callable with evaluated arguments
   args : param -> value, apv : param -> prov, extra : prov that every job below depends on *)
EvalCallable(p, name, args, apv, path, idx, extra) ==
    IF IsStage(p, name) THEN
        StageRun(p, ByName(p.stages, name), args, path, idx,
                 UNION {apv[x] : x \in DOMAIN apv} \cup extra)
    ELSE EvalPipe(p, ByName(p.pipelines, name), args, apv, path, idx, extra)

EvalPipe(p, pl, args, apv, path, idx, extra) ==
    LET pre == {pl.calls[i].id : i \in {j \in DOMAIN pl.calls : pl.calls[j].pre}}
        env0 == [self |-> args, selfpv |-> apv, selft |-> [x \in DOMAIN args |-> Lookup(pl.ins, x).t],
                 res |-> <<>>, rest |-> <<>>]
        done == EvalCalls(p, pl, env0, 1, path, [idx |-> idx, extra |-> extra])
        rets == [i \in DOMAIN pl.ret |-> Eval(p, done.env, pl.ret[i].e)]
        outs == [x \in {pl.ret[i].n : i \in DOMAIN pl.ret} |->
                    LET i == CHOOSE i \in DOMAIN pl.ret : pl.ret[i].n = x IN
                    Conv(p, Lookup(pl.outs, x).t, rets[i].v)]
        pv == [x \in {pl.ret[i].n : i \in DOMAIN pl.ret} |->
                    rets[CHOOSE i \in DOMAIN pl.ret : pl.ret[i].n = x].pv]
    IN [dis |-> FALSE, outs |-> outs, pv |-> pv, inv |-> done.inv,
        insts |-> {done.inv[i].inst : i \in DOMAIN done.inv},
        allpv |-> UNION {pv[x] : x \in DOMAIN pv}]

(* evaluate calls k..n of pipeline pl in order, threading env and invocations *)
EvalCalls(p, pl, env, k, path, ctx) ==
    IF k > Len(pl.calls) THEN [env |-> env, inv |-> <<>>]
    ELSE
      LET c == pl.calls[k]
          \* every non-preflight call depends on the preflight calls of this pipeline
          prepv == IF c.pre THEN {}
                   ELSE UNION {env.res[pl.calls[j].id].insts :
                                 j \in {j \in 1..(k-1) : pl.calls[j].pre}}
          r == EvalCall(p, pl, env, c, path, [ctx EXCEPT !.extra = ctx.extra \cup prepv])
          callee == Callee(p, c.callee)
          env2 == [env EXCEPT !.res = (c.id :> r) @@ env.res,
                              !.rest = (c.id :> r.t) @@ env.rest]
          rest == EvalCalls(p, pl, env2, k + 1, path, ctx)
      IN [env |-> rest.env, inv |-> r.inv \o rest.inv]

UnionPv(rs, ks, o) == UNION {rs[x].pv[o] : x \in ks}

EvalCall(p, pl, env, c, path, ctx) ==
    LET callee == Callee(p, c.callee)
        cpath == path \o "." \o c.id
        ot == StructTypeOfOuts(p, c.callee)
        onames == {callee.outs[i].n : i \in DOMAIN callee.outs}
        dv == IF c.dis.k = "none" THEN [v |-> VBool(FALSE), pv |-> {}] ELSE Eval(p, env, c.dis)
        isdis == dv.v.k = "bool" /\ dv.v.b
        bs == [i \in DOMAIN c.binds |-> Eval(p, env, c.binds[i].e)]
        bname(i) == c.binds[i].n
        ptype(n) == Lookup(callee.ins, n).t
        splits == {i \in DOMAIN c.binds : c.binds[i].e.k = "split"}
        allpv == UNION {bs[i].pv : i \in DOMAIN bs} \cup dv.pv
        mk(val, opv, inv, t, dis) ==
            [dis |-> dis, val |-> val, opv |-> opv, inv |-> inv, t |-> t,
             insts |-> {inv[i].inst : i \in DOMAIN inv},
             allpv |-> IF dis THEN dv.pv \cup ctx.extra ELSE UNION {opv[o] : o \in DOMAIN opv}]
        nopv == [o \in onames |-> dv.pv]
    IN
    IF isdis THEN mk(Null, nopv, <<>>, ot, TRUE)
    ELSE IF c.mode = "none" THEN
        LET args == [x \in {bname(i) : i \in DOMAIN c.binds} |->
                        LET i == CHOOSE i \in DOMAIN c.binds : bname(i) = x IN
                        Conv(p, ptype(x), bs[i].v)]
            apv == [x \in DOMAIN args |-> bs[CHOOSE i \in DOMAIN c.binds : bname(i) = x].pv]
            r == EvalCallable(p, c.callee, args, apv, cpath, ctx.idx, ctx.extra \cup dv.pv)
        IN mk(VObj(r.outs), r.pv, r.inv, ot, FALSE)
    ELSE
        \* mapped call: keys = indices (arrays) or keys (typed maps) of the split sources
        LET srcs == {bs[i].v : i \in splits}
            anynull == \E i \in splits : IsNull(bs[i].v)
            first == bs[CHOOSE i \in splits : TRUE].v
            keys == IF anynull THEN <<>>
                    ELSE IF c.mode = "array" THEN [i \in DOMAIN first.a |-> i]
                    ELSE SetToSortedSeq(DOMAIN first.o)
            elemOf(v, key) == IF c.mode = "array" THEN v.a[key] ELSE v.o[key]
            keystr(key) == IF c.mode = "array" THEN ToString(key - 1) ELSE key
            spv == UNION {bs[i].pv : i \in splits}
            one(key) ==
                LET args == [x \in {bname(i) : i \in DOMAIN c.binds} |->
                                LET i == CHOOSE i \in DOMAIN c.binds : bname(i) = x IN
                                IF i \in splits THEN Conv(p, ptype(x), elemOf(bs[i].v, key))
                                ELSE Conv(p, ptype(x), bs[i].v)]
                    apv == [x \in DOMAIN args |-> bs[CHOOSE i \in DOMAIN c.binds : bname(i) = x].pv]
                IN EvalCallable(p, c.callee, args, apv, cpath,
                                ctx.idx \o <<keystr(key)>>, ctx.extra \cup dv.pv \cup spv)
            rs == [j \in DOMAIN keys |-> one(keys[j])]
            mt == IF c.mode = "array" THEN [ot EXCEPT !.a = 1] ELSE [ot EXCEPT !.m = 1]
            val == IF anynull THEN Null
                   ELSE IF c.mode = "array" THEN VArr([j \in DOMAIN keys |-> VObj(rs[j].outs)])
                   ELSE VObj([x \in Range(keys) |->
                                VObj(rs[CHOOSE j \in DOMAIN keys : keys[j] = x].outs)])
            opv == [o \in onames |-> spv \cup dv.pv \cup UNION {rs[j].pv[o] : j \in DOMAIN keys}]
            RECURSIVE Cat(_)
            Cat(j) == IF j > Len(keys) THEN <<>> ELSE rs[j].inv \o Cat(j + 1)
        IN mk(val, opv, Cat(1), mt, FALSE)

---------------------------------------------------------------------------
(* Whole program *)
Run(p) ==
    LET pl == ByName(p.pipelines, p.top.callee)
        q == [p EXCEPT !.structs = AllStructs(p)]
        args == [x \in {p.top.args[i].n : i \in DOMAIN p.top.args} |->
                    Conv(q, Lookup(pl.ins, x).t, Lookup(p.top.args, x).e.v)]
        apv == [x \in DOMAIN args |-> {}]
    IN EvalPipe(q, pl, args, apv, pl.name, <<>>, {})

Invocations(p) == Run(p).inv
TopOuts(p) == VObj(Run(p).outs)
===========================================================================

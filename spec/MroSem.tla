------------------------------ MODULE MroSem ------------------------------
(* Reference (denotational) semantics of MRO programs: DESIGN.md Appendix A.

   A program is data (the JSON form written by the shape generator and read
   with the Json module, see MroAst in DESIGN.md):

     p.structs   : Seq [name, fields : Seq [n, t]]
     p.stages    : Seq [name, ins, outs : Seq [n, t], split : BOOLEAN,
                        chunks : [k, ...], couts : Seq [n, t, r],
                        rules : Seq [n, r]]          (behaviour of the stage)
     p.pipelines : Seq [name, ins, outs : Seq [n, t],
                        calls : Seq [id, callee, binds : Seq [n, e], dis : e,
                                     mode, pre, vol],
                        ret : Seq [n, e]]            (calls in dependency order)
     p.top       : [callee, mode, args : Seq [n, e]]   (mode "none" | "array" | "map": a mapped top-level call)

   types        t = [b, a, m, ia]     base name, array dim, typed-map flag,
                                      array dim inside the typed map
   values       tagged records (distinct field per kind, so that sets and
                equality of mixed values are well defined in TLC):
                [k |-> "null"] [k |-> "bool", b] [k |-> "int", i]
                [k |-> "float", f] [k |-> "str", s] [k |-> "arr", a : Seq]
                [k |-> "obj", o : [STRING -> value]]
                [k |-> "file", p, n, c]  the file named n written by the
                join/main job (c = -1) or by chunk c of stage instance p; the
                real path is decided by the runtime.  [k |-> "fstr", ...]: a
                string-typed value holding such a path
   expressions  [k |-> "lit", v] [k |-> "self", id, path] [k |-> "ref", call,
                out, path] [k |-> "arrx", es] [k |-> "objx", fs : Seq [n, e]]
                [k |-> "split", e] [k |-> "none"]

   Everything below is a constant-level function of the program; TLC evaluates
   it in ASSUME / constant definitions and the harness compares the result with
   what the real runtime does. *)
EXTENDS Integers, Sequences, FiniteSets, TLC

Null == [k |-> "null"]
VBool(x) == [k |-> "bool", b |-> x]
VInt(x) == [k |-> "int", i |-> x]
VStr(x) == [k |-> "str", s |-> x]
VArr(x) == [k |-> "arr", a |-> x]
VObj(x) == [k |-> "obj", o |-> x]
VFile(inst, name, c) == [k |-> "file", p |-> inst, n |-> name, c |-> c]
VFStr(inst, name, c) == [k |-> "fstr", p |-> inst, n |-> name, c |-> c]
IsNull(v) == v.k = "null"
(* null, an empty collection, or a collection of such: what a disabled or empty
   mapped call may look like *)
RECURSIVE Nullish(_)
Nullish(v) == CASE v.k = "null" -> TRUE
                [] v.k = "arr" -> \A i \in DOMAIN v.a : Nullish(v.a[i])
                [] v.k = "obj" -> \A x \in DOMAIN v.o : Nullish(v.o[x])
                [] OTHER -> FALSE

Range(s) == {s[i] : i \in DOMAIN s}
SeqToFn(s) == [x \in {s[i].n : i \in DOMAIN s} |->
                 (CHOOSE j \in DOMAIN s : s[j].n = x /\ \A l \in 1..(j-1) : s[l].n # x)]
Lookup(s, name) == s[CHOOSE j \in DOMAIN s : s[j].n = name]
Has(s, name) == \E j \in DOMAIN s : s[j].n = name
ByName(s, name) == s[CHOOSE j \in DOMAIN s : s[j].name = name]
HasName(s, name) == \E j \in DOMAIN s : s[j].name = name

RECURSIVE SetToSortedSeq(_)
SetToSortedSeq(S) ==    \* strings have no order in TLA+; any fixed order will do
    IF S = {} THEN <<>>
    ELSE LET x == CHOOSE x \in S : TRUE IN <<x>> \o SetToSortedSeq(S \ {x})

RECURSIVE JoinStr(_, _)
JoinStr(s, sep) == IF s = <<>> THEN ""
                   ELSE IF Len(s) = 1 THEN s[1]
                   ELSE s[1] \o sep \o JoinStr(Tail(s), sep)

---------------------------------------------------------------------------
(* Types *)
TScalar(b) == [b |-> b, a |-> 0, m |-> 0, ia |-> 0]
TBool == TScalar("bool")
IsArr(t) == t.a > 0
IsTMap(t) == t.a = 0 /\ t.m = 1
Elem(t) == IF t.a > 0 THEN [t EXCEPT !.a = t.a - 1]
           ELSE [b |-> t.b, a |-> t.ia, m |-> 0, ia |-> 0]
IsStruct(p, t) == t.a = 0 /\ t.m = 0 /\ HasName(p.structs, t.b)
Fields(p, t) == ByName(p.structs, t.b).fields
ArrOf(t) == IF t.m = 1 /\ t.a = 0 THEN [t EXCEPT !.a = 1] ELSE [t EXCEPT !.a = t.a + 1]

(* Conversion at a binding: narrow structs to the declared fields. *)
RECURSIVE Conv(_, _, _)
Conv(p, t, v) ==
    IF IsNull(v) THEN v
    ELSE IF IsArr(t) THEN
        IF v.k = "arr" THEN VArr([i \in DOMAIN v.a |-> Conv(p, Elem(t), v.a[i])]) ELSE v
    ELSE IF IsTMap(t) THEN
        IF v.k = "obj" THEN VObj([x \in DOMAIN v.o |-> Conv(p, Elem(t), v.o[x])]) ELSE v
    ELSE IF IsStruct(p, t) THEN
        IF v.k = "obj" THEN
            LET fs == Fields(p, t) IN
            VObj([x \in {fs[i].n : i \in DOMAIN fs} |->
                    IF x \in DOMAIN v.o THEN Conv(p, Lookup(fs, x).t, v.o[x]) ELSE Null])
        ELSE v
    ELSE v

(* Projection of a path of struct fields through arrays and typed maps. *)
RECURSIVE Proj(_, _, _, _)
Proj(p, t, v, path) ==
    IF path = <<>> THEN v
    ELSE IF IsNull(v) THEN Null
    ELSE IF IsArr(t) THEN
        IF v.k = "arr" THEN VArr([i \in DOMAIN v.a |-> Proj(p, Elem(t), v.a[i], path)]) ELSE Null
    ELSE IF IsTMap(t) THEN
        IF v.k = "obj" THEN VObj([x \in DOMAIN v.o |-> Proj(p, Elem(t), v.o[x], path)]) ELSE Null
    ELSE IF IsStruct(p, t) /\ v.k = "obj" /\ Has(Fields(p, t), Head(path)) THEN
        Proj(p, Lookup(Fields(p, t), Head(path)).t,
             IF Head(path) \in DOMAIN v.o THEN v.o[Head(path)] ELSE Null, Tail(path))
    ELSE Null

RECURSIVE ProjType(_, _, _)
ProjType(p, t, path) ==
    IF path = <<>> THEN t
    ELSE IF IsArr(t) THEN ArrOf(ProjType(p, Elem(t), path))
    ELSE IF IsTMap(t) THEN
        LET e == ProjType(p, Elem(t), path) IN [b |-> e.b, a |-> 0, m |-> 1, ia |-> e.a]
    ELSE ProjType(p, Lookup(Fields(p, t), Head(path)).t, Tail(path))

---------------------------------------------------------------------------
(* Instance identities: "TOP.SUB.CALL[i,k]" *)
InstId(path, idx) == path \o "[" \o JoinStr(idx, ",") \o "]"

IsStage(p, name) == HasName(p.stages, name)

(* A call result: outputs with, per output, the set of stage instances that
   produced the data (provenance), plus the list of stage invocations made. *)
EmptyRes == [dis |-> TRUE, outs |-> <<>>, pv |-> <<>>, inv |-> <<>>, allpv |-> {}]

(* Behaviour rules of stages (uninterpreted-but-known functions). *)
(* fc: the chunk number recorded in file values (-1: the stage's own job) *)
RuleVal(r, args, inst, oname, ci, couts, fc) ==
    CASE r.k = "const" -> r.v
      [] r.k = "file"  -> VFile(inst, oname, fc)
      [] r.k = "fileodd" -> IF args[r.src].k = "int" /\ args[r.src].i % 2 = 1      \* a file for odd inputs, null otherwise
                            THEN VFile(inst, oname, fc) ELSE Null
      [] r.k = "files" -> VArr(<<VFile(inst, oname \o "_0", fc), VFile(inst, oname \o "_1", fc)>>)
      [] r.k = "fmap"  -> VObj(("a" :> VFile(inst, oname \o "_a", fc)) @@ ("b" :> VFile(inst, oname \o "_b", fc)))
      [] r.k = "files2d" -> VArr(<<VArr(<<VFile(inst, oname \o "_0_0", fc), VFile(inst, oname \o "_0_1", fc)>>),
                                    VArr(<<VFile(inst, oname \o "_1_0", fc)>>), VArr(<<>>)>>)
      [] r.k = "files3d" -> VArr(<<VArr(<<VArr(<<VFile(inst, oname \o "_0_0_0", fc), Null, VFile(inst, oname \o "_0_0_2", fc)>>),
                                          VArr(<<>>)>>),
                                    VArr(<<VArr(<<VFile(inst, oname \o "_1_0_0", fc)>>)>>)>>)     \* three dimensions, a null element, an empty row
      [] r.k = "fmapk" -> VObj([x \in {r.keys[i] : i \in DOMAIN r.keys} |-> VFile(inst, oname \o "_" \o x, fc)])   \* typed map with the given keys
      [] r.k = "fstrs" -> VArr(<<Null, VFStr(inst, oname \o "_1.dat", fc), VStr("not a path"), VFStr(inst, oname \o "_3.dat", fc)>>)   \* strings of which some hold paths
      [] r.k = "fstr"  -> VFStr(inst, oname \o ".dat", fc)
      [] r.k = "fmstruct" -> VObj(("a" :> VObj(("f" :> VFile(inst, oname \o "_a", fc)) @@ ("n" :> VInt(1))))
                                  @@ ("b" :> VObj(("f" :> VFile(inst, oname \o "_b", fc)) @@ ("n" :> VInt(2)))))
      [] r.k = "fmstructk" -> VObj([x \in {r.keys[i] : i \in DOMAIN r.keys} |->        \* such a map with the given keys
                                       VObj(("f" :> VFile(inst, oname \o "_" \o x, fc)) @@ ("n" :> VInt(1)))])
      [] r.k = "fastruct" -> VArr(<<VObj(("f" :> VFile(inst, oname \o "_0", fc)) @@ ("n" :> VInt(1))),
                                    VObj(("f" :> VFile(inst, oname \o "_1", fc)) @@ ("n" :> VInt(2)))>>)
      [] r.k = "files11" -> VArr([i \in 1..11 |-> VFile(inst, oname \o "_" \o ToString(i - 1), fc)])
      [] r.k = "fshards" -> VArr(<<VFile(inst, oname \o "_0.shd", fc), VFile(inst, oname \o "_2.shd", fc)>>)   \* files written under one-character names in a sub-directory
      [] r.k = "fmissing" -> VFile(inst, oname \o ".missing", fc)   \* names a file that was never written
      [] r.k = "flink" -> VFile(inst, oname \o ".lnk", fc)          \* a symbolic link to a file of the stage
      [] r.k = "flink2" -> VFile(inst, oname \o ".lnk2", fc)        \* a chain of relative links through sub-directories
      [] r.k = "fplink" -> VFile(inst, oname \o ".plnk", fc)       \* a relative link to the first file among the arguments
      [] r.k = "foutside" -> VFile(inst, oname \o ".outside", fc)  \* a file written outside the pipestance directory
      [] r.k = "fdlink" -> VFile(inst, oname \o ".rdl", fc)       \* a file below a link (in the files directory) to a directory elsewhere
      [] r.k = "fdlink2" -> VFile(inst, oname \o ".rdl2", fc)     \* the same through a second link inside the files directory
      [] r.k = "fsm" -> VObj(("label" :> VStr("x")) @@ ("m" :> VObj("k" :> VInt(1))) @@ ("f" :> VFile(inst, oname \o "_f", fc)))
      [] r.k = "dir"   -> VFile(inst, oname \o ".d", fc)      \* a directory holding two files
      [] r.k = "finside" -> VFile(inst, oname \o ".ind", fc)      \* the file a.dat inside the directory that is the stage's output d
      [] r.k = "fso" -> VObj(("f" :> VFile(inst, oname \o "_f", fc)) @@ ("o" :> VFile(inst, oname \o "_o.outside", fc)))   \* a struct {file f; file o}: o written outside the pipestance
      [] r.k = "fstruct" -> VObj(("f" :> VFile(inst, oname \o "_f", fc)) @@ ("n" :> VInt(7)))
      [] r.k = "echo"  -> args[r.src]
      [] r.k = "inst"  -> VStr(inst \o ":" \o oname)
      [] r.k = "ci"    -> VInt(ci)
      [] r.k = "collect" -> VArr([i \in DOMAIN couts |-> couts[i][r.src]])
      [] r.k = "len" -> IF args[r.src].k = "arr" THEN VInt(Len(args[r.src].a)) ELSE VInt(0)
      [] r.k = "arr2" -> IF args[r.src].k = "int"
                         THEN VArr(<<VInt(args[r.src].i * 10), VInt(args[r.src].i * 10 + 1)>>) ELSE Null
      [] r.k = "arrn" -> IF args[r.src].k = "int"     \* n elements
                         THEN VArr([i \in 1..args[r.src].i |-> VInt(args[r.src].i * 10 + i)]) ELSE Null

ChunkCount(st, args) ==
    IF ~st.split THEN 1
    ELSE CASE st.chunks.k = "fixed" -> st.chunks.c
           [] st.chunks.k = "len" -> IF args[st.chunks.src].k = "arr"
                                      THEN Len(args[st.chunks.src].a) ELSE 0

(* Run one stage instance: the invocations it makes and its outputs.
   A stage inside mapped pipelines has one fork per combination of the mapped
   dimensions its (transitively resolved) inputs and disabling conditions depend
   on - `dims` - not of all enclosing dimensions. *)
(* TLC applies [x \in S |-> e] lazily, re-evaluating e at every application;
   Tup forces a function over 1..n into a tuple of evaluated values. *)
RECURSIVE Tup(_, _, _)
Tup(f, i, n) == IF i > n THEN <<>> ELSE <<f[i]>> \o Tup(f, i + 1, n)

RECURSIVE Ghosts(_)
Ghosts(inv) == IF inv = <<>> THEN <<>>
               ELSE (IF \E i \in DOMAIN Head(inv).idx : Head(inv).idx[i] = "?" THEN <<>>
                     ELSE <<[Head(inv) EXCEPT !.ghost = TRUE]>>) \o Ghosts(Tail(inv))

RECURSIVE IdxOf(_, _)
IdxOf(cidx, dims) == IF cidx = <<>> THEN <<>>
                     ELSE (IF Head(cidx).d \in dims THEN <<Head(cidx).k>> ELSE <<>>)
                          \o IdxOf(Tail(cidx), dims)

StageRun(p, st, args, path, cidx, deps, dims, vol) ==
    LET idx == IdxOf(cidx, dims)
        inst == InstId(path, idx)
        n == ChunkCount(st, args)
        cargs(i) == IF st.split THEN [x \in DOMAIN args \cup {"ci"} |->
                                         IF x = "ci" THEN VInt(i - 1) ELSE args[x]]
                    ELSE args
        couts == [i \in 1..n |->
                    IF st.split /\ st.couts # <<>>
                    THEN [x \in {st.couts[j].n : j \in DOMAIN st.couts} |->
                            RuleVal(Lookup(st.couts, x).r, cargs(i), inst, x, i - 1, <<>>, i - 1)]
                    ELSE IF st.split
                    \* no declared chunk outputs: the chunks fill in the stage-level
                    \* outputs (here: every non-collecting output gets the chunk index)
                    THEN [x \in {st.rules[j].n : j \in {k \in DOMAIN st.rules : st.rules[k].r.k # "collect"}} |->
                            VInt(i - 1)]
                    ELSE [x \in {st.rules[j].n : j \in DOMAIN st.rules} |->
                            RuleVal(Lookup(st.rules, x).r, args, inst, x, 0, <<>>, -1)]]
        outs == IF st.split
                THEN [x \in {st.rules[j].n : j \in DOMAIN st.rules} |->
                        RuleVal(Lookup(st.rules, x).r, args, inst, x, 0, couts, -1)]
                ELSE couts[1]
        base == [inst |-> inst, call |-> path, idx |-> idx, nchunks |-> n, deps |-> deps, ghost |-> FALSE,
                 stage |-> st.name, vol |-> vol, svol |-> st.volatile]
        inv == (IF st.split THEN <<base @@ [kind |-> "split", chunk |-> 0, args |-> VObj(args),
                                            couts |-> Null, outs |-> Null]>> ELSE <<>>)
               \o [i \in 1..n |-> base @@ [kind |-> "main", chunk |-> i - 1, args |-> VObj(cargs(i)),
                                           couts |-> Null, outs |-> VObj(couts[i])]]
               \o (IF st.split THEN <<base @@ [kind |-> "join", chunk |-> 0, args |-> VObj(args),
                                               outs |-> VObj(outs),
                                               couts |-> VArr([i \in 1..n |-> VObj(couts[i])])]>> ELSE <<>>)
    IN [dis |-> FALSE, outs |-> outs, inv |-> inv, insts |-> {inst}, wk |-> FALSE,
        pv |-> [x \in DOMAIN outs |-> {inst}], dm |-> [x \in DOMAIN outs |-> dims]]

---------------------------------------------------------------------------
(* Expressions.  env = [self, selfpv, selfdm, selft : per parameter value /
   provenance / dimensions / type;  res : call id -> result]
   Every evaluated expression carries  v  (value), pv (the stage instances
   whose outputs it is made of) and dm (the mapped dimensions it varies with). *)

RECURSIVE Eval(_, _, _)
Eval(p, env, e) ==
    CASE e.k = "lit" -> [v |-> e.v, pv |-> {}, dm |-> {}]
      [] e.k = "self" ->
            [v |-> Proj(p, env.selft[e.id], env.self[e.id], e.path),
             pv |-> env.selfpv[e.id], dm |-> env.selfdm[e.id]]
      [] e.k = "ref" ->
            LET r == env.res[e.call] IN
            IF r.dis THEN [v |-> Null, pv |-> r.allpv,
                           dm |-> IF e.out = "" THEN r.alldm ELSE r.odm[e.out]]
            ELSE IF e.out = "" THEN [v |-> r.val, pv |-> r.allpv, dm |-> r.alldm]
            ELSE [v |-> Proj(p, r.t, r.val, <<e.out>> \o e.path),
                  pv |-> r.opv[e.out], dm |-> r.odm[e.out]]
      [] e.k = "arrx" ->
            LET xs == [i \in DOMAIN e.es |-> Eval(p, env, e.es[i])] IN
            [v |-> VArr([i \in DOMAIN xs |-> xs[i].v]), pv |-> UNION {xs[i].pv : i \in DOMAIN xs},
             dm |-> UNION {xs[i].dm : i \in DOMAIN xs}]
      [] e.k = "objx" ->
            LET xs == [i \in DOMAIN e.fs |-> Eval(p, env, e.fs[i].e)] IN
            [v |-> VObj([x \in {e.fs[i].n : i \in DOMAIN e.fs} |->
                           xs[CHOOSE i \in DOMAIN e.fs : e.fs[i].n = x].v]),
             pv |-> UNION {xs[i].pv : i \in DOMAIN xs}, dm |-> UNION {xs[i].dm : i \in DOMAIN xs}]
      [] e.k = "split" -> Eval(p, env, e.e)

Callee(p, name) == IF IsStage(p, name) THEN ByName(p.stages, name) ELSE ByName(p.pipelines, name)

StructTypeOfOuts(p, name) == [b |-> "@" \o name, a |-> 0, m |-> 0, ia |-> 0]

(* types of call results: one pseudo struct "@callee" per callable *)
AllStructs(p) == p.structs \o [i \in DOMAIN p.stages |-> [name |-> "@" \o p.stages[i].name, fields |-> p.stages[i].outs]]
                           \o [i \in DOMAIN p.pipelines |-> [name |-> "@" \o p.pipelines[i].name, fields |-> p.pipelines[i].outs]]

RECURSIVE EvalPipe(_, _, _, _, _)
RECURSIVE EvalCall(_, _, _, _, _, _)
RECURSIVE EvalCalls(_, _, _, _, _, _)

(* ctx = [idx   : Seq [d, k]  enclosing mapped dimensions with the current key,
          extra : instances every job below depends on (preflights, disabling
                  conditions, map sources of the enclosing calls),
          xdm   : dimensions every job below varies with (disabling conditions)]
   A = [v, pv, dm : per parameter] *)
EvalCallable(p, name, A, path, ctx) ==
    IF IsStage(p, name) THEN
        \* An argument that denotes null / an empty collection / a collection of
        \* nulls is not counted as a dependency: the value may be so whatever its
        \* producers do (null or empty source, disabled either way) and the
        \* resolver may know that statically.  This keeps
        \* Deps an under-approximation of the true data dependencies.
        StageRun(p, ByName(p.stages, name), A.v, path, ctx.idx,
                 UNION {A.pv[x] : x \in {y \in DOMAIN A.pv : ~Nullish(A.v[y])}} \cup ctx.extra,
                 UNION {A.dm[x] : x \in DOMAIN A.dm} \cup ctx.xdm, ctx.vol)
    ELSE EvalPipe(p, ByName(p.pipelines, name), A, path, ctx)

EvalPipe(p, pl, A, path, ctx) ==
    LET env0 == [self |-> A.v, selfpv |-> A.pv, selfdm |-> A.dm,
                 selft |-> [x \in DOMAIN A.v |-> Lookup(pl.ins, x).t], res |-> <<>>]
        \* every call that is not a preflight waits for all the preflight calls of the pipeline,
        \* wherever they are written (a preflight call takes no outputs of other calls): they
        \* are evaluated first
        plo == [pl EXCEPT !.calls = SelectSeq(pl.calls, LAMBDA c : c.pre) \o SelectSeq(pl.calls, LAMBDA c : ~c.pre)]
        done == EvalCalls(p, plo, env0, 1, path, ctx)
        rets == Tup([i \in DOMAIN pl.ret |-> Eval(p, done.env, pl.ret[i].e)], 1, Len(pl.ret))
        ri(x) == CHOOSE i \in DOMAIN pl.ret : pl.ret[i].n = x
        onames == {pl.ret[i].n : i \in DOMAIN pl.ret}
    IN [dis |-> FALSE,
        outs |-> [x \in onames |-> Conv(p, Lookup(pl.outs, x).t, rets[ri(x)].v)],
        pv |-> [x \in onames |-> rets[ri(x)].pv],
        dm |-> [x \in onames |-> rets[ri(x)].dm],
        \* the retain declaration of the pipeline: a pseudo invocation whose
        \* "arguments" are the retained values (removed again by the table writers)
        inv |-> done.inv \o (IF pl.retain = <<>> THEN <<>>
                              ELSE LET rv == Tup([i \in DOMAIN pl.retain |-> Eval(p, done.env, pl.retain[i]).v], 1, Len(pl.retain))
                                   IN <<[inst |-> InstId(path, [i \in DOMAIN ctx.idx |-> ctx.idx[i].k]), call |-> path,
                                         idx |-> <<>>, nchunks |-> 0, deps |-> {}, ghost |-> FALSE, stage |-> "", svol |-> "",
                                         vol |-> FALSE, kind |-> "retain", chunk |-> 0, args |-> VArr(rv),
                                         couts |-> Null, outs |-> Null]>>),
        insts |-> {done.inv[i].inst : i \in DOMAIN done.inv}, wk |-> done.wk]

(* evaluate calls k..n of pipeline pl in order, threading env and invocations *)
EvalCalls(p, pl, env, k, path, ctx) ==
    IF k > Len(pl.calls) THEN [env |-> env, inv |-> <<>>, wk |-> FALSE]
    ELSE
      LET c == pl.calls[k]
          \* every non-preflight call depends on the preflight calls of this pipeline
          prepv == IF c.pre THEN {}
                   ELSE UNION {env.res[pl.calls[j].id].insts :
                                 j \in {j \in 1..(k-1) : pl.calls[j].pre}}
          r == EvalCall(p, pl, env, c, path, [ctx EXCEPT !.extra = ctx.extra \cup prepv])
          env2 == [env EXCEPT !.res = (c.id :> r) @@ env.res]
          rest == EvalCalls(p, pl, env2, k + 1, path, ctx)
      IN [env |-> rest.env, inv |-> r.inv \o rest.inv, wk |-> r.wk \/ rest.wk]

EvalCall(p, pl, env, c, path, ctx) ==
    LET callee == Callee(p, c.callee)
        cpath == IF path = "" THEN c.id ELSE path \o "." \o c.id      \* (no enclosing pipeline: a mapped top-level call)
        ot == StructTypeOfOuts(p, c.callee)
        onames == {callee.outs[i].n : i \in DOMAIN callee.outs}
        dv == IF c.dis.k = "none" THEN [v |-> VBool(FALSE), pv |-> {}, dm |-> {}] ELSE Eval(p, env, c.dis)
        isdis == dv.v.k = "bool" /\ dv.v.b
        bs == Tup([i \in DOMAIN c.binds |-> Eval(p, env, c.binds[i].e)], 1, Len(c.binds))
        bname(i) == c.binds[i].n
        bi(x) == CHOOSE i \in DOMAIN c.binds : bname(i) = x
        pnames == {bname(i) : i \in DOMAIN c.binds}
        ptype(n) == Lookup(callee.ins, n).t
        splits == {i \in DOMAIN c.binds : c.binds[i].e.k = "split"}
        mk(val, opv, odm, inv, t, dis, wk) ==
            [dis |-> dis, val |-> val, opv |-> opv, odm |-> odm, inv |-> inv, t |-> t, wk |-> wk,
             insts |-> {inv[i].inst : i \in DOMAIN inv},
             allpv |-> IF dis THEN dv.pv \cup ctx.extra ELSE UNION {opv[o] : o \in DOMAIN opv},
             alldm |-> UNION {odm[o] : o \in DOMAIN odm} \cup (IF dis THEN dv.dm \cup ctx.xdm ELSE {})]
        inner == [ctx EXCEPT !.extra = ctx.extra \cup dv.pv, !.xdm = ctx.xdm \cup dv.dm, !.vol = c.vol]
    IN
    IF c.mode = "none" THEN
        LET A == [v |-> [x \in pnames |-> Conv(p, ptype(x), bs[bi(x)].v)],
                  pv |-> [x \in pnames |-> bs[bi(x)].pv],
                  dm |-> [x \in pnames |-> bs[bi(x)].dm]]
            r == EvalCallable(p, c.callee, A, cpath, inner)
        IN
        \* which dimensions a result varies with is a static matter: a disabled
        \* call has the dimensions it would have had
        IF isdis THEN mk(Null, [o \in onames |-> dv.pv], [o \in onames |-> r.dm[o] \cup dv.dm], <<>>, ot, TRUE, r.wk)
        ELSE mk(VObj(r.outs), [o \in onames |-> r.pv[o] \cup dv.pv], [o \in onames |-> r.dm[o] \cup dv.dm],
              r.inv, ot, FALSE, r.wk)
    ELSE
        \* mapped call: keys = indices (arrays) or keys (typed maps) of the split sources
        LET anynull == \E i \in splits : IsNull(bs[i].v)
            first == bs[CHOOSE i \in splits : TRUE].v
            keys == IF anynull THEN <<>>
                    ELSE IF c.mode = "array" THEN [i \in DOMAIN first.a |-> i]
                    ELSE SetToSortedSeq(DOMAIN first.o)
            elemOf(v, key) == IF c.mode = "array" THEN v.a[key] ELSE v.o[key]
            keystr(key) == IF c.mode = "array" THEN ToString(key - 1) ELSE key
            \* the number of forks (and the keys) comes from the collections the call is
            \* mapped over; with several zipped collections the runtime may take it from
            \* any one of them (a literal one needs no producer at all), so only the
            \* producers common to all of them are demanded
            spv == {x \in UNION {bs[i].pv : i \in splits} : \A i \in splits : x \in bs[i].pv}
            sdm == UNION {bs[i].dm : i \in splits}
            one(key) ==
                LET A == [v |-> [x \in pnames |->
                                   IF bi(x) \in splits THEN Conv(p, ptype(x), elemOf(bs[bi(x)].v, key))
                                   ELSE Conv(p, ptype(x), bs[bi(x)].v)],
                          pv |-> [x \in pnames |-> bs[bi(x)].pv],
                          dm |-> [x \in pnames |-> IF bi(x) \in splits THEN bs[bi(x)].dm \cup {cpath}
                                                   ELSE bs[bi(x)].dm]]
                IN EvalCallable(p, c.callee, A, cpath,
                                \* a job below depends on the collection through the
                                \* element it receives (pv of the split argument); with
                                \* several zipped collections the runtime may take the
                                \* fork count from any one of them, so nothing more is
                                \* demanded here
                                [inner EXCEPT !.idx = ctx.idx \o <<[d |-> cpath, k |-> keystr(key)]>>])
            rs == Tup([j \in DOMAIN keys |-> one(keys[j])], 1, Len(keys))
            \* the static dimensions of the result, also when there is no element
            probe == LET A == [v |-> [x \in pnames |->
                                        IF bi(x) \in splits THEN Null ELSE Conv(p, ptype(x), bs[bi(x)].v)],
                               pv |-> [x \in pnames |-> {}],
                               dm |-> [x \in pnames |-> IF bi(x) \in splits THEN bs[bi(x)].dm \cup {cpath}
                                                        ELSE bs[bi(x)].dm]]
                     IN EvalCallable(p, c.callee, A, cpath,
                                     [inner EXCEPT !.idx = ctx.idx \o <<[d |-> cpath, k |-> "?"]>>])
            mt == IF c.mode = "array" THEN [ot EXCEPT !.a = 1] ELSE [ot EXCEPT !.m = 1]
            val == IF anynull THEN Null
                   ELSE IF c.mode = "array" THEN VArr([j \in DOMAIN keys |-> VObj(rs[j].outs)])
                   ELSE VObj([x \in Range(keys) |->
                                VObj(rs[CHOOSE j \in DOMAIN keys : keys[j] = x].outs)])
            \* The merged output o depends on the producers of the collection(s) it is
            \* merged over.  When o does not vary with this dimension (no stage forked
            \* by this call contributes to it) the dependency is marked "~": the
            \* runtime is known not to honour it (finding "unforked-merge").
            forked(o) == IF keys = <<>> THEN cpath \in probe.dm[o]
                         ELSE \E j \in DOMAIN keys : cpath \in rs[j].dm[o]
            \* ... unless the collection is itself the result of a mapped call of the same
            \* pipeline: then the runtime has a fork node to wait for (MergeExp.ForkNode)
            srcMapped == \E i \in splits : LET e == c.binds[i].e.e IN
                            e.k = "ref" /\ \E j \in DOMAIN pl.calls : pl.calls[j].id = e.call /\ pl.calls[j].mode # "none"
            honoured(o) == forked(o) \/ srcMapped
            opv == [o \in onames |-> (IF honoured(o) THEN spv ELSE {"~" \o x : x \in spv})
                                     \cup dv.pv \cup UNION {rs[j].pv[o] : j \in DOMAIN keys}]
            odm == [o \in onames |-> sdm \cup dv.dm \cup (((IF keys = <<>> THEN probe.dm[o] ELSE {}) \cup UNION {rs[j].dm[o] : j \in DOMAIN keys}) \ {cpath})]
            RECURSIVE Cat(_)
            Cat(j) == IF j > Len(keys) THEN <<>> ELSE rs[j].inv \o Cat(j + 1)
            \* Observed behaviour of the runtime, recorded as a finding (C03): with no
            \* element at all, stages below that do not vary with this dimension are
            \* still executed once.  They are listed as "ghost" invocations.
            ghosts == IF keys # <<>> THEN <<>> ELSE Ghosts(probe.inv)
            \* does the known defect "unforked-merge" concern this program?
            wk == (spv # {} /\ \E o \in onames : ~honoured(o))
                  \/ (\E j \in DOMAIN keys : rs[j].wk) \/ (keys = <<>> /\ probe.wk)
        IN IF isdis THEN mk(Null, [o \in onames |-> dv.pv], odm, <<>>, mt, TRUE, wk)
           ELSE mk(val, opv, odm, Cat(1) \o ghosts, mt, FALSE, wk)

---------------------------------------------------------------------------
(* Whole program *)
(* a stage that does not vary with an enclosing dimension is evaluated once per
   element by the compositional definition above but is one instance: keep the
   first occurrence of every (instance, kind, chunk) *)
RECURSIVE Dedup(_, _)
Dedup(inv, seen) ==
    IF inv = <<>> THEN <<>>
    ELSE LET h == Head(inv)
             key == <<h.inst, h.kind, h.chunk>>
         IN IF key \in seen THEN Dedup(Tail(inv), seen)
            ELSE <<h>> \o Dedup(Tail(inv), seen \cup {key})

(* a mapped top-level call (`map call TOP(x = split [...])` as the invocation): the call
   evaluated like a mapped call of a pipeline without calls around it; `outs` is keyed by
   the fork ("0", "1", ... or the keys of the map), topval is the recorded value - an array
   or a map of one struct of outputs per fork *)
RunMapped(q, pl, top) ==
    LET c == [id |-> pl.name, callee |-> pl.name, binds |-> top.args, dis |-> [k |-> "none"],
              mode |-> top.mode, pre |-> FALSE, vol |-> FALSE]
        root == [name |-> "", ins |-> <<>>, outs |-> <<>>, calls |-> <<c>>, ret |-> <<>>, retain |-> <<>>]
        env0 == [self |-> <<>>, selfpv |-> <<>>, selfdm |-> <<>>, selft |-> <<>>, res |-> <<>>]
        r == EvalCall(q, root, env0, c, "", [idx |-> <<>>, extra |-> {}, xdm |-> {}, vol |-> FALSE])
        keyed == IF IsNull(r.val) THEN <<>>
                 ELSE IF top.mode = "array" THEN [k \in {ToString(i - 1) : i \in DOMAIN r.val.a} |->
                                                    r.val.a[CHOOSE i \in DOMAIN r.val.a : ToString(i - 1) = k]]
                 ELSE r.val.o
    IN [outs |-> keyed, topval |-> r.val, inv |-> Dedup(r.inv, {}), wk |-> r.wk]

Run(p) ==
    LET pl == ByName(p.pipelines, p.top.callee)
        q == [p EXCEPT !.structs = AllStructs(p)]
        pn == {p.top.args[i].n : i \in DOMAIN p.top.args}
        A == [v |-> [x \in pn |-> Conv(q, Lookup(pl.ins, x).t, Lookup(p.top.args, x).e.v)],
              pv |-> [x \in pn |-> {}], dm |-> [x \in pn |-> {}]]
        r == EvalPipe(q, pl, A, pl.name, [idx |-> <<>>, extra |-> {}, xdm |-> {}, vol |-> FALSE])
    IN IF p.top.mode # "none" THEN RunMapped(q, pl, p.top)
       ELSE [r EXCEPT !.inv = Dedup(r.inv, {})]
(* the top-level outputs as recorded *)
TopValue(p, r) == IF p.top.mode # "none" THEN r.topval ELSE VObj(r.outs)

(* Files (C04, C13, C14) *)
RECURSIVE FilesIn(_)
FilesIn(v) == CASE v.k \in {"file", "fstr"} -> {[v EXCEPT !.k = "file"]}
                [] v.k = "arr" -> UNION {FilesIn(v.a[i]) : i \in DOMAIN v.a}
                [] v.k = "obj" -> UNION {FilesIn(v.o[x]) : x \in DOMAIN v.o}
                [] OTHER -> {}
JobKey(iv) == iv.inst \o "/" \o iv.kind \o "/" \o ToString(iv.chunk)
(* per file: who writes it, which jobs are handed it, whether the top-level
   outputs or a retain declaration name it *)
FileFacts(p, r) ==
    LET real == {i \in DOMAIN r.inv : r.inv[i].kind # "retain" /\ ~r.inv[i].ghost}
        written == UNION {IF IsNull(r.inv[i].outs) THEN {} ELSE
                            {f \in FilesIn(r.inv[i].outs) : f.p = r.inv[i].inst
                               /\ f.c = (IF r.inv[i].kind = "main" /\ r.inv[i].nchunks >= 0
                                             /\ ByName(p.stages, r.inv[i].stage).split THEN r.inv[i].chunk ELSE -1)}
                          : i \in real}
        retained == UNION {FilesIn(r.inv[i].args) : i \in {j \in DOMAIN r.inv : r.inv[j].kind = "retain"}}
                    \cup UNION {LET st == ByName(p.stages, r.inv[i].stage) IN
                                IF IsNull(r.inv[i].outs) \/ (st.split /\ r.inv[i].kind # "join") THEN {}
                                ELSE UNION {FilesIn(r.inv[i].outs.o[st.retain[k]]) : k \in DOMAIN st.retain}
                                : i \in real}
        top == FilesIn(VObj(r.outs))
        users(f) == {i \in real : f \in FilesIn(r.inv[i].args)
                                   \/ (r.inv[i].kind = "join" /\ f \in FilesIn(r.inv[i].couts))}
        writer(f) == CHOOSE i \in real : ~IsNull(r.inv[i].outs) /\ f \in FilesIn(r.inv[i].outs) /\ f.p = r.inv[i].inst
                        /\ f.c = (IF r.inv[i].kind = "main" /\ ByName(p.stages, r.inv[i].stage).split THEN r.inv[i].chunk ELSE -1)
    IN SetToSortedSeq({[f |-> f, writer |-> JobKey(r.inv[writer(f)]),
                        users |-> SetToSortedSeq({JobKey(r.inv[i]) : i \in users(f)}),
                        top |-> f \in top, retained |-> f \in retained,
                        vol |-> r.inv[writer(f)].vol,
                        svol |-> ByName(p.stages, r.inv[writer(f)].stage).volatile] : f \in written})

Invocations(p) == Run(p).inv
TopOuts(p) == VObj(Run(p).outs)
===========================================================================

SPECIFICATION TraceSpec
CONSTANTS
  Mrp = {"a", "b"}
  RemoveWhenRefused = FALSE
INVARIANTS OneHolder HolderIntact
POSTCONDITION TraceAccepted
CHECK_DEADLOCK FALSE

SPECIFICATION Spec
CONSTANTS
  Clients = {1, 2, 3, 4}
  MaxSize = 6
  Amounts = {0, 1, 2, 3, 4, 7}
  Avail <- MCAvailBig
VIEW View
INVARIANTS TypeOK Accounting WithinLimits NoLostWakeup
PROPERTIES GrantFits Fifo

CONSTANT N = 2
CONSTANT Alphabet <- FullAlphabet

SPECIFICATION Spec
CONSTANTS
  N = 2
  MaxRetries = 0
  Forever = 99
INVARIANTS Bounded NoRetryOfPermanent Predicted
PROPERTIES Terminates
CHECK_DEADLOCK FALSE

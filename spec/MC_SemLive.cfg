SPECIFICATION SpecLive
CONSTANTS
  Clients = {1, 2, 3}
  MaxSize = 4
  Amounts = {0, 1, 2, 3, 5}
  Avail = {0}
INVARIANTS WithinLimits NoLostWakeup
PROPERTIES EventuallyServed

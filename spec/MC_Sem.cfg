SPECIFICATION Spec
CONSTANTS
  Clients = {1, 2, 3}
  MaxSize = 4
  Amounts = {0, 1, 2, 3, 5}
  Avail <- MCAvail
VIEW View
INVARIANTS TypeOK Accounting WithinLimits NoLostWakeup
PROPERTIES GrantFits Fifo

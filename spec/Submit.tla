------------------------------- MODULE Submit -------------------------------
(* Handing a job to a cluster, and what a restarted mrp makes of what it finds (C05,
   cluster mode): martian/core/jobmanager_remote.go RemoteJobManager.sendJob,
   Node.runJob, and the reset at re-attach (Metadata.restartQueuedLocal /
   Pipestance.RestartLocalJobs -> a job that still carries `_queued_locally` was
   never handed over: its directory is reset and it is queued again).

     Queue(j)         mrp writes _queued_locally and queues the job internally
     SubmitStart(j)   sendJob starts the submit command (qsub ...);
                      RemoveFirst: the sentinel is removed BEFORE the command starts
                      (the code as found), otherwise only after it returned
     Accept(j)        the scheduler starts an instance of the job - any time after the
                      submit command was started, also when mrp is gone by then (the
                      command is a process of its own)
     SubmitReturn(j)  the command returns, sendJob records the job id
     Finish(j)        the instance ends and writes _complete (the job monitor does,
                      mrp need not be there)
     Crash            mrp is killed outright: everything in memory is gone
     Restart          a new mrp loads the directory: complete jobs are complete, jobs
                      with the sentinel are reset (directory wiped) and will be queued
                      again, the others are waited for
     GiveUp(j)        a job that is waited for and does not exist on the cluster fails
                      (heartbeat / queue query) and is reset by the next attempt

   Checked: a job whose completion has been recorded is never started again, and no
   job has two instances, over all interleavings of these steps for two jobs and up
   to MaxCrash kills.  With RemoveFirst = FALSE both fail (SubmitBad.cfg): kill mrp
   between Accept and SubmitReturn. *)
EXTENDS Integers, FiniteSets

CONSTANTS Jobs, RemoveFirst, MaxCrash

VARIABLES up,        \* is an mrp running
          st,        \* mrp's view of each job: "idle", "queued", "sending", "sent", "done" (lost at Crash)
          sentinel,  \* _queued_locally on disk
          complete,  \* _complete on disk
          cmd,       \* is the submit command for the job running (a process of its own)
          inst,      \* instances of the job that were started
          live,      \* instances running now
          recorded,  \* completion has been recorded at some time (history)
          redo,      \* an instance was started after completion had been recorded (history)
          crashes, last

vars == <<up, st, sentinel, complete, cmd, inst, live, recorded, redo, crashes, last>>

Init == /\ up = TRUE /\ st = [j \in Jobs |-> "idle"]
        /\ sentinel = [j \in Jobs |-> FALSE] /\ complete = [j \in Jobs |-> FALSE]
        /\ cmd = [j \in Jobs |-> FALSE] /\ inst = [j \in Jobs |-> 0] /\ live = [j \in Jobs |-> 0]
        /\ recorded = [j \in Jobs |-> FALSE] /\ redo = [j \in Jobs |-> FALSE]
        /\ crashes = 0 /\ last = <<"init", CHOOSE j \in Jobs : TRUE>>

Queue(j) == /\ up /\ st[j] = "idle" /\ ~complete[j]
            /\ sentinel' = [sentinel EXCEPT ![j] = TRUE]
            /\ st' = [st EXCEPT ![j] = "queued"] /\ last' = <<"Queue", j>>
            /\ UNCHANGED <<up, complete, cmd, inst, live, recorded, redo, crashes>>
SubmitStart(j) == /\ up /\ st[j] = "queued"
                  /\ sentinel' = IF RemoveFirst THEN [sentinel EXCEPT ![j] = FALSE] ELSE sentinel
                  /\ cmd' = [cmd EXCEPT ![j] = TRUE]
                  /\ st' = [st EXCEPT ![j] = "sending"] /\ last' = <<"SubmitStart", j>>
                  /\ UNCHANGED <<up, complete, inst, live, recorded, redo, crashes>>
Accept(j) == /\ cmd[j]
             /\ cmd' = [cmd EXCEPT ![j] = FALSE]
             /\ inst' = [inst EXCEPT ![j] = @ + 1] /\ live' = [live EXCEPT ![j] = @ + 1]
             /\ redo' = [redo EXCEPT ![j] = @ \/ recorded[j]]
             /\ last' = <<"Accept", j>>
             /\ UNCHANGED <<up, st, sentinel, complete, recorded, crashes>>
SubmitReturn(j) == /\ up /\ st[j] = "sending" /\ ~cmd[j]
                   /\ sentinel' = [sentinel EXCEPT ![j] = FALSE]
                   /\ st' = [st EXCEPT ![j] = "sent"] /\ last' = <<"SubmitReturn", j>>
                   /\ UNCHANGED <<up, complete, cmd, inst, live, recorded, redo, crashes>>
Finish(j) == /\ live[j] > 0
             /\ live' = [live EXCEPT ![j] = @ - 1]
             /\ complete' = [complete EXCEPT ![j] = TRUE] /\ recorded' = [recorded EXCEPT ![j] = TRUE]
             /\ last' = <<"Finish", j>>
             /\ UNCHANGED <<up, st, sentinel, cmd, inst, redo, crashes>>
Notice(j) == /\ up /\ st[j] \in {"sending", "sent"} /\ complete[j] /\ ~cmd[j]
             /\ st' = [st EXCEPT ![j] = "done"] /\ sentinel' = [sentinel EXCEPT ![j] = FALSE]
             /\ last' = <<"Notice", j>>
             /\ UNCHANGED <<up, complete, cmd, inst, live, recorded, redo, crashes>>
Crash == /\ up /\ crashes < MaxCrash
         /\ up' = FALSE /\ crashes' = crashes + 1
         /\ st' = [j \in Jobs |-> "lost"] /\ last' = <<"Crash", CHOOSE j \in Jobs : TRUE>>
         /\ UNCHANGED <<sentinel, complete, cmd, inst, live, recorded, redo>>
(* what the new mrp makes of each job directory *)
Found(j) == IF sentinel[j] THEN "idle" ELSE IF complete[j] THEN "done" ELSE "sent"
Restart == /\ ~up
           /\ up' = TRUE
           /\ st' = [j \in Jobs |-> Found(j)]
           /\ complete' = [j \in Jobs |-> IF sentinel[j] THEN FALSE ELSE complete[j]]     \* (reset wipes the directory)
           /\ sentinel' = [j \in Jobs |-> FALSE]
           /\ last' = <<"Restart", CHOOSE j \in Jobs : TRUE>>
           /\ UNCHANGED <<cmd, inst, live, recorded, redo, crashes>>
GiveUp(j) == /\ up /\ st[j] = "sent" /\ ~complete[j] /\ live[j] = 0 /\ ~cmd[j]
             /\ st' = [st EXCEPT ![j] = "idle"] /\ last' = <<"GiveUp", j>>
             /\ UNCHANGED <<up, sentinel, complete, cmd, inst, live, recorded, redo, crashes>>

Next == \/ \E j \in Jobs : Queue(j) \/ SubmitStart(j) \/ Accept(j) \/ SubmitReturn(j) \/ Finish(j) \/ Notice(j) \/ GiveUp(j)
        \/ Crash \/ Restart
Spec == Init /\ [][Next]_vars
        /\ \A j \in Jobs : WF_vars(Queue(j) \/ SubmitStart(j) \/ Accept(j) \/ SubmitReturn(j) \/ Finish(j) \/ Notice(j) \/ GiveUp(j))
        /\ WF_vars(Restart)

TypeOK == /\ st \in [Jobs -> {"idle", "queued", "sending", "sent", "done", "lost"}]
          /\ \A j \in Jobs : live[j] <= inst[j]
(* C05: jobs whose completion had been recorded are not executed again *)
NoRedo == \A j \in Jobs : ~redo[j]
(* no job runs twice at a time *)
OneInstance == \A j \in Jobs : live[j] <= 1
(* the sentinel is gone before an instance can exist: what carries it was never handed over *)
SentinelMeansNotHandedOver == RemoveFirst => \A j \in Jobs : sentinel[j] => ~cmd[j] /\ (st[j] = "queued" \/ ~up)
(* every job ends complete and known as such *)
AllDone == <>[](up /\ \A j \in Jobs : st[j] = "done" /\ complete[j])
=============================================================================

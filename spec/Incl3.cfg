CONSTANT MaxLen = 3

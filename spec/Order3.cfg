CONSTANTS
  K = 3

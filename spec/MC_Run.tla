------------------------------ MODULE MC_Run ------------------------------
EXTENDS MrpRun
(* small programs for the exhaustive configurations *)
\* A (splits) -> B
ChainNodes == {"A", "B"}
ChainPre == [n \in ChainNodes |-> IF n = "B" THEN {"A"} ELSE {}]
ChainSplits == [n \in ChainNodes |-> n = "A"]
NoDyn == [n \in ChainNodes |-> ""]
\* A -> map call B over A's output (fork count known at run time)
DynB == [n \in ChainNodes |-> IF n = "B" THEN "A" ELSE ""]
NoSplits == [n \in ChainNodes |-> FALSE]
\* A -> B disabled by A's boolean output
DisB == [n \in ChainNodes |-> IF n = "B" THEN "A" ELSE ""]
\* three nodes: A -> B, C independent
TriNodes == {"A", "B", "C"}
TriPre == [n \in TriNodes |-> IF n = "B" THEN {"A"} ELSE {}]
TriNone == [n \in TriNodes |-> ""]
TriSplits == [n \in TriNodes |-> FALSE]
\* programs mirroring catalogue shapes (lib/shapes.py), used to generate schedules
\* map_dyn*:  G -> map call A over G's output -> R
MapNodes == {"G", "A", "R"}
MapPre == [n \in MapNodes |-> IF n = "A" THEN {"G"} ELSE IF n = "R" THEN {"A", "G"} ELSE {}]
MapDyn == [n \in MapNodes |-> IF n = "A" THEN "G" ELSE ""]
MapNone == [n \in MapNodes |-> ""]
MapSplits == [n \in MapNodes |-> FALSE]
\* split*:  S (splits) -> R
SplitNodes == {"S", "R"}
SplitPre == [n \in SplitNodes |-> IF n = "R" THEN {"S"} ELSE {}]
SplitSplits == [n \in SplitNodes |-> n = "S"]
SplitNone == [n \in SplitNodes |-> ""]
\* dis_*:  F -> A disabled by F's flag -> B ; C independent
DisNodes == {"F", "A", "B", "C"}
DisPre == [n \in DisNodes |-> IF n = "A" THEN {"F"} ELSE IF n = "B" THEN {"A", "F"} ELSE {}]
DisDis == [n \in DisNodes |-> IF n = "A" THEN "F" ELSE ""]
DisNone == [n \in DisNodes |-> ""]
DisSplits == [n \in DisNodes |-> FALSE]

NeverComplete == result # "complete"
===========================================================================

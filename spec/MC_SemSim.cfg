SPECIFICATION Spec
CONSTANTS
  Clients = {1, 2, 3, 4}
  MaxSize = 4
  Amounts = {0, 1, 2, 3, 5}
  Avail <- MCAvail

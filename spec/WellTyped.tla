----------------------------- MODULE WellTyped -----------------------------
(* Which bindings the compiler must accept (C07): the typing rules of
   martian/syntax (IsAssignableFrom per type, reference type resolution with
   struct projection through arrays and typed maps, the dimension a mapped call
   adds) as predicates over the MroTypes universe.  TLC writes one row per
   (consumer parameter type t, producer expression) with the verdict; the
   harness renders each row as a program and compiles it with the real
   compiler.  The run-time half of the property (what an accepted program
   delivers validates against t) is MroTypes' theorem that Assignable(t, s)
   implies Valid(t, Filter(t, v)) for valid v of s, replayed in C17, plus
   strict-mode runs of the C01 corpus. *)
EXTENDS MroTypes

(* a struct-based type: projection paths through it *)
StructBase(t) == t.b \in StructNames
RECURSIVE PathsOf(_, _)
PathsOf(name, depth) ==     \* field paths of struct `name`, up to depth
    LET fs == ByName(Structs, name).fields IN
    UNION {{<<fs[i].n>>} \cup (IF depth > 1 /\ fs[i].t.b \in StructNames /\ fs[i].t.a = 0 /\ fs[i].t.m = 0
                                THEN {<<fs[i].n>> \o q : q \in PathsOf(fs[i].t.b, depth - 1)} ELSE {})
           : i \in DOMAIN fs}

(* a typed map of typed maps does not exist; arrays of anything do *)
ValidType(t) == ~(t.m = 1 /\ t.a = 0 /\ FALSE)
MapOf(s) == [b |-> s.b, a |-> 0, m |-> 1, ia |-> s.a]     \* only for s.m = 0
ArrOf2(s) == [s EXCEPT !.a = s.a + 1]

(* a member that is itself a typed map cannot be projected through a typed map: a map of maps
   is no type (through arrays it can) *)
RECURSIVE ProjDefined(_, _, _)
ProjDefined(p, t, path) ==
    IF path = <<>> THEN TRUE
    ELSE IF IsArr(t) THEN ProjDefined(p, Elem(t), path)
    ELSE IF IsTMap(t) THEN ProjDefined(p, Elem(t), path) /\ ProjType(p, Elem(t), path).m = 0
    ELSE ProjDefined(p, Lookup(Fields(p, t), Head(path)).t, Tail(path))

RefRows == {[kind |-> "ref", t |-> t, s |-> s, path |-> <<>>, ok |-> Assignable(t, s)] : t \in Types, s \in Types}
ProjRows == UNION {{[kind |-> "proj", t |-> t, s |-> s, path |-> p,
                     ok |-> ProjDefined(P, s, p) /\ Assignable(t, ProjType(P, s, p))] : t \in Types, p \in PathsOf(s.b, 2)}
                   : s \in {x \in Types : StructBase(x)}}
MapRows == {[kind |-> "maparr", t |-> t, s |-> s, path |-> <<>>, ok |-> Assignable(t, ArrOf2(s))] : t \in Types, s \in {x \in Types : x.a <= 1}}
           \cup {[kind |-> "mapmap", t |-> t, s |-> s, path |-> <<>>, ok |-> Assignable(t, MapOf(s))]
                 : t \in Types, s \in {x \in Types : x.m = 0 /\ x.a <= 1}}

(* a member projected out of the result of a mapped call: the projection is typed first,
   then the call's dimension is added - over a typed map only if that does not nest maps *)
MapProjRows ==
    UNION {{[kind |-> "maparrproj", t |-> t, s |-> s, path |-> p,
             ok |-> Assignable(t, ArrOf2(ProjType(P, s, p)))] : t \in Types, p \in PathsOf(s.b, 2)}
           \cup {[kind |-> "mapmapproj", t |-> t, s |-> s, path |-> p,
                  ok |-> LET pt == ProjType(P, s, p) IN pt.m = 0 /\ Assignable(t, MapOf(pt))] : t \in Types, p \in PathsOf(s.b, 2)}
           : s \in {x \in Types : StructBase(x) /\ x.a = 0 /\ x.m = 0}}

(* a call mapped over a reference: the parameter takes the element of the outer
   collection (the array, if the type is an array of typed maps) *)
SplitRows == {[kind |-> "split", t |-> t, s |-> s, path |-> <<>>, ok |-> Assignable(t, Elem(s))]
              : t \in Types, s \in {x \in Types : IsArr(x) \/ IsTMap(x)}}

(* literals: what the compiler accepts must validate at run time *)
LitRows == UNION {{[kind |-> "lit", t |-> t, v |-> v, valid |-> Valid(t, v)] : v \in Values(t)} : t \in Types}


(* which parameters a call statement supplies: a call (of a stage, of a pipeline, the
   top-level call) is well-typed exactly when the names it binds are the callee's
   declared inputs - nothing missing (this includes the call with no bindings at all),
   nothing unknown; a return statement likewise for the declared outputs *)
ArityNames == {"a", "b"}
ArityRows == {[kind |-> "arity", where |-> w, decl |-> SetSeq(D), given |-> SetSeq(G), ok |-> G = D]
              : w \in {"stage", "pipeline", "top", "return"}, D \in SUBSET ArityNames, G \in SUBSET (ArityNames \cup {"c"})}
ASSUME \A r \in ArityRows : (r.given = <<>> /\ r.decl # <<>>) => ~r.ok

(* sanity: projecting a type and then asking for exactly that type is accepted *)
ASSUME \A s \in {x \in Types : StructBase(x)} : \A p \in PathsOf(s.b, 2) :
          LET pt == ProjType(P, s, p) IN pt \in Types => Assignable(pt, pt)

ASSUME ndJsonSerialize("wt_rows.ndjson", SetSeq(RefRows \cup ProjRows \cup MapRows \cup MapProjRows \cup SplitRows))
ASSUME ndJsonSerialize("wt_lits.ndjson", SetSeq(LitRows))
ASSUME ndJsonSerialize("wt_arity.ndjson", SetSeq(ArityRows))
=============================================================================

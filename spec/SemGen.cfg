

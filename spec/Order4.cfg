CONSTANTS
  K = 4

------------------------------ MODULE SemGen ------------------------------
(* Constant-level driver: evaluates MroSem on every program of progs.ndjson
   and writes one record per program to sem_out.ndjson. *)
EXTENDS MroSem, Json

Progs == ndJsonDeserialize("progs.ndjson")

SetToSeq(S) == SetToSortedSeq(S)

NotRetain(iv) == iv.kind # "retain"
Out(p) ==
    LET r == Run(p)
        jobs == SelectSeq(r.inv, NotRetain)
    IN
    [name |-> p.name,
     inv |-> [i \in DOMAIN jobs |->
                [jobs[i] EXCEPT !.deps = SetToSeq(jobs[i].deps)]],
     outs |-> TopValue(p, r), weak |-> r.wk, files |-> FileFacts(p, r)]

ASSUME ndJsonSerialize("sem_out.ndjson", [i \in DOMAIN Progs |-> Out(Progs[i])])
===========================================================================

------------------------------ MODULE SemGen ------------------------------
(* Constant-level driver: evaluates MroSem on every program of progs.ndjson
   and writes one record per program to sem_out.ndjson. *)
EXTENDS MroSem, Json

Progs == ndJsonDeserialize("progs.ndjson")

SetToSeq(S) == SetToSortedSeq(S)

Out(p) ==
    LET r == Run(p) IN
    [name |-> p.name,
     inv |-> [i \in DOMAIN r.inv |->
                [r.inv[i] EXCEPT !.deps = SetToSeq(r.inv[i].deps)]],
     outs |-> VObj(r.outs), weak |-> r.wk]

ASSUME ndJsonSerialize("sem_out.ndjson", [i \in DOMAIN Progs |-> Out(Progs[i])])
===========================================================================

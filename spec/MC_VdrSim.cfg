SPECIFICATION Spec
CONSTANTS
  Progs <- MCProgs
  Modes <- MCModes
CHECK_DEADLOCK FALSE

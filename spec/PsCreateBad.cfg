SPECIFICATION Spec
CONSTANTS
  Mrp = {a, b}
  RemoveWhenRefused = TRUE
INVARIANTS OneHolder HolderIntact
PROPERTIES SomeoneFinishes
CHECK_DEADLOCK FALSE

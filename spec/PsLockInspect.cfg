SPECIFICATION Spec
CONSTANTS
  Mrp = {m1, m2, m3}
  Atomic = TRUE
  InspectorLoadsLock = FALSE
  InspectorCleansUp = TRUE
INVARIANTS OneWriter HolderHasFile

SPECIFICATION Spec
CONSTANTS
  Mrp = {m1, m2, m3}
  Atomic = TRUE
  InspectorCleansUp = TRUE
INVARIANTS OneWriter HolderHasFile

------------------------------- MODULE Equiv -------------------------------
(* What a top-level invocation means, for re-attaching (C15): the statement of
   martian/syntax/equivalence.go (Ast.EquivalentCall and below) as a normal
   form.  Two programs may be re-attached to each other iff their normal forms
   are equal.  The normal form of a call keeps

     its (possibly aliased) name, its argument bindings, whether it is local /
     preflight, its disabling condition, and the normal form of the callable it
     resolves to;
   of a stage:   parameter names with their types (user file types all count as
                 "a file", struct types count with the definitions of their members),
                 and whether it splits;
   of a pipeline: parameters, output names of file-typed outputs, the set of its
                 calls (by name), and its return bindings.

   It forgets: comments and layout (not represented at all), the order of
   calls and of declarations, names of callables behind an alias, names of
   user file types, volatile flags, retain lists, resources, stage source,
   chunk parameters, help strings, and everything outside the transitive
   closure of the top-level call.

   Programs are the abstract programs of lib/mro.py (see MroSem). TLC evaluates
   Same(orig, edited) for every pair of pairs.ndjson. *)
EXTENDS Integers, Sequences, FiniteSets, TLC, Json

Pairs == ndJsonDeserialize("pairs.ndjson")

ByName(s, name) == s[CHOOSE j \in DOMAIN s : s[j].name = name]
HasName(s, name) == \E j \in DOMAIN s : s[j].name = name
Range(s) == {s[i] : i \in DOMAIN s}

IsFileType(p, b) == b \in {"file", "path"} \/ \E i \in DOMAIN p.filetypes : p.filetypes[i] = b
(* a struct type counts with its definition: the names and (normal) types of its members, to any
   depth - what a stage is handed and what is kept of its outputs depends on them *)
IsStruct(p, b) == \E i \in DOMAIN p.structs : p.structs[i].name = b
RECURSIVE NormType(_, _), NormBase(_, _)
NormBase(p, b) == [name |-> IF IsFileType(p, b) THEN "<file>" ELSE b,
                   fields |-> IF IsStruct(p, b)
                              THEN LET sd == ByName(p.structs, b) IN {<<sd.fields[i].n, NormType(p, sd.fields[i].t)>> : i \in DOMAIN sd.fields}
                              ELSE {}]
NormType(p, t) == [b |-> NormBase(p, t.b), a |-> t.a, m |-> t.m, ia |-> t.ia]
NormIns(p, ps) == {<<ps[i].n, NormType(p, ps[i].t)>> : i \in DOMAIN ps}
(* output names matter where the runtime materialises files: pipeline outputs *)
NormOuts(p, ps, names) == {<<ps[i].n, NormType(p, ps[i].t),
                             IF names /\ IsFileType(p, ps[i].t.b) THEN ps[i].outname ELSE "">> : i \in DOMAIN ps}

(* expressions are data already; bindings are compared as a set *)
NormBinds(bs) == {<<bs[i].n, bs[i].e>> : i \in DOMAIN bs}

RECURSIVE NormCallable(_, _)
NormCall(p, c) ==
    [id |-> c.id, binds |-> NormBinds(c.binds), mode |-> c.mode,
     local |-> c.local, pre |-> c.pre, dis |-> c.dis,
     callee |-> NormCallable(p, c.callee)]
NormCallable(p, name) ==
    IF HasName(p.stages, name) THEN
        LET st == ByName(p.stages, name) IN
        [kind |-> "stage", ins |-> NormIns(p, st.ins), outs |-> NormOuts(p, st.outs, FALSE), split |-> st.split]
    ELSE IF HasName(p.pipelines, name) THEN
        LET pl == ByName(p.pipelines, name) IN
        [kind |-> "pipeline", ins |-> NormIns(p, pl.ins), outs |-> NormOuts(p, pl.outs, TRUE),
         calls |-> {NormCall(p, pl.calls[i]) : i \in DOMAIN pl.calls},
         ret |-> NormBinds(pl.ret)]
    ELSE [kind |-> "missing"]

Meaning(p) == [callee |-> NormCallable(p, p.top.callee), args |-> NormBinds(p.top.args), id |-> p.top.id]

Same(a, b) == Meaning(a) = Meaning(b)

(* sanity theorems on the corpus itself: the relation is reflexive and symmetric *)
ASSUME \A i \in DOMAIN Pairs : Same(Pairs[i].a, Pairs[i].a) /\ (Same(Pairs[i].a, Pairs[i].b) = Same(Pairs[i].b, Pairs[i].a))
ASSUME ndJsonSerialize("equiv_out.ndjson", [i \in DOMAIN Pairs |-> [id |-> Pairs[i].id, same |-> Same(Pairs[i].a, Pairs[i].b)]])
=============================================================================



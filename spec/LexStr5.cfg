CONSTANTS
  N = 5
  Alphabet <- StrAlphabet

CONSTANTS
  N = 6
  Alphabet <- StrAlphabet

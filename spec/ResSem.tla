------------------------------ MODULE ResSem ------------------------------
(* martian/core/resource_semaphore.go: ResourceSemaphore.

   One action per critical section of the code (every method body runs under
   `mu`).  runJobs is modelled as the code performs it: a sequence of Grant
   steps while the head of the queue fits, ended by RunDone; no other action
   is enabled in between (the mutex is held), which is what `running` says.

   State:  cur      = curSize  (what can be reserved right now)
           reserved = reserved
           waiters  = FIFO queue of [c, n]  (client, amount)
           holding  = set of [c, n] that have acquired and not yet released
           running  = inside runJobs
   MaxSize is maxSize.  *)
EXTENDS Integers, Sequences, FiniteSets

CONSTANTS Clients,      \* identities of acquirers
          MaxSize,      \* maxSize of the semaphore
          Amounts,      \* amounts that may be requested
          Avail         \* values used by the availability updates

VARIABLES cur, reserved, waiters, holding, running, last

vars == <<cur, reserved, waiters, holding, running, last>>
core == <<cur, reserved, waiters, holding, running>>

Busy(c) == (\E h \in holding : h.c = c) \/ (\E i \in 1..Len(waiters) : waiters[i].c = c)
HeadFits == waiters # <<>> /\ cur - reserved >= Head(waiters).n
Min(a, b) == IF a < b THEN a ELSE b

Init == /\ cur = MaxSize
        /\ reserved = 0
        /\ waiters = <<>>
        /\ holding = {}
        /\ running = FALSE
        /\ last = [a |-> "Init"]

(* Acquire: the three outcomes of the method. *)
AcquireFast(c, n) ==
    /\ ~running /\ ~Busy(c)
    /\ cur - reserved >= n /\ waiters = <<>>
    /\ reserved' = reserved + n
    /\ holding' = holding \cup {[c |-> c, n |-> n]}
    /\ UNCHANGED <<cur, waiters, running>>
    /\ last' = [a |-> "AcquireFast", c |-> c, n |-> n]

AcquireReject(c, n) ==
    /\ ~running /\ ~Busy(c)
    /\ ~(cur - reserved >= n /\ waiters = <<>>)
    /\ n > MaxSize
    /\ UNCHANGED core
    /\ last' = [a |-> "AcquireReject", c |-> c, n |-> n]

AcquireEnqueue(c, n) ==
    /\ ~running /\ ~Busy(c)
    /\ ~(cur - reserved >= n /\ waiters = <<>>)
    /\ n <= MaxSize
    /\ waiters' = Append(waiters, [c |-> c, n |-> n])
    /\ UNCHANGED <<cur, reserved, holding, running>>
    /\ last' = [a |-> "AcquireEnqueue", c |-> c, n |-> n]

Release(h) ==
    /\ ~running /\ h \in holding
    /\ reserved' = reserved - h.n
    /\ holding' = holding \ {h}
    /\ running' = TRUE
    /\ UNCHANGED <<cur, waiters>>
    /\ last' = [a |-> "Release", c |-> h.c, n |-> h.n]

(* runJobs *)
Grant ==
    /\ running /\ HeadFits
    /\ reserved' = reserved + Head(waiters).n
    /\ holding' = holding \cup {Head(waiters)}
    /\ waiters' = Tail(waiters)
    /\ UNCHANGED <<cur, running>>
    /\ last' = [a |-> "Grant", c |-> Head(waiters).c, n |-> Head(waiters).n]

RunDone ==
    /\ running /\ ~HeadFits
    /\ running' = FALSE
    /\ UNCHANGED <<cur, reserved, waiters, holding>>
    /\ last' = [a |-> "RunDone"]

SetCur(new, what, n, m) ==
    /\ ~running
    /\ cur' = new
    /\ running' = (cur < new)
    /\ UNCHANGED <<reserved, waiters, holding>>
    /\ last' = [a |-> what, n |-> n, m |-> m]

UpdateActual(n) == SetCur(Min(n + reserved, MaxSize), "UpdateActual", n, 0)

UpdateSize(n) == SetCur(n, "UpdateSize", n, 0)

UpdateFreeUsed(free, used) ==
    LET actual == free + used
        adjust == used - reserved
    IN  SetCur(IF used <= reserved THEN Min(actual, MaxSize)
               ELSE IF actual > MaxSize - adjust THEN MaxSize - adjust
               ELSE actual - adjust,
               "UpdateFreeUsed", free, used)

Next == \/ \E c \in Clients, n \in Amounts :
              AcquireFast(c, n) \/ AcquireReject(c, n) \/ AcquireEnqueue(c, n)
        \/ \E h \in holding : Release(h)
        \/ Grant \/ RunDone
        \/ \E n \in Avail : UpdateActual(n) \/ (n >= 0 /\ n <= MaxSize /\ UpdateSize(n))
        \/ \E f \in Avail, u \in Avail : u >= 0 /\ UpdateFreeUsed(f, u)

Spec == Init /\ [][Next]_vars

(* Configuration without shrinking updates, for the progress property. *)
NextLive == \/ \E c \in Clients, n \in Amounts :
                  AcquireFast(c, n) \/ AcquireReject(c, n) \/ AcquireEnqueue(c, n)
            \/ \E h \in holding : Release(h)
            \/ Grant \/ RunDone
SpecLive == Init /\ [][NextLive]_vars
            /\ WF_vars(Grant) /\ WF_vars(RunDone)
            /\ \A c \in Clients : WF_vars(\E h \in holding : h.c = c /\ Release(h))

---------------------------------------------------------------------------
(* Properties (C12) *)

Sum(S) == LET RECURSIVE F(_)
              F(T) == IF T = {} THEN 0
                      ELSE LET x == CHOOSE x \in T : TRUE IN x.n + F(T \ {x})
          IN F(S)

TypeOK == /\ cur \in Int /\ reserved \in Int
          /\ running \in BOOLEAN

(* reserved is exactly what the holders hold, and never above the maximum *)
Accounting == reserved = Sum(holding)
WithinLimits == reserved >= 0 /\ reserved <= MaxSize /\ cur <= MaxSize

(* every grant fits the capacity of that moment *)
GrantFits == [][ (holding' # holding /\ Cardinality(holding') > Cardinality(holding))
                 => reserved' <= cur' ]_vars

(* the fast path is only taken with an empty queue; grants come from the head *)
Fifo == [][ /\ (Len(waiters') < Len(waiters) => waiters' = Tail(waiters) /\ Head(waiters) \in holding')
            /\ (holding' # holding /\ Cardinality(holding') > Cardinality(holding) /\ waiters' = waiters
                  => waiters = <<>>)
            /\ (Len(waiters') > Len(waiters) => SubSeq(waiters', 1, Len(waiters)) = waiters) ]_vars

(* outside a critical section the head of the queue never fits: no lost wake-up *)
NoLostWakeup == ~running => ~HeadFits

(* progress: when availability is not taken away, every waiter is served *)
Waiting(c) == \E i \in 1..Len(waiters) : waiters[i].c = c
EventuallyServed == \A c \in Clients : Waiting(c) ~> ~Waiting(c)

View == core
===========================================================================

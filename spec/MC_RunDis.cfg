SPECIFICATION Spec
CONSTANTS
  Nodes <- ChainNodes
  Pre <- ChainPre
  Splits <- NoSplits
  Dyn <- NoDyn
  DisBy <- DisB
  MaxF = 1
  MaxC = 1
  MaxAtt = 1
  MaxCrash = 0
  MaxFail = 0
  EarlyChunks = FALSE
  Survive = FALSE
VIEW View
INVARIANTS TypeOK BeliefSound AtMostOnce ExactlyOnceAtEnd FailureFailsRun LockHeld
PROPERTIES StartsAfterDeps NoRedoOfRecorded DependentsNeverStart

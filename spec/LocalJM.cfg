SPECIFICATION Spec
CONSTANTS
  Jobs = {a, b, c, d}
  MaxCores = 3
  MaxMem = 3
  Grid <- MCGrid
INVARIANTS WithinLimits RunningHold
PROPERTIES AllDone
CHECK_DEADLOCK FALSE

SPECIFICATION Spec
CONSTANTS
  Mrp = {m1, m2}
  Atomic = FALSE
  InspectorLoadsLock = FALSE
  InspectorCleansUp = FALSE
INVARIANTS OneWriter

SPECIFICATION Spec
CONSTANTS
  Mrp = {m1, m2}
  Atomic = FALSE
INVARIANTS OneWriter

SPECIFICATION Spec
CONSTANTS
  Mrp = {m1, m2}
  Atomic = FALSE
  InspectorCleansUp = FALSE
INVARIANTS OneWriter

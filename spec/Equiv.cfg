

SPECIFICATION Spec
CONSTANTS
  Jobs = {j1, j2}
  RemoveFirst = TRUE
  MaxCrash = 2
INVARIANTS TypeOK NoRedo OneInstance SentinelMeansNotHandedOver
PROPERTIES AllDone
CHECK_DEADLOCK FALSE

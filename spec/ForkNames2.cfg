CONSTANT N = 2
CONSTANT Alphabet <- KeyAlphabet
CONSTANT EscapePercent = TRUE

CONSTANT N = 2
CONSTANT Alphabet <- KeyAlphabet

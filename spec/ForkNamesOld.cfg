CONSTANT N = 1
CONSTANT Alphabet <- SmallAlphabet
CONSTANT EscapePercent = FALSE

------------------------------ MODULE MroTypes ------------------------------
(* The MRO type system as far as values are concerned (C17):
   assignability between types, validation of JSON values against a type,
   filtering of a value to a type - transcribed from
   martian/syntax/{builtin_types,collection_types,struct_type,user_file_type}.go -
   and the theorems the statement of C17 makes about them, checked by TLC over a
   bounded universe of types and values.  The rows (type, value, predicted
   verdicts and filtered value) are written out and replayed through the real
   Type.IsValidJson / FilterJson / IsAssignableFrom.

   Types are MroSem types [b, a, m, ia]; values are MroSem tagged values. *)
EXTENDS MroSem, Json, IOUtils

\* the struct table of the universe
Structs == <<
    [name |-> "S1", fields |-> <<[n |-> "a", t |-> TScalar("int")], [n |-> "b", t |-> TScalar("string")]>>],
    [name |-> "S2", fields |-> <<[n |-> "a", t |-> TScalar("int")]>>],
    [name |-> "S3", fields |-> <<[n |-> "s", t |-> TScalar("S1")], [n |-> "xs", t |-> [b |-> "int", a |-> 1, m |-> 0, ia |-> 0]]>>],
    [name |-> "S4", fields |-> <<[n |-> "a", t |-> TScalar("float")], [n |-> "b", t |-> TScalar("txt")]>> ],
    \* a typed-map member: projecting it out of a call mapped over a typed map would nest maps
    [name |-> "S5", fields |-> <<[n |-> "per", t |-> [b |-> "int", a |-> 0, m |-> 1, ia |-> 0]], [n |-> "n", t |-> TScalar("int")]>> ] >>
P == [structs |-> Structs]
UserTypes == {"txt"}
Builtins == {"int", "float", "string", "bool", "map", "file", "path"}
StructNames == {Structs[i].name : i \in DOMAIN Structs}

Arr(t, d) == [t EXCEPT !.a = d]
TMap(t) == [b |-> t.b, a |-> 0, m |-> 1, ia |-> t.a]
ThoroughTier == "VERIF_TIER" \in DOMAIN IOEnv /\ IOEnv.VERIF_TIER = "thorough"
Bases == {TScalar(x) : x \in Builtins \cup UserTypes \cup StructNames}
Types == Bases
         \cup {Arr(t, 1) : t \in Bases}
         \cup {Arr(TScalar(x), 2) : x \in {"int", "float", "S1"}}
         \cup {TMap(TScalar(x)) : x \in {"int", "float", "string", "S1", "S2", "S5", "txt"}}
         \cup {TMap(Arr(TScalar("int"), 1)), Arr(TMap(TScalar("int")), 1)}
         \* arrays of two dimensions whose elements are typed maps (of scalars, of arrays)
         \cup {Arr(TMap(TScalar("int")), 2), Arr(TMap(Arr(TScalar("int"), 1)), 2)}
         \* thorough tier: two dimensions and typed maps for every base type, arrays of typed maps
         \* of structs and of files, typed maps of arrays of one and two dimensions
         \cup (IF ThoroughTier
               THEN {Arr(t, 2) : t \in Bases} \cup {TMap(t) : t \in Bases \ {TScalar("map")}}
                    \cup {Arr(TMap(TScalar(x)), d) : x \in {"S1", "txt", "float"}, d \in {1, 2}}
                    \cup {TMap(Arr(TScalar(x), d)) : x \in {"int", "S1", "txt"}, d \in {1, 2}}
               ELSE {})

IsBuiltin(t, name) == t.a = 0 /\ t.m = 0 /\ t.b = name
IsScalarT(t) == t.a = 0 /\ t.m = 0
IsUser(t) == IsScalarT(t) /\ t.b \in UserTypes
IsSt(t) == IsScalarT(t) /\ t.b \in StructNames

---------------------------------------------------------------------------
(* Type.IsAssignableFrom(other): can a parameter of type t take a value of type s *)
RECURSIVE Assignable(_, _)
Assignable(t, s) ==
    IF t = s THEN TRUE
    ELSE IF IsArr(t) THEN
        \* ArrayType: element assignable and same dimension
        IsArr(s) /\ t.a = s.a /\ Assignable([t EXCEPT !.a = 0], [s EXCEPT !.a = 0])
    ELSE IF IsTMap(t) THEN
        \/ IsTMap(s) /\ Assignable(Elem(t), Elem(s))
        \/ IsSt(s) /\ \A i \in DOMAIN Fields(P, s) : Assignable(Elem(t), Fields(P, s)[i].t)
    ELSE IF IsSt(t) THEN
        /\ IsSt(s)
        /\ \A i \in DOMAIN Fields(P, t) :
              LET f == Fields(P, t)[i] IN
              /\ Has(Fields(P, s), f.n)
              /\ LET o == Lookup(Fields(P, s), f.n).t IN
                 o.a = f.t.a /\ o.m = f.t.m /\ o.ia = f.t.ia /\ Assignable(f.t, o)
    ELSE IF IsUser(t) THEN
        IsScalarT(s) /\ (s.b \in {"file", "string"} \/ s = t)
    ELSE \* builtin
        CASE t.b = "file" -> IsScalarT(s) /\ (s.b \in {"string", "file"} \/ s.b \in UserTypes)
          [] t.b = "path" -> IsScalarT(s) /\ s.b \in {"string", "path"}
          [] t.b = "string" -> IsScalarT(s) /\ (s.b = "string" \/ s.b \in UserTypes)
          [] t.b = "float" -> IsScalarT(s) /\ s.b \in {"int", "float"}
          [] t.b = "map" -> IsSt(s) \/ IsTMap(s) \/ (IsScalarT(s) /\ s.b = "map")
          [] OTHER -> FALSE

(* Type.IsValidJson without error and without alarm ("validates cleanly") *)
RECURSIVE Valid(_, _)
Valid(t, v) ==
    IF IsNull(v) THEN TRUE
    ELSE IF IsArr(t) THEN v.k = "arr" /\ \A i \in DOMAIN v.a : Valid(Elem(t), v.a[i])
    ELSE IF IsTMap(t) THEN v.k = "obj" /\ \A x \in DOMAIN v.o : Valid(Elem(t), v.o[x])
    ELSE IF IsSt(t) THEN
        /\ v.k = "obj"
        /\ \A i \in DOMAIN Fields(P, t) :
              LET f == Fields(P, t)[i] IN f.n \in DOMAIN v.o /\ Valid(f.t, v.o[f.n])
    ELSE IF IsUser(t) THEN v.k = "str"
    ELSE CASE t.b \in {"string", "file", "path"} -> v.k = "str"
           [] t.b = "int" -> v.k = "int" \/ (v.k = "big" /\ v.fits)
           [] t.b = "float" -> v.k \in {"int", "float", "big"}
           [] t.b = "bool" -> v.k = "bool"
           [] t.b = "map" -> v.k = "obj"

(* Type.IsValidJson without error (alarms allowed): for backwards compatibility a value of a
   user-defined file type is never an error, only an alarm; everything else that is not of the
   declared shape - in particular a struct value that lacks a declared member - is an error *)
RECURSIVE Accepts(_, _)
Accepts(t, v) ==
    IF IsNull(v) THEN TRUE
    ELSE IF IsArr(t) THEN v.k = "arr" /\ \A i \in DOMAIN v.a : Accepts(Elem(t), v.a[i])
    ELSE IF IsTMap(t) THEN v.k = "obj" /\ \A x \in DOMAIN v.o : Accepts(Elem(t), v.o[x])
    ELSE IF IsSt(t) THEN
        /\ v.k = "obj"
        /\ \A i \in DOMAIN Fields(P, t) :
              LET f == Fields(P, t)[i] IN f.n \in DOMAIN v.o /\ Accepts(f.t, v.o[f.n])
    ELSE IF IsUser(t) THEN TRUE
    ELSE Valid(t, v)

(* Type.CanFilter *)
RECURSIVE CanFilter(_)
CanFilter(t) == IF IsArr(t) \/ IsTMap(t) THEN CanFilter([b |-> t.b, a |-> 0, m |-> 0, ia |-> 0])
                ELSE IsSt(t) \/ t.b = "int"

IsIntegral(v) == v.k = "float" /\ v.f \in {"1.0", "2.0", "-3.0"}
AsInt(v) == IF v.f = "1.0" THEN VInt(1) ELSE IF v.f = "2.0" THEN VInt(2) ELSE VInt(-3)

(* Type.FilterJson: the value it returns (err tells whether it reports an error) *)
RECURSIVE Filter(_, _)
Filter(t, v) ==
    IF IsNull(v) THEN [v |-> v, err |-> FALSE, fatal |-> FALSE]
    \* scalars that cannot be narrowed are still parsed: a value of another kind is an
    \* error (not a fatal one for user file types)
    ELSE IF IsScalarT(t) /\ ~CanFilter(t) THEN [v |-> v, err |-> ~Valid(t, v), fatal |-> ~Valid(t, v) /\ ~IsUser(t)]
    \* containers of such scalars are returned as they are, unparsed
    ELSE IF ~CanFilter(t) THEN [v |-> v, err |-> FALSE, fatal |-> FALSE]
    ELSE IF IsArr(t) THEN
        IF v.k # "arr" THEN [v |-> v, err |-> TRUE, fatal |-> TRUE]
        ELSE LET fs == [i \in DOMAIN v.a |-> Filter(Elem(t), v.a[i])] IN
             [v |-> VArr([i \in DOMAIN v.a |-> fs[i].v]), err |-> \E i \in DOMAIN v.a : fs[i].err,
              fatal |-> \E i \in DOMAIN v.a : fs[i].fatal]
    ELSE IF IsTMap(t) THEN
        IF v.k # "obj" THEN [v |-> v, err |-> TRUE, fatal |-> TRUE]
        ELSE LET fs == [x \in DOMAIN v.o |-> Filter(Elem(t), v.o[x])] IN
             [v |-> VObj([x \in DOMAIN v.o |-> fs[x].v]), err |-> \E x \in DOMAIN v.o : fs[x].err,
              fatal |-> \E x \in DOMAIN v.o : fs[x].fatal]
    ELSE IF IsSt(t) THEN
        IF v.k # "obj" THEN [v |-> v, err |-> TRUE, fatal |-> TRUE]
        ELSE LET fl == Fields(P, t)
                 names == {fl[i].n : i \in DOMAIN fl}
                 \* a member whose type cannot be narrowed is copied without being parsed
                 fs == [x \in names |-> IF x \notin DOMAIN v.o THEN [v |-> Null, err |-> TRUE, fatal |-> TRUE]
                                        ELSE IF CanFilter(Lookup(fl, x).t) THEN Filter(Lookup(fl, x).t, v.o[x])
                                        ELSE [v |-> v.o[x], err |-> FALSE, fatal |-> FALSE]]
             IN [v |-> VObj([x \in names |-> fs[x].v]), err |-> \E x \in names : fs[x].err,
                 fatal |-> \E x \in names : fs[x].fatal]
    ELSE \* int
        IF v.k = "int" \/ (v.k = "big" /\ v.fits) THEN [v |-> v, err |-> FALSE, fatal |-> FALSE]
        \* an integral float is rewritten as an integer; the code also hands back the
        \* (non-fatal) parse error of the first attempt
        ELSE IF IsIntegral(v) THEN [v |-> AsInt(v), err |-> TRUE, fatal |-> FALSE]
        ELSE [v |-> v, err |-> TRUE, fatal |-> TRUE]

---------------------------------------------------------------------------
(* value universe: per type, valid values and near misses *)
(* integer literals at and beyond the ends of int64 (TLC's integers are 32 bits wide:
   the digits are carried as a string, `fits` says whether the number is an int64) *)
Big(s, fits) == [k |-> "big", s |-> s, fits |-> fits]
BigInts == {Big("9223372036854775807", TRUE), Big("-9223372036854775808", TRUE),
            Big("9223372036854775808", FALSE), Big("-9223372036854775809", FALSE),
            Big("9999999999999999999", FALSE), Big("-9999999999999999999", FALSE),
            Big("18446744073709551616", FALSE)}
Scalars == {Null, VInt(1), VInt(2), [k |-> "float", f |-> "1.0"], [k |-> "float", f |-> "1.5"],
            [k |-> "float", f |-> "1e19"],        \* integral, but not an int64
            VStr("x"), VStr("1"), VBool(TRUE)} \cup BigInts


RECURSIVE Good(_, _)
Good(t, d) ==        \* some valid values of type t, nesting budget d
    IF IsArr(t) THEN
        {Null, VArr(<<>>)} \cup (IF d = 0 THEN {} ELSE
            {VArr(<<x>>) : x \in Good(Elem(t), d - 1)}
            \cup {VArr(<<x, y>>) : x \in Good(Elem(t), d - 1), y \in {CHOOSE z \in Good(Elem(t), d - 1) : TRUE}})
    ELSE IF IsTMap(t) THEN
        {Null, VObj(<<>>)} \cup (IF d = 0 THEN {} ELSE
            {VObj("k" :> x) : x \in Good(Elem(t), d - 1)}
            \cup {VObj(("k" :> x) @@ ("a b" :> (CHOOSE z \in Good(Elem(t), d - 1) : TRUE))) : x \in Good(Elem(t), d - 1)}
            \* keys that need JSON escaping ("<BEL>" stands for U+0007, "<DEL>" for U+007F)
            \cup {VObj(("<BEL>" :> x) @@ ("q\"\\" :> x) @@ ("<DEL>é" :> x)) : x \in Good(Elem(t), d - 1)})
    ELSE IF IsSt(t) THEN
        {Null} \cup (IF d = 0 THEN {} ELSE
            LET fl == Fields(P, t)
                names == {fl[i].n : i \in DOMAIN fl}
                first == [x \in names |-> CHOOSE z \in Good(Lookup(fl, x).t, d - 1) : ~IsNull(z) \/ d = 1]
            IN {VObj(first)}
               \cup UNION {{VObj([first EXCEPT ![x] = z]) : z \in Good(Lookup(fl, x).t, d - 1)} : x \in names}
               \* undeclared extra field: still valid for validation
               \cup {VObj(first @@ ("zz" :> VStr("q")))})
    ELSE IF IsUser(t) \/ t.b \in {"string", "file", "path"} THEN {Null, VStr("x"), VStr("/p/f.txt")}
    ELSE CASE t.b = "int" -> {Null, VInt(1), VInt(2), Big("9223372036854775807", TRUE), Big("-9223372036854775808", TRUE)}
           [] t.b = "float" -> {Null, VInt(1), [k |-> "float", f |-> "1.5"], [k |-> "float", f |-> "1.0"]}
           [] t.b = "bool" -> {Null, VBool(TRUE)}
           [] t.b = "map" -> {Null, VObj(<<>>), VObj("k" :> VInt(1)), VObj("k" :> VArr(<<VStr("x")>>))}

(* near misses of a good value: replace one leaf by something of another kind,
   wrap / unwrap one level *)
RECURSIVE Miss(_)
Miss(v) ==
    CASE v.k = "arr" ->
            UNION {{VArr([v.a EXCEPT ![i] = z]) : z \in Miss(v.a[i])} : i \in DOMAIN v.a} \cup {VObj(<<>>), VStr("x"), VArr(<<v>>)}
      [] v.k = "obj" ->
            UNION {{VObj([v.o EXCEPT ![x] = z]) : z \in Miss(v.o[x])} : x \in DOMAIN v.o}
            \cup {VObj([x \in DOMAIN v.o \ {y} |-> v.o[x]]) : y \in DOMAIN v.o} \cup {VArr(<<>>), VInt(1)}
      [] v.k = "null" -> {}
      [] OTHER -> (Scalars \ {v, Null}) \cup {VArr(<<v>>)}

(* nesting budget of the value universe: 2 in the quick tier, 3 in the thorough one
   (the tier comes from the environment variable VERIF_TIER that bin/check sets) *)
Depth == IF ThoroughTier THEN 4 ELSE 2
Values(t) == Good(t, Depth) \cup UNION {Miss(v) : v \in Good(t, Depth)}

---------------------------------------------------------------------------
(* The theorems of C17, checked on the model *)
T_NullValid == \A t \in Types : Valid(t, Null)
T_Reflexive == \A t \in Types : Assignable(t, t)
T_ArrayCongruent == \A t \in Types, s \in Types :
    (IsScalarT(t) \/ IsTMap(t)) /\ (IsScalarT(s) \/ IsTMap(s)) /\ Arr(t, 1) \in Types /\ Arr(s, 1) \in Types
        => (Assignable(Arr(t, 1), Arr(s, 1)) <=> Assignable(t, s))
T_MapCongruent == \A t \in Types, s \in Types :
    IsScalarT(t) /\ IsScalarT(s) /\ TMap(t) \in Types /\ TMap(s) \in Types
        => (Assignable(TMap(t), TMap(s)) <=> Assignable(t, s))
T_Idempotent == \A t \in Types : \A v \in Values(t) :
    LET f == Filter(t, v) IN ~f.fatal => Filter(t, f.v).v = f.v
T_FilterOnlyDrops == \A t \in Types : \A v \in Good(t, Depth) :
    \* on valid values filtering reports no error
    ~Filter(t, v).err
(* filtering to a type t a value that is valid for an assignable type s gives a
   value valid for t.  Counterexamples are collected, not asserted: they are
   candidates for findings to be confirmed on the real code. *)
SoundPairs == {<<t, s>> \in Types \X Types : Assignable(t, s)}
Unsound == UNION {{<<p[1], p[2], v>> : v \in {w \in Values(p[2]) : Valid(p[2], w) /\ ~Valid(p[1], Filter(p[1], w).v)}} : p \in SoundPairs}

ASSUME T_NullValid
ASSUME T_Reflexive
ASSUME T_ArrayCongruent
ASSUME T_MapCongruent
ASSUME T_Idempotent
ASSUME T_FilterOnlyDrops

---------------------------------------------------------------------------
(* rows for the replay *)
RECURSIVE SetSeq(_)
SetSeq(S) == IF S = {} THEN <<>> ELSE LET x == CHOOSE x \in S : TRUE IN <<x>> \o SetSeq(S \ {x})

TypeSeq == SetSeq(Types)
ValRows(t) == LET vs == SetSeq(Values(t)) IN
    [i \in DOMAIN vs |-> [t |-> t, v |-> vs[i], valid |-> Valid(t, vs[i]), accepts |-> Accepts(t, vs[i]),
                          fv |-> Filter(t, vs[i]).v, ferr |-> Filter(t, vs[i]).err,
                          fatal |-> Filter(t, vs[i]).fatal]]
RECURSIVE CatRows(_)
CatRows(i) == IF i > Len(TypeSeq) THEN <<>> ELSE ValRows(TypeSeq[i]) \o CatRows(i + 1)

AssignRows == LET ps == SetSeq(Types \X Types) IN
    [i \in DOMAIN ps |-> [t |-> ps[i][1], s |-> ps[i][2], ok |-> Assignable(ps[i][1], ps[i][2])]]
UnsoundRows == LET us == SetSeq(Unsound) IN [i \in DOMAIN us |-> [t |-> us[i][1], s |-> us[i][2], v |-> us[i][3]]]

ASSUME ndJsonSerialize("types_values.ndjson", CatRows(1))
ASSUME ndJsonSerialize("types_assign.ndjson", AssignRows)
ASSUME ndJsonSerialize("types_unsound.ndjson", UnsoundRows)
===========================================================================

------------------------------ MODULE SysReqs ------------------------------
(* What a local job is given (C12, "a job asking for more than a limit is clamped
   to it"): martian/core/jobmanager_local.go LocalJobManager.GetSystemReqs, in
   the integer units the code computes in - hundredths of a core and MB.

   A request comes from MRO (`using (threads = 2.5, mem_gb = 3)`), from the
   chunk definitions a split returns (__threads, __mem_gb) or from an overrides
   file; zero means "the default per job", a negative amount "adaptive: at
   least this much, more if there is".  The result is what Enqueue asks the
   thread and memory semaphores for, and ResourceSemaphore.Acquire refuses
   outright anything larger than its maximum - so that every request, however
   large, leads to a job that can run is exactly the claim that the result
   never exceeds the limits.  TLC checks it for every request of the grid and
   every limit setting and writes the table replayed through the real
   function. *)
EXTENDS Integers, Sequences, FiniteSets, TLC, Json, SequencesExt

CONSTANTS CoreLimits,      \* --localcores settings
          MemLimits,       \* --localmem settings (GB)
          ThreadsPerJob, MemGBPerJob, ExtraVmemGB

(* requests: hundredths of a core (multiples of 25, exactly representable as
   float64 cores), MB of memory (exactly representable as float64 GB) *)
ThreadReqs == {-400, -100, -25, 0, 25, 50, 100, 175, 200, 225, 250, 275, 300, 350, 400, 425, 6400}
MemReqs == {-8192, -1024, -512, 0, 256, 1024, 1536, 2048, 2560, 3072, 4096, 4608, 65536}

Threads(maxCores, tc) ==
    LET c == IF tc = 0 THEN ThreadsPerJob * 100 ELSE IF tc < 0 THEN maxCores * 100 ELSE tc
    IN IF c > maxCores * 100 THEN maxCores * 100 ELSE c

(* memory before the cap, given what the memory semaphore says is available now *)
MemAsked(mm, avail) ==
    IF mm = 0 THEN MemGBPerJob * 1024
    ELSE IF mm < 0 THEN (IF avail < 1 \/ avail < -mm THEN -mm ELSE avail)
    ELSE mm
Mem(maxMemGB, mm, avail) == LET m == MemAsked(mm, avail) IN IF m > maxMemGB * 1024 THEN maxMemGB * 1024 ELSE m
(* virtual memory for a request of 0: what was asked plus the configured extra, never below the memory *)
VMem(maxMemGB, mm, avail) == LET v == MemAsked(mm, avail) + ExtraVmemGB * 1024
                                 m == Mem(maxMemGB, mm, avail)
                             IN IF v < m THEN m ELSE v

Avails(maxMemGB) == {0, 512, maxMemGB * 512, maxMemGB * 1024}

Clamped ==
    \A c \in CoreLimits, m \in MemLimits, tc \in ThreadReqs, mm \in MemReqs : \A av \in Avails(m) :
        /\ Threads(c, tc) > 0 /\ Threads(c, tc) <= c * 100
        /\ Mem(m, mm, av) > 0 /\ Mem(m, mm, av) <= m * 1024
        \* a request that fits is granted as it stands
        /\ (tc > 0 /\ tc <= c * 100 => Threads(c, tc) = tc)
        /\ (mm > 0 /\ mm <= m * 1024 => Mem(m, mm, av) = mm)
        \* an adaptive request gets at least what it names, if the limit allows
        /\ (mm < 0 => Mem(m, mm, av) >= (IF -mm > m * 1024 THEN m * 1024 ELSE -mm))
ASSUME Clamped

Rows == SetToSeq({[cores |-> c, mem |-> m, tc |-> tc, mm |-> mm,
                   threads |-> Threads(c, tc),
                   \* for adaptive requests the result depends on the free memory of the
                   \* machine: the bounds over every availability
                   memlo |-> IF mm < 0 THEN (IF -mm > m * 1024 THEN m * 1024 ELSE -mm) ELSE Mem(m, mm, 0),
                   memhi |-> IF mm < 0 THEN m * 1024 ELSE Mem(m, mm, 0),
                   vmem |-> IF mm < 0 THEN -1 ELSE VMem(m, mm, 0)]
                  : c \in CoreLimits, m \in MemLimits, tc \in ThreadReqs, mm \in MemReqs})
ASSUME ndJsonSerialize("sysreqs_rows.ndjson", Rows)
=============================================================================

---------------------------- MODULE SubmitTrace ----------------------------
(* Direction A for Submit: what the real mrp (cluster mode, job mode verifq) and the real
   job did to ONE job directory around a kill inside the submit command, recovered from
   the hook events of mrp and of the stage executable (one append-only file), must be a
   behaviour of Submit with RemoveFirst = TRUE, and the invariants hold along it.
   Lines of submit_trace.ndjson: [a |-> action, j |-> job]; a = "Reset" starts the next
   recorded cycle from the initial state.
     MdWrite _queued_locally -> Queue      MdRemove _queued_locally -> SubmitStart
     StageBegin              -> Accept     StageEnd (ok)            -> Finish
     mrp found dead          -> Crash      Lock of the next mrp     -> Restart *)
EXTENDS Submit, Json, TLC, Sequences

Trace == ndJsonDeserialize("submit_trace.ndjson")
VARIABLE l
tvars == <<up, st, sentinel, complete, cmd, inst, live, recorded, redo, crashes, last, l>>

Reset == /\ up' = TRUE /\ st' = [j \in Jobs |-> "idle"]
         /\ sentinel' = [j \in Jobs |-> FALSE] /\ complete' = [j \in Jobs |-> FALSE]
         /\ cmd' = [j \in Jobs |-> FALSE] /\ inst' = [j \in Jobs |-> 0] /\ live' = [j \in Jobs |-> 0]
         /\ recorded' = [j \in Jobs |-> FALSE] /\ redo' = [j \in Jobs |-> FALSE]
         /\ crashes' = 0 /\ last' = <<"Reset", CHOOSE j \in Jobs : TRUE>>

Step(line) ==
    \/ line.a = "Queue"        /\ Queue(line.j)
    \/ line.a = "SubmitStart"  /\ SubmitStart(line.j)
    \/ line.a = "Accept"       /\ Accept(line.j)
    \/ line.a = "SubmitReturn" /\ SubmitReturn(line.j)
    \/ line.a = "Finish"       /\ Finish(line.j)
    \/ line.a = "Notice"       /\ Notice(line.j)
    \/ line.a = "Crash"        /\ Crash
    \/ line.a = "Restart"      /\ Restart
    \/ line.a = "Reset"        /\ Reset

TraceInit == Init /\ l = 1
TraceNext == l <= Len(Trace) /\ Step(Trace[l]) /\ l' = l + 1
TraceSpec == TraceInit /\ [][TraceNext]_tvars
TraceAccepted == TLCGet("stats").diameter - 1 = Len(Trace)
=============================================================================

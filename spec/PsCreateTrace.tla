--------------------------- MODULE PsCreateTrace ---------------------------
(* Direction A for PsCreate: the steps two real mrp processes took on one new
   pipestance directory (recovered from the hook events of both processes, which share
   one append-only trace file, and from what was in the directory afterwards) must be a
   behaviour of PsCreate with RemoveWhenRefused = FALSE; where the directory was looked
   at, its content must be what the specification says.  Lines of psc_trace.ndjson:
   [a |-> action name, m |-> instance, look |-> BOOLEAN, dir |-> entries seen]. *)
EXTENDS PsCreate, Json, TLC, Sequences

Trace == ndJsonDeserialize("psc_trace.ndjson")
VARIABLE l
tvars == <<dir, pc, last, l>>

Entries(line) == {line.dir[i] : i \in DOMAIN line.dir}
Step(line) ==
    /\ \/ line.a = "CheckEmpty" /\ CheckEmpty(line.m)
       \/ line.a = "MakeNodes"  /\ MakeNodes(line.m)
       \/ line.a = "Lock"       /\ Lock(line.m)
       \/ line.a = "Cleanup"    /\ Cleanup(line.m)
       \/ line.a = "WriteMeta"  /\ WriteMeta(line.m)
       \/ line.a = "Finish"     /\ Finish(line.m)
    /\ line.look => dir' = Entries(line)
    /\ "pc" \in DOMAIN line => pc'[line.m] = line.pc

TraceInit == Init /\ l = 1
TraceNext == l <= Len(Trace) /\ Step(Trace[l]) /\ l' = l + 1
TraceSpec == TraceInit /\ [][TraceNext]_tvars
(* the whole trace was consumed *)
TraceAccepted == TLCGet("stats").diameter - 1 = Len(Trace)
=============================================================================

------------------------------- MODULE Order -------------------------------
(* The single admissible emission order (C10).  Wherever Martian emits the
   members of an unordered collection - keys of map and struct literals in
   formatted source and in serialized call graphs (format_exp.go, MapExp.format
   and EncodeJSON), fork identifiers of a call mapped over a typed map
   (resolve_stage.go, fork.go), duplicate-free retain lists (compile_stages.go)
   - the order is the byte-wise lexicographic order of the names.  A
   specification cannot control Go's map iteration order; what it fixes is the
   one order that is allowed, so that a single run emitting another order is
   already a violation and repetition only has to remove the remaining luck.

   Keys are sequences of byte values.  TLC checks that Sorted is a total
   function of the SET of keys (independent of any insertion order) and writes
   the expected order for every key set of the universe. *)
EXTENDS Integers, Sequences, FiniteSets, TLC, Json, SequencesExt

CONSTANTS K      \* size of the key sets

Byte(c) == CASE c = "A" -> <<65>> [] c = "a" -> <<97>> [] c = "b" -> <<98>> [] c = "1" -> <<49>>
             [] c = "_" -> <<95>> [] c = "L" -> <<195, 169>> [] c = "Z" -> <<90>>
Alphabet == {"A", "a", "b", "1", "_", "L", "Z"}

RECURSIVE Bytes(_)
Bytes(s) == IF s = <<>> THEN <<>> ELSE Byte(Head(s)) \o Bytes(Tail(s))

RECURSIVE Less(_, _)
Less(x, y) == IF y = <<>> THEN FALSE
              ELSE IF x = <<>> THEN TRUE
              ELSE IF Head(x) # Head(y) THEN Head(x) < Head(y)
              ELSE Less(Tail(x), Tail(y))
KeyLess(a, b) == Less(Bytes(a), Bytes(b))

Keys == {<<c>> : c \in Alphabet} \cup {<<c, d>> : c \in Alphabet, d \in Alphabet}

RECURSIVE Sorted(_)
Sorted(S) == IF S = {} THEN <<>>
             ELSE LET m == CHOOSE x \in S : \A y \in S \ {x} : KeyLess(x, y) IN <<m>> \o Sorted(S \ {m})

(* theorems: the order is total and strict on distinct keys, so Sorted is well
   defined, and it is the only sequence over S that is ascending *)
Total == \A a \in Keys, b \in Keys : a # b => (KeyLess(a, b) # KeyLess(b, a))
Trans == \A a \in Keys, b \in Keys, c \in Keys : KeyLess(a, b) /\ KeyLess(b, c) => KeyLess(a, c)
Ascending(q) == \A i \in 1..(Len(q) - 1) : KeyLess(q[i], q[i + 1])
ASSUME Total
ASSUME Trans

KeySets == kSubset(K, Keys)
Rows == LET s == SetToSeq(KeySets) IN [i \in DOMAIN s |-> [keys |-> Sorted(s[i])]]
ASSUME \A S \in KeySets : Ascending(Sorted(S)) /\ Len(Sorted(S)) = K
ASSUME ndJsonSerialize("order_rows.ndjson", Rows)
=============================================================================

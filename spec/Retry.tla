------------------------------- MODULE Retry -------------------------------
(* mrp's automatic retry (C06): cmd/mrp/runloop.go attemptRetry, main.go
   pipestanceHolder.consumeRetry / restart, core/node.go isErrorTransient.

   A pipestance is a chain of jobs.  When a job fails mrp looks at the error:
   an error that matches one of the patterns of retry.json ("signal: ...",
   lost heartbeats, ...) is transient, anything else - an assertion, an
   exception of the stage code, an exit status - is not.  A transient failure
   consumes one unit of the retry budget (--autoretry=N, the budget of the whole
   mrp process, not per job) and the failed job is reset and run again; without
   budget, or for a failure that is not transient, mrp exits with status 1.

   fails[j] says how often job j fails before it succeeds (Forever: always) and
   whether the failure is transient.  TLC checks that the run always ends, that
   no job is executed more often than the budget allows, and computes for
   every profile of a small grid the exit status and the number of executions
   of each job; real mrp processes with stage code that fails accordingly must
   show exactly those. *)
EXTENDS Integers, Sequences, FiniteSets, TLC, Json, SequencesExt

CONSTANTS N,          \* number of jobs of the chain
          MaxRetries, \* --autoretry
          Forever     \* a count that stands for "every time"

VARIABLES fails,      \* job -> [n |-> how often it fails, transient |-> BOOLEAN]  (chosen at the start)
          pc,         \* index of the job that runs next; N + 1: complete; 0: mrp has exited with status 1
          budget, execs
vars == <<fails, pc, budget, execs>>

Profiles == [n : {0, 1, 2, 3, Forever}, transient : BOOLEAN]
Init == /\ fails \in [1..N -> Profiles]
        /\ pc = 1 /\ budget = MaxRetries /\ execs = [j \in 1..N |-> 0]

Fails(j) == fails[j].n = Forever \/ execs[j] < fails[j].n      \* the execution about to happen fails
Run(j) ==
    /\ pc = j /\ j \in 1..N
    /\ execs' = [execs EXCEPT ![j] = @ + 1]
    /\ IF ~Fails(j) THEN pc' = j + 1 /\ UNCHANGED budget
       ELSE IF fails[j].transient /\ budget > 0 THEN pc' = j /\ budget' = budget - 1     \* reset and run again
       ELSE pc' = 0 /\ UNCHANGED budget
    /\ UNCHANGED fails
Next == \E j \in 1..N : Run(j)
Spec == Init /\ [][Next]_vars /\ WF_vars(Next)

Ended == pc = 0 \/ pc = N + 1
Terminates == <>Ended
Bounded == \A j \in 1..N : execs[j] <= MaxRetries + 1
BudgetShared == (MaxRetries - budget) = 0 \/ \E j \in 1..N : execs[j] > 1
(* a failure that is not transient is never retried *)
NoRetryOfPermanent == \A j \in 1..N : ~fails[j].transient /\ fails[j].n # 0 => execs[j] <= 1
(* closed form of the outcome, checked against the transition system in every final state *)
RECURSIVE Outcome(_, _, _)
Outcome(f, j, b) ==      \* <<exit status, executions of jobs j..N>> with budget b left
    IF j > N THEN <<0, <<>>>>
    ELSE LET k == f[j].n IN
         IF k = 0 THEN LET r == Outcome(f, j + 1, b) IN <<r[1], <<1>> \o r[2]>>
         ELSE IF ~f[j].transient THEN <<1, <<1>> \o [i \in 1..(N - j) |-> 0]>>
         ELSE IF k # Forever /\ k <= b THEN LET r == Outcome(f, j + 1, b - k) IN <<r[1], <<k + 1>> \o r[2]>>
         ELSE <<1, <<b + 1>> \o [i \in 1..(N - j) |-> 0]>>
Predicted == Ended => LET o == Outcome(fails, 1, MaxRetries) IN
                      /\ (o[1] = 0) = (pc = N + 1)
                      /\ \A j \in 1..N : execs[j] = o[2][j]

Rows == SetToSeq({[fails |-> f, status |-> Outcome(f, 1, MaxRetries)[1], execs |-> Outcome(f, 1, MaxRetries)[2]]
                  : f \in [1..N -> Profiles]})
ASSUME ndJsonSerialize("retry_rows_" \o ToString(MaxRetries) \o ".ndjson", Rows)
=============================================================================

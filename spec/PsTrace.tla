------------------------------ MODULE PsTrace ------------------------------
(* Property-level monitors over traces recorded from real pipestance runs
   (direction A).  The trace file is a concatenation of runs; each run starts
   with a RunBegin record that carries the table of expected jobs computed by
   MroSem for the program of that run (job key, instance, kind, chunk,
   dependencies, whether it is the last job of its instance).

   The monitors state exactly what properties C01-C03 and C06 demand, on
   events emitted by the stage processes themselves (StageBegin / StageEnd)
   and on the final state.  They never block: every violated guard appends a
   record to `bad`, so one pass classifies all runs; the result is written
   when the last line has been consumed.

   Normalised record fields (all present in every record):
     ev, run, job, inst, kind, chunk, flag, txt, outcome, jobs, faults *)
EXTENDS Integers, Sequences, FiniteSets, TLC, Json

Trace == ndJsonDeserialize("trace.ndjson")

VARIABLES l,        \* next line to consume
          run,      \* name of the current run
          exp,      \* job key -> expected job record
          faults,   \* job key -> injected fault ("" = none)
          begun,    \* job key -> number of times the job's process started
          ended,    \* job key -> outcome of the last end
          failed,   \* instances with a failed job
          weakp,    \* the program has an unforked merge over a run-time collection
          tainted,  \* the known "unforked-merge" defect has manifested in this run
          bad       \* violations found so far

vars == <<l, run, exp, faults, begun, ended, failed, weakp, tainted, bad>>

Init == /\ l = 1 /\ run = "" /\ exp = <<>> /\ faults = <<>> /\ begun = <<>> /\ ended = <<>>
        /\ failed = {} /\ bad = <<>> /\ tainted = FALSE /\ weakp = FALSE

Ev == Trace[l]
Viol(p, what) == [run |-> run, line |-> l, prop |-> p, job |-> Ev.job, what |-> what]

FnOf(s) == [k \in {s[i].key : i \in DOMAIN s} |-> s[CHOOSE i \in DOMAIN s : s[i].key = k]]
Range(s) == {s[i] : i \in DOMAIN s}

OkEnded(k) == k \in DOMAIN ended /\ ended[k] = "ok"
(* an instance has finished when its last job (join, or the single main) ended ok *)
InstDone(i) == \E k \in DOMAIN exp : exp[k].inst = i /\ exp[k].last /\ OkEnded(k)
InstFailed(i) == i \in failed
JobsOf(i, kind) == {k \in DOMAIN exp : exp[k].inst = i /\ exp[k].kind = kind}

RunBegin ==
    /\ Ev.ev = "RunBegin"
    /\ run' = Ev.run
    /\ exp' = FnOf(Ev.jobs)
    /\ faults' = FnOf(Ev.faults)
    /\ begun' = <<>> /\ ended' = <<>> /\ failed' = {} /\ tainted' = FALSE /\ weakp' = Ev.weak
    /\ UNCHANGED bad

WeakBroken(e) == \E d \in Range(e.wdeps) : ~InstDone(d)

(* ---- guards on the start of a job ---- *)
BeginViolations ==
    LET j == Ev.job
        known == j \in DOMAIN exp
        e == exp[j]
    IN  (IF ~known THEN <<Viol("C03", "a job was executed that the program does not contain: " \o j)>> ELSE <<>>)
     \o (IF known /\ e.ghost
         THEN <<Viol("C03", "ghost: a job was executed inside a call that is mapped over an empty or null collection")>>
         ELSE <<>>)
     \o (IF j \in DOMAIN begun /\ (~known \/ j \notin DOMAIN faults \/ TRUE)
         THEN <<Viol("C03", "job executed more than once")>> ELSE <<>>)
     \o (IF known /\ \E d \in Range(e.deps) : ~InstDone(d)
         THEN <<Viol("C02", "job started before its dependency finished: "
                     \o (CHOOSE d \in Range(e.deps) : ~InstDone(d)))>> ELSE <<>>)
     \o (IF known /\ WeakBroken(e)
         THEN <<Viol("C02", "unforked-merge: job started before the producer of a collection its input is merged over finished: "
                     \o (CHOOSE d \in Range(e.wdeps) : ~InstDone(d)))>> ELSE <<>>)
     \o (IF known /\ e.kind = "main" /\ e.split /\ \E k \in JobsOf(e.inst, "split") : ~OkEnded(k)
         THEN <<Viol("C02", "chunk started before the split finished")>> ELSE <<>>)
     \o (IF known /\ e.kind = "join" /\ \E k \in JobsOf(e.inst, "main") \cup JobsOf(e.inst, "split") : ~OkEnded(k)
         THEN <<Viol("C02", "join started before every chunk finished")>> ELSE <<>>)
     \o (IF known /\ ~Ev.flag
         THEN <<Viol("C01", (IF WeakBroken(e) \/ tainted THEN "unforked-merge: " ELSE "")
                            \o "arguments differ from what the bindings denote: " \o Ev.txt)>> ELSE <<>>)
     \o (IF known /\ \E d \in Range(e.deps) : InstFailed(d)
         THEN <<Viol("C06", "job started although a call it depends on has failed")>> ELSE <<>>)

StageBegin ==
    /\ Ev.ev = "StageBegin"
    /\ bad' = bad \o BeginViolations
    /\ begun' = (Ev.job :> (IF Ev.job \in DOMAIN begun THEN begun[Ev.job] + 1 ELSE 1)) @@ begun
    /\ tainted' = (tainted \/ (Ev.job \in DOMAIN exp /\ WeakBroken(exp[Ev.job])))
    /\ UNCHANGED <<run, exp, faults, ended, failed, weakp>>

StageEnd ==
    /\ Ev.ev = "StageEnd"
    /\ ended' = (Ev.job :> Ev.outcome) @@ ended
    /\ failed' = IF Ev.outcome # "ok" /\ Ev.job \in DOMAIN exp
                 THEN failed \cup {exp[Ev.job].inst} ELSE failed
    /\ UNCHANGED <<run, exp, faults, begun, bad, tainted, weakp>>

(* ---- guards on the final state ---- *)
NoFault == \A k \in DOMAIN faults : faults[k].fault = ""
EndViolations ==
    LET st == Ev.outcome IN
    IF DOMAIN faults = {} \/ NoFault THEN
        (IF st \notin {"complete", "disabled"}
         THEN <<Viol("C03", (IF tainted \/ (weakp /\ Ev.kind = "merge-unresolved") THEN "unforked-merge: " ELSE "")
                            \o "the pipestance did not complete (state " \o st \o "): " \o Ev.txt)>>
         ELSE
            (IF \E k \in DOMAIN exp : ~exp[k].ghost /\ k \notin DOMAIN begun
             THEN <<Viol("C03", "job was never executed: " \o (CHOOSE k \in DOMAIN exp : ~exp[k].ghost /\ k \notin DOMAIN begun))>>
             ELSE <<>>)
         \o (IF ~Ev.flag THEN <<Viol("C01", (IF tainted THEN "unforked-merge: " ELSE "")
                 \o "top-level outputs differ from what the return bindings denote: " \o Ev.txt)>> ELSE <<>>))
    ELSE
        (IF st # "failed"
         THEN <<Viol("C06", "a job failed but the pipestance ended in state " \o st)>> ELSE <<>>)

RunEnd ==
    /\ Ev.ev = "RunEnd"
    /\ bad' = bad \o EndViolations
    /\ UNCHANGED <<run, exp, faults, begun, ended, failed, tainted, weakp>>

Other ==
    /\ Ev.ev \notin {"RunBegin", "StageBegin", "StageEnd", "RunEnd"}
    /\ UNCHANGED <<run, exp, faults, begun, ended, failed, tainted, weakp, bad>>

Next == /\ l <= Len(Trace)
        /\ l' = l + 1
        /\ (RunBegin \/ StageBegin \/ StageEnd \/ RunEnd \/ Other)

Spec == Init /\ [][Next]_vars

(* written once, when the whole trace has been consumed *)
Done == l = Len(Trace) + 1
Report == Done => ndJsonSerialize("monitor_out.ndjson", <<[n |-> Len(Trace), bad |-> bad]>>)
===========================================================================

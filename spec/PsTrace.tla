------------------------------ MODULE PsTrace ------------------------------
(* Property-level monitors over traces recorded from real pipestance runs
   (direction A).  The trace file is a concatenation of runs; each run starts
   with a RunBegin record that carries the table of expected jobs computed by
   MroSem for the program of that run (job key, instance, kind, chunk,
   dependencies, whether it is the last job of its instance) and the faults
   injected into the first incarnation.  A run consists of one or more
   incarnations of mrp separated by Restart records (the fault is removed at
   the restart).

   The monitors state exactly what properties C01, C02, C03 and C06 demand, on
   events emitted by the stage code itself (StageBegin / StageEnd) and on the
   final state of each incarnation.  They never block: every violated guard
   appends a record to `bad`, so one pass classifies all runs; the result is
   written when the last line has been consumed.

   Normalised record fields (all present in every record):
     ev, run, job, kind, flag, weak, named, txt, outcome, jobs, faults,
     files, gs, xs, ts, ls (sequences of strings), nums (sequence of integers), facts *)
EXTENDS Integers, Sequences, FiniteSets, TLC, Json

Trace == ndJsonDeserialize("trace.ndjson")

VARIABLES l,        \* next line to consume
          run,      \* name of the current run
          exp,      \* job key -> expected job record
          faults,   \* job key -> fault injected in the current incarnation
          begun,    \* jobs whose process started in the current incarnation
          ended,    \* job key -> outcome of its last end (any incarnation)
          killed,   \* jobs that died with a previous mrp
          done0,    \* jobs that had ended ok before the current incarnation
          failed,   \* instances with a failed job in the current incarnation
          phase,    \* number of restarts so far
          pcr,      \* property the restart guards belong to: "C06" (restart after a
                    \* failure) or "C05" (restart after an interruption of mrp)
          weakp,    \* the program has an unforked merge over a run-time collection
          jowner,   \* journal file name -> directory of the job that wrote it
          routing,  \* the journal file mrp is attributing right now ("" = none)
          rname,    \* the sentinel name that entry announces
          mdjob,    \* job directory -> job it was created for
          tainted,  \* the known "unforked-merge" defect has manifested in this run
          ffacts,   \* file key -> [users, top, retained, vol, svol, chunk] (MroSem.FileFacts)
          vmode,    \* VDR mode of the run ("" = files are not observed)
          bad       \* violations found so far

vars == <<l, run, exp, faults, begun, ended, killed, done0, failed, phase, pcr, weakp, jowner, routing,
          rname, mdjob, tainted, ffacts, vmode, bad>>
fvars == <<ffacts, vmode>>
jvars == <<jowner, routing, rname, mdjob>>

Init == /\ l = 1 /\ run = "" /\ exp = <<>> /\ faults = <<>> /\ begun = {} /\ ended = <<>>
        /\ killed = {} /\ done0 = {} /\ failed = {} /\ phase = 0 /\ pcr = "C06"
        /\ weakp = FALSE /\ tainted = FALSE /\ bad = <<>>
        /\ jowner = <<>> /\ routing = "" /\ rname = "" /\ mdjob = <<>>
        /\ ffacts = <<>> /\ vmode = ""

Ev == Trace[l]
Viol(p, what) == [run |-> run, line |-> l, prop |-> p, job |-> Ev.job, what |-> what]

FnOf(s) == [k \in {s[i].key : i \in DOMAIN s} |-> s[CHOOSE i \in DOMAIN s : s[i].key = k]]
Range(s) == {s[i] : i \in DOMAIN s}

OkEnded(k) == k \in DOMAIN ended /\ ended[k] = "ok" /\ k \notin killed
(* an instance has finished when its last job (join, or the single main) ended ok *)
InstDone(i) == \E k \in DOMAIN exp : exp[k].inst = i /\ exp[k].last /\ OkEnded(k)
JobsOf(i, kind) == {k \in DOMAIN exp : exp[k].inst = i /\ exp[k].kind = kind}
WeakBroken(e) == \E d \in Range(e.wdeps) : ~InstDone(d)
Faulty == DOMAIN faults # {}

RunBegin ==
    /\ Ev.ev = "RunBegin"
    /\ run' = Ev.run
    /\ exp' = FnOf(Ev.jobs)
    /\ faults' = FnOf(Ev.faults)
    /\ begun' = {} /\ ended' = <<>> /\ killed' = {} /\ done0' = {} /\ failed' = {}
    /\ phase' = 0 /\ tainted' = FALSE /\ weakp' = Ev.weak
    /\ pcr' = IF Ev.kind = "crash" THEN "C05" ELSE "C06"
    /\ jowner' = <<>> /\ routing' = "" /\ rname' = "" /\ mdjob' = <<>>
    /\ ffacts' = FnOf(Ev.facts) /\ vmode' = Ev.txt
    /\ UNCHANGED bad

(* ---- guards on the start of a job ---- *)
BeginViolations ==
    LET j == Ev.job
        known == j \in DOMAIN exp
        e == exp[j]
        \* the consumer of an unforked merge is the call site of the known defect,
        \* whether or not the producer of the collection happened to be finished
        um == IF known /\ (WeakBroken(e) \/ tainted \/ e.wdeps # <<>>) THEN "unforked-merge: " ELSE ""
    IN  (IF ~known /\ Ev.kind # "placeholder"
         THEN <<Viol("C03", "a job was executed that the program does not contain: " \o j)>> ELSE <<>>)
     \o (IF Ev.kind = "placeholder"
         THEN <<Viol("C02", "a job of a not yet expanded fork was started: the collection its call is mapped over was not finished")>>
         ELSE <<>>)
     \o (IF known /\ e.ghost
         THEN <<Viol("C03", "ghost: a job was executed inside a call that is mapped over an empty or null collection")>>
         ELSE <<>>)
     \o (IF j \in begun
         THEN <<Viol("C03", "job executed more than once")>> ELSE <<>>)
     \o (IF j \notin begun /\ j \in done0
         THEN <<Viol(pcr, "a job whose completion had been recorded was executed again after the restart")>>
         ELSE <<>>)
     \o (IF known /\ \E d \in Range(e.deps) : ~InstDone(d)
         THEN <<Viol("C02", "job started before its dependency finished: "
                     \o (CHOOSE d \in Range(e.deps) : ~InstDone(d)))>> ELSE <<>>)
     \o (IF known /\ WeakBroken(e)
         THEN <<Viol("C02", "unforked-merge: job started before the producer of a collection its input is merged over finished: "
                     \o (CHOOSE d \in Range(e.wdeps) : ~InstDone(d)))>> ELSE <<>>)
     \o (IF known /\ e.kind = "main" /\ e.split /\ \E k \in JobsOf(e.inst, "split") : ~OkEnded(k)
         THEN <<Viol("C02", "chunk started before the split finished")>> ELSE <<>>)
     \o (IF known /\ e.kind = "join" /\ \E k \in JobsOf(e.inst, "main") \cup JobsOf(e.inst, "split") : ~OkEnded(k)
         THEN <<Viol("C02", "join started before every chunk finished")>> ELSE <<>>)
     \o (IF known /\ ~Ev.flag
         THEN <<Viol("C01", um \o "arguments differ from what the bindings denote: " \o Ev.txt)>> ELSE <<>>)
     \o (IF Ev.files # <<>>
         THEN <<Viol("C04", "a stage did not find a file named in its arguments when it started: " \o Ev.files[1])>>
         ELSE <<>>)
     \o (IF known /\ \E d \in Range(e.deps) : d \in failed
         THEN <<Viol("C06", "job started although a call it depends on has failed: "
                     \o (CHOOSE d \in Range(e.deps) : d \in failed))>> ELSE <<>>)

StageBegin ==
    /\ Ev.ev = "StageBegin"
    /\ bad' = bad \o BeginViolations
    /\ begun' = begun \cup {Ev.job}
    /\ killed' = killed \ {Ev.job}
    /\ tainted' = (tainted \/ (Ev.job \in DOMAIN exp /\ WeakBroken(exp[Ev.job])))
    /\ UNCHANGED <<fvars, run, exp, faults, ended, done0, failed, phase, pcr, weakp, jvars>>

StageEnd ==
    /\ Ev.ev = "StageEnd"
    /\ ended' = (Ev.job :> Ev.outcome) @@ ended
    /\ failed' = IF Ev.outcome # "ok" /\ Ev.job \in DOMAIN exp
                 THEN failed \cup {exp[Ev.job].inst} ELSE failed
    \* C06: a call that depends on the failing one must not have been started (it could only
    \* have started before this call finished)
    /\ bad' = bad \o (IF Ev.outcome # "ok" /\ Ev.job \in DOMAIN exp
                         /\ \E k \in begun : k \in DOMAIN exp /\ exp[Ev.job].inst \in Range(exp[k].deps)
                      THEN <<Viol("C06", "a call failed after a call that depends on it had been started: "
                                  \o (CHOOSE k \in begun : k \in DOMAIN exp /\ exp[Ev.job].inst \in Range(exp[k].deps)))>>
                      ELSE <<>>)
    /\ UNCHANGED <<fvars, run, exp, faults, begun, killed, done0, phase, pcr, weakp, tainted, jvars>>

(* a job that was running when mrp exited dies with it *)
StageKilled ==
    /\ Ev.ev = "StageKilled"
    /\ killed' = killed \cup {Ev.job}
    /\ UNCHANGED <<fvars, run, exp, faults, begun, ended, done0, failed, phase, pcr, weakp, tainted, bad, jvars>>

(* C11: every notification is attributed to exactly the job directory (node, fork,
   chunk, attempt) that wrote it, and distinct jobs never share a directory *)
JobSubmitted ==
    /\ Ev.ev = "JobSubmitted"
    /\ bad' = bad \o (IF Ev.kind \in DOMAIN mdjob /\ mdjob[Ev.kind] # Ev.job
                      THEN <<Viol("C11", "two distinct jobs share one directory " \o Ev.kind \o ": also " \o mdjob[Ev.kind])>>
                      ELSE <<>>)
    /\ mdjob' = (Ev.kind :> Ev.job) @@ mdjob
    /\ UNCHANGED <<fvars, run, exp, faults, begun, ended, killed, done0, failed, phase, pcr, weakp, tainted, jowner, routing, rname>>
JournalWrite ==
    /\ Ev.ev = "JournalWrite"
    /\ bad' = bad \o (IF Ev.txt \in DOMAIN jowner /\ jowner[Ev.txt] # Ev.kind
                      THEN <<Viol("C11", "two jobs write the same journal name " \o Ev.txt)>> ELSE <<>>)
    /\ jowner' = (Ev.txt :> Ev.kind) @@ jowner
    /\ UNCHANGED <<fvars, run, exp, faults, begun, ended, killed, done0, failed, phase, pcr, weakp, tainted, routing, rname, mdjob>>
JournalSeen ==
    /\ Ev.ev = "JournalSeen"
    /\ routing' = Ev.txt /\ rname' = Ev.kind
    /\ UNCHANGED <<fvars, run, exp, faults, begun, ended, killed, done0, failed, phase, pcr, weakp, tainted, jowner, mdjob, bad>>
JournalRemove ==
    /\ Ev.ev = "JournalRemove"
    /\ routing' = "" /\ rname' = ""
    /\ UNCHANGED <<fvars, run, exp, faults, begun, ended, killed, done0, failed, phase, pcr, weakp, tainted, jowner, mdjob, bad>>
MdCache ==
    /\ Ev.ev = "MdCache"
    \* (asynchronous cleanup goroutines cache their own files meanwhile: only the
    \* sentinel the entry announces counts)
    /\ bad' = bad \o (IF routing # "" /\ Ev.txt = rname /\ routing \in DOMAIN jowner /\ jowner[routing] # Ev.kind
                      THEN <<Viol("C11", "the notification " \o routing \o " written for " \o jowner[routing]
                                         \o " was attributed to " \o Ev.kind)>>
                      ELSE <<>>)
    /\ UNCHANGED <<fvars, run, exp, faults, begun, ended, killed, done0, failed, phase, pcr, weakp, tainted, jvars>>

(* ---- files (C04, C14) ---- *)
Keep(f) == ffacts[f].top \/ ffacts[f].retained
(* may (must, at completion) the runtime reclaim what a stage wrote *)
Volatile(vol, svol) == vol \/ svol = "strict" \/ (vmode = "strict" /\ svol # "false")
ReclaimFile(f) == ~Keep(f) /\ (ffacts[f].chunk \/ Volatile(ffacts[f].vol, ffacts[f].svol))
ReclaimExtra(j) == j \in DOMAIN exp /\ ((exp[j].kind = "main" /\ exp[j].split) \/ Volatile(exp[j].vol, exp[j].svol))

RemoveViolations ==
    LET known == {f \in Range(Ev.files) : f \in DOMAIN ffacts}
        kept == {f \in known : Keep(f)}
        live == {f \in known : \E u \in Range(ffacts[f].users) : ~OkEnded(u)}
    IN  (IF kept # {}
         THEN <<Viol("C04", "removed a file named by a top-level output or a retain declaration: "
                     \o (CHOOSE f \in kept : TRUE) \o " (" \o Ev.txt \o ")")>> ELSE <<>>)
     \o (IF live \ kept # {}
         THEN LET f == CHOOSE f \in live \ kept : TRUE IN
              <<Viol("C04", "removed a file while a call it was handed to had not finished: " \o f \o " needed by "
                     \o (CHOOSE u \in Range(ffacts[f].users) : ~OkEnded(u)) \o " (" \o Ev.txt \o ")")>> ELSE <<>>)
     \o (IF ~Ev.flag
         THEN <<Viol("C14", "removed a path outside the pipestance directory: " \o Ev.txt)>> ELSE <<>>)
VdrRemove ==
    /\ Ev.ev = "VdrRemove"
    /\ bad' = bad \o RemoveViolations
    /\ UNCHANGED <<fvars, run, exp, faults, begun, ended, killed, done0, failed, phase, pcr, weakp, tainted, jvars>>

(* final state of a completed run: files = present, gs = gone or damaged, xs / ts =
   jobs whose unreferenced / temporary file survives, ls = paths a kill report lists
   that still exist, nums = <<report count, report size, removed regular files, their
   bytes, removed directory entries (files and directories, mrp's unit of account;
   of a temporary directory only its contents), their bytes>> *)
FinalViolations ==
    LET lostkeep == {f \in Range(Ev.gs) : f \in DOMAIN ffacts /\ Keep(f)}
        survived == {f \in Range(Ev.files) : f \in DOMAIN ffacts /\ ReclaimFile(f)}
        xsurv == {j \in Range(Ev.xs) : ReclaimExtra(j)}
        n == Ev.nums
    IN  (IF lostkeep # {}
         THEN <<Viol("C04", "a file named by a top-level output or a retain declaration does not exist with its original content at completion: "
                     \o (CHOOSE f \in lostkeep : TRUE))>> ELSE <<>>)
     \o (IF survived # {}
         THEN <<Viol("C14", "a file that had to be reclaimed survives completion: " \o (CHOOSE f \in survived : TRUE))>> ELSE <<>>)
     \o (IF xsurv # {}
         THEN <<Viol("C14", "an unreferenced file of a volatile stage (or of a chunk of a splitting stage) survives completion: job "
                     \o (CHOOSE j \in xsurv : TRUE))>> ELSE <<>>)
     \o (IF Ev.ts # <<>>
         THEN <<Viol("C14", "a per-job temporary directory survives completion: job " \o Ev.ts[1])>> ELSE <<>>)
     \o (IF Ev.ls # <<>>
         THEN <<Viol("C14", "a path listed in the kill report still exists: " \o Ev.ls[1])>> ELSE <<>>)
     \o (IF n[1] >= 0 /\ ~(n[1] = n[5] /\ n[2] = n[6])
         THEN <<Viol("C14", "the kill report does not say what was removed: it reports " \o ToString(n[1]) \o " files, "
                     \o ToString(n[2]) \o " bytes; removed were " \o ToString(n[5]) \o " directory entries (" \o ToString(n[3])
                     \o " regular files), " \o ToString(n[6]) \o " bytes")>> ELSE <<>>)
VdrFinal ==
    /\ Ev.ev = "VdrFinal"
    /\ bad' = bad \o FinalViolations
    /\ UNCHANGED <<fvars, run, exp, faults, begun, ended, killed, done0, failed, phase, pcr, weakp, tainted, jvars>>

(* C12, cluster mode: nums = <<jobs submitted to the cluster and not finished, --maxjobs>> *)
ClusterSubmit ==
    /\ Ev.ev = "ClusterSubmit"
    /\ bad' = bad \o (IF Ev.nums[1] > Ev.nums[2]
                      THEN <<Viol("C12", "more jobs are on the cluster than --maxjobs allows: " \o ToString(Ev.nums[1])
                                         \o " submitted and not finished, limit " \o ToString(Ev.nums[2]))>>
                      ELSE <<>>)
    /\ UNCHANGED <<fvars, run, exp, faults, begun, ended, killed, done0, failed, phase, pcr, weakp, tainted, jvars>>

(* mrp was interrupted: killed outright, or by a signal it handles - then the
   pipestance must be left unlocked (flag = no _lock after the exit) *)
Interrupted ==
    /\ Ev.ev = "Interrupted"
    /\ bad' = bad \o (IF Ev.kind # "SIGKILL" /\ ~Ev.flag
                      THEN <<Viol("C05", "mrp exited on the handled signal " \o Ev.kind \o " but left the pipestance locked")>>
                      ELSE <<>>)
    /\ UNCHANGED <<fvars, run, exp, faults, begun, ended, killed, done0, failed, phase, pcr, weakp, tainted, jvars>>

(* ---- guards on the final state of an incarnation ---- *)
EndViolations ==
    LET st == Ev.outcome
        um == IF tainted \/ (weakp /\ Ev.kind = "merge-unresolved") THEN "unforked-merge: " ELSE ""
        pp == IF phase = 0 THEN "C03" ELSE pcr
        after == IF phase = 0 THEN "" ELSE IF pcr = "C05" THEN "after mrp was interrupted and restarted, "
                 ELSE "after the fault was removed and mrp restarted, "
    IN
    IF ~Faulty THEN
        (IF st \notin {"complete", "disabled"}
         THEN <<Viol(pp, um \o after \o "the pipestance did not complete (state " \o st \o "): " \o Ev.txt)>>
         ELSE
            (IF \E k \in DOMAIN exp : ~exp[k].ghost /\ ~OkEnded(k)
             THEN <<Viol(pp, after \o "job was never executed: "
                         \o (CHOOSE k \in DOMAIN exp : ~exp[k].ghost /\ ~OkEnded(k)))>>
             ELSE <<>>)
         \o (IF ~Ev.flag THEN <<Viol(IF phase = 0 THEN "C01" ELSE pcr,
                 um \o after \o "top-level outputs differ from what the return bindings denote: " \o Ev.txt)>> ELSE <<>>))
    ELSE
        (IF st # "failed"
         THEN <<Viol("C06", "a job failed (" \o (CHOOSE k \in DOMAIN faults : TRUE) \o ": "
                     \o faults[CHOOSE k \in DOMAIN faults : TRUE].fault
                     \o ") but the pipestance ended in state " \o st)>>
         ELSE IF ~Ev.named
         THEN <<Viol("C06", "the reported error does not name the failing stage: " \o Ev.txt)>>
         ELSE <<>>)

RunEnd ==
    /\ Ev.ev = "RunEnd"
    /\ bad' = bad \o EndViolations
    /\ UNCHANGED <<fvars, run, exp, faults, begun, ended, killed, done0, failed, phase, pcr, weakp, tainted, jvars>>

(* the operator removes the fault and starts mrp again on the same directory *)
Restart ==
    /\ Ev.ev = "Restart"
    /\ phase' = phase + 1
    /\ faults' = <<>>
    /\ done0' = {k \in DOMAIN ended : OkEnded(k)}
    /\ begun' = {} /\ failed' = {}
    /\ UNCHANGED <<fvars, run, exp, ended, killed, pcr, weakp, tainted, bad, jvars>>

Other ==
    /\ Ev.ev \notin {"RunBegin", "StageBegin", "StageEnd", "StageKilled", "RunEnd", "Restart", "Interrupted",
                     "JobSubmitted", "JournalWrite", "JournalSeen", "JournalRemove", "MdCache", "VdrRemove", "VdrFinal", "ClusterSubmit"}
    /\ UNCHANGED <<fvars, run, exp, faults, begun, ended, killed, done0, failed, phase, pcr, weakp, tainted, bad, jvars>>

Next == /\ l <= Len(Trace)
        /\ l' = l + 1
        /\ (RunBegin \/ StageBegin \/ StageEnd \/ StageKilled \/ RunEnd \/ Restart \/ Interrupted
            \/ JobSubmitted \/ JournalWrite \/ JournalSeen \/ JournalRemove \/ MdCache \/ VdrRemove \/ VdrFinal \/ ClusterSubmit \/ Other)

Spec == Init /\ [][Next]_vars

(* written once, when the whole trace has been consumed *)
Done == l = Len(Trace) + 1
Report == Done => ndJsonSerialize("monitor_out.ndjson", <<[n |-> Len(Trace), bad |-> bad]>>)
===========================================================================

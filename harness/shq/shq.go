// Package shq replays the rows of the ShQuote specification: the real
// appendShellSafeQuote against the model's Quote, and the real /bin/sh against
// the original string (the property) and against the model's ShRead.
package shq

import (
	"bufio"
	"bytes"
	"encoding/hex"
	"encoding/json"
	"fmt"
	"os"
	"os/exec"
	"path/filepath"
	"sort"
	"strings"
	"sync"

	"github.com/martian-lang/martian/martian/core"
)

type Row struct {
	S  []string `json:"s"`
	Q  []string `json:"q"`
	R  []string `json:"r"`
	Ok bool     `json:"ok"`
}

type Finding struct {
	Kind   string `json:"kind"`
	S      string `json:"s"` // Go-quoted original
	Got    string `json:"got"`
	Class  string `json:"class"`
	Detail string `json:"detail"`
}

type Report struct {
	Rows       int       `json:"rows"`
	ShellRuns  int       `json:"shell_runs"`
	Scripts    int       `json:"scripts"`
	Violations []Finding `json:"violations"`
	Drift      []Finding `json:"drift"`
	Samples    []Finding `json:"samples"`
}

func concrete(cs []string) string {
	var b strings.Builder
	for _, c := range cs {
		switch c {
		case "<FF>":
			b.WriteByte(0xff)
		case "<80>":
			b.WriteByte(0x80)
		default:
			b.WriteString(c)
		}
	}
	return b.String()
}

// class: the characters of s that matter to a shell, as a stable label
func class(cs []string) string {
	set := map[string]bool{}
	for _, c := range cs {
		switch c {
		case "a", "7", "_", "=", "é":
		case "\n":
			set["NL"] = true
		case "\t":
			set["TAB"] = true
		case "\r":
			set["CR"] = true
		case " ":
			set["SP"] = true
		default:
			set[c] = true
		}
	}
	ks := make([]string, 0, len(set))
	for k := range set {
		ks = append(ks, k)
	}
	sort.Strings(ks)
	return strings.Join(ks, "")
}

func runShell(dir string, quoted []string) ([]string, error) {
	var script bytes.Buffer
	script.WriteString("printf '%s\\0'")
	for _, q := range quoted {
		script.WriteString(" \\\n  ")
		script.WriteString(q)
	}
	script.WriteString("\n")
	p := filepath.Join(dir, "batch.sh")
	if err := os.WriteFile(p, script.Bytes(), 0644); err != nil {
		return nil, err
	}
	cmd := exec.Command("/bin/sh", p)
	cmd.Dir = dir
	cmd.Env = []string{"PATH=/usr/bin:/bin", "LC_ALL=C"}
	out, err := cmd.Output()
	parts := strings.Split(string(out), "\x00")
	if len(parts) > 0 && parts[len(parts)-1] == "" {
		parts = parts[:len(parts)-1]
	}
	return parts, err
}

// Main: vh sh-replay <rows.ndjson> <workdir>
func Main(args []string) int {
	f, err := os.Open(args[0])
	if err != nil {
		fmt.Fprintln(os.Stderr, err)
		return 2
	}
	defer f.Close()
	dir := args[1]
	rep := &Report{Violations: []Finding{}, Drift: []Finding{}, Samples: []Finding{}}
	var rows []Row
	sc := bufio.NewScanner(f)
	sc.Buffer(make([]byte, 1<<20), 1<<26)
	for sc.Scan() {
		var r Row
		if err := json.Unmarshal(sc.Bytes(), &r); err != nil {
			fmt.Fprintln(os.Stderr, "bad row:", err)
			return 2
		}
		rows = append(rows, r)
	}
	rep.Rows = len(rows)
	const batch = 400
	for i := 0; i < len(rows); i += batch {
		j := i + batch
		if j > len(rows) {
			j = len(rows)
		}
		quoted := make([]string, 0, j-i)
		for _, r := range rows[i:j] {
			s := concrete(r.S)
			q := string(core.VerifAppendShellSafeQuote(nil, s))
			if q != concrete(r.Q) && len(rep.Drift) < 20 {
				rep.Drift = append(rep.Drift, Finding{Kind: "quote-differs-from-model", S: fmt.Sprintf("%q", s),
					Got: fmt.Sprintf("%q", q), Class: class(r.S), Detail: fmt.Sprintf("model %q", concrete(r.Q))})
			}
			quoted = append(quoted, q)
		}
		outs, err := runShell(dir, quoted)
		rep.ShellRuns++
		if err != nil || len(outs) != len(quoted) {
			// some word broke the script: run the words one by one
			outs = make([]string, len(quoted))
			for k, q := range quoted {
				o, _ := runShell(dir, []string{q})
				rep.ShellRuns++
				if len(o) == 1 {
					outs[k] = o[0]
				} else {
					outs[k] = "<shell error or " + fmt.Sprint(len(o)) + " words>"
				}
			}
		}
		for k, r := range rows[i:j] {
			s := concrete(r.S)
			if outs[k] != s {
				rep.Violations = append(rep.Violations, Finding{Kind: "shell-does-not-recover-string",
					S: fmt.Sprintf("%q", s), Got: fmt.Sprintf("%q", outs[k]), Class: class(r.S),
					Detail: fmt.Sprintf("quoted as %q", quoted[k])})
			}
			// the shell model itself: where it predicts plain text, the real shell must agree
			plain := true
			for _, c := range r.R {
				if strings.HasPrefix(c, "<") && strings.HasSuffix(c, ">") && c != "<FF>" && c != "<80>" {
					plain = false
				}
			}
			if plain && concrete(r.R) != outs[k] && concrete(r.Q) == quoted[k] && len(rep.Drift) < 20 {
				rep.Drift = append(rep.Drift, Finding{Kind: "shell-model-differs-from-sh", S: fmt.Sprintf("%q", s),
					Got: fmt.Sprintf("%q", outs[k]), Class: class(r.S), Detail: fmt.Sprintf("model read %q", concrete(r.R))})
			}
			if len(rep.Samples) < 5 && len(r.S) >= 2 {
				rep.Samples = append(rep.Samples, Finding{Kind: "sample", S: fmt.Sprintf("%q", s),
					Got: fmt.Sprintf("%q", outs[k]), Detail: fmt.Sprintf("quoted %q", quoted[k])})
			}
		}
	}
	scripts(rows, dir, rep)
	b, _ := json.Marshal(rep)
	fmt.Println(string(b))
	if len(rep.Violations) > 0 {
		return 1
	}
	return 0
}

const tmpl = `#!/bin/sh
# __MRO_JOB_NAME__
# threads __MRO_THREADS__ mem __MRO_MEM_GB__ GB __MRO_MEM_MB__ MB per thread __MRO_MEM_GB_PER_THREAD__ __MRO_MEM_MB_PER_THREAD__
# vmem __MRO_VMEM_GB__ __MRO_VMEM_MB__ __MRO_VMEM_KB__
# account __MRO_ACCOUNT__
# resources __MRO_RESOURCES__
cd __MRO_JOB_WORKDIR__ || exit 7
/usr/bin/env __MRO_CMD__ > __MRO_STDOUT__ 2> __MRO_STDERR__
`

const tmplOwnLine = `#!/bin/sh
#$ -N __MRO_JOB_NAME__
#$ -pe threads __MRO_THREADS__
#$ -l mem_free=__MRO_MEM_GB__G
#$ -o __MRO_STDOUT__
#$ -e __MRO_STDERR__
#$ -A __MRO_ACCOUNT__
#$ -l __MRO_RESOURCES__

__MRO_CMD__
`

// values that look like template parameters must come through like any other text
var placeholders = []string{"__MRO_JOB_NAME__", "__MRO_THREADS__", "__MRO_STDOUT__", "__MRO_STDERR__", "__MRO_JOB_WORKDIR__",
	"__MRO_CMD__", "__MRO_MEM_GB__", "__MRO_MEM_MB__", "__MRO_VMEM_GB__", "__MRO_ACCOUNT__", "__MRO_RESOURCES__"}

// scripts: whole job scripts (RemoteJobManager.jobScript) with the string used
// as argument, as environment value and inside the metadata path, executed by
// /bin/sh with a probe command that dumps what it received.
func scripts(rows []Row, dir string, rep *Report) {
	self, _ := os.Executable()
	step := len(rows)/300 + 1
	type item struct {
		s   string
		cls []string
	}
	var items []item
	for i := 0; i < len(rows); i += step {
		items = append(items, item{concrete(rows[i].S), rows[i].S})
	}
	// values a shell would expand if they were ever left unquoted
	for _, v := range []string{"/opt/tools/lib:~/lib", "a:~", "~", "~root", "x=~/y", "a b", "*", "?", "[a]", "{a,b}", "$HOME", "a;b", "a&b",
		"a|b", "a>b", "a<b", "(a)", "#a", "a\\b", "-n", "--", "a\tb", "a\nb", "%s", "!!",
		"line1\r\nline2", "\r\n", "a\r", "\rb", "end\r\n", "\n\r", "a\r\r\nb"} {
		items = append(items, item{v, []string{"expansion " + v}})
	}
	for _, ph := range placeholders {
		items = append(items, item{"run" + ph, []string{"placeholder " + ph}}, item{ph + " x " + ph, []string{"placeholder " + ph}})
	}
	defer os.Unsetenv("MRO_THREADS")
	for idx, it := range items {
		r := Row{S: it.cls}
		s := it.s
		if s == "" {
			continue
		}
		// mrp's own environment: for every other item it already has the thread-count
		// variable, with the very value the job is to get
		if idx%2 == 0 {
			os.Setenv("MRO_THREADS", "1")
		} else {
			os.Unsetenv("MRO_THREADS")
		}
		// a directory whose name contains the string (no '/' possible)
		mdName := "md" + strings.ReplaceAll(s, "/", "_")
		md := filepath.Join(dir, "scr", mdName)
		if err := os.MkdirAll(filepath.Join(md, "files"), 0755); err != nil {
			continue
		}
		envs := map[string]string{"VERIF_PROBE_ENV": s, "ZZ": "__MRO_CMD__" + s}
		bad := ""
		script := ""
		// two template styles: redirections in the command line, and the command on
		// a line of its own as in the shipped templates (output handled by directives)
		for style, t := range []string{tmpl, tmplOwnLine} {
			mdp := md
			if style == 1 && strings.Contains(s, "\n") {
				// a scheduler directive is a comment line: no quoting can carry a
				// newline there, so such a path is not put into this template
				mdp = filepath.Join(dir, "scr", "md_plain")
				os.MkdirAll(filepath.Join(mdp, "files"), 0755)
			}
			// every other item with the job manager's debug setting (mrp --debug)
			// the stage's `special` resource request: a name the site has no --jobresources
			// mapping for (nothing of it belongs in the script), or a mapped one
			inject := filepath.Join(dir, "INJECTED")
			os.Remove(inject)
			special, mappings := "", map[string]string{"highmem": "mem_free=64G"}
			switch idx % 3 {
			case 0:
				special = "gpu\ntouch " + inject + "\n#"
			case 1:
				special = "highmem"
			}
			script = core.VerifJobScriptSpecial(len(s)%2 == 1 || strings.ContainsAny(s, "\n\r"), t, "mem_free=1G,__RESOURCES__", mappings, special,
				self, []string{"probe", s, "second " + s},
				envs, mdp, "ID.x.P.S.fork0", "main", 1, 1)
			sp := filepath.Join(dir, "job.sh")
			os.WriteFile(sp, []byte(script), 0755)
			cmd := exec.Command("/bin/sh", sp)
			cmd.Dir = dir
			cmd.Env = []string{"PATH=/usr/bin:/bin", "LC_ALL=C", "HOME=/nonexistent/verif-home"}
			stdout, err := cmd.Output()
			rep.Scripts++
			out, rerr := stdout, error(nil)
			if style == 0 {
				out, rerr = os.ReadFile(filepath.Join(md, "_stdout"))
			}
			var got struct {
				Argv []string `json:"argv"`
				Env  string   `json:"env"`
				ZZ   string   `json:"zz"`
				Cwd  string   `json:"cwd"`
				Thr  string   `json:"thr"`
			}
			if err != nil {
				bad = "script failed: " + err.Error()
			} else if rerr != nil {
				bad = "stdout not at the metadata path: " + rerr.Error()
			} else if json.Unmarshal(out, &got) != nil {
				bad = "probe output unreadable: " + string(out)
			} else if unhex(&got.Env, &got.ZZ, &got.Cwd, &got.Thr) && unhexs(got.Argv) && false {
			} else if len(got.Argv) != 2 || got.Argv[0] != s || got.Argv[1] != "second "+s {
				bad = fmt.Sprintf("argv %q", got.Argv)
			} else if got.Env != s {
				bad = fmt.Sprintf("environment value %q", got.Env)
			} else if got.ZZ != "__MRO_CMD__"+s {
				bad = fmt.Sprintf("environment value containing a placeholder %q", got.ZZ)
			} else if style == 0 && got.Cwd != filepath.Join(md, "files") {
				bad = fmt.Sprintf("working directory %q", got.Cwd)
			} else if got.Thr != "1" {
				bad = fmt.Sprintf("thread-count variable MRO_THREADS is %q in the job which reserved 1 thread (mrp's own environment: MRO_THREADS=%q)", got.Thr, os.Getenv("MRO_THREADS"))
			}
			if _, err := os.Lstat(inject); err == nil && bad == "" {
				bad = fmt.Sprintf("the stage's special resource request %q was executed as shell text", special)
				os.Remove(inject)
			}
			if bad != "" {
				break
			}
		}
		if bad != "" {
			rep.Violations = append(rep.Violations, Finding{Kind: "job-script", S: fmt.Sprintf("%q", s),
				Got: bad, Class: class(r.S), Detail: "script:\n" + script})
		}
		os.RemoveAll(filepath.Join(dir, "scr"))
	}
}

// Concurrent: mrp renders the scripts of jobs dispatched in one pass from parallel
// goroutines on ONE job manager.  Every script rendered concurrently must be the one a
// fresh job manager renders for the same job on its own.
func Concurrent(args []string) int {
	render := core.VerifJobScripter(tmpl)
	const G, N = 8, 1500
	type bad struct {
		Job, Got, Want string
	}
	var mu sync.Mutex
	var bads []bad
	var wg sync.WaitGroup
	n := 0
	for g := 0; g < G; g++ {
		wg.Add(1)
		go func(g int) {
			defer wg.Done()
			for i := 0; i < N; i++ {
				id := fmt.Sprintf("g%d_%d", g, i)
				argv := []string{"probe", id + " $x `y` \"q\"", strings.Repeat(id, 1+i%5)}
				envs := map[string]string{"VERIF_PROBE_ENV": id, "ZZ": "__MRO_CMD__" + id}
				md := "/nonexistent/ps/S/fork" + id
				got := render("/bin/prog_"+id, argv, envs, md, "ID.x.P.S.fork"+id, "main", float64(1+i%3), float64(1+g%2))
				want := core.VerifJobScript(tmpl, "/bin/prog_"+id, argv, envs, md, "ID.x.P.S.fork"+id, "main", float64(1+i%3), float64(1+g%2))
				if got != want {
					mu.Lock()
					if len(bads) < 5 {
						bads = append(bads, bad{id, got, want})
					}
					n++
					mu.Unlock()
				}
			}
		}(g)
	}
	wg.Wait()
	b, _ := json.Marshal(map[string]interface{}{"renderings": G * N, "goroutines": G, "differ": n, "examples": bads})
	fmt.Println(string(b))
	return 0
}

func unhex(ps ...*string) bool {
	for _, p := range ps {
		b, _ := hex.DecodeString(*p)
		*p = string(b)
	}
	return true
}

func unhexs(a []string) bool {
	for i := range a {
		b, _ := hex.DecodeString(a[i])
		a[i] = string(b)
	}
	return true
}

// Probe: vh probe <args...> prints argv and two environment values as JSON
func Probe(args []string) int {
	cwd, _ := os.Getwd()
	// JSON cannot carry invalid UTF-8: strings travel hex encoded
	raw := func(s string) string { return hex.EncodeToString([]byte(s)) }
	hargs := make([]string, len(args))
	for i, a := range args {
		hargs[i] = raw(a)
	}
	b, _ := json.Marshal(map[string]interface{}{"argv": hargs, "env": raw(os.Getenv("VERIF_PROBE_ENV")),
		"zz": raw(os.Getenv("ZZ")), "cwd": raw(cwd), "thr": raw(os.Getenv("MRO_THREADS"))})
	os.Stdout.Write(b)
	return 0
}

// Package slots replays behaviours of spec/SlotSem.tla on the real
// core.MaxJobsSemaphore: the environment actions of a behaviour (a goroutine
// calls Acquire, a waiting job is cancelled, a holder releases, a job ends
// unnoticed, FindDone) are performed on the real object, the scheduling of the
// woken goroutines is the real one.  Judged on the real object: never more
// holders than the limit, and never a goroutine left parked for a job that is
// not cancelled while a slot is free and nobody else is running (C12).
package slots

import (
	"bufio"
	"encoding/json"
	"fmt"
	"os"
	"path/filepath"
	"sync"
	"time"

	"github.com/martian-lang/martian/martian/core"
)

type Step struct {
	A string `json:"a"`
	J int    `json:"j"`
}

type Behaviour struct {
	Id    int    `json:"id"`
	Limit int    `json:"limit"`
	Jobs  int    `json:"jobs"`
	Steps []Step `json:"steps"`
}

type Violation struct {
	Behaviour int    `json:"behaviour"`
	Step      int    `json:"step"`
	Kind      string `json:"kind"`
	Detail    string `json:"detail"`
}

type Report struct {
	Behaviours int            `json:"behaviours"`
	Steps      int            `json:"steps"`
	Actions    map[string]int `json:"actions"`
	Parked     int            `json:"goroutines_parked"`
	Violations []Violation    `json:"violations"`
	Infra      []string       `json:"infra"`
}

type client struct {
	md        *core.Metadata
	called    bool
	returned  bool
	result    bool
	cancelled bool
	released  bool
	ended     bool
}

type run struct {
	mu      sync.Mutex
	sem     *core.MaxJobsSemaphore
	cl      map[int]*client
	limit   int
	changes int
	parked  int
}

func (r *run) snapshot() (holders, blockedLive, blocked int, changes int) {
	r.mu.Lock()
	defer r.mu.Unlock()
	for _, c := range r.cl {
		// (a job cancelled while its goroutine was about to take the slot holds it
		// until FindDone drops it: the semaphore's own count is what matters for it)
		if c.returned && c.result && !c.released && !c.cancelled {
			holders++
		}
		if c.called && !c.returned {
			blocked++
			if !c.cancelled {
				blockedLive++
			}
		}
	}
	return holders, blockedLive, blocked, r.changes
}

// settle waits until no goroutine has returned for the given time.
func (r *run) settle(quiet time.Duration) {
	_, _, _, last := r.snapshot()
	deadline := time.Now().Add(quiet)
	for time.Now().Before(deadline) {
		time.Sleep(200 * time.Microsecond)
		if _, _, _, c := r.snapshot(); c != last {
			last = c
			deadline = time.Now().Add(quiet)
		}
	}
}

func (r *run) judge(b *Behaviour, step int, rep *Report) bool {
	holders, live, _, _ := r.snapshot()
	cur := r.sem.Current()
	if cur > r.limit || holders > r.limit {
		rep.Violations = append(rep.Violations, Violation{b.Id, step, "WithinLimit",
			fmt.Sprintf("%d jobs hold a slot (the semaphore counts %d), the limit is %d", holders, cur, r.limit)})
		return false
	}
	if live > 0 && cur < r.limit {
		// suspected: make sure it is not a slow goroutine
		r.settle(300 * time.Millisecond)
		holders, live, _, _ = r.snapshot()
		cur = r.sem.Current()
		if live > 0 && cur < r.limit {
			rep.Violations = append(rep.Violations, Violation{b.Id, step, "NoStall",
				fmt.Sprintf("%d goroutine(s) stay blocked in Acquire for jobs that are still queued although only %d of %d slots are taken and no other goroutine is running", live, cur, r.limit)})
			return false
		}
	}
	return true
}

func replayOne(b *Behaviour, dir string, rep *Report) {
	r := &run{sem: core.NewMaxJobsSemaphore(b.Limit), cl: map[int]*client{}, limit: b.Limit}
	for j := 1; j <= b.Jobs; j++ {
		p := filepath.Join(dir, fmt.Sprintf("b%d_j%d", b.Id, j))
		os.MkdirAll(p, 0755)
		md := core.NewMetadata(fmt.Sprintf("ID.b%d.J%d.fork0", b.Id, j), p)
		md.WriteRaw(core.JobInfoFile, "{}")
		r.cl[j] = &client{md: md}
	}
	hookMu.Lock()
	cur = r
	hookMu.Unlock()
	defer func() {
		// let every goroutine go before the next behaviour
		r.sem.Clear()
		r.settle(2 * time.Millisecond)
		hookMu.Lock()
		cur = nil
		hookMu.Unlock()
	}()
	for i, s := range b.Steps {
		c := r.cl[s.J]
		rep.Steps++
		switch s.A {
		case "Call":
			if c.called {
				continue
			}
			r.mu.Lock()
			c.called = true
			r.mu.Unlock()
			rep.Actions["Call"]++
			go func(c *client) {
				ok := r.sem.Acquire(c.md, false)
				r.mu.Lock()
				c.returned, c.result = true, ok
				r.changes++
				r.mu.Unlock()
			}(c)
		case "Cancel":
			r.mu.Lock()
			skip := !c.called || c.returned || c.cancelled
			if !skip {
				c.cancelled = true
			}
			r.mu.Unlock()
			if skip {
				continue
			}
			rep.Actions["Cancel"]++
			c.md.WriteRaw(core.Errors, "cancelled")
		case "Release":
			r.mu.Lock()
			ok := c.returned && c.result && !c.released
			if ok {
				c.released = true
			}
			r.mu.Unlock()
			if !ok {
				continue
			}
			rep.Actions["Release"]++
			r.sem.Release(c.md)
		case "End":
			r.mu.Lock()
			ok := c.returned && c.result && !c.released && !c.ended
			if ok {
				c.ended = true
				c.released = true // FindDone will drop it
			}
			r.mu.Unlock()
			if !ok {
				continue
			}
			rep.Actions["End"]++
			c.md.WriteRaw(core.CompleteFile, "done")
			continue // (nothing happens until FindDone)
		case "FindDone":
			rep.Actions["FindDone"]++
			r.sem.FindDone()
		default:
			continue // internal steps of the model: the real goroutines take their own
		}
		if i%3 != 2 {
			r.settle(1 * time.Millisecond)
		}
	}
	// the jobs that ended unnoticed are found
	r.sem.FindDone()
	r.settle(3 * time.Millisecond)
	if !r.judge(b, len(b.Steps), rep) {
		return
	}
	// drain: the holders release one after the other; after each, whoever still
	// waits for a live job must get the free slot
	for n := 0; n < 4*b.Jobs; n++ {
		var h *client
		r.mu.Lock()
		for j := 1; j <= b.Jobs; j++ {
			if c := r.cl[j]; c.returned && c.result && !c.released {
				h = c
				c.released = true
				break
			}
		}
		r.mu.Unlock()
		if h == nil {
			break
		}
		r.sem.Release(h.md)
		r.settle(3 * time.Millisecond)
		if !r.judge(b, len(b.Steps)+n+1, rep) {
			return
		}
	}
	if _, live, _, _ := r.snapshot(); live > 0 {
		r.judge(b, len(b.Steps)+99, rep)
	}
}

var hookMu sync.Mutex
var cur *run

// Main: vh slot-replay <behaviours.ndjson> <workdir>
func Main(args []string) int {
	f, err := os.Open(args[0])
	if err != nil {
		fmt.Fprintln(os.Stderr, err)
		return 2
	}
	defer f.Close()
	dir := args[1]
	rep := &Report{Actions: map[string]int{}, Violations: []Violation{}, Infra: []string{}}
	core.VerifHook = func(kind string, kv ...string) {
		if kind == "SlotWait" {
			hookMu.Lock()
			if cur != nil {
				cur.parked++
				rep.Parked++
			}
			hookMu.Unlock()
		}
	}
	sc := bufio.NewScanner(f)
	sc.Buffer(make([]byte, 1<<20), 1<<26)
	for sc.Scan() {
		var b Behaviour
		if err := json.Unmarshal(sc.Bytes(), &b); err != nil {
			rep.Infra = append(rep.Infra, err.Error())
			continue
		}
		rep.Behaviours++
		replayOne(&b, dir, rep)
	}
	core.VerifHook = nil
	out, _ := json.Marshal(rep)
	fmt.Println(string(out))
	return 0
}

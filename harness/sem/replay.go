// Package sem replays behaviours of the ResSem specification against the real
// core.ResourceSemaphore and judges the C12 property guards on the observed
// state of the real object.
package sem

import (
	"bufio"
	"encoding/json"
	"fmt"
	"os"
	"runtime"
	"time"

	"github.com/martian-lang/martian/martian/core"
)

type Post struct {
	Cur      int64 `json:"cur"`
	Reserved int64 `json:"reserved"`
	Waiters  []int `json:"waiters"`
	Holding  []int `json:"holding"`
}

type Step struct {
	A    string `json:"a"`
	C    int    `json:"c"`
	N    int64  `json:"n"`
	M    int64  `json:"m"`
	Post Post   `json:"post"`
}

type Behaviour struct {
	Id    int    `json:"id"`
	Max   int64  `json:"max"`
	Steps []Step `json:"steps"`
}

type Finding struct {
	Behaviour int    `json:"behaviour"`
	Step      int    `json:"step"`
	Kind      string `json:"kind"`
	Detail    string `json:"detail"`
}

type Report struct {
	Behaviours int            `json:"behaviours"`
	Steps      int            `json:"steps"`
	Actions    map[string]int `json:"actions"`
	Violations []Finding      `json:"violations"`
	Drift      []Finding      `json:"drift"`
	Infra      []Finding      `json:"infra"`
}

type ret struct {
	c   int
	err error
}

type req struct {
	c int
	n int64
}

const wait = 3 * time.Second

func replay(b *Behaviour, rep *Report) {
	sem := core.NewResourceSemaphore(b.Max, core.DefaultResourceFormatter("units"))
	returns := make(chan ret, 64)
	var pending []req       // requests issued and not yet returned, in issue order
	held := map[int]int64{} // c -> amount acquired
	var sumHeld int64
	viol := func(i int, kind, format string, a ...interface{}) {
		rep.Violations = append(rep.Violations, Finding{b.Id, i, kind, fmt.Sprintf(format, a...)})
	}
	drift := func(i int, format string, a ...interface{}) {
		if len(rep.Drift) < 50 {
			rep.Drift = append(rep.Drift, Finding{b.Id, i, "model-drift", fmt.Sprintf(format, a...)})
		}
	}
	infra := func(i int, format string, a ...interface{}) {
		rep.Infra = append(rep.Infra, Finding{b.Id, i, "infra", fmt.Sprintf(format, a...)})
	}
	// take one return (arrival order of returns within one step is arbitrary;
	// FIFO is judged after the step on the set of grants)
	var grantedIdx []int // indices into `before` of requests granted in this step
	var before []req     // pending list at the start of the step (plus the new request)
	take := func(i int, r ret, granted *bool) {
		idx := -1
		for k, p := range pending {
			if p.c == r.c {
				idx = k
				break
			}
		}
		if idx < 0 {
			infra(i, "return of unknown client %d", r.c)
			return
		}
		p := pending[idx]
		if r.err == nil {
			for k, q := range before {
				if q.c == p.c {
					grantedIdx = append(grantedIdx, k)
				}
			}
			held[p.c] = p.n
			sumHeld += p.n
			*granted = true
		}
		pending = append(pending[:idx], pending[idx+1:]...)
	}
	for i, s := range b.Steps {
		rep.Steps++
		rep.Actions[s.A]++
		granted := false
		rejected := false
		grantedIdx = grantedIdx[:0]
		before = append(before[:0], pending...)
		switch s.A {
		case "AcquireFast", "AcquireReject", "AcquireEnqueue":
			q0 := sem.QueueLength()
			pending = append(pending, req{s.C, s.N})
			before = append(before, req{s.C, s.N})
			go func(c int, n int64) { returns <- ret{c, sem.Acquire(n)} }(s.C, s.N)
			// wait until the call either returned or is enqueued
			deadline := time.Now().Add(wait)
			done := false
			for !done {
				select {
				case r := <-returns:
					if r.c == s.C && r.err != nil {
						rejected = true
					}
					take(i, r, &granted)
					if r.c == s.C {
						done = true
					}
				default:
					if sem.QueueLength() > q0 {
						done = true
					} else if time.Now().After(deadline) {
						infra(i, "Acquire(%d) neither returned nor enqueued", s.N)
						return
					} else {
						runtime.Gosched()
					}
				}
			}
		case "Release":
			n, ok := held[s.C]
			if !ok {
				// the real object did not grant what the model granted; already reported
				drift(i, "model releases client %d which does not hold in the real object", s.C)
				return
			}
			delete(held, s.C)
			sumHeld -= n
			sem.Release(n)
		case "UpdateActual":
			sem.UpdateActual(s.N)
		case "UpdateSize":
			sem.UpdateSize(s.N)
		case "UpdateFreeUsed":
			sem.UpdateFreeUsed(s.N, s.M)
		default:
			infra(i, "unknown action %s", s.A)
			return
		}
		// everybody removed from the queue has been granted: collect them
		deadline := time.Now().Add(wait)
		for len(pending) > sem.QueueLength() {
			select {
			case r := <-returns:
				take(i, r, &granted)
			default:
				if time.Now().After(deadline) {
					infra(i, "%d pending, queue length %d: grant not observed", len(pending), sem.QueueLength())
					return
				}
				runtime.Gosched()
			}
		}
		R, C, Q := sem.Reserved(), sem.CurrentSize(), sem.QueueLength()
		// FIFO: a granted request must not be younger than one still waiting
		for _, g := range grantedIdx {
			for _, p := range pending {
				for k, q := range before {
					if q.c == p.c && k < g {
						viol(i, "Fifo", "request of client %d (amount %d) was granted while the older request of client %d (amount %d) is still waiting",
							before[g].c, before[g].n, q.c, q.n)
					}
				}
			}
		}
		// ---- property guards, on the real object's observable state ----
		if sumHeld > b.Max {
			viol(i, "WithinLimits", "clients hold %d in total, more than the maximum %d", sumHeld, b.Max)
		}
		if granted && sumHeld > C {
			viol(i, "GrantFits", "a request was granted although holders then hold %d of current size %d", sumHeld, C)
		}
		if len(pending) > 0 && pending[0].n <= C-sumHeld && pending[0].n <= b.Max {
			viol(i, "NoLostWakeup", "oldest waiter (client %d, amount %d) fits the free capacity %d but was not granted",
				pending[0].c, pending[0].n, C-sumHeld)
		}
		if s.A == "AcquireReject" != rejected && s.N <= b.Max && rejected {
			viol(i, "WithinLimits", "request of %d (<= maximum %d) was refused", s.N, b.Max)
		}
		// ---- mechanism comparison with the model ----
		if R != s.Post.Reserved || C != s.Post.Cur || Q != len(s.Post.Waiters) {
			drift(i, "after %s: real (reserved=%d cur=%d qlen=%d) model (reserved=%d cur=%d qlen=%d)",
				s.A, R, C, Q, s.Post.Reserved, s.Post.Cur, len(s.Post.Waiters))
			return // the model no longer predicts this run
		}
		if len(held) != len(s.Post.Holding) {
			drift(i, "after %s: real holders %d model holders %d", s.A, len(held), len(s.Post.Holding))
			return
		}
	}
	// release everything so that blocked goroutines end
	for _, n := range held {
		sem.Release(n)
	}
	sem.UpdateSize(1 << 40)
	for len(pending) > 0 {
		select {
		case r := <-returns:
			for k, p := range pending {
				if p.c == r.c {
					pending = append(pending[:k], pending[k+1:]...)
					break
				}
			}
			if r.err == nil {
				for _, p := range []int{r.c} {
					_ = p
				}
			}
		case <-time.After(wait):
			return
		}
	}
}

// ReplayMain: vh sem-replay <behaviours.ndjson>
func ReplayMain(args []string) int {
	f, err := os.Open(args[0])
	if err != nil {
		fmt.Fprintln(os.Stderr, err)
		return 2
	}
	defer f.Close()
	rep := &Report{Actions: map[string]int{}, Violations: []Finding{}, Drift: []Finding{}, Infra: []Finding{}}
	sc := bufio.NewScanner(f)
	sc.Buffer(make([]byte, 1<<20), 1<<26)
	for sc.Scan() {
		var b Behaviour
		if err := json.Unmarshal(sc.Bytes(), &b); err != nil {
			fmt.Fprintln(os.Stderr, "bad behaviour:", err)
			return 2
		}
		rep.Behaviours++
		replay(&b, rep)
	}
	out, _ := json.Marshal(rep)
	fmt.Println(string(out))
	if len(rep.Violations) > 0 {
		return 1
	}
	return 0
}

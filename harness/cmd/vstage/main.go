// vstage: table-driven stage executable for real mrp runs (process driver).
//
// Invoked (through mrjob for `src comp`, or directly for `src exec`) as
//
//	vstage <STAGE> <split|main|join> <metadata_path> <files_path> <journal_prefix>
//
// It looks its job up in the table named by $VSTAGE_TABLE (computed by the
// MroSem specification for the program), checks the arguments it received,
// writes the predicted outputs, and records StageBegin / StageEnd events in
// the trace file $VERIF_TRACE (one O_APPEND write per event).
package main

import (
	"syscall"
	"encoding/json"
	"fmt"
	"net/url"
	"os"
	"path"
	"regexp"
	"strconv"
	"strings"
	"time"

	"verif/harness/run"
)

type table struct {
	Psdir  string            `json:"psdir"`
	Invs   []run.Inv         `json:"invs"`
	Faults map[string]string `json:"faults"`
	Delay  int               `json:"delay_ms"`
	Delays map[string]int    `json:"delays_ms"` // extra time a particular job takes
	VmapMB map[string]int    `json:"vmap_mb"`   // address space (MB) a particular job maps without touching it
}

var chunkRe = regexp.MustCompile(`^chnk(\d+)(?:-u[0-9a-f]{10})?$`)
var sjRe = regexp.MustCompile(`^(split|join)(?:-u[0-9a-f]{10})?$`)

func emit(ev string, kv ...interface{}) {
	p := os.Getenv("VERIF_TRACE")
	if p == "" {
		return
	}
	m := map[string]interface{}{"w": "job:" + strconv.Itoa(os.Getpid()), "ev": ev}
	for i := 0; i+1 < len(kv); i += 2 {
		m[kv[i].(string)] = kv[i+1]
	}
	b, _ := json.Marshal(m)
	f, err := os.OpenFile(p, os.O_WRONLY|os.O_APPEND|os.O_CREATE, 0644)
	if err == nil {
		f.Write(append(b, '\n'))
		f.Close()
	}
}

func fail(mrjob bool, md, journal, pre, msg string) {
	if mrjob {
		// the job monitor turns text on fd 4 into _errors
		f := os.NewFile(4, "errpipe")
		fmt.Fprint(f, msg)
		f.Close()
		os.Exit(1)
	}
	os.WriteFile(path.Join(md, "_errors"), []byte(msg), 0644)
	os.WriteFile(journal+"."+pre+"errors", []byte("x"), 0644)
	os.Exit(0)
}

func main() {
	if len(os.Args) < 6 {
		fmt.Fprintln(os.Stderr, "usage: vstage STAGE kind md files journal")
		os.Exit(2)
	}
	args := os.Args[len(os.Args)-4:]
	kind, md, files, journal := args[0], args[1], args[2], args[3]
	mrjob := os.Getenv("VSTAGE_MRJOB") != "0"
	pre := ""
	if kind == "split" {
		pre = "split_"
	} else if kind == "join" {
		pre = "join_"
	}
	var tb table
	b, err := os.ReadFile(os.Getenv("VSTAGE_TABLE"))
	if err == nil {
		err = json.Unmarshal(b, &tb)
	}
	if err != nil {
		fail(mrjob, md, journal, pre, "vstage: cannot read table: "+fmt.Sprint(err))
	}
	if !mrjob {
		os.WriteFile(path.Join(md, "_log"), []byte("log\n"), 0644)
		os.WriteFile(journal+"."+pre+"log", []byte("x"), 0644)
	}
	// job identity from the metadata path
	rel := strings.TrimPrefix(md, tb.Psdir+"/")
	comps := strings.Split(rel, "/")
	base := comps[len(comps)-1]
	chunk := 0
	jk := kind
	if m := chunkRe.FindStringSubmatch(base); m != nil {
		chunk, _ = strconv.Atoi(m[1])
		jk = "main"
	} else if m := sjRe.FindStringSubmatch(base); m != nil {
		jk = m[1]
	}
	// a fork over several dimensions has one directory level per dimension (fork_a/fork0)
	nf := 1
	for len(comps)-2-nf > 0 && strings.HasPrefix(comps[len(comps)-2-nf], "fork") {
		nf++
	}
	callPath := strings.Join(comps[:len(comps)-1-nf], ".")
	var idxs []string
	for _, forkDir := range comps[len(comps)-1-nf : len(comps)-1] {
		one := ""
		if strings.HasPrefix(forkDir, "fork_") {
			one, _ = url.PathUnescape(forkDir[5:])
		} else {
			one = strings.TrimLeft(forkDir[4:], "0")
			if one == "" {
				one = "0"
			}
		}
		idxs = append(idxs, one)
	}
	idx := strings.Join(idxs, ",")
	var inv *run.Inv
	for _, cand := range []string{callPath + "[" + idx + "]", callPath + "[]"} {
		for i := range tb.Invs {
			if tb.Invs[i].Inst == cand && tb.Invs[i].Kind == jk && tb.Invs[i].Chunk == chunk {
				inv = &tb.Invs[i]
				break
			}
		}
		if inv != nil {
			break
		}
	}
	key := callPath + "[" + idx + "]/" + jk + "/" + strconv.Itoa(chunk)
	if inv != nil {
		key = inv.Key()
	}
	argsOk := true
	detail := ""
	if inv != nil {
		pred, _ := run.Untag(inv.Args)
		var act interface{}
		ab, err := os.ReadFile(path.Join(md, "_args"))
		if err == nil {
			err = json.Unmarshal(ab, &act)
		}
		if am, ok := act.(map[string]interface{}); err != nil || !ok {
			argsOk, detail = false, "cannot read _args"
		} else if am = run.StripInternal(am); !run.SameLax(pred, am, nil) {
			argsOk, detail = false, "predicted "+run.Canon(pred)+" got "+run.Canon(am)
		}
	}
	// what else the job is handed besides its arguments: a join reads the chunk definitions
	cdefs := ""
	if jk == "join" {
		if b, err := os.ReadFile(path.Join(md, "_chunk_defs")); err == nil {
			var v interface{}
			if json.Unmarshal(b, &v) == nil {
				cdefs = run.Canon(v)
			} else {
				cdefs = "unreadable: " + string(b)
			}
		} else {
			cdefs = "missing"
		}
	}
	emit("StageBegin", "job", key, "known", inv != nil, "argsOk", argsOk, "detail", detail, "md", rel, "cdefs", cdefs)
	if n := tb.VmapMB[key]; n > 0 {
		// reserve address space only: no memory is used
		if _, err := syscall.Mmap(-1, 0, n<<20, syscall.PROT_NONE, syscall.MAP_ANON|syscall.MAP_PRIVATE|syscall.MAP_NORESERVE); err != nil {
			emit("Note", "job", key, "text", "mmap: "+err.Error())
		}
	}
	if tb.Delay > 0 {
		time.Sleep(time.Duration(tb.Delay) * time.Millisecond)
	}
	if d := tb.Delays[key]; d > 0 {
		time.Sleep(time.Duration(d) * time.Millisecond)
	}
	fault := tb.Faults[key]
	// "signal*2": the fault for the first two executions of this job, none afterwards
	if i := strings.IndexByte(fault, '*'); i > 0 {
		limit, _ := strconv.Atoi(fault[i+1:])
		fault = fault[:i]
		seen := 0
		if tb, err := os.ReadFile(os.Getenv("VERIF_TRACE")); err == nil {
			for _, l := range strings.Split(string(tb), "\n") {
				if strings.Contains(l, `"ev":"StageBegin"`) && strings.Contains(l, `"job":"`+key+`"`) {
					seen++
				}
			}
		}
		if seen > limit {
			fault = ""
		}
	}
	if inv == nil {
		emit("StageEnd", "job", key, "outcome", "unknown-job")
		fail(mrjob, md, journal, pre, "vstage: job not in the table: "+key)
	}
	switch fault {
	case "exit":
		emit("StageEnd", "job", key, "outcome", "exit")
		os.Exit(3)
	case "signal":
		emit("StageEnd", "job", key, "outcome", "signal")
		p, _ := os.FindProcess(os.Getpid())
		p.Kill()
		time.Sleep(time.Second)
	case "errors":
		emit("StageEnd", "job", key, "outcome", "errors")
		fail(mrjob, md, journal, pre, "injected failure of "+key)
	case "assert":
		emit("StageEnd", "job", key, "outcome", "assert")
		fail(mrjob, md, journal, pre, "ASSERT:injected assertion of "+key)
	}
	if jk == "split" {
		chunks := make([]interface{}, inv.NChunks)
		for i := range chunks {
			chunks[i] = map[string]interface{}{"ci": i}
		}
		ob, _ := json.Marshal(map[string]interface{}{"chunks": chunks, "join": map[string]interface{}{}})
		os.WriteFile(path.Join(md, "_stage_defs"), ob, 0644)
	} else {
		outs, _ := run.Untag(inv.Outs)
		// file-typed outputs: write the file into the job's files directory and report its path
		outs = run.Resolve(outs, func(f run.FileRef) string {
			fp := path.Join(files, f.Name)
			os.WriteFile(fp, []byte("content of "+f.Key()+"\n"), 0644)
			return fp
		})
		ob, _ := json.Marshal(outs)
		os.WriteFile(path.Join(md, "_outs"), ob, 0644)
	}
	emit("StageEnd", "job", key, "outcome", "ok")
	if !mrjob {
		os.WriteFile(path.Join(md, "_complete"), []byte("done"), 0644)
		os.WriteFile(journal+"."+pre+"complete", []byte("x"), 0644)
	}
}

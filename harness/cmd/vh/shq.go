package main

import "verif/harness/shq"

func init() {
	commands["sh-replay"] = shq.Main
	commands["probe"] = shq.Probe
	commands["sh-concurrent"] = shq.Concurrent
}

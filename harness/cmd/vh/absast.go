package main

import "verif/harness/absast"

func init() {
	commands["ast-probe"] = absast.Probe
	commands["ast-batch"] = absast.Batch
	commands["compile-batch"] = absast.CompileBatch
}

package main

import "verif/harness/types"

func init() {
	commands["types-replay"] = types.Main
}

package main

import "verif/harness/sysreqs"

func init() {
	commands["sysreqs-replay"] = sysreqs.Main
}

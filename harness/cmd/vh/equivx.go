package main

import "verif/harness/equivx"

func init() {
	commands["equiv-run"] = equivx.Run
	commands["lock-race"] = equivx.LockRace
}

package main

import (
	"bufio"
	"encoding/json"
	"fmt"
	"os"

	"verif/harness/run"
)

func init() {
	commands["ps-run"] = psRun
}

// vh ps-run <specs.ndjson> <results.ndjson> <workdir>
func psRun(args []string) int {
	in, err := os.Open(args[0])
	if err != nil {
		fmt.Fprintln(os.Stderr, err)
		return 2
	}
	defer in.Close()
	out, err := os.Create(args[1])
	if err != nil {
		fmt.Fprintln(os.Stderr, err)
		return 2
	}
	defer out.Close()
	w := bufio.NewWriter(out)
	defer w.Flush()
	sc := bufio.NewScanner(in)
	sc.Buffer(make([]byte, 1<<20), 1<<28)
	for sc.Scan() {
		var spec run.Spec
		if err := json.Unmarshal(sc.Bytes(), &spec); err != nil {
			fmt.Fprintln(os.Stderr, "bad spec:", err)
			return 2
		}
		res := run.Run(&spec, args[2])
		b, _ := json.Marshal(struct {
			*run.Result
			Trace []map[string]interface{} `json:"trace"`
		}{res, res.Trace})
		w.Write(b)
		w.WriteByte('\n')
	}
	return 0
}

// vh: the Go side of the /verif conformance harness.  Each sub-command reads
// cases produced by the TLA+ specifications (or runs the real code and writes
// traces for TLC to validate) and prints one JSON report on stdout.
package main

import (
	"fmt"
	"os"
)

type command func(args []string) int

var commands = map[string]command{}

func main() {
	if len(os.Args) < 2 {
		fmt.Fprintln(os.Stderr, "usage: vh <command> ...")
		os.Exit(2)
	}
	c, ok := commands[os.Args[1]]
	if !ok {
		fmt.Fprintln(os.Stderr, "unknown command", os.Args[1])
		os.Exit(2)
	}
	os.Exit(c(os.Args[2:]))
}

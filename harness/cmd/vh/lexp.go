package main

import "verif/harness/lexp"

func init() {
	commands["lex-replay"] = lexp.LexReplay
	commands["parse-cases"] = lexp.ParseCases
	commands["token-edits"] = lexp.TokenEdits
}

package main

import "verif/harness/slots"

func init() {
	commands["slot-replay"] = slots.Main
}

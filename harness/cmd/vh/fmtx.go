package main

import "verif/harness/fmtx"

func init() {
	commands["fmt-replay"] = fmtx.Replay
	commands["fmt-programs"] = fmtx.Programs
}

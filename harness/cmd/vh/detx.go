package main

import "verif/harness/detx"

func init() {
	commands["det-run"] = detx.Run
}

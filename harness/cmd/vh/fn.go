package main

import "verif/harness/forknames"

func init() {
	commands["forknames-replay"] = forknames.Main
}

package main

import "verif/harness/sem"

func init() {
	commands["sem-replay"] = sem.ReplayMain
}

package main

import "verif/harness/invx"

func init() {
	commands["inv-run"] = invx.Run
}

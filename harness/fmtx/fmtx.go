// Package fmtx replays the layouts of spec/Fmt.tla through the real formatter
// (C09): each abstract layout (comment / blank / element lines of one scope)
// is concretised for every construct family, formatted, and the layout of the
// result is compared with the model's; the oracle (comments kept, fixed point,
// output parses to the same program) is judged on the real output.
package fmtx

import (
	"bufio"
	"encoding/json"
	"fmt"
	"os"
	"regexp"
	"sort"
	"strconv"
	"strings"

	"github.com/martian-lang/martian/martian/syntax"
	"verif/harness/absast"
)

type line struct {
	K  string `json:"k"`
	Id int    `json:"id"`
}

type row struct {
	Src        []string `json:"src"`
	Out        []line   `json:"out"`
	Trailing   []int    `json:"trailing"`
	Restricted bool     `json:"restricted"`
}

// A family renders the lines of one scope and knows where the scope is in the
// formatted text.
type family struct {
	name   string
	sep    int
	indent string
	pre    string // text before the scope
	post   string // text after the scope
	elem   func(id int) []string
	start  *regexp.Regexp // line that opens the scope in the output
	end    *regexp.Regexp // first line after the scope
}

var families = []family{
	{"inparam", 0, "    ", "stage S(\n", "    src py \"s\",\n)\n",
		func(i int) []string { return []string{fmt.Sprintf("in  int x%d,", i)} },
		regexp.MustCompile(`^stage S\($`), regexp.MustCompile(`^\s+src `)},
	{"structfield", 0, "    ", "struct T(\n", ")\n",
		func(i int) []string { return []string{fmt.Sprintf("int x%d,", i)} },
		regexp.MustCompile(`^struct T\($`), regexp.MustCompile(`^\)$`)},
	{"binding", 0, "    ", "call S(\n", ")\n",
		func(i int) []string { return []string{fmt.Sprintf("x%d = %d,", i, i)} },
		regexp.MustCompile(`^call S\($`), regexp.MustCompile(`^\)$`)},
	{"retbinding", 0, "        ", "pipeline P(\n    out int y,\n)\n{\n    return (\n", "    )\n}\n",
		func(i int) []string { return []string{fmt.Sprintf("x%d = %d,", i, i)} },
		regexp.MustCompile(`^    return \($`), regexp.MustCompile(`^    \)$`)},
	{"element", 0, "        ", "call S(\n    v = [\n", "    ],\n)\n",
		func(i int) []string { return []string{fmt.Sprintf("%d,", 1000+i)} },
		regexp.MustCompile(`^    v = \[$`), regexp.MustCompile(`^    \],$`)},
	{"mapentry", 0, "        ", "call S(\n    v = {\n", "    },\n)\n",
		func(i int) []string { return []string{fmt.Sprintf("\"x%d\": %d,", i, i)} },
		regexp.MustCompile(`^    v = \{$`), regexp.MustCompile(`^    \},$`)},
	{"call", 1, "    ", "pipeline P(\n    out int y,\n)\n{\n", "    return (\n        y = 1,\n    )\n}\n",
		func(i int) []string { return []string{fmt.Sprintf("call A%d(", i), ")"} },
		regexp.MustCompile(`^\{$`), regexp.MustCompile(`^    return \($`)},
	{"stagedecl", 1, "", "filetype txt;\n\n", "call A0(\n)\n",
		func(i int) []string { return []string{fmt.Sprintf("stage A%d(", i), "    src py \"s\",", ")"} },
		regexp.MustCompile(`^filetype txt;$`), regexp.MustCompile(`^call A0\(`)},
	{"retain", 0, "    ", "stage S(\n    out int x1,\n    out int x2,\n    out int x3,\n    out int x4,\n    out int x5,\n    out int x6,\n    out int x7,\n    out int x8,\n    src py \"s\",\n) retain (\n", ")\n",
		func(i int) []string { return []string{fmt.Sprintf("x%d,", i)} },
		regexp.MustCompile(`^\) retain \($`), regexp.MustCompile(`^\)$`)},
}

func render(f family, ks []string) string {
	var b strings.Builder
	b.WriteString(f.pre)
	for i, k := range ks {
		switch k {
		case "c":
			fmt.Fprintf(&b, "%s# c%d\n", f.indent, i+1)
		case "b":
			b.WriteString("\n")
		case "e":
			for _, l := range f.elem(i + 1) {
				b.WriteString(f.indent + l + "\n")
			}
		}
	}
	b.WriteString(f.post)
	return b.String()
}

var comRe = regexp.MustCompile(`^\s*# c(\d+)$`)
var sameTextRe = regexp.MustCompile(`# c\d+`)
var idRe = regexp.MustCompile(`(?:x|A|10{0,2})(\d+)`)

// layoutOf extracts the scope's lines from formatted text.
func layoutOf(f family, text string) ([]line, bool) {
	lines := strings.Split(text, "\n")
	in := false
	var out []line
	for _, l := range lines {
		if !in {
			if f.start.MatchString(l) {
				in = true
			}
			continue
		}
		if f.end.MatchString(l) {
			return trimBlank(out, f), true
		}
		if m := comRe.FindStringSubmatch(l); m != nil {
			n, _ := strconv.Atoi(m[1])
			out = append(out, line{"c", n})
		} else if strings.TrimSpace(l) == "" {
			out = append(out, line{"b", 0})
		} else if id, ok := elemId(f, l); ok {
			out = append(out, line{"e", id})
		} // else: continuation line of an element
	}
	return out, false
}

func elemId(f family, l string) (int, bool) {
	t := strings.TrimSpace(l)
	var re *regexp.Regexp
	switch f.name {
	case "call":
		re = regexp.MustCompile(`^call A(\d+)\(\)?$`)
	case "stagedecl":
		re = regexp.MustCompile(`^stage A(\d+)\($`)
	case "element":
		re = regexp.MustCompile(`^1(\d\d\d),$`)
	case "mapentry":
		re = regexp.MustCompile(`^"x(\d+)":`)
	case "inparam":
		re = regexp.MustCompile(`^in\s+int\s+x(\d+),$`)
	case "structfield":
		re = regexp.MustCompile(`^int\s+x(\d+),$`)
	case "retain":
		re = regexp.MustCompile(`^x(\d+),$`)
	default:
		re = regexp.MustCompile(`^x(\d+)\s+= \d+,$`)
	}
	if m := re.FindStringSubmatch(t); m != nil {
		n, _ := strconv.Atoi(m[1])
		return n, true
	}
	return 0, false
}

// the construct's own blank lines right after the opening / before the end are
// not part of the comment layout
func trimBlank(ls []line, f family) []line {
	for len(ls) > 0 && ls[0].K == "b" {
		ls = ls[1:]
	}
	for len(ls) > 0 && ls[len(ls)-1].K == "b" {
		ls = ls[:len(ls)-1]
	}
	return ls
}

func comments(text string) []string {
	var out []string
	for _, t := range strings.Split(text, "\n") {
		if m := comRe.FindStringSubmatch(t); m != nil {
			out = append(out, m[1])
		}
	}
	sort.Strings(out)
	return out
}

type Violation struct {
	Family string `json:"family"`
	Kind   string `json:"kind"`
	Src    string `json:"src"`
	Out    string `json:"out"`
	Detail string `json:"detail"`
}

func sameLayout(a, b []line) bool {
	if len(a) != len(b) {
		return false
	}
	for i := range a {
		if a[i].K != b[i].K || (a[i].K != "b" && a[i].Id != b[i].Id) {
			return false
		}
	}
	return true
}

// Replay: args = rows.ndjson out.json sep
func Replay(args []string) int {
	f, err := os.Open(args[0])
	if err != nil {
		fmt.Fprintln(os.Stderr, err)
		return 2
	}
	defer f.Close()
	sep, _ := strconv.Atoi(args[2])
	sc := bufio.NewScanner(f)
	sc.Buffer(make([]byte, 1<<20), 1<<26)
	var viols []Violation
	var drift []string
	ndrift, ncases, nrows := 0, 0, 0
	counts := map[string]int{}
	for sc.Scan() {
		var r row
		if err := json.Unmarshal(sc.Bytes(), &r); err != nil {
			fmt.Fprintln(os.Stderr, "row:", err)
			return 2
		}
		nrows++
		nelem := 0
		for _, k := range r.Src {
			if k == "e" {
				nelem++
			}
		}
		for _, fam := range families {
			if fam.sep != sep {
				continue
			}
			if nelem == 0 && (fam.name == "element" || fam.name == "mapentry" || fam.name == "retbinding") {
				continue // an empty collection has no multi-line form
			}
			ncases++
			src := render(fam, r.Src)
			var p syntax.Parser
			ast1, err := p.UncheckedParse([]byte(src), "in.mro")
			if err != nil {
				counts[fam.name+":not-accepted"]++
				continue
			}
			f1, err := p.FormatSrcBytes([]byte(src), "in.mro", false, nil)
			if err != nil {
				viols = append(viols, Violation{fam.name, "format-fails", src, "", err.Error()})
				continue
			}
			ast2, err := p.UncheckedParse([]byte(f1), "in.mro")
			if err != nil {
				viols = append(viols, Violation{fam.name, "output-rejected", src, f1, err.Error()})
				continue
			}
			if a, b := canon(absast.Abstract(ast1)), canon(absast.Abstract(ast2)); a != b {
				viols = append(viols, Violation{fam.name, "program-changed", src, f1, a + " -> " + b})
			}
			// comments
			c0, c1 := comments(src), comments(f1)
			lost := missing(c0, c1)
			if len(lost) > 0 {
				viols = append(viols, Violation{fam.name, "comment-lost", src, f1, "lost: c" + strings.Join(lost, ", c")})
			}
			if r.Restricted {
				if strings.Join(c0, ",") != strings.Join(c1, ",") {
					viols = append(viols, Violation{fam.name, "comment-not-once", src, f1,
						"source " + strings.Join(c0, ",") + " output " + strings.Join(c1, ",")})
				}
				f2, err := p.FormatSrcBytes([]byte(f1), "in.mro", false, nil)
				if err != nil {
					viols = append(viols, Violation{fam.name, "format-fails", f1, "", err.Error()})
				} else if f2 != f1 {
					viols = append(viols, Violation{fam.name, "not-a-fixed-point", src, f1, f2})
				}
			}
			counts[fam.name+":checked"]++
			// the same layout with every comment carrying the same text (rulers, doubled
			// spacers, repeated TODO lines): as many comment lines must come out as went in
			{
				same := sameTextRe.ReplaceAllString(src, "# note")
				if fs, err := p.FormatSrcBytes([]byte(same), "in.mro", false, nil); err == nil {
					n0, n1 := strings.Count(same, "# note\n"), strings.Count(fs, "# note\n")
					if n1 < n0 {
						viols = append(viols, Violation{fam.name, "comment-lost", same, fs,
							fmt.Sprintf("lost: %d of %d comment lines that all read `# note`", n0-n1, n0)})
					} else if n1 > n0 && r.Restricted {
						viols = append(viols, Violation{fam.name, "comment-not-once", same, fs,
							fmt.Sprintf("%d comment lines `# note` went in, %d came out", n0, n1)})
					}
				}
			}
			// the model's layout
			if !r.Restricted {
				continue // where trailing comments go depends on what follows the scope
			}
			if got, ok := layoutOf(fam, f1); ok {
				want := r.Out
				if !sameLayout(got, trimBlank(want, fam)) {
					ndrift++
					if len(drift) < 6 {
						drift = append(drift, fmt.Sprintf("%s %v: model %v real %v", fam.name, r.Src, want, got))
					}
				}
			} else {
				counts[fam.name+":collapsed"]++ // printed on one line: no layout to compare
			}
		}
	}
	rep := map[string]interface{}{"rows": nrows, "cases": ncases, "violations": viols, "drift": ndrift,
		"drift_examples": drift, "counts": counts}
	b, _ := json.Marshal(rep)
	os.WriteFile(args[1], b, 0644)
	return 0
}

func missing(a, b []string) []string {
	have := map[string]int{}
	for _, x := range b {
		have[x]++
	}
	var out []string
	for _, x := range a {
		if have[x] == 0 {
			out = append(out, x)
		} else {
			have[x]--
		}
	}
	return out
}

func canon(m absast.M) string {
	b, _ := json.Marshal(m)
	return string(b)
}

// ---- whole programs -------------------------------------------------------

type progCase struct {
	Id    string            `json:"id"`
	Files map[string]string `json:"files"`
	Top   string            `json:"top"`
}

var closeRe = regexp.MustCompile(`^\s*[\)\]\}]`)

// dangling: some comment is not followed by an element of its scope
func dangling(src string) bool {
	lines := strings.Split(src, "\n")
	for i, l := range lines {
		if strings.HasPrefix(strings.TrimSpace(l), "#") {
			j := i + 1
			for j < len(lines) && (strings.TrimSpace(lines[j]) == "" || strings.HasPrefix(strings.TrimSpace(lines[j]), "#")) {
				j++
			}
			if j >= len(lines) || closeRe.MatchString(lines[j]) {
				return true
			}
		}
	}
	return false
}

var anyComRe = regexp.MustCompile(`(?m)^[^"\n]*?(#.*)$`)

func commentTexts(src []byte) []string {
	var out []string
	pos := 0
	for _, t := range syntax.VerifTokenize(src) {
		if t.Len == 0 {
			break
		}
		if t.Name == "COMMENT" {
			out = append(out, strings.TrimSpace(string(src[pos:pos+t.Len])))
		}
		pos += t.Len
	}
	sort.Strings(out)
	return out
}

// calls of a pipeline may be reordered into dependency order: compare them as a set
func sortCalls(m absast.M) absast.M {
	if ps, ok := m["pipelines"].([]interface{}); ok {
		for _, p := range ps {
			pm := p.(absast.M)
			if cs, ok := pm["calls"].([]interface{}); ok {
				sort.SliceStable(cs, func(i, j int) bool {
					return cs[i].(absast.M)["id"].(string) < cs[j].(absast.M)["id"].(string)
				})
			}
		}
	}
	return m
}

// callOrderOk: in the formatted text every call comes after the calls it refers to
func callOrderOk(m absast.M) (bool, string) {
	ps, _ := m["pipelines"].([]interface{})
	for _, p := range ps {
		pm := p.(absast.M)
		seen := map[string]bool{}
		all := map[string]bool{}
		cs, _ := pm["calls"].([]interface{})
		for _, c := range cs {
			all[c.(absast.M)["id"].(string)] = true
		}
		for _, c := range cs {
			cm := c.(absast.M)
			b, _ := json.Marshal(cm)
			for _, r := range refRe.FindAllStringSubmatch(string(b), -1) {
				if all[r[1]] && !seen[r[1]] && r[1] != cm["id"].(string) {
					return false, fmt.Sprintf("pipeline %v: call %v printed before %s which it refers to", pm["name"], cm["id"], r[1])
				}
			}
			seen[cm["id"].(string)] = true
		}
	}
	return true, ""
}

var refRe = regexp.MustCompile(`"call":"(\w+)","k":"ref"`)

// Programs: args = cases.ndjson out.json workdir
func Programs(args []string) int {
	f, err := os.Open(args[0])
	if err != nil {
		fmt.Fprintln(os.Stderr, err)
		return 2
	}
	defer f.Close()
	work := args[2]
	sc := bufio.NewScanner(f)
	sc.Buffer(make([]byte, 1<<20), 1<<26)
	var viols []Violation
	counts := map[string]int{}
	n := 0
	for sc.Scan() {
		var c progCase
		if err := json.Unmarshal(sc.Bytes(), &c); err != nil {
			fmt.Fprintln(os.Stderr, "case:", err)
			return 2
		}
		n++
		dir, _ := os.MkdirTemp(work, "p")
		for name, text := range c.Files {
			os.MkdirAll(dir+"/"+dirOf(name), 0755)
			os.WriteFile(dir+"/"+name, []byte(text), 0644)
		}
		add := func(kind, src, out, detail string) {
			viols = append(viols, Violation{c.Id, kind, src, out, detail})
		}
		// 1. every file on its own: format, reparse, same program, comments, fixed point
		for name, text := range c.Files {
			var p syntax.Parser
			ast1, err := p.UncheckedParse([]byte(text), dir+"/"+name)
			if err != nil {
				counts["not-accepted"]++
				continue
			}
			counts["files"]++
			f1, err := p.FormatSrcBytes([]byte(text), dir+"/"+name, false, nil)
			if err != nil {
				add("format-fails", text, "", err.Error())
				continue
			}
			ast2, err := p.UncheckedParse([]byte(f1), dir+"/"+name)
			if err != nil {
				add("output-rejected", text, f1, err.Error())
				continue
			}
			a1, a2 := absast.Normalize(absast.Abstract(ast1)), absast.Normalize(absast.Abstract(ast2))
			if ok, why := callOrderOk(a2); !ok {
				add("call-order", text, f1, why)
			}
			if a, b := canon(sortCalls(a1)), canon(sortCalls(a2)); a != b {
				add("program-changed", text, f1, diffAt(a, b))
			}
			if lost := missing(commentTexts([]byte(text)), commentTexts([]byte(f1))); len(lost) > 0 {
				add("comment-lost", text, f1, "lost: "+strings.Join(lost, " | "))
			}
			if !dangling(text) {
				if extra := missing(commentTexts([]byte(f1)), commentTexts([]byte(text))); len(extra) > 0 {
					add("comment-not-once", text, f1, "duplicated: "+strings.Join(extra, " | "))
				}
				f2, err := p.FormatSrcBytes([]byte(f1), dir+"/"+name, false, nil)
				if err != nil {
					add("format-fails", f1, "", err.Error())
				} else if f2 != f1 {
					add("not-a-fixed-point", text, f1, diffAt(f1, f2))
				}
			}
		}
		// 2. the include-expanded rendering compiles alone to an equivalent program
		if c.Top != "" {
			var p syntax.Parser
			top, _ := os.ReadFile(dir + "/" + c.Top)
			combined, _, astA, err := p.ParseSourceBytes(top, dir+"/"+c.Top, []string{dir}, false)
			if err != nil {
				counts["does-not-compile"]++
			} else {
				counts["compiled"]++
				var q syntax.Parser
				dir2, _ := os.MkdirTemp(work, "q")
				_, _, astB, err := q.ParseSourceBytes([]byte(combined), dir2+"/combined.mro", []string{dir2}, false)
				if err != nil {
					add("expanded-does-not-compile", string(top), combined, err.Error())
				} else {
					ma, mb := absast.Normalize(absast.Abstract(astA)), absast.Normalize(absast.Abstract(astB))
					delete(ma, "includes")
					delete(mb, "includes")
					a, b := canon(sortCalls(ma)), canon(sortCalls(mb))
					if a != b {
						add("expanded-program-differs", string(top), combined, diffAt(a, b))
					}
					if astA.Call != nil {
						ga, errA := graphJSON(astA)
						gb, errB := graphJSON(astB)
						if (errA == nil) != (errB == nil) || ga != gb {
							add("expanded-callgraph-differs", string(top), combined, diffAt(ga, gb))
						}
					}
					// formatting the expanded form again changes nothing
					var r syntax.Parser
					if c2, _, _, err := r.ParseSourceBytes([]byte(combined), dir2+"/combined.mro", []string{dir2}, false); err == nil && c2 != combined {
						add("expanded-not-a-fixed-point", combined, c2, diffAt(combined, c2))
					}
				}
				os.RemoveAll(dir2)
			}
		}
		os.RemoveAll(dir)
	}
	rep := map[string]interface{}{"programs": n, "violations": viols, "counts": counts}
	b, _ := json.Marshal(rep)
	os.WriteFile(args[1], b, 0644)
	return 0
}

func graphJSON(ast *syntax.Ast) (string, error) {
	g, err := ast.MakeCallGraph("", ast.Call)
	if err != nil {
		return "", err
	}
	b, err := json.Marshal(g)
	return string(b), err
}

func dirOf(name string) string {
	if i := strings.LastIndex(name, "/"); i >= 0 {
		return name[:i]
	}
	return "."
}

func diffAt(a, b string) string {
	i := 0
	for i < len(a) && i < len(b) && a[i] == b[i] {
		i++
	}
	lo := i - 60
	if lo < 0 {
		lo = 0
	}
	ha, hb := i+120, i+120
	if ha > len(a) {
		ha = len(a)
	}
	if hb > len(b) {
		hb = len(b)
	}
	return fmt.Sprintf("at %d: %q vs %q", i, a[lo:ha], b[lo:hb])
}

package run

import (
	"encoding/json"
	"fmt"
	"sort"
	"strconv"
)

// Untag converts a tagged value of the specifications
// ({"k":"int","i":1}, {"k":"arr","a":[...]}, ...) to a plain Go JSON value.
func Untag(raw json.RawMessage) (interface{}, error) {
	var m map[string]json.RawMessage
	if err := json.Unmarshal(raw, &m); err != nil {
		return nil, fmt.Errorf("untag %s: %v", string(raw), err)
	}
	var k string
	json.Unmarshal(m["k"], &k)
	switch k {
	case "null":
		return nil, nil
	case "bool":
		var b bool
		err := json.Unmarshal(m["b"], &b)
		return b, err
	case "int":
		var i int64
		err := json.Unmarshal(m["i"], &i)
		return float64(i), err
	case "float":
		var s string
		if err := json.Unmarshal(m["f"], &s); err != nil {
			return nil, err
		}
		return strconv.ParseFloat(s, 64)
	case "big":
		// an integer literal carried as text (callers which need every digit compare the text)
		var s string
		if err := json.Unmarshal(m["s"], &s); err != nil {
			return nil, err
		}
		return strconv.ParseFloat(s, 64)
	case "str":
		var s string
		err := json.Unmarshal(m["s"], &s)
		return s, err
	case "arr":
		var a []json.RawMessage
		if err := json.Unmarshal(m["a"], &a); err != nil {
			return nil, err
		}
		out := make([]interface{}, len(a))
		for i, x := range a {
			v, err := Untag(x)
			if err != nil {
				return nil, err
			}
			out[i] = v
		}
		return out, nil
	case "obj":
		out := map[string]interface{}{}
		var o map[string]json.RawMessage
		if err := json.Unmarshal(m["o"], &o); err != nil {
			// ToJson writes an empty function as []
			var a []json.RawMessage
			if err2 := json.Unmarshal(m["o"], &a); err2 == nil && len(a) == 0 {
				return out, nil
			}
			return nil, err
		}
		for kk, x := range o {
			v, err := Untag(x)
			if err != nil {
				return nil, err
			}
			out[kk] = v
		}
		return out, nil
	case "file", "fstr":
		var p, n string
		var c int
		json.Unmarshal(m["p"], &p)
		json.Unmarshal(m["n"], &n)
		json.Unmarshal(m["c"], &c)
		return FileRef{Producer: p, Name: n, Chunk: c}, nil
	}
	return nil, fmt.Errorf("unknown tag %q in %s", k, string(raw))
}

// FileRef is the symbolic value of a file-typed output: the file named Name
// written by stage instance Producer.
type FileRef struct {
	Producer string
	Name     string
	Chunk    int // -1: written by the stage's main / join job
}

func (f FileRef) Key() string { return f.Producer + "|" + strconv.Itoa(f.Chunk) + "|" + f.Name }

// FilesIn lists the file references inside a predicted value.
func FilesIn(v interface{}, out []FileRef) []FileRef {
	switch x := v.(type) {
	case FileRef:
		out = append(out, x)
	case []interface{}:
		for _, e := range x {
			out = FilesIn(e, out)
		}
	case map[string]interface{}:
		for _, k := range SortedKeys(x) {
			out = FilesIn(x[k], out)
		}
	}
	return out
}

// Resolve replaces file references by real paths.
func Resolve(v interface{}, resolve func(FileRef) string) interface{} {
	switch x := v.(type) {
	case FileRef:
		return resolve(x)
	case []interface{}:
		o := make([]interface{}, len(x))
		for i, e := range x {
			o[i] = Resolve(e, resolve)
		}
		return o
	case map[string]interface{}:
		o := make(map[string]interface{}, len(x))
		for k, e := range x {
			o[k] = Resolve(e, resolve)
		}
		return o
	}
	return v
}

// Same reports whether the real JSON value act equals the predicted value.
// resolve maps a FileRef to the real path (nil: files not expected).
func Same(pred, act interface{}, resolve func(FileRef) string) bool {
	switch p := pred.(type) {
	case nil:
		return act == nil
	case bool:
		a, ok := act.(bool)
		return ok && a == p
	case float64:
		a, ok := act.(float64)
		return ok && a == p
	case string:
		a, ok := act.(string)
		return ok && a == p
	case FileRef:
		a, ok := act.(string)
		return ok && resolve != nil && a == resolve(p)
	case []interface{}:
		a, ok := act.([]interface{})
		if !ok || len(a) != len(p) {
			return false
		}
		for i := range p {
			if !Same(p[i], a[i], resolve) {
				return false
			}
		}
		return true
	case map[string]interface{}:
		a, ok := act.(map[string]interface{})
		if !ok || len(a) != len(p) {
			return false
		}
		for k, v := range p {
			av, ok := a[k]
			if !ok || !Same(v, av, resolve) {
				return false
			}
		}
		return true
	}
	return false
}

// allNullish: null, an empty collection, or a collection of nullish values.
func allNullish(v interface{}) bool {
	switch x := v.(type) {
	case nil:
		return true
	case []interface{}:
		for _, e := range x {
			if !allNullish(e) {
				return false
			}
		}
		return true
	case map[string]interface{}:
		for _, e := range x {
			if !allNullish(e) {
				return false
			}
		}
		return true
	}
	return false
}

// SameLax is Same with the latitude the C01 statement grants: where the
// prediction is null / empty / all-null (a disabled or empty mapped call)
// the real value may be any of null, an empty collection or a collection of
// nulls.  Everything else is compared exactly.
func SameLax(pred, act interface{}, resolve func(FileRef) string) bool {
	if allNullish(pred) && allNullish(act) {
		return true
	}
	switch p := pred.(type) {
	case []interface{}:
		a, ok := act.([]interface{})
		if !ok || len(a) != len(p) {
			return false
		}
		for i := range p {
			if !SameLax(p[i], a[i], resolve) {
				return false
			}
		}
		return true
	case map[string]interface{}:
		a, ok := act.(map[string]interface{})
		if !ok {
			return false
		}
		for k, v := range p {
			if !SameLax(v, a[k], resolve) {
				return false
			}
		}
		for k, v := range a {
			if _, ok := p[k]; !ok && !allNullish(v) {
				return false
			}
		}
		return true
	}
	return Same(pred, act, resolve)
}

// StripInternal removes the "__" resource keys mrp adds to chunk/join args.
func StripInternal(m map[string]interface{}) map[string]interface{} {
	out := make(map[string]interface{}, len(m))
	for k, v := range m {
		if len(k) >= 2 && k[:2] == "__" {
			continue
		}
		out[k] = v
	}
	return out
}

func Canon(v interface{}) string {
	b, _ := json.Marshal(v)
	return string(b)
}

func SortedKeys(m map[string]interface{}) []string {
	ks := make([]string, 0, len(m))
	for k := range m {
		ks = append(ks, k)
	}
	sort.Strings(ks)
	return ks
}

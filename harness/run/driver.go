// Package run drives real pipestances in-process: it owns the run loop exactly
// as cmd/mrp/runloop.go does (RefreshState, GetState, CheckHeartbeats,
// StepNodes) but decides when each of those happens and when each job starts,
// finishes or fails.  Jobs are handed over by the verif-tagged callback job
// manager; their "stage code" is table driven (the table is computed by the
// MroSem specification for the program).
package run

import (
	"context"
	"encoding/json"
	"fmt"
	"math/rand"
	"os"
	"os/exec"
	"path"
	"path/filepath"
	"regexp"
	"runtime"
	"runtime/debug"
	"sort"
	"strconv"
	"strings"
	"sync"
	"time"

	"github.com/martian-lang/martian/martian/core"
	"github.com/martian-lang/martian/martian/syntax"
	"github.com/martian-lang/martian/martian/util"
)

// Inv is one predicted stage invocation (MroSem.Invocations).
type Inv struct {
	Inst    string          `json:"inst"`
	Call    string          `json:"call"`
	Idx     []string        `json:"idx"`
	Kind    string          `json:"kind"`
	Chunk   int             `json:"chunk"`
	Args    json.RawMessage `json:"args"`
	Deps    []string        `json:"deps"`
	NChunks int             `json:"nchunks"`
	Couts   json.RawMessage `json:"couts"`
	Outs    json.RawMessage `json:"outs"`
	Stage   string          `json:"stage"`
}

func (i *Inv) Key() string { return i.Inst + "/" + i.Kind + "/" + strconv.Itoa(i.Chunk) }

// Sched selects the schedule of a run.
type Sched struct {
	Kind   string   `json:"kind"`   // random | script | slow
	Seed   int64    `json:"seed"`   // random
	Script []string `json:"script"` // script: "R", "S", "B:<job>", "E:<job>"
	Slow   string   `json:"slow"`   // slow: instance held back until nothing else can move
	PEnv   float64  `json:"penv"`   // random: probability of an environment step
}

// Spec is one run request.
type Spec struct {
	Name    string            `json:"name"`
	Mro     string            `json:"mro"`
	Invs    []Inv             `json:"invs"`
	TopOuts json.RawMessage   `json:"outs"`
	Sched   Sched             `json:"sched"`
	Vdr     string            `json:"vdr"`
	Strict  bool              `json:"strict"`
	Faults  map[string]string `json:"faults"` // job key -> fault kind
	Keep    string            `json:"keep"`   // directory to keep the pipestance in (replay)
	MaxIter int               `json:"maxiter"`
	// Restart: after the pipestance has failed, remove the faults, start a new
	// runtime on the same directory (as a restarted mrp does) and run again.
	Restart bool `json:"restart"`
	// Orphans: jobs that are running when mrp exits survive it and finish
	// later, writing into their old attempt directory and journal name.
	Orphans bool `json:"orphans"`
	// Freeze: once the faulty job has ended no other job makes progress until
	// mrp has noticed the failure and exited (so that jobs are still running then)
	Freeze bool `json:"freeze"`
	// Hold: jobs (keys) that begin but do not end before the restart: they are still
	// running when mrp exits and die with it
	Hold []string `json:"hold"`
	// StaleEntries: for these jobs, while they run, a `complete` notification appears in the
	// journal that carries another attempt's id (what a job of a superseded attempt, still
	// alive somewhere, writes)
	StaleEntries []string `json:"stale_entries"`
	// RemoveOwnTmp: these jobs remove their own temporary directory before they end (a tidy
	// stage, a `trap 'rm -rf "$TMPDIR"' EXIT`)
	RemoveOwnTmp []string `json:"remove_own_tmp"`
	// TmpLink: jobs leave a symbolic link to a directory elsewhere (holding a file) in their
	// temporary directory
	TmpLink bool `json:"tmp_link"`
	// Bare: stage code writes the files its outputs name and nothing else (no unreferenced
	// files, nothing in the temporary directory): a fork may then have nothing to reclaim
	Bare bool `json:"bare"`
	// EmptyTmp: every job leaves three zero-length files (lock files, markers) in its
	// temporary directory and nothing else there
	EmptyTmp bool `json:"empty_tmp"`
	// PostTwice: mrp is killed after post-processing has moved the files and before it has
	// rewritten the outputs record; the restarted mrp post-processes again
	PostTwice bool `json:"post_twice"`
	// Files: stage code writes the files its outputs name (plus an unreferenced
	// file and a temporary file), consumers check their file arguments, and at
	// completion the final VDR sweep and post-processing run as in mrp.
	Files bool `json:"files"`
	// Post: the top-level outputs record as it must look after post-processing
	// (PostProc.tla Materialise): moved files are [k "moved", f, rel]
	Post json.RawMessage `json:"post"`
	// VdrJitter: asynchronous cleanup goroutines are delayed by up to this many
	// microseconds (seeded) before they take the fork's storage lock.
	VdrJitter int `json:"vdr_jitter"`
	// PhysPaths: the pipestance lives below a symbolic link and stage code
	// reports the fully resolved names of the files it wrote.
	PhysPaths bool `json:"phys_paths"`
	DirSlash  bool `json:"dir_slash"` // directory outputs are reported as ".../name/"
	// PsdirSpelling: how the pipestance directory is spelled when it is handed to the
	// runtime, as --psdir=PATH does verbatim for absolute paths: "" clean, "slash"
	// trailing slash, "dot" a /./ component, "dslash" a doubled separator
	PsdirSpelling string `json:"psdir_spelling"`
	// OutsSpelling: how stage code spells its _outs: "" as encoding/json does, "solidus"
	// with every / written \/ (json-c, PHP, perl's escape_slash), "unicode" with / written \u002f
	OutsSpelling string `json:"outs_spelling"`
	// UncleanPaths: stage code reports the files it wrote with a doubled separator or a
	// /./ component in front of the base name
	UncleanPaths bool `json:"unclean_paths"`
	// LinkNode: this directory below the pipestance (e.g. "TOP/SUB") is a symbolic link to
	// storage elsewhere from before the first step (part of a pipestance moved to another volume)
	LinkNode string `json:"link_node"`
	// LinkPrev: the program is first run to completion in another pipestance directory
	// (VDR disabled); in the pipestance under test this directory (e.g. "TOP/SUB") is a
	// symbolic link to the finished one of the earlier run, as users do to reuse results
	LinkPrev string `json:"link_prev"`
	// EarlyDefs: a split job writes its chunk definitions and notifies mrp of them (as the
	// Go adapter does) one step before it finishes: the run loop may scan and step in between
	EarlyDefs bool `json:"early_defs"`
	// QueueCheck (cluster mode): the job mode has a queue query command (the driver answers
	// with the ids of the jobs that are alive) and a grace period of 3000 s as sge has
	QueueCheck bool `json:"queue_check"`
	// RelFiles: top-level output name -> path relative to the working directory mrp is started
	// in; the file is created there (it is named by an invocation argument that the pipeline
	// passes through) and must be available under outs/<name> afterwards
	RelFiles map[string]string `json:"rel_files"`
	// Layout "subdir": the stages live in <MROPATH>/pipes/_stages.mro and are included from
	// <MROPATH>/pipes/main.mro by their sibling spelling ("_stages.mro")
	Layout string `json:"layout"`
	// MaxJobs > 0: cluster mode with a real RemoteJobManager and this --maxjobs;
	// the driver plays the cluster (submitted jobs survive mrp).
	MaxJobs int `json:"maxjobs"`
	// VdrGate: asynchronous cleanup goroutines wait at VdrBegin until the script
	// releases them ("V:<fork fqname>"), or until the run is over.
	VdrGate bool `json:"vdr_gate"`
}

// Result is what a run reports besides its trace.
type Result struct {
	psdir    string            // where the pipestance was (kept runs)
	files    map[string]string // file key -> path, as the driver knows them at the end
	fileJobs map[string]string
	Name     string                   `json:"name"`
	State    string                   `json:"state"`
	States   []string                 `json:"states"` // final state of every incarnation
	Iter     int                      `json:"iter"`
	Execs    map[string]int           `json:"execs"`
	Ended    map[string]string        `json:"ended"`
	ArgsBad  []string                 `json:"args_bad"`
	Unknown  []string                 `json:"unknown_jobs"`
	TopOuts  interface{}              `json:"top_outs"`
	OutsOk   bool                     `json:"outs_ok"`
	ForkDirs map[string][]string      `json:"fork_dirs"`
	JobDirs  []string                 `json:"job_dirs"`
	Error    string                   `json:"error"`
	FatalFq  string                   `json:"fatal_fq"`
	FatalLog string                   `json:"fatal_log"`
	Stuck    bool                     `json:"stuck"`
	Script   []string                 `json:"script"`
	Events   int                      `json:"events"`
	Trace    []map[string]interface{} `json:"-"`
	Notes    []string                 `json:"notes"`
	// per-fork _invocation files of stages: how many were checked, which are wrong
	PostChecked   int      `json:"post_checked"`
	PostBad       []string `json:"post_bad"`
	InvChecked    int      `json:"inv_checked"`
	InvBad        []string `json:"inv_bad"`
	ScriptChecked int      `json:"script_checked"` // cluster mode: job scripts written by the remote job manager
	ScriptBad     []string `json:"script_bad"`
}

type job struct {
	vj      *core.VerifJob
	key     string // inst/kind/chunk or "?<md path>" if not predicted
	inv     *Inv
	begun   bool
	ended   bool
	attempt int
	inv2    *Inv
	defs    bool // a split job that has published its chunk definitions and not finished yet
	local   bool // a job of a stage that runs locally whatever the job mode: it dies with mrp
}

type Driver struct {
	spec      *Spec
	tr        *Trace
	ps        *core.Pipestance
	rt        *core.Runtime
	psdir     string
	prevDir   string // canonical directory of linked-in results of an earlier run
	aliveFile string // cluster mode with a queue check: the ids of the jobs the cluster knows
	reported  map[string]string // file key -> the path the stage reports, where that is not the canonical one
	refdata   []string          // files in directories of reference data outside the pipestance
	vanished  int    // jobs that died without a trace
	aged      int    // how often the heartbeat time-out was let pass
	psid      string
	mu        sync.Mutex
	jobs      []*job          // submitted, in submission order
	byKey     map[string]*Inv // predicted table
	forks     map[string]core.VerifForkInfo
	res       *Result
	rng       *rand.Rand
	script    []string
	scriptPos int
	frozen    bool
	frozenAt  int
	fmu       sync.Mutex
	filePath  map[string]string // file key -> canonical path it was written to
	fileJob   map[string]string // file key -> writing job
	extras    map[string]string // job key -> unreferenced file it wrote
	aliasOf   map[string]string // pass-through link -> the file it points at
	outsideOf map[string]bool   // files whose reported name is not below the pipestance path
	tmps      map[string]string // job key -> temporary file it wrote
	goid      string
	jrng      *rand.Rand
	vdrBegin  int
	vdrLocked int
	removed   vdrTotals
	inflight  int // cluster jobs submitted and not finished
	tmplPath  string
	gates     map[string][]chan struct{} // fork fqname -> cleanup goroutines waiting
	gatesOpen bool
}

type vdrTotals struct {
	Entries, Bytes, Files, FileBytes int64
	Paths                            []string
}

type devNull struct{}

func (devNull) Write(b []byte) (int, error)       { return len(b), nil }
func (devNull) WriteString(s string) (int, error) { return len(s), nil }

var chunkRe = regexp.MustCompile(`^chnk(\d+)(?:-u[0-9a-f]{10})?$`)
var sjRe = regexp.MustCompile(`^(split|join)(?:-u[0-9a-f]{10})?$`)

// rel makes a path relative to the pipestance directory.
// writeAlive: what the cluster's queue query answers - the ids of the submitted jobs that
// have not ended.
func (d *Driver) writeAlive() {
	if d.aliveFile == "" {
		return
	}
	var ids []string
	d.mu.Lock()
	for _, j := range d.jobs {
		if !j.ended {
			if b, err := os.ReadFile(path.Join(j.vj.MetadataPath, "_jobid")); err == nil {
				ids = append(ids, strings.TrimSpace(string(b)))
			}
		}
	}
	d.mu.Unlock()
	writeFile(d.aliveFile, []byte(strings.Join(ids, "\n")+"\n"))
}

// psdirArg is the pipestance directory as the runtime is given it.
func (d *Driver) psdirArg() string {
	switch d.spec.PsdirSpelling {
	case "slash":
		return d.psdir + "/"
	case "dot":
		return path.Dir(d.psdir) + "/./" + path.Base(d.psdir)
	case "dslash":
		return path.Dir(d.psdir) + "//" + path.Base(d.psdir)
	}
	return d.psdir
}

func (d *Driver) rel(p string) string {
	if r, err := filepath.Rel(d.psdir, p); err == nil && !strings.HasPrefix(r, "..") {
		return r
	}
	return p
}

// jobKey maps a job's metadata directory to "<instance>/<kind>/<chunk>".
func (d *Driver) jobKey(mdPath string) (string, bool) {
	base := path.Base(mdPath)
	forkDir := path.Dir(mdPath)
	kind, chunk := "", 0
	if m := chunkRe.FindStringSubmatch(base); m != nil {
		kind = "main"
		chunk, _ = strconv.Atoi(m[1])
	} else if m := sjRe.FindStringSubmatch(base); m != nil {
		kind = m[1]
	} else {
		return "?" + d.rel(mdPath), false
	}
	inst, ok := d.instOfForkDir(forkDir)
	if !ok {
		return "?" + d.rel(mdPath), false
	}
	return inst + "/" + kind + "/" + strconv.Itoa(chunk), true
}

func (d *Driver) instOfForkDir(forkDir string) (string, bool) {
	// fork identities change when forks are expanded: always ask
	for _, f := range d.ps.VerifForks() {
		if f.Path == forkDir {
			return d.instName(f), true
		}
	}
	return "", false
}

// instName: "TOP.SUB.A[i,k]" with the indices ordered outermost first.
func (d *Driver) instName(fi core.VerifForkInfo) string {
	callPath := strings.TrimPrefix(fi.Node, "ID."+d.psid+".")
	comps := strings.Split(callPath, ".")
	var idx []string
	for _, c := range comps {
		if k, ok := fi.Index[c]; ok {
			idx = append(idx, k)
		}
	}
	return callPath + "[" + strings.Join(idx, ",") + "]"
}

func (d *Driver) hook(ev string, kv ...string) {
	if ev == "NodeState" && len(kv) >= 6 && kv[3] == kv[5] {
		return // unchanged
	}
	switch ev {
	case "VdrBegin":
		d.fmu.Lock()
		d.vdrBegin++
		var wait time.Duration
		async := goid() != d.goid
		if d.spec.VdrJitter > 0 && async {
			wait = time.Duration(d.jrng.Intn(d.spec.VdrJitter)) * time.Microsecond
		}
		var gate chan struct{}
		if d.spec.VdrGate && async && !d.gatesOpen && len(kv) >= 2 {
			gate = make(chan struct{})
			d.gates[kv[1]] = append(d.gates[kv[1]], gate)
		}
		d.fmu.Unlock()
		if wait > 0 {
			time.Sleep(wait)
		}
		if gate != nil {
			select {
			case <-gate:
			case <-time.After(5 * time.Second):
				d.res.Notes = append(d.res.Notes, "cleanup gate of "+kv[1]+" timed out")
			}
		}
	case "VdrLocked":
		d.fmu.Lock()
		d.vdrLocked++
		d.fmu.Unlock()
	case "VdrRemove":
		d.vdrRemove(kv)
		return
	case "SendJob":
		if d.spec.MaxJobs > 0 {
			m := map[string]string{}
			for i := 0; i+1 < len(kv); i += 2 {
				m[kv[i]] = kv[i+1]
			}
			d.exec(&core.VerifJob{MetadataPath: m["md"], FilesPath: m["files"], JournalFile: m["journal"],
				Fqname: m["fq"], ShellName: m["kind"]})
		}
	}
	args := make([]interface{}, 0, len(kv)+4)
	for i := 0; i+1 < len(kv); i += 2 {
		v := kv[i+1]
		switch kv[i] {
		case "md", "path", "final", "files", "from", "to":
			v = d.rel(v)
		case "file":
			v = path.Base(v)
		}
		args = append(args, kv[i], v)
	}
	d.tr.Emit(ev, args...)
}

// execLocal: a job of a stage called with `local = true` (or a preflight stage in cluster
// mode), handed over by the local job manager (core.VerifLocalExec)
func (d *Driver) execLocal(vj *core.VerifJob) { d.execJob(vj, true) }

func (d *Driver) exec(vj *core.VerifJob) { d.execJob(vj, false) }

func (d *Driver) execJob(vj *core.VerifJob, local bool) {
	d.mu.Lock()
	defer d.mu.Unlock()
	key, ok := d.jobKey(vj.MetadataPath)
	j := &job{vj: vj, key: key, local: local}
	if ok {
		j.inv = d.byKey[key]
	}
	for _, o := range d.jobs {
		if o.key == key {
			j.attempt++
		}
	}
	d.jobs = append(d.jobs, j)
	d.res.Execs[key+"#submit"]++
	d.tr.Emit("JobSubmitted", "job", key, "known", j.inv != nil, "md", d.rel(vj.MetadataPath))
	if d.spec.MaxJobs > 0 && !local {
		d.inflight++
		d.tr.Emit("ClusterSubmit", "job", key, "inflight", d.inflight, "limit", d.spec.MaxJobs)
	}
}

func goid() string {
	var buf [64]byte
	n := runtime.Stack(buf[:], false)
	f := strings.Fields(string(buf[:n]))
	if len(f) > 1 {
		return f[1]
	}
	return ""
}

// canon resolves symbolic links in the directory part of p.
func canon(p string) string {
	if d, err := filepath.EvalSymlinks(path.Dir(p)); err == nil {
		return path.Join(d, path.Base(p))
	}
	return p
}

func inside(p, dir string) bool { return p == dir || strings.HasPrefix(p, dir+"/") }

// vdrRemove: mrp is about to remove kv[path].  Measures what is there and
// lists the files written by stage code that lie under it.
func (d *Driver) vdrRemove(kv []string) {
	var p, fork, why string
	for i := 0; i+1 < len(kv); i += 2 {
		switch kv[i] {
		case "path":
			p = kv[i+1]
		case "fork":
			fork = kv[i+1]
		case "why":
			why = kv[i+1]
		}
	}
	var entries, bytes, files, fbytes int64
	var under []string
	// mrp's unit of account: every directory entry below (and including) a killed
	// path with its lstat size; of a temporary directory only the contents
	tmpRoot := strings.HasSuffix(why, "_tmp")
	if li, err := os.Lstat(p); err == nil && li.Mode()&os.ModeSymlink != 0 {
		entries, bytes = 1, li.Size() // only the link goes
	} else if err == nil {
		filepath.Walk(p, func(wp string, info os.FileInfo, err error) error {
			if err == nil {
				if tmpRoot && wp == p {
					return nil
				}
				entries++
				bytes += info.Size()
				if info.Mode().IsRegular() {
					files++
					fbytes += info.Size()
				}
			}
			return nil
		})
		cp := canon(p)
		d.fmu.Lock()
		for k, fp := range d.filePath {
			if inside(fp, cp) {
				under = append(under, k)
			}
		}
		d.fmu.Unlock()
		sort.Strings(under)
	}
	// (a path whose parent is gone already cannot be resolved: compare both spellings)
	outside := !inside(canon(p), canon(d.psdir)) && !inside(p, d.psdir) && !inside(canon(p), d.psdir)
	if _, err := os.Lstat(path.Dir(p)); err == nil && !inside(canon(p), canon(d.psdir)) && !inside(canon(p), d.psdir) {
		// the directory it is in exists and is, links resolved, not below the pipestance
		outside = true
	}
	if d.prevDir != "" && inside(canon(p), d.prevDir) {
		outside = true // results of another pipestance, linked in
	}
	d.fmu.Lock()
	d.removed.Entries += entries
	d.removed.Bytes += bytes
	d.removed.Files += files
	d.removed.FileBytes += fbytes
	d.removed.Paths = append(d.removed.Paths, p)
	d.fmu.Unlock()
	d.tr.Emit("VdrRemove", "fork", fork, "path", d.rel(p), "why", why, "files", under,
		"entries", entries, "bytes", bytes, "outside", outside)
}

func fileContent(key string) []byte {
	n := 40
	for _, c := range key {
		n = (n*31 + int(c)) % 900
	}
	line := "content of " + key + "\n"
	var b []byte
	for len(b) < n+len(line) {
		b = append(b, line...)
	}
	return b
}

func (d *Driver) resolve(f FileRef) string {
	d.fmu.Lock()
	defer d.fmu.Unlock()
	p := d.filePath[f.Key()]
	if r, ok := d.reported[f.Key()]; ok {
		return r // (a name the stage reports through a link of its own)
	}
	if d.spec.DirSlash && p != "" && strings.HasSuffix(f.Name, ".d") {
		// a stage that reports its directory outputs with a trailing slash
		return p + "/"
	}
	if d.spec.UncleanPaths && p != "" && path.IsAbs(p) {
		// a stage that builds its paths by concatenation
		if len(f.Name)%2 == 0 {
			return path.Dir(p) + "//" + path.Base(p)
		}
		return path.Dir(p) + "/./" + path.Base(p)
	}
	return p
}

// spellOuts: the bytes of an _outs file in the spelling the spec asks for.
func (d *Driver) spellOuts(b []byte) []byte {
	switch d.spec.OutsSpelling {
	case "solidus":
		return []byte(strings.ReplaceAll(string(b), "/", "\\/"))
	case "unicode":
		return []byte(strings.ReplaceAll(string(b), "/", "\\u002f"))
	}
	return b
}

// checkFiles: which of the files named in v are missing or damaged.
func (d *Driver) checkFiles(v interface{}) []string {
	var missing []string
	seen := map[string]bool{}
	for _, f := range FilesIn(v, nil) {
		if seen[f.Key()] {
			continue
		}
		seen[f.Key()] = true
		p := d.resolve(f)
		if strings.HasSuffix(f.Name, ".missing") {
			continue
		}
		if strings.HasSuffix(f.Name, ".d") {
			for _, sub := range []string{"b.dat", "0", "x/deep.dat"} {
				if _, err := os.Stat(path.Join(p, sub)); err != nil {
					missing = append(missing, f.Key()+"("+sub+")")
				}
			}
			p = path.Join(p, "a.dat")
		}
		if b, err := os.ReadFile(p); err != nil {
			missing = append(missing, f.Key())
		} else if string(b) != string(fileContent(f.Key())) {
			missing = append(missing, f.Key()+"(content)")
		}
	}
	return missing
}

// writeFiles: the job writes the files its predicted outputs name, an
// unreferenced file, and returns the outputs with real paths.
func (d *Driver) writeFiles(j *job, outs interface{}) interface{} {
	md := j.vj.MetadataPath
	prepop, _ := readJSON(path.Join(md, "_outs"))
	pm, _ := prepop.(map[string]interface{})
	om, _ := outs.(map[string]interface{})
	myChunk := -1
	if j.inv.Kind == "main" {
		if _, split := d.byKey[j.inv.Inst+"/split/0"]; split {
			myChunk = j.inv.Chunk
		}
	}
	os.MkdirAll(j.vj.FilesPath, 0755)
	for _, f := range FilesIn(outs, nil) {
		if f.Producer != j.inv.Inst || f.Chunk != myChunk {
			continue
		}
		p := path.Join(j.vj.FilesPath, f.Name)
		for k, v := range om {
			if fr, ok := v.(FileRef); ok && fr == f {
				if s, ok := pm[k].(string); ok && s != "" {
					p = s // the path mrp proposed for this output
				}
			}
		}
		if d.spec.PhysPaths {
			// a stage that reports the fully resolved name of what it wrote
			// (os.path.realpath, getcwd)
			if dir, err := filepath.EvalSymlinks(path.Dir(p)); err == nil {
				p = path.Join(dir, path.Base(p))
			}
		}
		if strings.HasSuffix(f.Name, ".outside") {
			// the stage writes the file outside the pipestance directory
			od := path.Join(path.Dir(canon(d.psdir)), "outside")
			os.MkdirAll(od, 0755)
			p = path.Join(od, strings.NewReplacer("/", "_", "[", "_", "]", "_").Replace(f.Key()))
			writeFile(p, fileContent(f.Key()))
			d.fmu.Lock()
			d.filePath[f.Key()] = canon(p)
			d.fileJob[f.Key()] = j.key
			d.outsideOf[f.Key()] = true
			d.fmu.Unlock()
			continue
		}
		if !strings.Contains(p, d.psdir) {
			// (as mrp decides it in moveOutFile) the name the stage reports does not
			// spell the pipestance's path: post-processing treats it as an outside file
			d.fmu.Lock()
			d.outsideOf[f.Key()] = true
			d.fmu.Unlock()
		}
		if strings.HasSuffix(f.Name, ".missing") {
			// the stage names a file it never wrote
			d.fmu.Lock()
			d.filePath[f.Key()] = canon(p)
			d.fileJob[f.Key()] = j.key
			d.fmu.Unlock()
			continue
		}
		if strings.HasSuffix(f.Name, ".ind") {
			// the output names the file a.dat INSIDE the directory that is the same stage's
			// output d (a directory output and one of its files returned side by side)
			dirRef := FileRef{Producer: f.Producer, Name: "d.d", Chunk: f.Chunk}
			dp := path.Join(j.vj.FilesPath, "d.d")
			if sp, ok := pm["d"].(string); ok && sp != "" {
				dp = sp // the path mrp proposed for the output d
			}
			os.MkdirAll(path.Join(dp, "x"), 0755)
			p = path.Join(dp, "a.dat")
			writeFile(p, fileContent(dirRef.Key()))
			d.fmu.Lock()
			d.filePath[f.Key()] = canon(p)
			d.fileJob[f.Key()] = j.key
			d.aliasOf[f.Key()] = dirRef.Key()
			d.fmu.Unlock()
			d.tr.Emit("FileWritten", "job", j.key, "file", f.Key(), "path", d.rel(p))
			continue
		}
		if strings.HasSuffix(f.Name, ".shd") {
			// a shard written under its one-character index in a sub-directory: <out>_parts/<i>
			base := strings.TrimSuffix(f.Name, ".shd")
			if i := strings.LastIndex(base, "_"); i > 0 {
				dir := path.Join(j.vj.FilesPath, base[:i]+"_parts")
				os.MkdirAll(dir, 0755)
				p = path.Join(dir, base[i+1:])
			}
			writeFile(p, fileContent(f.Key()))
			d.fmu.Lock()
			d.filePath[f.Key()] = canon(p)
			d.fileJob[f.Key()] = j.key
			d.fmu.Unlock()
			d.tr.Emit("FileWritten", "job", j.key, "file", f.Key(), "path", d.rel(p))
			continue
		}
		if strings.HasSuffix(f.Name, ".lnk2") {
			// link -> sub/link -> deep/target, all relative
			dir := path.Dir(p)
			os.MkdirAll(path.Join(dir, "sub", "deep"), 0755)
			tgt := path.Join(dir, "sub", "deep", path.Base(p)+".target")
			writeFile(tgt, fileContent(f.Key()))
			os.Symlink(path.Join("deep", path.Base(tgt)), path.Join(dir, "sub", path.Base(p)+".l2"))
			os.Symlink(path.Join("sub", path.Base(p)+".l2"), p)
			d.fmu.Lock()
			d.filePath[f.Key()] = canon(p)
			d.fileJob[f.Key()] = j.key
			d.fmu.Unlock()
			d.tr.Emit("FileWritten", "job", j.key, "file", f.Key(), "path", d.rel(p))
			continue
		}
		if strings.HasSuffix(f.Name, ".plnk") {
			// pass-through: the output is a relative symbolic link to the first file
			// named in the stage's arguments
			args, _ := Untag(j.inv.Args)
			ins := FilesIn(args, nil)
			if len(ins) == 0 {
				panic("plink output without a file argument: " + j.key)
			}
			d.fmu.Lock()
			tgt := d.filePath[ins[0].Key()]
			d.fmu.Unlock()
			relp, err := filepath.Rel(canon(path.Dir(p)), tgt)
			if err != nil {
				panic(err)
			}
			os.Symlink(relp, p)
			d.fmu.Lock()
			d.filePath[f.Key()] = canon(p)
			d.fileJob[f.Key()] = j.key
			d.aliasOf[f.Key()] = ins[0].Key()
			d.fmu.Unlock()
			d.tr.Emit("FileWritten", "job", j.key, "file", f.Key(), "path", d.rel(p))
			continue
		}
		if strings.HasSuffix(f.Name, ".rdl") || strings.HasSuffix(f.Name, ".rdl2") {
			// the stage links a directory of reference data (elsewhere, with other files in
			// it) into its files directory and names one file below the link
			od := path.Join(path.Dir(canon(d.psdir)), "refdata", strings.NewReplacer("/", "_", "[", "_", "]", "_", "|", "_").Replace(f.Key()))
			os.MkdirAll(path.Join(od, "sub"), 0755)
			writeFile(path.Join(od, "data.bin"), fileContent(f.Key()))
			writeFile(path.Join(od, "other1.bin"), []byte("reference data nobody named\n"))
			writeFile(path.Join(od, "sub", "other2.bin"), []byte("more of it\n"))
			two := strings.HasSuffix(f.Name, ".rdl2")
			lnk := path.Join(j.vj.FilesPath, strings.TrimSuffix(strings.TrimSuffix(path.Base(p), ".rdl2"), ".rdl")+"_ref")
			os.Symlink(od, lnk)
			if two {
				// files/<name>_cur -> files/<name>_ref -> the directory elsewhere
				cur := strings.TrimSuffix(lnk, "_ref") + "_cur"
				os.Symlink(lnk, cur)
				lnk = cur
			}
			p = path.Join(lnk, "data.bin")
			d.fmu.Lock()
			d.filePath[f.Key()] = canon(p)
			d.reported[f.Key()] = p
			d.fileJob[f.Key()] = j.key
			d.outsideOf[f.Key()] = true
			d.refdata = append(d.refdata, path.Join(od, "other1.bin"), path.Join(od, "sub", "other2.bin"), path.Join(od, "data.bin"))
			d.fmu.Unlock()
			d.tr.Emit("FileWritten", "job", j.key, "file", f.Key(), "path", d.rel(p))
			continue
		}
		if strings.HasSuffix(f.Name, ".lnk") {
			// the output is a symbolic link to a file of the stage
			tgt := p + ".target"
			writeFile(tgt, fileContent(f.Key()))
			os.Symlink(path.Base(tgt), p)
			d.fmu.Lock()
			d.filePath[f.Key()] = canon(p)
			d.fileJob[f.Key()] = j.key
			d.extras[j.key+"##"+f.Name] = canon(tgt)
			d.fmu.Unlock()
			d.tr.Emit("FileWritten", "job", j.key, "file", f.Key(), "path", d.rel(p))
			continue
		}
		if strings.HasSuffix(f.Name, ".d") {
			// a directory output with two files in it
			os.MkdirAll(path.Join(p, "x"), 0755)
			writeFile(path.Join(p, "a.dat"), fileContent(f.Key()))
			writeFile(path.Join(p, "b.dat"), []byte("second file of "+f.Key()+"\n"))
			// entries with one-character names, a file and a sub-directory
			writeFile(path.Join(p, "0"), []byte("shard 0 of "+f.Key()+"\n"))
			writeFile(path.Join(p, "x", "deep.dat"), []byte("below x of "+f.Key()+"\n"))
			if !d.spec.Bare {
				// an entry which is a relative link to a file beside the directory
				// whose name begins with the directory's name
				sib := p + "_sib.dat"
				writeFile(sib, []byte("beside "+f.Key()+"\n"))
				os.Symlink(path.Join("..", "..", path.Base(p)+"_sib.dat"), path.Join(p, "x", "sib.lnk"))
				d.fmu.Lock()
				d.extras[j.key+"##"+f.Name] = canon(sib)
				d.fmu.Unlock()
			}
		} else {
			writeFile(p, fileContent(f.Key()))
			if !d.spec.Bare {
				// an unreferenced file whose name extends the output's name
				sib := p + ".idx"
				writeFile(sib, []byte("index of "+f.Key()+"\n"))
				d.fmu.Lock()
				d.extras[j.key+"##"+f.Name] = canon(sib)
				d.fmu.Unlock()
			}
		}
		d.fmu.Lock()
		d.filePath[f.Key()] = canon(p)
		d.fileJob[f.Key()] = j.key
		d.fmu.Unlock()
		d.tr.Emit("FileWritten", "job", j.key, "file", f.Key(), "path", d.rel(p))
	}
	if !d.spec.Bare {
		ex := path.Join(j.vj.FilesPath, "extra.dat")
		writeFile(ex, []byte("unreferenced file of "+j.key+"\n"))
		d.fmu.Lock()
		d.extras[j.key] = canon(ex)
		d.fmu.Unlock()
	}
	return Resolve(outs, d.resolve)
}

func writeFile(p string, b []byte) error { return os.WriteFile(p, b, 0644) }

func relFileContent(rel string) string { return "input file given as " + rel + "\n" }

var deadPidOnce sync.Once
var deadPidVal int

// deadPid returns the pid of a process that has exited.
func deadPid() int {
	deadPidOnce.Do(func() {
		cmd := exec.Command("/bin/true")
		if err := cmd.Start(); err == nil {
			deadPidVal = cmd.Process.Pid
			cmd.Wait()
		} else {
			deadPidVal = 4194000
		}
	})
	return deadPidVal
}

func (d *Driver) journal(j *job, name string) {
	pre := ""
	switch j.vj.ShellName {
	case "split":
		pre = "split_"
	case "join":
		pre = "join_"
	}
	f := j.vj.JournalFile + "." + pre + name
	writeFile(f, []byte("x"))
	d.tr.Emit("JournalWrite", "job", j.key, "file", path.Base(f), "md", d.rel(j.vj.MetadataPath))
}

func readJSON(p string) (interface{}, error) {
	b, err := os.ReadFile(p)
	if err != nil {
		return nil, err
	}
	var v interface{}
	err = json.Unmarshal(b, &v)
	return v, err
}

// begin: the job process starts (writes _log, notifies).
func (d *Driver) begin(j *job) {
	j.begun = true
	j.vj.Started()
	d.res.Execs[j.key]++
	argsOk := true
	detail := ""
	if j.inv != nil {
		pred, err := Untag(j.inv.Args)
		if err != nil {
			panic(err)
		}
		act, err := readJSON(path.Join(j.vj.MetadataPath, "_args"))
		if err != nil {
			argsOk, detail = false, "cannot read _args: "+err.Error()
		} else if am, ok := act.(map[string]interface{}); !ok {
			argsOk, detail = false, "_args is not an object"
		} else {
			am = StripInternal(am)
			if !SameLax(pred, am, d.resolve) {
				argsOk = false
				detail = "predicted " + Canon(pred) + " got " + Canon(am)
			} else if pm, ok := pred.(map[string]interface{}); ok {
				// a parameter whose value is null is still handed to the job (stage code
				// reads it by name): the latitude is about the value, not the key
				var absent []string
				for k := range pm {
					if _, ok := am[k]; !ok {
						absent = append(absent, k)
					}
				}
				if len(absent) > 0 {
					sort.Strings(absent)
					argsOk = false
					detail = "predicted " + Canon(pred) + " got " + Canon(am) + ": no entry at all for " + strings.Join(absent, ", ")
				}
			}
		}
		if argsOk && j.inv.Kind == "join" {
			// chunk outs complete and in chunk order
			pc, _ := Untag(j.inv.Couts)
			ac, err := readJSON(path.Join(j.vj.MetadataPath, "_chunk_outs"))
			if err != nil {
				argsOk, detail = false, "cannot read _chunk_outs: "+err.Error()
			} else if !chunkOutsSame(pc, ac, d.resolve) {
				argsOk = false
				detail = "chunk outs predicted " + Canon(pc) + " got " + Canon(ac)
			}
		}
	}
	if !argsOk {
		d.res.ArgsBad = append(d.res.ArgsBad, j.key+": "+detail)
	}
	var missing []string
	if d.spec.Files && j.inv != nil {
		// what a stage does first: open the files named in its arguments
		pa, _ := Untag(j.inv.Args)
		missing = d.checkFiles(pa)
		if j.inv.Kind == "join" {
			pc, _ := Untag(j.inv.Couts)
			missing = append(missing, d.checkFiles(pc)...)
		}
		if !d.spec.Bare || d.spec.EmptyTmp {
			tmp := path.Join(j.vj.MetadataPath, "tmp")
			os.MkdirAll(tmp, 0755)
			if d.spec.EmptyTmp {
				for _, n := range []string{"scratch.dat", "db.lock", ".started"} {
					writeFile(path.Join(tmp, n), nil)
				}
			} else {
				writeFile(path.Join(tmp, "scratch.dat"), []byte("temporary file of "+j.key+"\n"))
			}
			if d.spec.TmpLink {
				ext := path.Join(path.Dir(canon(d.psdir)), "scratch-elsewhere")
				os.MkdirAll(ext, 0755)
				writeFile(path.Join(ext, "big.bin"), []byte(strings.Repeat("x", 5000)))
				os.Symlink(ext, path.Join(tmp, "extlink"))
				// ... and, among its files, a link to a FILE elsewhere (reference data)
				os.Symlink(path.Join(ext, "big.bin"), path.Join(j.vj.FilesPath, "extref.bin"))
			}
			d.fmu.Lock()
			d.tmps[j.key] = path.Join(tmp, "scratch.dat")
			d.fmu.Unlock()
		}
	}
	d.tr.Emit("StageBegin", "job", j.key, "known", j.inv != nil, "argsOk", argsOk, "attempt", j.attempt,
		"missing", missing)
	// record a pid in _jobinfo as the job monitor does (a pid that is not alive,
	// so that a restarted mrp recognises the job as orphaned)
	if ji, err := readJSON(path.Join(j.vj.MetadataPath, "_jobinfo")); err == nil {
		if m, ok := ji.(map[string]interface{}); ok {
			m["pid"] = deadPid()
			b, _ := json.Marshal(m)
			writeFile(path.Join(j.vj.MetadataPath, "_jobinfo"), b)
		}
	}
	writeFile(path.Join(j.vj.MetadataPath, "_log"), []byte("log\n"))
	d.journal(j, "log")
	for _, k := range d.spec.StaleEntries {
		if k == j.key {
			if m := staleRe.FindStringIndex(j.vj.JournalFile); m != nil {
				pre := ""
				switch j.vj.ShellName {
				case "split":
					pre = "split_"
				case "join":
					pre = "join_"
				}
				f := j.vj.JournalFile[:m[0]] + ".u0000000001" + j.vj.JournalFile[m[1]:] + "." + pre + "complete"
				writeFile(f, []byte("x"))
				d.tr.Emit("Note", "text", "stale notification "+path.Base(f)+" while "+j.key+" runs")
			}
		}
	}
}

// the join sees, per chunk, the chunk's declared outputs (possibly among others)
func chunkOutsSame(pred, act interface{}, resolve func(FileRef) string) bool {
	p, ok1 := pred.([]interface{})
	a, ok2 := act.([]interface{})
	if !ok1 || !ok2 || len(p) != len(a) {
		return false
	}
	for i := range p {
		pm, _ := p[i].(map[string]interface{})
		am, _ := a[i].(map[string]interface{})
		for k, v := range pm {
			if !Same(v, am[k], resolve) {
				return false
			}
		}
	}
	return true
}

// end: the job process finishes.
func (d *Driver) end(j *job) {
	if d.spec.EarlyDefs && !j.defs && j.inv != nil && j.inv.Kind == "split" && d.spec.Faults[j.key] == "" {
		j.defs = true
		chunks := make([]interface{}, j.inv.NChunks)
		for i := range chunks {
			chunks[i] = map[string]interface{}{"ci": i}
		}
		b, _ := json.Marshal(map[string]interface{}{"chunks": chunks, "join": map[string]interface{}{}})
		writeFile(path.Join(j.vj.MetadataPath, "_stage_defs"), b)
		d.journal(j, "stage_defs")
		return // the job lives on: its end is another step of the schedule
	}
	for _, k := range d.spec.RemoveOwnTmp {
		if k == j.key {
			os.RemoveAll(path.Join(j.vj.MetadataPath, "tmp"))
			d.fmu.Lock()
			delete(d.tmps, j.key)
			d.fmu.Unlock()
		}
	}
	j.ended = true
	if d.spec.MaxJobs > 0 && !j.local {
		d.mu.Lock()
		d.inflight--
		d.mu.Unlock()
	}
	fault := d.spec.Faults[j.key]
	if j.inv == nil && fault == "" {
		fault = "unknown-job"
	}
	md := j.vj.MetadataPath
	outcome := "ok"
	if fault != "" {
		outcome = fault
	}
	d.res.Ended[j.key] = outcome
	if fault != "" && (d.spec.Freeze || d.spec.Orphans) {
		d.frozen = true
		d.frozenAt = d.res.Iter
	}
	d.tr.Emit("StageEnd", "job", j.key, "outcome", outcome, "attempt", j.attempt)
	switch fault {
	case "":
		if j.inv.Kind == "split" {
			chunks := make([]interface{}, j.inv.NChunks)
			for i := range chunks {
				chunks[i] = map[string]interface{}{"ci": i}
			}
			b, _ := json.Marshal(map[string]interface{}{"chunks": chunks, "join": map[string]interface{}{}})
			writeFile(path.Join(md, "_stage_defs"), b)
		} else {
			outs, err := Untag(j.inv.Outs)
			if err != nil {
				panic(err)
			}
			if d.spec.Files {
				outs = d.writeFiles(j, outs)
			}
			b, _ := json.Marshal(outs)
			writeFile(path.Join(md, "_outs"), d.spellOuts(b))
		}
		writeFile(path.Join(md, "_complete"), []byte("done"))
		d.journal(j, "complete")
	case "vanish":
		// the job dies without a trace and without ever having sent a heartbeat: the
		// cluster's queue no longer lists it
		d.mu.Lock()
		d.vanished++
		d.mu.Unlock()
	case "vanish-heartbeat":
		// the job sends a heartbeat and then dies without a trace (node lost, SIGKILL of the
		// wrapper): nothing but the heartbeat time-out can tell mrp
		writeFile(path.Join(md, "_heartbeat"), []byte("alive"))
		d.journal(j, "heartbeat")
		d.mu.Lock()
		d.vanished++
		d.mu.Unlock()
	case "errors", "unknown-job":
		writeFile(path.Join(md, "_errors"), []byte("injected failure of "+j.key))
		d.journal(j, "errors")
	case "assert":
		writeFile(path.Join(md, "_assert"), []byte("ASSERT:injected assertion of "+j.key))
		d.journal(j, "assert")
	case "trunc-outs":
		writeFile(path.Join(md, "_outs"), []byte(`{"y": `))
		writeFile(path.Join(md, "_complete"), []byte("done"))
		d.journal(j, "complete")
	case "garbage-outs":
		// the right outputs followed by something that is not JSON: the file as a whole
		// does not parse
		outs, _ := Untag(j.inv.Outs)
		b, _ := json.Marshal(Resolve(outs, d.resolve))
		writeFile(path.Join(md, "_outs"), append(b, []byte(" garbage ][")...))
		writeFile(path.Join(md, "_complete"), []byte("done"))
		d.journal(j, "complete")
	case "missing-key":
		writeFile(path.Join(md, "_outs"), []byte(`{}`))
		writeFile(path.Join(md, "_complete"), []byte("done"))
		d.journal(j, "complete")
	case "wrong-type":
		outs, _ := Untag(j.inv.Outs)
		if m, ok := outs.(map[string]interface{}); ok {
			for _, k := range SortedKeys(m) {
				m[k] = map[string]interface{}{"not": "the declared type"}
				break
			}
		}
		b, _ := json.Marshal(outs)
		writeFile(path.Join(md, "_outs"), b)
		writeFile(path.Join(md, "_complete"), []byte("done"))
		d.journal(j, "complete")
	case "stale-collection":
		// the outputs are unusable (a scalar output has the wrong JSON type) and, this
		// time, every array the stage returns has one element more than it will have once
		// the fault is gone: what the failed attempt left behind must not be used
		outs, _ := Untag(j.inv.Outs)
		if m, ok := outs.(map[string]interface{}); ok {
			spoiled := false
			for _, k := range SortedKeys(m) {
				switch v := m[k].(type) {
				case []interface{}:
					if len(v) > 0 {
						m[k] = append(append([]interface{}{}, v...), v[len(v)-1])
					} else {
						m[k] = []interface{}{float64(99)}
					}
				case float64, string, bool:
					if !spoiled {
						m[k] = map[string]interface{}{"not": "the declared type"}
						spoiled = true
					}
				}
			}
		}
		b, _ := json.Marshal(outs)
		writeFile(path.Join(md, "_outs"), b)
		writeFile(path.Join(md, "_complete"), []byte("done"))
		d.journal(j, "complete")
	case "stale-defs":
		// the split leaves a well-formed _stage_defs (with more chunks than it will
		// produce once the fault is gone) and then fails
		chunks := make([]interface{}, j.inv.NChunks+2)
		for i := range chunks {
			chunks[i] = map[string]interface{}{"ci": i}
		}
		b, _ := json.Marshal(map[string]interface{}{"chunks": chunks, "join": map[string]interface{}{}})
		writeFile(path.Join(md, "_stage_defs"), b)
		writeFile(path.Join(md, "_errors"), []byte("injected failure of "+j.key+" after it had written _stage_defs"))
		d.journal(j, "errors")
	case "badres-defs":
		// the chunk definitions are there, but the resource request of one chunk is not a
		// number (of the join, if there are no chunks)
		chunks := make([]interface{}, j.inv.NChunks)
		for i := range chunks {
			chunks[i] = map[string]interface{}{"ci": i}
		}
		join := map[string]interface{}{}
		if len(chunks) > 0 {
			chunks[len(chunks)-1] = map[string]interface{}{"ci": len(chunks) - 1, "__mem_gb": "lots"}
		} else {
			join["__mem_gb"] = "lots"
		}
		b, _ := json.Marshal(map[string]interface{}{"chunks": chunks, "join": join})
		writeFile(path.Join(md, "_stage_defs"), b)
		writeFile(path.Join(md, "_complete"), []byte("done"))
		d.journal(j, "complete")
	case "bad-stage-defs":
		writeFile(path.Join(md, "_stage_defs"), []byte(`{"chunks": 7}`))
		writeFile(path.Join(md, "_complete"), []byte("done"))
		d.journal(j, "complete")
	}
}

// pending environment actions, in a deterministic order
func (d *Driver) envActions() []string {
	d.mu.Lock()
	defer d.mu.Unlock()
	var acts []string
	if d.frozen {
		// mrp notices a failed fork only once the forks before it are done: do
		// not hold the other jobs back for ever
		if d.res.Iter-d.frozenAt < 5 {
			return nil
		}
		d.frozen = false
	}
	for i, j := range d.jobs {
		if j.ended {
			continue // finished, or died with a previous mrp
		}
		if !j.begun {
			acts = append(acts, "B:"+strconv.Itoa(i))
		} else if !j.ended {
			held := false
			for _, h := range d.spec.Hold {
				held = held || h == j.key
			}
			if !held {
				acts = append(acts, "E:"+strconv.Itoa(i))
			}
		}
	}
	return acts
}

func (d *Driver) doEnv(a string) {
	i, _ := strconv.Atoi(a[2:])
	d.mu.Lock()
	j := d.jobs[i]
	d.mu.Unlock()
	d.script = append(d.script, a[:2]+j.key)
	if a[0] == 'B' {
		d.begin(j)
	} else {
		d.end(j)
	}
	d.writeAlive()
}

// releaseGate lets one waiting cleanup goroutine of the fork go on.
func (d *Driver) releaseGate(fork string) bool {
	d.fmu.Lock()
	defer d.fmu.Unlock()
	if q := d.gates[fork]; len(q) > 0 {
		close(q[0])
		d.gates[fork] = q[1:]
		return true
	}
	return false
}

func (d *Driver) openGates() {
	d.fmu.Lock()
	d.gatesOpen = true
	for k, q := range d.gates {
		for _, c := range q {
			close(c)
		}
		delete(d.gates, k)
	}
	d.fmu.Unlock()
}

func (d *Driver) findJob(key string, begun bool) int {
	d.mu.Lock()
	defer d.mu.Unlock()
	for i, j := range d.jobs {
		if j.key == key && !j.ended && j.begun == begun {
			return i
		}
	}
	return -1
}

// Run executes one spec and returns the result (with the trace).
func Run(spec *Spec, workdir string) (res *Result) {
	util.SetPrintLogger(devNull{})
	res = &Result{Name: spec.Name, Execs: map[string]int{}, Ended: map[string]string{}}
	defer func() { core.VerifLocalExec = nil }()
	d := &Driver{spec: spec, tr: &Trace{}, res: res, byKey: map[string]*Inv{},
		forks: map[string]core.VerifForkInfo{}, psid: "ps",
		filePath: map[string]string{}, fileJob: map[string]string{}, extras: map[string]string{}, aliasOf: map[string]string{}, outsideOf: map[string]bool{},
		tmps: map[string]string{}, reported: map[string]string{}, goid: goid(), jrng: rand.New(rand.NewSource(spec.Sched.Seed + 7)),
		gates: map[string][]chan struct{}{}}
	core.VerifLocalExec = d.execLocal
	for i := range spec.Invs {
		d.byKey[spec.Invs[i].Key()] = &spec.Invs[i]
	}
	defer func() {
		if r := recover(); r != nil {
			res.Error = fmt.Sprintf("panic: %v\n%s", r, debug.Stack())
		}
		res.Trace = d.tr.Events()
		res.Events = len(res.Trace)
		res.Script = d.script
		core.VerifHook = nil
	}()
	root, err := os.MkdirTemp(workdir, "ps")
	if err != nil {
		res.Error = err.Error()
		return
	}
	if spec.Keep == "" {
		defer os.RemoveAll(root)
	}
	d.psdir = path.Join(root, "ps")
	res.psdir = d.psdir
	var prev *Result
	if spec.LinkPrev != "" {
		ps := *spec
		ps.LinkPrev, ps.LinkNode, ps.Vdr, ps.Keep, ps.Name = "", "", "disable", "prev", spec.Name+"#prev"
		ps.Restart, ps.Faults, ps.Orphans, ps.VdrGate = false, nil, false, false
		ps.Sched = Sched{Kind: "random", Seed: spec.Sched.Seed + 1, PEnv: 0.5}
		prev = Run(&ps, root)
		if prev.State != string(core.Complete) {
			res.Error = "the earlier run whose results are linked in did not complete: " + prev.State + " " + prev.Error
			return
		}
		util.SetPrintLogger(devNull{})
	}
	if spec.PhysPaths {
		os.MkdirAll(path.Join(root, "real"), 0755)
		os.Symlink("real", path.Join(root, "link"))
		d.psdir = path.Join(root, "link", "ps")
	}
	if len(spec.RelFiles) > 0 {
		// (runs of one harness process are sequential: the working directory is ours)
		cwd, _ := os.Getwd()
		os.Chdir(root)
		defer os.Chdir(cwd)
		for _, rel := range spec.RelFiles {
			os.MkdirAll(path.Dir(path.Join(root, rel)), 0755)
			writeFile(path.Join(root, rel), []byte(relFileContent(rel)))
		}
	}
	mroPath := path.Join(root, "mro")
	os.MkdirAll(mroPath, 0755)
	srcPath := path.Join(mroPath, "p.mro")
	invSrc := spec.Mro
	mroPaths := []string{mroPath}
	if i := strings.Index(spec.Mro, "\npipeline "); (spec.Layout == "subdir" || spec.Layout == "sibling") && i >= 0 {
		base := mroPath
		if spec.Layout == "sibling" {
			// MROPATH=<root>/mro:<root>/mro_internal - the first entry is a prefix of the
			// second as a string, not as a path; the files are below the second
			base = mroPath + "_internal"
			mroPaths = []string{mroPath, base}
		}
		os.MkdirAll(path.Join(base, "pipes"), 0755)
		writeFile(path.Join(base, "pipes", "_stages.mro"), []byte(spec.Mro[:i+1]))
		invSrc = "@include \"_stages.mro\"\n" + spec.Mro[i:]
		srcPath = path.Join(base, "pipes", "main.mro")
		writeFile(srcPath, []byte(invSrc))
	} else {
		writeFile(srcPath, []byte(spec.Mro))
	}

	opts := core.DefaultRuntimeOptions()
	switch spec.Vdr {
	case "":
		opts.VdrMode = core.VdrDisable
	default:
		opts.VdrMode = core.VdrMode(spec.Vdr)
	}
	if spec.Strict {
		syntax.SetEnforcementLevel(syntax.EnforceError)
	}
	newRuntime := func() (*core.Runtime, error) {
		if spec.MaxJobs > 0 {
			d.tmplPath = path.Join(root, "verifq.template")
			writeFile(d.tmplPath, []byte("#!/bin/sh\n# __MRO_JOB_NAME__ __MRO_THREADS__ __MRO_MEM_GB__\ncd __MRO_JOB_WORKDIR__\n__MRO_CMD__ > __MRO_STDOUT__ 2> __MRO_STDERR__\n"))
			o := opts
			core.VerifQueueQuery, core.VerifQueueGraceSecs = "", 0
			if spec.QueueCheck {
				jm := core.VerifRelPath(path.Join("..", "jobmanagers"))
				os.MkdirAll(jm, 0755)
				writeFile(path.Join(jm, "verif_queue.sh"), []byte("#!/bin/sh\ncat > /dev/null\ncat \"$VERIF_ALIVE_FILE\" 2>/dev/null\nexit 0\n"))
				os.Chmod(path.Join(jm, "verif_queue.sh"), 0755)
				d.aliveFile = path.Join(root, "alive_jobs")
				os.Setenv("VERIF_ALIVE_FILE", d.aliveFile)
				core.VerifQueueQuery, core.VerifQueueGraceSecs = "verif_queue.sh", 3000
				d.writeAlive()
			}
			return core.VerifNewRemoteRuntime(&o, 4, 4, d.tmplPath, "/bin/sh", []string{"-c", "cat > /dev/null; echo j$$"}, spec.MaxJobs)
		}
		return core.VerifNewRuntime(&opts, 4, 4, "/nonexistent/mrjob", "/nonexistent/adapters", d.exec)
	}
	rt, err := newRuntime()
	if err != nil {
		res.Error = "runtime: " + err.Error()
		return
	}
	d.rt = rt
	core.VerifHook = d.hook
	d.tr.Emit("RunBegin", "name", spec.Name)
	ps, err := rt.InvokePipeline(invSrc, srcPath, d.psid, d.psdirArg(), mroPaths, "v", map[string]string{}, nil)
	if err != nil {
		res.Error = "invoke: " + err.Error()
		return
	}
	d.ps = ps
	ctx := context.Background()
	if prev != nil {
		nodeDir := path.Join(d.psdir, spec.LinkPrev)
		os.RemoveAll(nodeDir)
		os.MkdirAll(path.Dir(nodeDir), 0755)
		if err := os.Symlink(path.Join(prev.psdir, spec.LinkPrev), nodeDir); err != nil {
			res.Error = "link prev: " + err.Error()
			return
		}
		d.prevDir = canon(path.Join(prev.psdir, spec.LinkPrev))
		for k, fp := range prev.files {
			if inside(fp, d.prevDir) {
				d.filePath[k] = fp
				d.fileJob[k] = prev.fileJobs[k]
			}
		}
	}
	if spec.LinkNode != "" {
		nodeDir := path.Join(d.psdir, spec.LinkNode)
		target := path.Join(root, "elsewhere", path.Base(spec.LinkNode))
		os.MkdirAll(path.Dir(target), 0755)
		if _, err := os.Lstat(nodeDir); err == nil {
			if err := os.Rename(nodeDir, target); err != nil {
				res.Error = "link node: " + err.Error()
				return
			}
		} else {
			os.MkdirAll(target, 0755)
			os.MkdirAll(path.Dir(nodeDir), 0755)
		}
		if err := os.Symlink(target, nodeDir); err != nil {
			res.Error = "link node: " + err.Error()
			return
		}
	}
	ps.LoadMetadata(ctx)
	d.rng = rand.New(rand.NewSource(spec.Sched.Seed))
	d.loop(ctx)
	res.States = append(res.States, res.State)
	if spec.Restart && res.State == string(core.Failed) {
		// mrp reports the failure, unlocks and exits; its local jobs die with it
		fq, _, _, log, _, _ := d.ps.GetFatalError()
		res.FatalFq, res.FatalLog = fq, log
		d.tr.Emit("RunEnd", "state", res.State, "stuck", res.Stuck, "fatal", fq)
		d.ps.Unlock()
		d.mu.Lock()
		for _, j := range d.jobs {
			if !j.ended {
				if spec.MaxJobs > 0 && !j.local {
					continue // a cluster job lives on; the restarted mrp re-attaches to it
				}
				if j.begun && spec.Orphans {
					j.key = j.key + "#orphan" // finishes later, in its old directory
					j.inv2 = j.inv
					continue
				}
				j.ended = true
				if j.begun {
					d.tr.Emit("StageKilled", "job", j.key)
				}
			}
		}
		d.mu.Unlock()
		// let asynchronous cleanup goroutines of the old runtime end (a real mrp's die with
		// it): wait until nothing has been recorded and no goroutine has come or gone for
		// a while
		time.Sleep(20 * time.Millisecond)
		for quiet, n, g, t0 := 0, d.tr.Len(), runtime.NumGoroutine(), time.Now(); quiet < 4 && time.Since(t0) < 3*time.Second; {
			time.Sleep(15 * time.Millisecond)
			if n2, g2 := d.tr.Len(), runtime.NumGoroutine(); n2 == n && g2 == g {
				quiet++
			} else {
				quiet, n, g = 0, n2, g2
			}
		}
		spec.Faults = nil
		spec.Hold = nil
		d.frozen = false
		if spec.Orphans {
			// a restarted mrp is another process at another time: let the
			// uniquifier (pid + seconds) of the new attempts differ
			time.Sleep(1100 * time.Millisecond)
		}
		d.tr.Emit("Restart")
		d.script = append(d.script, "RESTART")
		rt2, err := newRuntime()
		if err != nil {
			res.Error = "runtime: " + err.Error()
			return
		}
		d.rt = rt2
		ps2, err := rt2.ReattachToPipestance(d.psid, d.psdirArg(), "", "", mroPaths, "v",
			map[string]string{}, true, false, ctx)
		if err != nil {
			res.Error = "reattach: " + err.Error()
			return
		}
		d.ps = ps2
		if err := ps2.Reset(); err == nil {
			mode := "local"
			if spec.MaxJobs > 0 {
				mode = d.tmplPath // cmd/mrp passes its --jobmode
			}
			err = ps2.RestartLocalJobs(mode)
		}
		if err != nil {
			res.Error = "reset: " + err.Error()
			return
		}
		ps2.LoadMetadata(ctx)
		res.Stuck = false
		d.loop(ctx)
		res.States = append(res.States, res.State)
	}
	d.finish(ctx)
	return
}

// loop runs the schedule until the pipestance ends or is stuck.
func (d *Driver) loop(ctx context.Context) {
	maxIter := d.spec.MaxIter
	if maxIter == 0 {
		// (a loop iteration moves at least one job one step unless the schedule idles)
		maxIter = 400 + 12*len(d.spec.Invs)
	}
	sc := d.spec.Sched
	penv := sc.PEnv
	if penv == 0 {
		penv = 0.5
	}
	scriptPos := d.scriptPos
	defer func() { d.scriptPos = scriptPos }()
	for sc.Kind == "script" && scriptPos < len(sc.Script) && sc.Script[scriptPos] == "RESTART" {
		scriptPos++
	}
	waited := 0
	idle := 0 // consecutive iterations without any environment step or progress
	for it := 0; it < maxIter; it++ {
		d.res.Iter = it
		nscript := len(d.script)
		if d.spec.MaxJobs > 0 {
			time.Sleep(4 * time.Millisecond) // submissions happen in goroutines of the job manager
		}
		// ---- environment steps before the refresh and between refresh and step
		for phase := 0; phase < 2; phase++ {
			switch sc.Kind {
			case "script":
				for scriptPos < len(sc.Script) {
					a := sc.Script[scriptPos]
					if a == "R" || a == "S" || a == "RESTART" {
						break
					}
					if a[0] == 'V' {
						if d.releaseGate(a[2:]) {
							d.script = append(d.script, a)
							time.Sleep(2 * time.Millisecond) // let it take the lock
							waited = 0
							scriptPos++
							continue
						}
						if waited < 12 {
							waited++
							break
						}
						d.res.Notes = append(d.res.Notes, "script step not possible: "+a)
						waited = 0
						scriptPos++
						continue
					}
					if i := d.findJob(a[2:], a[0] == 'E'); i >= 0 {
						d.doEnv(a[:2] + strconv.Itoa(i))
						waited = 0
					} else if waited < 12 {
						// the real run loop needs more passes than the model's
						// finer-grained steps: run loop iterations until the job exists
						waited++
						break
					} else {
						d.res.Notes = append(d.res.Notes, "script step not possible: "+a)
						waited = 0
					}
					scriptPos++
				}
			default:
				for {
					acts := d.envActions()
					if sc.Kind == "slow" {
						// hold back every job of the slow instance
						var keep []string
						for _, a := range acts {
							i, _ := strconv.Atoi(a[2:])
							if !strings.HasPrefix(d.jobs[i].key, sc.Slow+"/") {
								keep = append(keep, a)
							}
						}
						if len(keep) == 0 && idle >= 3 {
							keep = acts // everything else is quiescent: release it
						}
						acts = keep
					}
					if len(acts) == 0 || d.rng.Float64() >= penv {
						break
					}
					d.doEnv(acts[d.rng.Intn(len(acts))])
				}
			}
			if phase == 0 {
				if sc.Kind == "script" && scriptPos < len(sc.Script) && sc.Script[scriptPos] == "R" {
					scriptPos++
				}
				d.script = append(d.script, "R")
				d.tr.Emit("Refresh")
				d.ps.RefreshState(ctx)
			}
		}
		state := d.ps.GetState(ctx)
		if state == core.Complete || state == core.DisabledState || state == core.Failed {
			d.res.State = string(state)
			return
		}
		if sc.Kind == "script" && scriptPos < len(sc.Script) && sc.Script[scriptPos] == "S" {
			scriptPos++
		}
		d.script = append(d.script, "S")
		d.tr.Emit("Step")
		d.ps.CheckHeartbeats(ctx)
		progress := d.ps.StepNodes(ctx)
		if progress || len(d.script) > nscript+2 {
			idle = 0
		} else {
			idle++
		}
		if idle > 4 && len(d.envActions()) == 0 && d.vanished > 0 && d.aged < 4 {
			// nothing moves any more and a job has vanished: let more than the
			// heartbeat time-out pass
			d.aged++
			d.writeAlive()
			if d.spec.QueueCheck && d.aged%2 == 1 {
				// more than the interval between two queue queries passes: the query runs
				d.tr.Emit("TimePasses", "minutes", 6)
				d.ps.VerifAgeQueueCheck(6 * time.Minute)
				d.ps.CheckHeartbeats(ctx)
				time.Sleep(80 * time.Millisecond)
			} else if d.spec.QueueCheck {
				// ... and then more than the grace period (less than the heartbeat time-out)
				d.tr.Emit("TimePasses", "minutes", 51)
				d.ps.VerifAgeQueueCheck(51 * time.Minute)
			} else {
				d.tr.Emit("TimePasses", "minutes", 61)
				d.ps.VerifAgeHeartbeats(61 * time.Minute)
			}
			idle = 0
			continue
		}
		if idle > 6 && len(d.envActions()) == 0 {
			d.res.State = string(state)
			d.res.Stuck = true
			return
		}
		if idle > 8 && sc.Kind == "script" && scriptPos >= len(sc.Script) {
			// script exhausted: let everything finish
			sc.Kind = "random"
			penv = 0.9
		}
	}
	d.res.State = "maxiter"
	d.res.Stuck = true
}

// finalSweep does what cmd/mrp's cleanupCompleted does (final VDR pass,
// post-processing) and records what is left of the files stage code wrote.
func (d *Driver) finalSweep(ctx context.Context) {
	d.openGates()
	var rep *core.VDRKillReport
	if d.spec.Vdr != "" && d.spec.Vdr != "disable" {
		rep = d.ps.VDRKill()
		// asynchronous cleanup goroutines: each takes its fork's storage lock; the
		// sweep above went through all of them afterwards
		for i := 0; i < 400; i++ {
			d.fmu.Lock()
			done := d.vdrBegin == d.vdrLocked
			d.fmu.Unlock()
			if done {
				break
			}
			time.Sleep(5 * time.Millisecond)
		}
		time.Sleep(10 * time.Millisecond)
	}
	d.tr.Emit("VdrSweepDone")
	if d.spec.PostTwice {
		var recs []string
		var before [][]byte
		comps, _ := os.ReadDir(d.psdir)
		for _, c := range comps {
			if c.IsDir() && c.Name() != "journal" && c.Name() != "tmp" && c.Name() != "outs" {
				p := path.Join(d.psdir, c.Name(), "fork0", "_outs")
				if b, err := os.ReadFile(p); err == nil {
					recs, before = append(recs, p), append(before, b)
				}
			}
		}
		d.ps.PostProcess()
		for i, p := range recs {
			writeFile(p, before[i])
		}
		d.tr.Emit("PostInterrupted")
	}
	before := map[string]bool{}
	if ents, err := os.ReadDir(d.psdir); err == nil {
		for _, e := range ents {
			before[e.Name()] = true
		}
	}
	d.ps.PostProcess()
	// materialising the outputs creates outs/ and nothing else in the pipestance directory
	if ents, err := os.ReadDir(d.psdir); err == nil && len(d.spec.Post) > 0 {
		for _, e := range ents {
			if !before[e.Name()] && e.Name() != "outs" && !strings.HasPrefix(e.Name(), "_") {
				d.res.PostBad = append(d.res.PostBad, "."+e.Name()+": post-processing created "+e.Name()+" in the pipestance directory, outside outs/")
			}
		}
	}
	d.checkPost()
	for name, rel := range d.spec.RelFiles {
		d.res.PostChecked++
		want := relFileContent(rel)
		if b, err := os.ReadFile(path.Join(d.psdir, "outs", name)); err != nil {
			d.res.PostBad = append(d.res.PostBad, "."+name+": the file given as "+rel+" (relative to the working directory) is not available under outs/"+name+": "+err.Error())
		} else if string(b) != want {
			d.res.PostBad = append(d.res.PostBad, "."+name+": outs/"+name+" does not hold the content of "+rel)
		}
	}
	d.fmu.Lock()
	defer d.fmu.Unlock()
	var present, damaged, gone []string
	for k, p := range d.filePath {
		if strings.HasSuffix(k, ".d") {
			whole := true
			for _, sub := range []string{"b.dat", "0", "x/deep.dat"} {
				if _, err := os.Stat(path.Join(p, sub)); err != nil {
					whole = false
				}
			}
			if _, err := os.Stat(path.Join(p, "a.dat")); err == nil && !whole {
				damaged = append(damaged, k) // the directory is there, part of its content is not
				continue
			}
			p = path.Join(p, "a.dat")
		}
		if b, err := os.ReadFile(p); err != nil {
			gone = append(gone, k)
		} else if string(b) != string(fileContent(k)) {
			damaged = append(damaged, k)
		} else if (d.spec.LinkNode != "" || d.prevDir != "") && !d.outsideOf[k] && !inside(p, canon(d.psdir)) {
			// behind the directory link: mrp does not clean through links
		} else {
			present = append(present, k)
		}
	}
	var extras, tmps []string
	for j, p := range d.extras {
		if d.spec.LinkNode != "" && !inside(canon(p), canon(d.psdir)) {
			continue
		}
		if _, err := os.Stat(p); err == nil {
			if i := strings.Index(j, "##"); i >= 0 {
				j = j[:i]
			}
			if len(extras) == 0 || extras[len(extras)-1] != j {
				extras = append(extras, j)
			}
		}
	}
	for j, p := range d.tmps {
		if d.spec.LinkNode != "" && !inside(canon(p), canon(d.psdir)) {
			continue
		}
		if _, err := os.Lstat(path.Dir(p)); err == nil {
			tmps = append(tmps, j)
		}
	}
	sort.Strings(present)
	sort.Strings(damaged)
	sort.Strings(gone)
	sort.Strings(extras)
	sort.Strings(tmps)
	var listedExists []string
	var count, size int64 = -1, -1
	if rep != nil {
		count, size = int64(rep.Count), int64(rep.Size)
		for _, p := range rep.Paths {
			if _, err := os.Lstat(p); err == nil {
				listedExists = append(listedExists, d.rel(p))
			}
		}
	}
	d.tr.Emit("VdrFinal", "present", present, "damaged", damaged, "gone", gone, "extras", extras, "tmps", tmps,
		"report_count", count, "report_size", size, "listed_exists", listedExists,
		"removed_entries", d.removed.Entries, "removed_bytes", d.removed.Bytes,
		"removed_files", d.removed.Files, "removed_file_bytes", d.removed.FileBytes)
}

// checkPost compares the rewritten top-level _outs and the outs/ tree with
// what PostProc.tla says (C13).
// postDup: does the expected record name this file more than once?
func (d *Driver) postDup(f FileRef) bool {
	var v interface{}
	if json.Unmarshal(d.spec.Post, &v) != nil {
		return false
	}
	n := 0
	var walk func(x interface{})
	walk = func(x interface{}) {
		switch t := x.(type) {
		case map[string]interface{}:
			if t["k"] == "file" && t["p"] == f.Producer && t["n"] == f.Name {
				if c, ok := t["c"].(float64); ok && int(c) == f.Chunk {
					n++
				}
			}
			for _, y := range t {
				walk(y)
			}
		case []interface{}:
			for _, y := range t {
				walk(y)
			}
		}
	}
	walk(v)
	return n > 1
}

func (d *Driver) checkPost() {
	if len(d.spec.Post) == 0 {
		return
	}
	var act interface{}
	comps, _ := os.ReadDir(d.psdir)
	for _, c := range comps {
		if c.IsDir() && c.Name() != "journal" && c.Name() != "tmp" && c.Name() != "outs" {
			b, err := os.ReadFile(path.Join(d.psdir, c.Name(), "fork0", "_outs"))
			if err != nil {
				d.res.PostBad = append(d.res.PostBad, "cannot read the rewritten _outs: "+err.Error())
				return
			}
			if err := json.Unmarshal(b, &act); err != nil {
				d.res.PostBad = append(d.res.PostBad, "the rewritten _outs is not valid JSON: "+err.Error()+": "+string(b))
				return
			}
		}
	}
	d.walkPost("", d.spec.Post, act)
}

func (d *Driver) walkPost(where string, exp json.RawMessage, act interface{}) {
	bad := func(f string, a ...interface{}) {
		d.res.PostBad = append(d.res.PostBad, where+": "+fmt.Sprintf(f, a...))
	}
	var m map[string]json.RawMessage
	json.Unmarshal(exp, &m)
	var k string
	json.Unmarshal(m["k"], &k)
	switch k {
	case "any":
		return // nothing is demanded of this entry
	case "moved":
		d.res.PostChecked++
		v, _ := Untag(m["f"])
		f := v.(FileRef)
		var rel string
		json.Unmarshal(m["rel"], &rel)
		want := path.Join(d.psdir, "outs", rel)
		if strings.HasSuffix(f.Name, ".missing") {
			if act != nil {
				bad("a file that does not exist must become null, got %v", act)
			}
			return
		}
		s, ok := act.(string)
		if !ok {
			bad("expected the path %s, got %v", d.rel(want), act)
			return
		}
		// outputs that are symbolic links, and files whose reported name lies outside the
		// pipestance, get a link under outs/ and keep their value
		link := strings.HasSuffix(f.Name, ".lnk") || strings.HasSuffix(f.Name, ".lnk2") || strings.HasSuffix(f.Name, ".plnk") || d.outsideOf[f.Key()]
		// a file returned under several names is moved for one of them; for the others the
		// stage's file has become a link by then
		if d.postDup(f) {
			link = true
		}
		ckey := f.Key()
		for {
			a, ok := d.aliasOf[ckey]
			if !ok {
				break
			}
			ckey = a
		}
		if link {
			// an output that is a symbolic link: the record names the link's
			// destination (by design); the file must still be available under outs/
			wf := want
			if strings.HasSuffix(f.Name, ".d") {
				wf = path.Join(want, "a.dat")
			}
			if b, err := os.ReadFile(wf); err != nil || string(b) != string(fileContent(ckey)) {
				bad("the output is not available with its content at the derived location %s", d.rel(want))
			}
		} else if canon(s) != canon(want) {
			bad("the record points at %s, the derived location is %s", d.rel(s), d.rel(want))
		}
		check := s
		if strings.HasSuffix(f.Name, ".d") {
			check = path.Join(s, "a.dat")
		}
		if b, err := os.ReadFile(check); err != nil {
			bad("nothing readable at the recorded location %s: %v", d.rel(s), err)
		} else if string(b) != string(fileContent(ckey)) {
			bad("the content at %s is not what the stage wrote", d.rel(s))
		}
		if strings.HasSuffix(f.Name, ".d") && !link {
			// an entry of the directory that links to a file which stayed where it was
			d.fmu.Lock()
			sib := d.filePath[ckey] + "_sib.dat"
			d.fmu.Unlock()
			if li, err := os.Lstat(path.Join(s, "x", "sib.lnk")); err == nil && li.Mode()&os.ModeSymlink != 0 {
				if _, err := os.Stat(sib); err == nil {
					if b, err := os.ReadFile(path.Join(s, "x", "sib.lnk")); err != nil || string(b) != "beside "+ckey+"\n" {
						bad("the entry x/sib.lnk of the directory %s, a relative link to %s (still there), leads nowhere after the move: %v", d.rel(s), d.rel(sib), err)
					}
				}
			}
		}
		if !link && !inside(canon(s), canon(path.Join(d.psdir, "outs"))) {
			bad("the recorded location %s is not under outs/", d.rel(s))
		}
	case "arr":
		var es []json.RawMessage
		json.Unmarshal(m["a"], &es)
		a, ok := act.([]interface{})
		if !ok || len(a) != len(es) {
			if !(len(es) == 0 && act == nil) {
				bad("expected an array of %d, got %v", len(es), act)
			}
			return
		}
		for i := range es {
			d.walkPost(where+"["+strconv.Itoa(i)+"]", es[i], a[i])
		}
	case "obj":
		var o map[string]json.RawMessage
		json.Unmarshal(m["o"], &o)
		a, ok := act.(map[string]interface{})
		if !ok {
			if !(len(o) == 0 && act == nil) {
				bad("expected an object, got %v", act)
			}
			return
		}
		for kk, e := range o {
			d.walkPost(where+"."+kk, e, a[kk])
		}
		for kk := range a {
			if _, ok := o[kk]; !ok {
				bad("unexpected key %s", kk)
			}
		}
	default:
		pv, err := Untag(exp)
		if err != nil {
			return
		}
		if !Same(pv, act, d.resolve) {
			bad("value changed: expected %s got %s", Canon(Resolve(pv, d.resolve)), Canon(act))
		}
	}
}

// checkInvocations: the _invocation mrp records for every stage fork must be a
// compiling call of that stage carrying the fork's resolved arguments (C16).
func (d *Driver) checkInvocations() {
	mroPath := path.Join(path.Dir(d.psdir), "mro")
	if d.spec.PhysPaths {
		mroPath = path.Join(path.Dir(path.Dir(d.psdir)), "mro")
	}
	// the driver keeps definitions and the top-level call in one file; a recorded
	// invocation includes that file, so compile it against the definitions alone
	defs := d.spec.Mro
	if i := strings.LastIndex(defs, "\ncall "); i >= 0 {
		defs = defs[:i+1]
	}
	defsDir, err := os.MkdirTemp(path.Dir(d.psdir), "defs")
	if err != nil {
		return
	}
	defer os.RemoveAll(defsDir)
	writeFile(path.Join(defsDir, "p.mro"), []byte(defs))
	mroPaths := []string{mroPath}
	if d.spec.Layout == "sibling" {
		mroPaths = []string{mroPath, mroPath + "_internal"}
	} else if d.spec.Layout != "subdir" {
		mroPath = defsDir
		mroPaths = []string{mroPath}
	}
	// (with the sub-directory layout the stages are in a file of their own: the recorded
	// invocation must compile under the pipestance's own MROPATH)
	for _, f := range d.ps.VerifForks() {
		b, err := os.ReadFile(path.Join(f.Path, "_invocation"))
		if err != nil {
			continue // the fork never got as far as being invoked
		}
		inst := d.instName(f)
		inv := d.byKey[inst+"/split/0"]
		if inv == nil {
			inv = d.byKey[inst+"/main/0"]
		}
		if inv == nil {
			continue
		}
		d.res.InvChecked++
		bad := func(why string) {
			d.res.InvBad = append(d.res.InvBad, inst+": "+why+" | "+strings.ReplaceAll(string(b), "\n", " "))
		}
		var p syntax.Parser
		if _, _, _, err := p.ParseSourceBytes(b, path.Join(f.Path, "_invocation"), mroPaths, false); err != nil {
			bad("does not compile: " + err.Error())
			continue
		}
		data, err := core.InvocationDataFromSource(b, mroPaths)
		if err != nil {
			bad("cannot be read back: " + err.Error())
			continue
		}
		callPath := strings.Split(strings.TrimPrefix(f.Node, "ID."+d.psid+"."), ".")
		if want := d.calleeOf(callPath); want != "" && data.Call != want {
			bad("calls " + data.Call + ", the stage is " + want)
		}
		pred, _ := Untag(inv.Args)
		act := map[string]interface{}{}
		for k, v := range data.Args {
			var x interface{}
			json.Unmarshal(v, &x)
			act[k] = x
		}
		if pm, ok := pred.(map[string]interface{}); ok {
			delete(pm, "ci")
			if !SameLax(pm, act, d.resolve) {
				bad("arguments " + Canon(act) + ", the fork's resolved arguments are " + Canon(Resolve(pm, d.resolve)))
				continue
			}
		}
		// and exactly (null is not an empty collection here) what mrp resolved for this fork:
		// the _args file it wrote next to the _invocation
		if ab, err := os.ReadFile(path.Join(f.Path, "split", "_args")); err == nil {
			var args map[string]interface{}
			if json.Unmarshal(ab, &args) == nil {
				args = StripInternal(args)
				if !Same(args, act, nil) {
					bad("arguments " + Canon(act) + ", the _args mrp wrote for the same fork are " + Canon(args))
				}
			}
		}
	}
}

var callRe = regexp.MustCompile(`(?m)^\s*(?:map )?call (\w+)(?: as (\w+))?\(`)

// calleeOf: the callable a call path ends in (from the source text)
func (d *Driver) calleeOf(callPath []string) string {
	last := callPath[len(callPath)-1]
	for _, m := range callRe.FindAllStringSubmatch(d.spec.Mro, -1) {
		id := m[2]
		if id == "" {
			id = m[1]
		}
		if id == last {
			return m[1]
		}
	}
	return ""
}

// checkJobScripts: in cluster mode every submitted job has its script next to its
// metadata; the script of a job must name that job's own directories (working
// directory, stdout, stderr, the metadata path handed to the command) and nobody else's
// - jobs are rendered concurrently when --maxjobs is set.
var staleRe = regexp.MustCompile(`\.u[0-9a-f]{10}`)
var tmpdirRe = regexp.MustCompile(`TMPDIR="([^"]*)"`)

func (d *Driver) checkJobScripts() {
	var scripts []string
	filepath.Walk(d.psdir, func(p string, info os.FileInfo, err error) error {
		if err == nil && !info.IsDir() && info.Name() == "_jobscript" {
			scripts = append(scripts, p)
		}
		return nil
	})
	for _, sp := range scripts {
		b, err := os.ReadFile(sp)
		if err != nil {
			continue
		}
		d.res.ScriptChecked++
		md := path.Dir(sp)
		text := string(b)
		for _, want := range []string{"> \"" + md + "/_stdout\"", "2> \"" + md + "/_stderr\"", "cd \"" + md + "/files\"", "\"" + md + "\" \\"} {
			if !strings.Contains(text, want) && len(d.res.ScriptBad) < 10 {
				d.res.ScriptBad = append(d.res.ScriptBad, d.rel(sp)+": does not contain its own "+strings.TrimSpace(strings.TrimPrefix(want, "2"))+" | "+strings.ReplaceAll(text, "\n", " ; "))
				break
			}
		}
		// the environment the job is given: its temporary directory is its own
		for _, m := range tmpdirRe.FindAllStringSubmatch(text, -1) {
			if !strings.HasPrefix(m[1], md+"/") && len(d.res.ScriptBad) < 10 {
				d.res.ScriptBad = append(d.res.ScriptBad, d.rel(sp)+": the job's TMPDIR is "+d.rel(m[1])+", not a directory of its own")
			}
		}
		for _, other := range scripts {
			if other != sp && strings.Contains(text, path.Dir(other)+"/_stdout") && len(d.res.ScriptBad) < 10 {
				d.res.ScriptBad = append(d.res.ScriptBad, d.rel(sp)+": writes to the stdout of another job, "+d.rel(path.Dir(other)))
			}
		}
	}
}

func (d *Driver) finish(ctx context.Context) {
	defer d.openGates()
	res := d.res
	if res.State == string(core.Failed) {
		fq, _, _, log, _, _ := d.ps.GetFatalError()
		res.FatalFq, res.FatalLog = fq, log
	}
	d.tr.Emit("RunEnd", "state", res.State, "stuck", res.Stuck, "fatal", res.FatalFq)
	if d.spec.MaxJobs > 0 {
		d.checkJobScripts()
	}
	// unknown jobs
	for _, j := range d.jobs {
		if j.inv == nil {
			res.Unknown = append(res.Unknown, j.key)
		}
	}
	// top-level outs
	if res.State == string(core.Complete) || res.State == string(core.DisabledState) {
		comps, _ := os.ReadDir(d.psdir)
		for _, c := range comps {
			if c.IsDir() && c.Name() != "journal" && c.Name() != "tmp" && c.Name() != "outs" {
				if v, err := readJSON(path.Join(d.psdir, c.Name(), "fork0", "_outs")); err == nil {
					res.TopOuts = v
				} else {
					res.Notes = append(res.Notes, "top outs: "+err.Error())
				}
			}
		}
		if len(d.spec.TopOuts) > 0 {
			pred, err := Untag(d.spec.TopOuts)
			if err == nil {
				res.OutsOk = SameLax(pred, res.TopOuts, d.resolve)
				if !res.OutsOk {
					res.Notes = append(res.Notes, "top outs predicted "+Canon(pred)+" got "+Canon(res.TopOuts))
				}
			}
		}
	}
	if d.spec.Files && res.State == string(core.Complete) {
		d.finalSweep(ctx)
	}
	res.ForkDirs = d.ps.VerifForkDirs()
	d.checkInvocations()
	// every job directory that has a _jobinfo
	filepath.Walk(d.psdir, func(p string, info os.FileInfo, err error) error {
		if err == nil && !info.IsDir() && info.Name() == "_jobinfo" {
			res.JobDirs = append(res.JobDirs, d.rel(path.Dir(p)))
		}
		return nil
	})
	sort.Strings(res.JobDirs)
	d.ps.Unlock()
	if d.spec.Keep != "" {
		d.tr.WriteTo(path.Join(path.Dir(d.psdir), "trace.ndjson"))
	}
	res.files, res.fileJobs = map[string]string{}, map[string]string{}
	for k, v := range d.filePath {
		res.files[k] = v
		res.fileJobs[k] = d.fileJob[k]
	}
}

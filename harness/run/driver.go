// Package run drives real pipestances in-process: it owns the run loop exactly
// as cmd/mrp/runloop.go does (RefreshState, GetState, CheckHeartbeats,
// StepNodes) but decides when each of those happens and when each job starts,
// finishes or fails.  Jobs are handed over by the verif-tagged callback job
// manager; their "stage code" is table driven (the table is computed by the
// MroSem specification for the program).
package run

import (
	"context"
	"encoding/json"
	"fmt"
	"math/rand"
	"os"
	"os/exec"
	"path"
	"path/filepath"
	"regexp"
	"runtime/debug"
	"sort"
	"strconv"
	"strings"
	"sync"
	"time"

	"github.com/martian-lang/martian/martian/core"
	"github.com/martian-lang/martian/martian/syntax"
	"github.com/martian-lang/martian/martian/util"
)

// Inv is one predicted stage invocation (MroSem.Invocations).
type Inv struct {
	Inst    string          `json:"inst"`
	Call    string          `json:"call"`
	Idx     []string        `json:"idx"`
	Kind    string          `json:"kind"`
	Chunk   int             `json:"chunk"`
	Args    json.RawMessage `json:"args"`
	Deps    []string        `json:"deps"`
	NChunks int             `json:"nchunks"`
	Couts   json.RawMessage `json:"couts"`
	Outs    json.RawMessage `json:"outs"`
}

func (i *Inv) Key() string { return i.Inst + "/" + i.Kind + "/" + strconv.Itoa(i.Chunk) }

// Sched selects the schedule of a run.
type Sched struct {
	Kind   string   `json:"kind"`   // random | script | slow
	Seed   int64    `json:"seed"`   // random
	Script []string `json:"script"` // script: "R", "S", "B:<job>", "E:<job>"
	Slow   string   `json:"slow"`   // slow: instance held back until nothing else can move
	PEnv   float64  `json:"penv"`   // random: probability of an environment step
}

// Spec is one run request.
type Spec struct {
	Name    string            `json:"name"`
	Mro     string            `json:"mro"`
	Invs    []Inv             `json:"invs"`
	TopOuts json.RawMessage   `json:"outs"`
	Sched   Sched             `json:"sched"`
	Vdr     string            `json:"vdr"`
	Strict  bool              `json:"strict"`
	Faults  map[string]string `json:"faults"` // job key -> fault kind
	Keep    string            `json:"keep"`   // directory to keep the pipestance in (replay)
	MaxIter int               `json:"maxiter"`
	// Restart: after the pipestance has failed, remove the faults, start a new
	// runtime on the same directory (as a restarted mrp does) and run again.
	Restart bool `json:"restart"`
	// Orphans: jobs that are running when mrp exits survive it and finish
	// later, writing into their old attempt directory and journal name.
	Orphans bool `json:"orphans"`
	// Freeze: once the faulty job has ended no other job makes progress until
	// mrp has noticed the failure and exited (so that jobs are still running then)
	Freeze bool `json:"freeze"`
}

// Result is what a run reports besides its trace.
type Result struct {
	Name     string                 `json:"name"`
	State    string                 `json:"state"`
	States   []string               `json:"states"` // final state of every incarnation
	Iter     int                    `json:"iter"`
	Execs    map[string]int         `json:"execs"`
	Ended    map[string]string      `json:"ended"`
	ArgsBad  []string               `json:"args_bad"`
	Unknown  []string               `json:"unknown_jobs"`
	TopOuts  interface{}            `json:"top_outs"`
	OutsOk   bool                   `json:"outs_ok"`
	ForkDirs map[string][]string    `json:"fork_dirs"`
	JobDirs  []string               `json:"job_dirs"`
	Error    string                 `json:"error"`
	FatalFq  string                 `json:"fatal_fq"`
	FatalLog string                 `json:"fatal_log"`
	Stuck    bool                   `json:"stuck"`
	Script   []string               `json:"script"`
	Events   int                    `json:"events"`
	Trace    []map[string]interface{} `json:"-"`
	Notes    []string               `json:"notes"`
}

type job struct {
	vj      *core.VerifJob
	key     string // inst/kind/chunk or "?<md path>" if not predicted
	inv     *Inv
	begun   bool
	ended   bool
	attempt int
	inv2    *Inv
}

type Driver struct {
	spec   *Spec
	tr     *Trace
	ps     *core.Pipestance
	rt     *core.Runtime
	psdir  string
	psid   string
	mu     sync.Mutex
	jobs   []*job          // submitted, in submission order
	byKey  map[string]*Inv // predicted table
	forks  map[string]core.VerifForkInfo
	res    *Result
	rng    *rand.Rand
	script []string
	scriptPos int
	frozen    bool
	frozenAt  int
}

type devNull struct{}

func (devNull) Write(b []byte) (int, error)       { return len(b), nil }
func (devNull) WriteString(s string) (int, error) { return len(s), nil }

var chunkRe = regexp.MustCompile(`^chnk(\d+)(?:-u[0-9a-f]{10})?$`)
var sjRe = regexp.MustCompile(`^(split|join)(?:-u[0-9a-f]{10})?$`)

// rel makes a path relative to the pipestance directory.
func (d *Driver) rel(p string) string {
	if r, err := filepath.Rel(d.psdir, p); err == nil && !strings.HasPrefix(r, "..") {
		return r
	}
	return p
}

// jobKey maps a job's metadata directory to "<instance>/<kind>/<chunk>".
func (d *Driver) jobKey(mdPath string) (string, bool) {
	base := path.Base(mdPath)
	forkDir := path.Dir(mdPath)
	kind, chunk := "", 0
	if m := chunkRe.FindStringSubmatch(base); m != nil {
		kind = "main"
		chunk, _ = strconv.Atoi(m[1])
	} else if m := sjRe.FindStringSubmatch(base); m != nil {
		kind = m[1]
	} else {
		return "?" + d.rel(mdPath), false
	}
	inst, ok := d.instOfForkDir(forkDir)
	if !ok {
		return "?" + d.rel(mdPath), false
	}
	return inst + "/" + kind + "/" + strconv.Itoa(chunk), true
}

func (d *Driver) instOfForkDir(forkDir string) (string, bool) {
	// fork identities change when forks are expanded: always ask
	for _, f := range d.ps.VerifForks() {
		if f.Path == forkDir {
			return d.instName(f), true
		}
	}
	return "", false
}

// instName: "TOP.SUB.A[i,k]" with the indices ordered outermost first.
func (d *Driver) instName(fi core.VerifForkInfo) string {
	callPath := strings.TrimPrefix(fi.Node, "ID."+d.psid+".")
	comps := strings.Split(callPath, ".")
	var idx []string
	for _, c := range comps {
		if k, ok := fi.Index[c]; ok {
			idx = append(idx, k)
		}
	}
	return callPath + "[" + strings.Join(idx, ",") + "]"
}

func (d *Driver) hook(ev string, kv ...string) {
	if ev == "NodeState" && len(kv) >= 6 && kv[3] == kv[5] {
		return // unchanged
	}
	args := make([]interface{}, 0, len(kv)+4)
	for i := 0; i+1 < len(kv); i += 2 {
		v := kv[i+1]
		switch kv[i] {
		case "md", "path", "final", "files", "from", "to":
			v = d.rel(v)
		case "file":
			v = path.Base(v)
		}
		args = append(args, kv[i], v)
	}
	d.tr.Emit(ev, args...)
}

func (d *Driver) exec(vj *core.VerifJob) {
	d.mu.Lock()
	defer d.mu.Unlock()
	key, ok := d.jobKey(vj.MetadataPath)
	j := &job{vj: vj, key: key}
	if ok {
		j.inv = d.byKey[key]
	}
	for _, o := range d.jobs {
		if o.key == key {
			j.attempt++
		}
	}
	d.jobs = append(d.jobs, j)
	d.res.Execs[key+"#submit"]++
	d.tr.Emit("JobSubmitted", "job", key, "known", j.inv != nil, "md", d.rel(vj.MetadataPath))
}

func writeFile(p string, b []byte) error { return os.WriteFile(p, b, 0644) }

var deadPidOnce sync.Once
var deadPidVal int

// deadPid returns the pid of a process that has exited.
func deadPid() int {
	deadPidOnce.Do(func() {
		cmd := exec.Command("/bin/true")
		if err := cmd.Start(); err == nil {
			deadPidVal = cmd.Process.Pid
			cmd.Wait()
		} else {
			deadPidVal = 4194000
		}
	})
	return deadPidVal
}

func (d *Driver) journal(j *job, name string) {
	pre := ""
	switch j.vj.ShellName {
	case "split":
		pre = "split_"
	case "join":
		pre = "join_"
	}
	f := j.vj.JournalFile + "." + pre + name
	writeFile(f, []byte("x"))
	d.tr.Emit("JournalWrite", "job", j.key, "file", path.Base(f), "md", d.rel(j.vj.MetadataPath))
}

func readJSON(p string) (interface{}, error) {
	b, err := os.ReadFile(p)
	if err != nil {
		return nil, err
	}
	var v interface{}
	err = json.Unmarshal(b, &v)
	return v, err
}

// begin: the job process starts (writes _log, notifies).
func (d *Driver) begin(j *job) {
	j.begun = true
	j.vj.Started()
	d.res.Execs[j.key]++
	argsOk := true
	detail := ""
	if j.inv != nil {
		pred, err := Untag(j.inv.Args)
		if err != nil {
			panic(err)
		}
		act, err := readJSON(path.Join(j.vj.MetadataPath, "_args"))
		if err != nil {
			argsOk, detail = false, "cannot read _args: "+err.Error()
		} else if am, ok := act.(map[string]interface{}); !ok {
			argsOk, detail = false, "_args is not an object"
		} else {
			am = StripInternal(am)
			if !SameLax(pred, am, nil) {
				argsOk = false
				detail = "predicted " + Canon(pred) + " got " + Canon(am)
			}
		}
		if argsOk && j.inv.Kind == "join" {
			// chunk outs complete and in chunk order
			pc, _ := Untag(j.inv.Couts)
			ac, err := readJSON(path.Join(j.vj.MetadataPath, "_chunk_outs"))
			if err != nil {
				argsOk, detail = false, "cannot read _chunk_outs: "+err.Error()
			} else if !chunkOutsSame(pc, ac) {
				argsOk = false
				detail = "chunk outs predicted " + Canon(pc) + " got " + Canon(ac)
			}
		}
	}
	if !argsOk {
		d.res.ArgsBad = append(d.res.ArgsBad, j.key+": "+detail)
	}
	d.tr.Emit("StageBegin", "job", j.key, "known", j.inv != nil, "argsOk", argsOk, "attempt", j.attempt)
	// record a pid in _jobinfo as the job monitor does (a pid that is not alive,
	// so that a restarted mrp recognises the job as orphaned)
	if ji, err := readJSON(path.Join(j.vj.MetadataPath, "_jobinfo")); err == nil {
		if m, ok := ji.(map[string]interface{}); ok {
			m["pid"] = deadPid()
			b, _ := json.Marshal(m)
			writeFile(path.Join(j.vj.MetadataPath, "_jobinfo"), b)
		}
	}
	writeFile(path.Join(j.vj.MetadataPath, "_log"), []byte("log\n"))
	d.journal(j, "log")
}

// the join sees, per chunk, the chunk's declared outputs (possibly among others)
func chunkOutsSame(pred, act interface{}) bool {
	p, ok1 := pred.([]interface{})
	a, ok2 := act.([]interface{})
	if !ok1 || !ok2 || len(p) != len(a) {
		return false
	}
	for i := range p {
		pm, _ := p[i].(map[string]interface{})
		am, _ := a[i].(map[string]interface{})
		for k, v := range pm {
			if !Same(v, am[k], nil) {
				return false
			}
		}
	}
	return true
}

// end: the job process finishes.
func (d *Driver) end(j *job) {
	j.ended = true
	fault := d.spec.Faults[j.key]
	if j.inv == nil && fault == "" {
		fault = "unknown-job"
	}
	md := j.vj.MetadataPath
	outcome := "ok"
	if fault != "" {
		outcome = fault
	}
	d.res.Ended[j.key] = outcome
	if fault != "" && (d.spec.Freeze || d.spec.Orphans) {
		d.frozen = true
		d.frozenAt = d.res.Iter
	}
	d.tr.Emit("StageEnd", "job", j.key, "outcome", outcome, "attempt", j.attempt)
	switch fault {
	case "":
		if j.inv.Kind == "split" {
			chunks := make([]interface{}, j.inv.NChunks)
			for i := range chunks {
				chunks[i] = map[string]interface{}{"ci": i}
			}
			b, _ := json.Marshal(map[string]interface{}{"chunks": chunks, "join": map[string]interface{}{}})
			writeFile(path.Join(md, "_stage_defs"), b)
		} else {
			outs, err := Untag(j.inv.Outs)
			if err != nil {
				panic(err)
			}
			b, _ := json.Marshal(outs)
			writeFile(path.Join(md, "_outs"), b)
		}
		writeFile(path.Join(md, "_complete"), []byte("done"))
		d.journal(j, "complete")
	case "errors", "unknown-job":
		writeFile(path.Join(md, "_errors"), []byte("injected failure of "+j.key))
		d.journal(j, "errors")
	case "assert":
		writeFile(path.Join(md, "_assert"), []byte("ASSERT:injected assertion of "+j.key))
		d.journal(j, "assert")
	case "trunc-outs":
		writeFile(path.Join(md, "_outs"), []byte(`{"y": `))
		writeFile(path.Join(md, "_complete"), []byte("done"))
		d.journal(j, "complete")
	case "missing-key":
		writeFile(path.Join(md, "_outs"), []byte(`{}`))
		writeFile(path.Join(md, "_complete"), []byte("done"))
		d.journal(j, "complete")
	case "wrong-type":
		outs, _ := Untag(j.inv.Outs)
		if m, ok := outs.(map[string]interface{}); ok {
			for _, k := range SortedKeys(m) {
				m[k] = map[string]interface{}{"not": "the declared type"}
				break
			}
		}
		b, _ := json.Marshal(outs)
		writeFile(path.Join(md, "_outs"), b)
		writeFile(path.Join(md, "_complete"), []byte("done"))
		d.journal(j, "complete")
	case "bad-stage-defs":
		writeFile(path.Join(md, "_stage_defs"), []byte(`{"chunks": 7}`))
		writeFile(path.Join(md, "_complete"), []byte("done"))
		d.journal(j, "complete")
	}
}

// pending environment actions, in a deterministic order
func (d *Driver) envActions() []string {
	d.mu.Lock()
	defer d.mu.Unlock()
	var acts []string
	if d.frozen {
		// mrp notices a failed fork only once the forks before it are done: do
		// not hold the other jobs back for ever
		if d.res.Iter-d.frozenAt < 5 {
			return nil
		}
		d.frozen = false
	}
	for i, j := range d.jobs {
		if j.ended {
			continue // finished, or died with a previous mrp
		}
		if !j.begun {
			acts = append(acts, "B:"+strconv.Itoa(i))
		} else if !j.ended {
			acts = append(acts, "E:"+strconv.Itoa(i))
		}
	}
	return acts
}

func (d *Driver) doEnv(a string) {
	i, _ := strconv.Atoi(a[2:])
	d.mu.Lock()
	j := d.jobs[i]
	d.mu.Unlock()
	d.script = append(d.script, a[:2]+j.key)
	if a[0] == 'B' {
		d.begin(j)
	} else {
		d.end(j)
	}
}

func (d *Driver) findJob(key string, begun bool) int {
	d.mu.Lock()
	defer d.mu.Unlock()
	for i, j := range d.jobs {
		if j.key == key && !j.ended && j.begun == begun {
			return i
		}
	}
	return -1
}

// Run executes one spec and returns the result (with the trace).
func Run(spec *Spec, workdir string) (res *Result) {
	util.SetPrintLogger(devNull{})
	res = &Result{Name: spec.Name, Execs: map[string]int{}, Ended: map[string]string{}}
	d := &Driver{spec: spec, tr: &Trace{}, res: res, byKey: map[string]*Inv{},
		forks: map[string]core.VerifForkInfo{}, psid: "ps"}
	for i := range spec.Invs {
		d.byKey[spec.Invs[i].Key()] = &spec.Invs[i]
	}
	defer func() {
		if r := recover(); r != nil {
			res.Error = fmt.Sprintf("panic: %v\n%s", r, debug.Stack())
		}
		res.Trace = d.tr.Events()
		res.Events = len(res.Trace)
		res.Script = d.script
		core.VerifHook = nil
	}()
	root, err := os.MkdirTemp(workdir, "ps")
	if err != nil {
		res.Error = err.Error()
		return
	}
	if spec.Keep == "" {
		defer os.RemoveAll(root)
	}
	d.psdir = path.Join(root, "ps")
	mroPath := path.Join(root, "mro")
	os.MkdirAll(mroPath, 0755)
	srcPath := path.Join(mroPath, "p.mro")
	writeFile(srcPath, []byte(spec.Mro))

	opts := core.DefaultRuntimeOptions()
	switch spec.Vdr {
	case "":
		opts.VdrMode = core.VdrDisable
	default:
		opts.VdrMode = core.VdrMode(spec.Vdr)
	}
	if spec.Strict {
		syntax.SetEnforcementLevel(syntax.EnforceError)
	}
	rt, err := core.VerifNewRuntime(&opts, 4, 4, "/nonexistent/mrjob", "/nonexistent/adapters", d.exec)
	if err != nil {
		res.Error = "runtime: " + err.Error()
		return
	}
	d.rt = rt
	core.VerifHook = d.hook
	d.tr.Emit("RunBegin", "name", spec.Name)
	ps, err := rt.InvokePipeline(spec.Mro, srcPath, d.psid, d.psdir, []string{mroPath}, "v", map[string]string{}, nil)
	if err != nil {
		res.Error = "invoke: " + err.Error()
		return
	}
	d.ps = ps
	ctx := context.Background()
	ps.LoadMetadata(ctx)
	d.rng = rand.New(rand.NewSource(spec.Sched.Seed))
	d.loop(ctx)
	res.States = append(res.States, res.State)
	if spec.Restart && res.State == string(core.Failed) {
		// mrp reports the failure, unlocks and exits; its local jobs die with it
		fq, _, _, log, _, _ := d.ps.GetFatalError()
		res.FatalFq, res.FatalLog = fq, log
		d.tr.Emit("RunEnd", "state", res.State, "stuck", res.Stuck, "fatal", fq)
		d.ps.Unlock()
		d.mu.Lock()
		for _, j := range d.jobs {
			if !j.ended {
				if j.begun && spec.Orphans {
					j.key = j.key + "#orphan" // finishes later, in its old directory
					j.inv2 = j.inv
					continue
				}
				j.ended = true
				if j.begun {
					d.tr.Emit("StageKilled", "job", j.key)
				}
			}
		}
		d.mu.Unlock()
		time.Sleep(20 * time.Millisecond) // let asynchronous cleanup goroutines of the old runtime end
		spec.Faults = nil
		d.frozen = false
		if spec.Orphans {
			// a restarted mrp is another process at another time: let the
			// uniquifier (pid + seconds) of the new attempts differ
			time.Sleep(1100 * time.Millisecond)
		}
		d.tr.Emit("Restart")
		d.script = append(d.script, "RESTART")
		rt2, err := core.VerifNewRuntime(&opts, 4, 4, "/nonexistent/mrjob", "/nonexistent/adapters", d.exec)
		if err != nil {
			res.Error = "runtime: " + err.Error()
			return
		}
		d.rt = rt2
		ps2, err := rt2.ReattachToPipestance(d.psid, d.psdir, "", "", []string{mroPath}, "v",
			map[string]string{}, true, false, ctx)
		if err != nil {
			res.Error = "reattach: " + err.Error()
			return
		}
		d.ps = ps2
		if err := ps2.Reset(); err == nil {
			err = ps2.RestartLocalJobs("local")
		}
		if err != nil {
			res.Error = "reset: " + err.Error()
			return
		}
		ps2.LoadMetadata(ctx)
		res.Stuck = false
		d.loop(ctx)
		res.States = append(res.States, res.State)
	}
	d.finish(ctx)
	return
}

// loop runs the schedule until the pipestance ends or is stuck.
func (d *Driver) loop(ctx context.Context) {
	maxIter := d.spec.MaxIter
	if maxIter == 0 {
		maxIter = 400
	}
	sc := d.spec.Sched
	penv := sc.PEnv
	if penv == 0 {
		penv = 0.5
	}
	scriptPos := d.scriptPos
	defer func() { d.scriptPos = scriptPos }()
	for sc.Kind == "script" && scriptPos < len(sc.Script) && sc.Script[scriptPos] == "RESTART" {
		scriptPos++
	}
	waited := 0
	idle := 0 // consecutive iterations without any environment step or progress
	for it := 0; it < maxIter; it++ {
		d.res.Iter = it
		nscript := len(d.script)
		// ---- environment steps before the refresh and between refresh and step
		for phase := 0; phase < 2; phase++ {
			switch sc.Kind {
			case "script":
				for scriptPos < len(sc.Script) {
					a := sc.Script[scriptPos]
					if a == "R" || a == "S" || a == "RESTART" {
						break
					}
					if i := d.findJob(a[2:], a[0] == 'E'); i >= 0 {
						d.doEnv(a[:2] + strconv.Itoa(i))
						waited = 0
					} else if waited < 12 {
						// the real run loop needs more passes than the model's
						// finer-grained steps: run loop iterations until the job exists
						waited++
						break
					} else {
						d.res.Notes = append(d.res.Notes, "script step not possible: "+a)
						waited = 0
					}
					scriptPos++
				}
			default:
				for {
					acts := d.envActions()
					if sc.Kind == "slow" {
						// hold back every job of the slow instance
						var keep []string
						for _, a := range acts {
							i, _ := strconv.Atoi(a[2:])
							if !strings.HasPrefix(d.jobs[i].key, sc.Slow+"/") {
								keep = append(keep, a)
							}
						}
						if len(keep) == 0 && idle >= 3 {
							keep = acts // everything else is quiescent: release it
						}
						acts = keep
					}
					if len(acts) == 0 || d.rng.Float64() >= penv {
						break
					}
					d.doEnv(acts[d.rng.Intn(len(acts))])
				}
			}
			if phase == 0 {
				if sc.Kind == "script" && scriptPos < len(sc.Script) && sc.Script[scriptPos] == "R" {
					scriptPos++
				}
				d.script = append(d.script, "R")
				d.tr.Emit("Refresh")
				d.ps.RefreshState(ctx)
			}
		}
		state := d.ps.GetState(ctx)
		if state == core.Complete || state == core.DisabledState || state == core.Failed {
			d.res.State = string(state)
			return
		}
		if sc.Kind == "script" && scriptPos < len(sc.Script) && sc.Script[scriptPos] == "S" {
			scriptPos++
		}
		d.script = append(d.script, "S")
		d.tr.Emit("Step")
		d.ps.CheckHeartbeats(ctx)
		progress := d.ps.StepNodes(ctx)
		if progress || len(d.script) > nscript+2 {
			idle = 0
		} else {
			idle++
		}
		if idle > 6 && len(d.envActions()) == 0 {
			d.res.State = string(state)
			d.res.Stuck = true
			return
		}
		if idle > 8 && sc.Kind == "script" && scriptPos >= len(sc.Script) {
			// script exhausted: let everything finish
			sc.Kind = "random"
			penv = 0.9
		}
	}
	d.res.State = "maxiter"
	d.res.Stuck = true
}

func (d *Driver) finish(ctx context.Context) {
	res := d.res
	if res.State == string(core.Failed) {
		fq, _, _, log, _, _ := d.ps.GetFatalError()
		res.FatalFq, res.FatalLog = fq, log
	}
	d.tr.Emit("RunEnd", "state", res.State, "stuck", res.Stuck, "fatal", res.FatalFq)
	// unknown jobs
	for _, j := range d.jobs {
		if j.inv == nil {
			res.Unknown = append(res.Unknown, j.key)
		}
	}
	// top-level outs
	if res.State == string(core.Complete) || res.State == string(core.DisabledState) {
		comps, _ := os.ReadDir(d.psdir)
		for _, c := range comps {
			if c.IsDir() && c.Name() != "journal" && c.Name() != "tmp" && c.Name() != "outs" {
				if v, err := readJSON(path.Join(d.psdir, c.Name(), "fork0", "_outs")); err == nil {
					res.TopOuts = v
				} else {
					res.Notes = append(res.Notes, "top outs: "+err.Error())
				}
			}
		}
		if len(d.spec.TopOuts) > 0 {
			pred, err := Untag(d.spec.TopOuts)
			if err == nil {
				res.OutsOk = SameLax(pred, res.TopOuts, nil)
				if !res.OutsOk {
					res.Notes = append(res.Notes, "top outs predicted "+Canon(pred)+" got "+Canon(res.TopOuts))
				}
			}
		}
	}
	res.ForkDirs = d.ps.VerifForkDirs()
	// every job directory that has a _jobinfo
	filepath.Walk(d.psdir, func(p string, info os.FileInfo, err error) error {
		if err == nil && !info.IsDir() && info.Name() == "_jobinfo" {
			res.JobDirs = append(res.JobDirs, d.rel(path.Dir(p)))
		}
		return nil
	})
	sort.Strings(res.JobDirs)
	d.ps.Unlock()
	if d.spec.Keep != "" {
		d.tr.WriteTo(path.Join(path.Dir(d.psdir), "trace.ndjson"))
	}
}

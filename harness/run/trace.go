package run

import (
	"bufio"
	"encoding/json"
	"os"
	"sync"
)

// Trace is the single, mutex-protected event writer of a run: a total order
// consistent with happens-before inside this process.
type Trace struct {
	mu     sync.Mutex
	seq    int
	events []map[string]interface{}
	gate   func(ev map[string]interface{}) // called under mu, after recording
}

func (t *Trace) Emit(ev string, kv ...interface{}) map[string]interface{} {
	m := map[string]interface{}{"ev": ev}
	for i := 0; i+1 < len(kv); i += 2 {
		m[kv[i].(string)] = kv[i+1]
	}
	t.mu.Lock()
	t.seq++
	m["seq"] = t.seq
	t.events = append(t.events, m)
	t.mu.Unlock()
	return m
}

func (t *Trace) Len() int {
	t.mu.Lock()
	defer t.mu.Unlock()
	return len(t.events)
}

func (t *Trace) Events() []map[string]interface{} {
	t.mu.Lock()
	defer t.mu.Unlock()
	return append([]map[string]interface{}(nil), t.events...)
}

func (t *Trace) WriteTo(path string) error {
	f, err := os.Create(path)
	if err != nil {
		return err
	}
	w := bufio.NewWriter(f)
	enc := json.NewEncoder(w)
	for _, e := range t.Events() {
		if err := enc.Encode(e); err != nil {
			return err
		}
	}
	if err := w.Flush(); err != nil {
		return err
	}
	return f.Close()
}

// Package forknames replays the key rows of the ForkNames specification through
// the real makeKeySafe / encodeJournalName / parseRunFilename.
package forknames

import (
	"bufio"
	"encoding/json"
	"fmt"
	"os"
	"strconv"
	"strings"

	"github.com/martian-lang/martian/martian/core"
)

type Row struct {
	Key   []string `json:"key"`
	Safe  []string `json:"safe"`
	Dir   []string `json:"dir"`
	JFork []string `json:"jfork"`
}

type Finding struct {
	Kind   string `json:"kind"`
	Key    string `json:"key"`
	Detail string `json:"detail"`
}

type Report struct {
	Keys       int       `json:"keys"`
	Names      int       `json:"journal_names"`
	Violations []Finding `json:"violations"`
	Drift      []Finding `json:"drift"`
	Samples    []Finding `json:"samples"`
}

func j(cs []string) string { return strings.Join(cs, "") }

// Main: vh forknames-replay <keys.ndjson>
func Main(args []string) int {
	f, err := os.Open(args[0])
	if err != nil {
		fmt.Fprintln(os.Stderr, err)
		return 2
	}
	defer f.Close()
	rep := &Report{Violations: []Finding{}, Drift: []Finding{}, Samples: []Finding{}}
	dirs := map[string]string{}
	jnames := map[string]string{}
	nodes := []string{"T.A", "T.fork1", "T.chnk2", "fork_a.B", "TOP.SUB.u0123456789"}
	uniqs := []string{"", "0123456789", "abcdef0000"}
	files := []string{"complete", "split_log", "join_errors", "progress"}
	type cc struct{ chunk, n int }
	chunks := []cc{{-1, 1}, {0, 1}, {9, 10}, {10, 11}, {7, 100}}
	sc := bufio.NewScanner(f)
	sc.Buffer(make([]byte, 1<<20), 1<<26)
	for sc.Scan() {
		var r Row
		if err := json.Unmarshal(sc.Bytes(), &r); err != nil {
			fmt.Fprintln(os.Stderr, "bad row", err)
			return 2
		}
		rep.Keys++
		key := j(r.Key)
		safe := core.VerifMakeKeySafe(key)
		if safe != j(r.Safe) && len(rep.Drift) < 20 {
			rep.Drift = append(rep.Drift, Finding{"key-encoding-differs-from-model", key, fmt.Sprintf("real %q model %q", safe, j(r.Safe))})
		}
		dir := "fork_" + safe
		jfork := core.VerifEncodeJournalName(dir)
		if jfork != j(r.JFork) && len(rep.Drift) < 20 {
			rep.Drift = append(rep.Drift, Finding{"journal-encoding-differs-from-model", key, fmt.Sprintf("real %q model %q", jfork, j(r.JFork))})
		}
		// ---- property: distinct keys, distinct directory and journal names
		if other, ok := dirs[dir]; ok && other != key {
			rep.Violations = append(rep.Violations, Finding{"directory-collision", key, fmt.Sprintf("keys %q and %q both get directory %q", other, key, dir)})
		}
		dirs[dir] = key
		if other, ok := jnames[jfork]; ok && other != key {
			rep.Violations = append(rep.Violations, Finding{"journal-name-collision", key, fmt.Sprintf("keys %q and %q both get journal fork name %q", other, key, jfork)})
		}
		jnames[jfork] = key
		if strings.ContainsAny(dir, "/") || dir == "fork_" && key != "" {
			rep.Violations = append(rep.Violations, Finding{"unsafe-directory-name", key, dir})
		}
		// ---- property: a constructed journal name parses back to its parts
		for _, node := range nodes {
			for _, u := range uniqs {
				for _, c := range chunks {
					for _, file := range files {
						name := node + "." + jfork
						wantChunk := -1
						if c.chunk >= 0 {
							w := len(strconv.Itoa(c.n))
							if c.n < 10 {
								w = 1
							}
							name += fmt.Sprintf(".chnk%0*d", w, c.chunk)
							wantChunk = c.chunk
						}
						if u != "" {
							name += ".u" + u
						}
						name += "." + file
						rep.Names++
						gn, gf, gc, gu, gs := core.VerifParseRunFilename(name)
						if gn != node || "fork"+gf != jfork || gc != wantChunk || gu != u || gs != file {
							rep.Violations = append(rep.Violations, Finding{"journal-name-misparsed", key,
								fmt.Sprintf("%q parsed as node=%q fork=%q chunk=%d uniq=%q file=%q", name, gn, gf, gc, gu, gs)})
						}
						if _, err := strconv.Atoi(gf); err == nil {
							rep.Violations = append(rep.Violations, Finding{"map-fork-looks-numeric", key,
								fmt.Sprintf("fork part %q of %q would be looked up by position", gf, name)})
						}
					}
				}
			}
		}
		if len(rep.Samples) < 5 && len(r.Key) >= 2 {
			rep.Samples = append(rep.Samples, Finding{"sample", key, fmt.Sprintf("dir %q journal fork %q", dir, jfork)})
		}
	}
	// nested forks: the journal name of the pair (key, other) and injectivity over all pairs
	if len(args) > 1 {
		nf, err := os.Open(args[1])
		if err != nil {
			fmt.Fprintln(os.Stderr, err)
			return 2
		}
		defer nf.Close()
		type nrow struct {
			Key   []string `json:"key"`
			Other []string `json:"other"`
			JPair []string `json:"jpair"`
		}
		var keys []string
		ns := bufio.NewScanner(nf)
		ns.Buffer(make([]byte, 1<<20), 1<<26)
		for ns.Scan() {
			var r nrow
			if err := json.Unmarshal(ns.Bytes(), &r); err != nil {
				fmt.Fprintln(os.Stderr, "bad nested row", err)
				return 2
			}
			k, o := j(r.Key), j(r.Other)
			keys = append(keys, k)
			id := "fork_" + core.VerifMakeKeySafe(k) + "/" + "fork_" + core.VerifMakeKeySafe(o)
			if jn := core.VerifEncodeJournalName(id); jn != j(r.JPair) && len(rep.Drift) < 20 {
				rep.Drift = append(rep.Drift, Finding{"nested-journal-encoding-differs-from-model", k + " , " + o,
					fmt.Sprintf("real %q model %q", jn, j(r.JPair))})
			}
		}
		seen := map[string][2]string{}
		for _, a := range keys {
			for _, b := range keys {
				id := "fork_" + core.VerifMakeKeySafe(a) + "/" + "fork_" + core.VerifMakeKeySafe(b)
				jn := core.VerifEncodeJournalName(id)
				rep.Names++
				if o, ok := seen[jn]; ok && len(rep.Violations) < 20 {
					rep.Violations = append(rep.Violations, Finding{"nested-journal-name-collision", a + " , " + b,
						fmt.Sprintf("nested forks (%q, %q) and (%q, %q) both get journal fork name %q", o[0], o[1], a, b, jn)})
				}
				seen[jn] = [2]string{a, b}
				if strings.ContainsAny(jn, "./") && len(rep.Violations) < 20 {
					rep.Violations = append(rep.Violations, Finding{"journal-name-not-safe", a + " , " + b, jn})
				}
			}
		}
	}
	// array forks
	for _, i := range []int{0, 1, 9, 10, 11, 100} {
		id, err := core.VerifArrayForkName(i)
		if err != nil {
			rep.Violations = append(rep.Violations, Finding{"array-fork-name", strconv.Itoa(i), err.Error()})
			continue
		}
		want := "fork" + strconv.Itoa(i)
		if id != want {
			rep.Drift = append(rep.Drift, Finding{"array-fork-name-differs-from-model", strconv.Itoa(i), id})
		}
		if other, ok := dirs[id]; ok {
			rep.Violations = append(rep.Violations, Finding{"directory-collision", strconv.Itoa(i), fmt.Sprintf("array fork %d and key %q both get %q", i, other, id)})
		}
	}
	b, _ := json.Marshal(rep)
	fmt.Println(string(b))
	if len(rep.Violations) > 0 {
		return 1
	}
	return 0
}

// Package detx checks determinism of compiling, formatting and call-graph
// resolution (C10): R repetitions in one process must be byte-identical, the
// digests are returned for comparison across processes, and the emission order
// of unordered collections must be the one order spec/Order.tla allows.
package detx

import (
	"bufio"
	"crypto/sha256"
	"encoding/hex"
	"encoding/json"
	"fmt"
	"os"
	"sort"
	"strings"

	"github.com/martian-lang/martian/martian/syntax"
	"github.com/martian-lang/martian/martian/syntax/graph"
)

type detCase struct {
	Id     string            `json:"id"`
	Files  map[string]string `json:"files"`
	Top    string            `json:"top"`
	Expect []string          `json:"expect_order"` // texts that must appear in this order in every artefact that has them all
}

type artefacts struct {
	Format   string
	Combined string
	Error    string
	Graph    string
	Retains  string
	Strict   string // messages at the strictest enforcement level, stage code looked up
	FixInc   string // mro format --includes: text and messages with the include list repaired
	Dot      string // the call graph rendered for graphviz (mro graph --dot, mro check --dot)
}

func digest(s string) string {
	h := sha256.Sum256([]byte(s))
	return hex.EncodeToString(h[:8])
}

// shared is a parser that lives as long as the process and has parsed every earlier case:
// `mro format a b`, `mro check` and `mro edit` use one Parser for all their files.  What a
// source compiles or formats to must not depend on what the parser has seen before.
var shared syntax.Parser

func produce(dir string, c *detCase) artefacts { return produceWith(dir, c, nil) }

func produceWith(dir string, c *detCase, use *syntax.Parser) artefacts {
	var a artefacts
	top := []byte(c.Files[c.Top])
	var p0, q0 syntax.Parser
	p, q := &p0, &q0
	if use != nil {
		p, q = use, use
	}
	if f, err := p.FormatSrcBytes(top, dir+"/"+c.Top, false, nil); err == nil {
		a.Format = f
	} else {
		a.Format = "ERR " + err.Error()
	}
	{
		var fp syntax.Parser
		f, err := fp.FormatSrcBytes(top, dir+"/"+c.Top, true, []string{dir})
		if err != nil {
			f += "\nERR " + err.Error()
		}
		a.FixInc = strings.ReplaceAll(f, dir, "$DIR")
	}
	combined, _, ast, err := q.ParseSourceBytes(top, dir+"/"+c.Top, []string{dir}, false)
	a.Combined = combined
	if err != nil {
		a.Error = strings.ReplaceAll(err.Error(), dir, "$DIR")
		a.Format = strings.ReplaceAll(a.Format, dir, "$DIR")
		a.Combined = strings.ReplaceAll(a.Combined, dir, "$DIR")
		a.Strict = strictErrors(dir, c)
		return a
	}
	if ast != nil {
		var rs []string
		for _, st := range ast.Stages {
			if st.Retain != nil {
				for _, r := range st.Retain.Params {
					rs = append(rs, st.Id+"."+r.Id)
				}
			}
		}
		a.Retains = strings.Join(rs, ",")
	}
	if ast != nil && ast.Call != nil {
		g, err := ast.MakeCallGraph("ID.", ast.Call)
		if pg, ok := g.(*syntax.CallGraphPipeline); ok && err == nil {
			var sb strings.Builder
			if err := graph.RenderDot(pg, &sb, "", "  "); err != nil {
				sb.WriteString("\nERR " + err.Error())
			}
			a.Dot = strings.ReplaceAll(sb.String(), dir, "$DIR")
		}
		if err != nil {
			a.Graph = "ERR " + err.Error()
		} else if b, err := json.Marshal(g); err != nil {
			a.Graph = "ERR " + err.Error()
		} else {
			a.Graph = string(b)
		}
	}
	a.Strict = strictErrors(dir, c)
	// the scratch directory differs between processes
	a.Error = strings.ReplaceAll(a.Error, dir, "$DIR")
	a.Graph = strings.ReplaceAll(a.Graph, dir, "$DIR")
	a.Format = strings.ReplaceAll(a.Format, dir, "$DIR")
	return a
}

// strictErrors: what the compiler says at the strictest enforcement level (what is a warning
// otherwise is an error there) with the stage code looked up in the directories of the sources
// (none of it exists: every stage yields a message that lists where it was searched).
func strictErrors(dir string, c *detCase) string {
	old := syntax.GetEnforcementLevel()
	syntax.SetEnforcementLevel(syntax.EnforceError)
	defer syntax.SetEnforcementLevel(old)
	var p syntax.Parser
	_, _, _, err := p.ParseSourceBytes([]byte(c.Files[c.Top]), dir+"/"+c.Top, []string{dir}, true)
	if err == nil {
		return ""
	}
	return strings.ReplaceAll(err.Error(), dir, "$DIR")
}

type Violation struct {
	Id     string `json:"id"`
	Kind   string `json:"kind"`
	Detail string `json:"detail"`
	Src    string `json:"src"`
}

func inOrder(text string, items []string) (bool, string) {
	pos := -1
	for i, it := range items {
		j := strings.Index(text, it)
		if j < 0 {
			return true, "" // not all present: nothing to say
		}
		if j < pos {
			return false, fmt.Sprintf("%q is emitted before %q", it, items[i-1])
		}
		pos = j
	}
	return true, ""
}

// Run: args = cases.ndjson out.json R
func Run(args []string) int {
	f, err := os.Open(args[0])
	if err != nil {
		fmt.Fprintln(os.Stderr, err)
		return 2
	}
	defer f.Close()
	R := 5
	fmt.Sscanf(args[2], "%d", &R)
	work := args[3]
	sc := bufio.NewScanner(f)
	sc.Buffer(make([]byte, 1<<20), 1<<26)
	var viols []Violation
	digests := map[string]map[string]string{}
	n := 0
	for sc.Scan() {
		var c detCase
		if err := json.Unmarshal(sc.Bytes(), &c); err != nil {
			fmt.Fprintln(os.Stderr, "case:", err)
			return 2
		}
		n++
		dir := work + "/det" // the same path in every process: positions in messages are comparable
		os.RemoveAll(dir)
		for name, text := range c.Files {
			d := dir
			if i := strings.LastIndex(name, "/"); i >= 0 {
				d = dir + "/" + name[:i]
			}
			os.MkdirAll(d, 0755)
			os.WriteFile(dir+"/"+name, []byte(text), 0644)
		}
		first := produce(dir, &c)
		for r := 1; r < R; r++ {
			a := produce(dir, &c)
			for _, x := range [][3]string{{"formatted text", first.Format, a.Format}, {"combined source", first.Combined, a.Combined},
				{"error messages", first.Error, a.Error}, {"call graph", first.Graph, a.Graph}, {"retain order", first.Retains, a.Retains},
				{"messages at the strictest level with stage code looked up", first.Strict, a.Strict},
				{"formatted text and messages with the include list repaired", first.FixInc, a.FixInc},
				{"call graph rendered for graphviz", first.Dot, a.Dot}} {
				if x[1] != x[2] {
					viols = append(viols, Violation{c.Id, "differs-between-repetitions: " + x[0], diffAt(x[1], x[2]), c.Files[c.Top]})
				}
			}
		}
		{
			a := produceWith(dir, &c, &shared)
			for _, x := range [][3]string{{"formatted text", first.Format, a.Format}, {"combined source", first.Combined, a.Combined},
				{"error messages", first.Error, a.Error}, {"call graph", first.Graph, a.Graph}} {
				if x[1] != x[2] {
					viols = append(viols, Violation{c.Id, "differs-when-the-parser-has-parsed-other-sources-before: " + x[0], diffAt(x[1], x[2]), c.Files[c.Top]})
				}
			}
		}
		if len(c.Expect) > 0 {
			for _, x := range [][2]string{{"formatted text", first.Format}, {"combined source", first.Combined}, {"call graph", first.Graph}} {
				if ok, why := inOrder(x[1], c.Expect); !ok {
					viols = append(viols, Violation{c.Id, "order: " + x[0], why, c.Files[c.Top]})
				}
			}
		}
		digests[c.Id] = map[string]string{"format": digest(first.Format), "combined": digest(first.Combined),
			"error": digest(first.Error), "graph": digest(first.Graph), "retains": digest(first.Retains), "strict": digest(first.Strict), "fixinc": digest(first.FixInc), "dot": digest(first.Dot),
			"error_text": first.Error}
	}
	// one violation per (case, kind)
	seen := map[string]bool{}
	var uniq []Violation
	for _, v := range viols {
		k := v.Id + "|" + v.Kind
		if !seen[k] {
			seen[k] = true
			uniq = append(uniq, v)
		}
	}
	sort.Slice(uniq, func(i, j int) bool { return uniq[i].Id < uniq[j].Id })
	rep := map[string]interface{}{"cases": n, "repetitions": R, "violations": uniq, "digests": digests}
	b, _ := json.Marshal(rep)
	os.WriteFile(args[1], b, 0644)
	return 0
}

func diffAt(a, b string) string {
	i := 0
	for i < len(a) && i < len(b) && a[i] == b[i] {
		i++
	}
	lo := i - 80
	if lo < 0 {
		lo = 0
	}
	ha, hb := i+160, i+160
	if ha > len(a) {
		ha = len(a)
	}
	if hb > len(b) {
		hb = len(b)
	}
	return fmt.Sprintf("at byte %d: %q vs %q", i, a[lo:ha], b[lo:hb])
}

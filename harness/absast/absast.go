// Package absast abstracts a real MRO syntax tree into plain JSON: everything
// the program means (declarations, parameters, types, bindings, literal
// values, modifiers, resources), nothing about layout (positions, comments).
// The form extends the abstract programs of /verif/lib/mro.py.
package absast

import (
	"encoding/json"
	"fmt"
	"math"
	"os"
	"sort"
	"strconv"

	"github.com/martian-lang/martian/martian/syntax"
)

type M = map[string]interface{}

func typ(t syntax.TypeId) M {
	if t.MapDim > 0 {
		return M{"b": t.Tname, "a": int(t.ArrayDim), "m": 1, "ia": int(t.MapDim) - 1}
	}
	return M{"b": t.Tname, "a": int(t.ArrayDim), "m": 0, "ia": 0}
}

// Exp abstracts an expression: tagged literal values, references, literals
// containing references.
func Exp(e syntax.Exp) interface{} {
	switch e := e.(type) {
	case nil:
		return M{"k": "none"}
	case *syntax.NullExp:
		return M{"k": "lit", "v": M{"k": "null"}}
	case *syntax.BoolExp:
		return M{"k": "lit", "v": M{"k": "bool", "b": e.Value}}
	case *syntax.IntExp:
		return M{"k": "lit", "v": M{"k": "int", "i": strconv.FormatInt(e.Value, 10)}}
	case *syntax.FloatExp:
		// a float with an integral value is written (and read back) as an integer:
		// the same number
		if e.Value == math.Trunc(e.Value) && math.Abs(e.Value) < 1e18 {
			if e.Value == 0 && math.Signbit(e.Value) {
				return M{"k": "lit", "v": M{"k": "float", "f": "-0"}}
			}
			return M{"k": "lit", "v": M{"k": "int", "i": strconv.FormatInt(int64(e.Value), 10)}}
		}
		return M{"k": "lit", "v": M{"k": "float", "f": strconv.FormatFloat(e.Value, 'g', -1, 64)}}
	case *syntax.StringExp:
		return M{"k": "lit", "v": M{"k": "str", "s": e.Value}}
	case *syntax.ArrayExp:
		es := make([]interface{}, len(e.Value))
		for i, x := range e.Value {
			es[i] = Exp(x)
		}
		return M{"k": "arrx", "es": es}
	case *syntax.MapExp:
		keys := make([]string, 0, len(e.Value))
		for k := range e.Value {
			keys = append(keys, k)
		}
		sort.Strings(keys)
		fs := make([]interface{}, len(keys))
		for i, k := range keys {
			fs[i] = M{"n": k, "e": Exp(e.Value[k])}
		}
		return M{"k": "objx", "kind": string(e.Kind), "fs": fs}
	case *syntax.SplitExp:
		return M{"k": "split", "e": Exp(e.Value)}
	case *syntax.RefExp:
		if e.Kind == syntax.KindSelf {
			return M{"k": "self", "id": e.Id, "out": e.OutputId}
		}
		return M{"k": "ref", "call": e.Id, "out": e.OutputId}
	default:
		return M{"k": "other", "go": fmt.Sprintf("%T", e)}
	}
}

func inParams(ps *syntax.InParams) []interface{} {
	out := []interface{}{}
	if ps == nil {
		return out
	}
	for _, p := range ps.List {
		out = append(out, M{"n": p.Id, "t": typ(p.Tname), "help": p.Help})
	}
	return out
}

func outParams(ps *syntax.OutParams) []interface{} {
	out := []interface{}{}
	if ps == nil {
		return out
	}
	for _, p := range ps.List {
		out = append(out, M{"n": p.Id, "t": typ(p.Tname), "help": p.Help, "outname": p.OutName})
	}
	return out
}

func binds(bs *syntax.BindStms) []interface{} {
	out := []interface{}{}
	if bs == nil {
		return out
	}
	for _, b := range bs.List {
		out = append(out, M{"n": b.Id, "e": Exp(b.Exp)})
	}
	return out
}

func call(c *syntax.CallStm) M {
	m := M{"id": c.Id, "callee": c.DecId, "binds": binds(c.Bindings), "mapped": c.Mapping != nil || c.CallMode() != syntax.ModeSingleCall,
		"mode": c.CallMode().String()}
	mods := M{"local": false, "preflight": false, "volatile": false, "binds": []interface{}{}}
	if c.Modifiers != nil {
		mods["local"] = c.Modifiers.Local
		mods["preflight"] = c.Modifiers.Preflight
		mods["volatile"] = c.Modifiers.Volatile
		mods["binds"] = binds(c.Modifiers.Bindings)
	}
	m["mods"] = mods
	return m
}

// Abstract of a whole tree.
func Abstract(ast *syntax.Ast) M {
	out := M{}
	fts := []interface{}{}
	for _, u := range ast.UserTypes {
		fts = append(fts, u.Id)
	}
	out["filetypes"] = fts
	sts := []interface{}{}
	for _, s := range ast.StructTypes {
		fs := []interface{}{}
		for _, m := range s.Members {
			fs = append(fs, M{"n": m.Id, "t": typ(m.Tname), "help": m.Help, "outname": m.OutName})
		}
		sts = append(sts, M{"name": s.Id, "fields": fs})
	}
	out["structs"] = sts
	stages := []interface{}{}
	pipes := []interface{}{}
	order := []interface{}{}
	if ast.Callables != nil {
		for _, c := range ast.Callables.List {
			order = append(order, c.GetId())
			switch c := c.(type) {
			case *syntax.Stage:
				s := M{"name": c.Id, "ins": inParams(c.InParams), "outs": outParams(c.OutParams), "split": c.Split,
					"chunk_ins": inParams(c.ChunkIns), "chunk_outs": outParams(c.ChunkOuts)}
				if c.Src != nil {
					args := c.Src.Args
					if args == nil {
						args = []string{}
					}
					s["src"] = M{"lang": string(c.Src.Lang), "path": c.Src.Path, "args": args}
				}
				res := M{}
				if r := c.Resources; r != nil {
					if r.ThreadNode != nil {
						res["threads"] = strconv.FormatFloat(float64(r.Threads), 'g', -1, 32)
					}
					if r.MemNode != nil {
						res["mem_gb"] = strconv.FormatFloat(float64(r.MemGB), 'g', -1, 32)
					}
					if r.VMemNode != nil {
						res["vmem_gb"] = strconv.FormatFloat(float64(r.VMemGB), 'g', -1, 32)
					}
					if r.SpecialNode != nil {
						res["special"] = r.Special
					}
					if r.VolatileNode != nil {
						if r.StrictVolatile {
							res["volatile"] = "strict"
						} else {
							res["volatile"] = "false"
						}
					}
				}
				s["resources"] = res
				ret := []interface{}{}
				if c.Retain != nil {
					for _, p := range c.Retain.Params {
						ret = append(ret, p.Id)
					}
				}
				s["retain"] = ret
				stages = append(stages, s)
			case *syntax.Pipeline:
				p := M{"name": c.Id, "ins": inParams(c.InParams), "outs": outParams(c.OutParams)}
				calls := []interface{}{}
				for _, cs := range c.Calls {
					calls = append(calls, call(cs))
				}
				p["calls"] = calls
				if c.Ret != nil {
					p["ret"] = binds(c.Ret.Bindings)
				} else {
					p["ret"] = []interface{}{}
				}
				ret := []interface{}{}
				if c.Retain != nil {
					for _, r := range c.Retain.Refs {
						ret = append(ret, Exp(r))
					}
				}
				p["retain"] = ret
				pipes = append(pipes, p)
			}
		}
	}
	out["stages"] = stages
	out["pipelines"] = pipes
	out["order"] = order
	if ast.Call != nil {
		out["call"] = call(ast.Call)
	}
	incs := []interface{}{}
	for _, i := range ast.Includes {
		incs = append(incs, i.Value)
	}
	out["includes"] = incs
	return out
}

func Probe(args []string) int {
	src, err := os.ReadFile(args[0])
	if err != nil {
		fmt.Println(err)
		return 2
	}
	var p syntax.Parser
	ast, err := p.UncheckedParse(src, args[0])
	if err != nil {
		fmt.Println("parse:", err)
		return 1
	}
	b, _ := json.MarshalIndent(Abstract(ast), "", " ")
	fmt.Println(string(b))
	return 0
}

// Normalize folds the two modifier syntaxes into one form: `call local S` and
// `using (local = true)` mean the same.
func Normalize(m M) M {
	fold := func(c M) {
		mods, _ := c["mods"].(M)
		if mods == nil {
			return
		}
		bs, _ := mods["binds"].([]interface{})
		keep := []interface{}{}
		for _, b := range bs {
			bm := b.(M)
			name, _ := bm["n"].(string)
			if name == "local" || name == "preflight" || name == "volatile" {
				if e, ok := bm["e"].(M); ok && e["k"] == "lit" {
					if v, ok := e["v"].(M); ok && v["k"] == "bool" {
						if v["b"].(bool) {
							mods[name] = true
						}
						continue
					}
				}
			}
			keep = append(keep, b)
		}
		mods["binds"] = keep
	}
	if ps, ok := m["pipelines"].([]interface{}); ok {
		for _, p := range ps {
			if cs, ok := p.(M)["calls"].([]interface{}); ok {
				for _, c := range cs {
					fold(c.(M))
				}
			}
		}
	}
	if c, ok := m["call"].(M); ok {
		fold(c)
	}
	return m
}

// Batch: compiles every listed top-level file and prints one JSON line each:
// {id, ok, error, abs, graph}.  in: ndjson {id, dir, top}
func Batch(args []string) int {
	f, err := os.Open(args[0])
	if err != nil {
		fmt.Fprintln(os.Stderr, err)
		return 2
	}
	defer f.Close()
	out, _ := os.Create(args[1])
	defer out.Close()
	dec := json.NewDecoder(f)
	enc := json.NewEncoder(out)
	for dec.More() {
		var c struct{ Id, Dir, Top string }
		if err := dec.Decode(&c); err != nil {
			fmt.Fprintln(os.Stderr, err)
			return 2
		}
		res := M{"id": c.Id}
		func() {
			defer func() {
				if x := recover(); x != nil {
					res["ok"] = false
					res["error"] = fmt.Sprint("panic: ", x)
				}
			}()
			src, err := os.ReadFile(c.Dir + "/" + c.Top)
			if err != nil {
				res["ok"], res["error"] = false, err.Error()
				return
			}
			var p syntax.Parser
			_, _, ast, err := p.ParseSourceBytes(src, c.Dir+"/"+c.Top, []string{c.Dir}, false)
			if err != nil {
				res["ok"], res["error"] = false, err.Error()
				return
			}
			res["ok"] = true
			res["abs"] = Normalize(Abstract(ast))
			if ast.Call != nil {
				if g, err := ast.MakeCallGraph("ID.", ast.Call); err == nil {
					if b, err := json.Marshal(g); err == nil {
						res["graph"] = string(b)
					}
				} else {
					res["graph_error"] = err.Error()
				}
			}
			res["text"] = string(src)
		}()
		enc.Encode(res)
	}
	return 0
}

// CompileBatch: in ndjson {Id, Src}; out ndjson {id, ok, error}.  Each source is
// compiled on its own (no include path).
func CompileBatch(args []string) int {
	f, err := os.Open(args[0])
	if err != nil {
		fmt.Fprintln(os.Stderr, err)
		return 2
	}
	defer f.Close()
	out, _ := os.Create(args[1])
	defer out.Close()
	dec := json.NewDecoder(f)
	enc := json.NewEncoder(out)
	for dec.More() {
		var c struct{ Id, Src string }
		if err := dec.Decode(&c); err != nil {
			fmt.Fprintln(os.Stderr, err)
			return 2
		}
		res := M{"id": c.Id, "ok": true, "error": ""}
		func() {
			defer func() {
				if x := recover(); x != nil {
					res["ok"], res["error"] = false, fmt.Sprint("panic: ", x)
				}
			}()
			var p syntax.Parser
			if _, _, _, err := p.ParseSourceBytes([]byte(c.Src), "p.mro", nil, false); err != nil {
				res["ok"], res["error"] = false, err.Error()
			}
		}()
		enc.Encode(res)
	}
	return 0
}

// Package lexp replays the Lex specification's rows through the real scanner
// and checks the totality of the real parser / compiler (C08): every input
// yields a tree or an error that carries a source position - no panic, no hang.
package lexp

import (
	"bufio"
	"encoding/base64"
	"encoding/json"
	"fmt"
	"os"
	"path/filepath"
	"regexp"
	"runtime/debug"
	"sort"
	"strings"
	"sync"
	"time"

	"github.com/martian-lang/martian/martian/syntax"
)

var classBytes = map[string]string{
	"L": "é", "N": " ", "X": "\xff",
}

func concretise(cs []string) []byte {
	var b []byte
	for _, c := range cs {
		if r, ok := classBytes[c]; ok {
			b = append(b, r...)
		} else {
			b = append(b, c...)
		}
	}
	return b
}

type tok struct {
	K string `json:"k"`
	N int    `json:"n"`
}

type row struct {
	S    []string `json:"s"`
	Toks []tok    `json:"toks"`
}

// Outcome of one call of a parser entry point.
type Outcome struct {
	Kind string // tree | error | panic | hang | noposition
	Text string
	Dur  time.Duration
}

var posRe = regexp.MustCompile(`[\w./\[\]-]+:\d+|line \d+`)

// whole-input messages: the input is a complete MRO file where an expression was
// expected or the other way round; no single position applies
var wholeInput = []string{"Expected: expression, got mro instead", "Expected: includes or stage or pipeline or call."}

type entry struct {
	name string
	f    func(p *syntax.Parser, src []byte) (bool, error)
}

var entries = map[string]entry{
	"valexp": {"ParseValExp", func(p *syntax.Parser, src []byte) (bool, error) {
		v, err := p.ParseValExp(src)
		return v != nil, err
	}},
	"unchecked": {"UncheckedParse", func(p *syntax.Parser, src []byte) (bool, error) {
		a, err := p.UncheckedParse(src, "in.mro")
		return a != nil, err
	}},
	"compile": {"ParseSourceBytes", func(p *syntax.Parser, src []byte) (bool, error) {
		_, _, a, err := p.ParseSourceBytes(src, "in.mro", nil, false)
		return a != nil, err
	}},
	// compile as mro check and mrp do: the call graph of the top call is built from an
	// accepted tree (an error of that step is not judged, only that it returns)
	"callgraph": {"ParseSourceBytes+MakeCallGraph", func(p *syntax.Parser, src []byte) (bool, error) {
		_, _, a, err := p.ParseSourceBytes(src, "in.mro", nil, false)
		if err != nil || a == nil || a.Call == nil {
			return a != nil, err
		}
		a.MakeCallGraph("", a.Call)
		return true, nil
	}},
	// several files: src is {"files": {name: text}, "top": name}; the top file is compiled
	// with its directory on the include path, then formatted
	"graph": {"ParseSourceBytes(include graph)", func(p *syntax.Parser, src []byte) (bool, error) {
		var g struct {
			Files map[string]string `json:"files"`
			Top   string            `json:"top"`
		}
		if err := json.Unmarshal(src, &g); err != nil {
			panic("bad graph case: " + err.Error())
		}
		dir, err := os.MkdirTemp("", "graph")
		if err != nil {
			panic(err)
		}
		defer os.RemoveAll(dir)
		for n, t := range g.Files {
			os.MkdirAll(filepath.Dir(filepath.Join(dir, n)), 0755)
			os.WriteFile(filepath.Join(dir, n), []byte(t), 0644)
		}
		top := filepath.Join(dir, g.Top)
		_, _, a, err := p.ParseSourceBytes([]byte(g.Files[g.Top]), top, []string{dir}, false)
		if err != nil {
			return a != nil, err
		}
		var q syntax.Parser
		out, err := q.FormatSrcBytes([]byte(g.Files[g.Top]), top, false, []string{dir})
		return a != nil && out != "", err
	}},
	"format": {"FormatSrcBytes", func(p *syntax.Parser, src []byte) (bool, error) {
		s, err := p.FormatSrcBytes(src, "in.mro", false, nil)
		return s != "", err
	}},
}

var hangs int32
var hangMu sync.Mutex

// Call runs one entry point on src with recover and a deadline.
func Call(which string, src []byte, deadline time.Duration) Outcome {
	e := entries[which]
	ch := make(chan Outcome, 1)
	t0 := time.Now()
	go func() {
		defer func() {
			if r := recover(); r != nil {
				st := string(debug.Stack())
				if i := strings.Index(st, "panic("); i >= 0 {
					st = st[i:]
				}
				if len(st) > 700 {
					st = st[:700]
				}
				ch <- Outcome{Kind: "panic", Text: fmt.Sprintf("%v | %s", r, st)}
			}
		}()
		var p syntax.Parser
		ok, err := e.f(&p, src)
		if err != nil {
			txt := err.Error()
			if len(txt) > 200*len(src)+100000 {
				// (memory out of proportion to the input: the message alone)
				ch <- Outcome{Kind: "hang", Text: fmt.Sprintf("an error message of %d bytes for an input of %d bytes: %.300s", len(txt), len(src), txt)}
				return
			}
			kind := "error"
			if !posRe.MatchString(txt) {
				kind = "noposition"
				for _, w := range wholeInput {
					if strings.Contains(txt, w) {
						kind = "error"
					}
				}
			}
			if len(txt) > 400 {
				txt = txt[:400]
			}
			ch <- Outcome{Kind: kind, Text: txt}
		} else if ok {
			ch <- Outcome{Kind: "tree"}
		} else {
			ch <- Outcome{Kind: "noposition", Text: "neither a result nor an error"}
		}
	}()
	select {
	case o := <-ch:
		o.Dur = time.Since(t0)
		return o
	case <-time.After(deadline):
		hangMu.Lock()
		hangs++
		hangMu.Unlock()
		return Outcome{Kind: "hang", Text: "no result after " + deadline.String(), Dur: deadline}
	}
}

// Case is one input in one context.
type Case struct {
	Id    string `json:"id"`
	Entry string `json:"entry"`
	Src   string `json:"src"` // may hold arbitrary bytes
}

// Violation of the totality oracle.
type Violation struct {
	Id    string `json:"id"`
	Entry string `json:"entry"`
	Kind  string `json:"kind"`
	Text  string `json:"text"`
	SrcQ  string `json:"src_q"` // Go-quoted source
	Class string `json:"class"` // stable key: panic site / message class
}

var frameRe = regexp.MustCompile(`martian/syntax\.([\w\(\)\*\.]+)`)

func classify(o Outcome) string {
	switch o.Kind {
	case "panic":
		fs := frameRe.FindAllStringSubmatch(o.Text, -1)
		for _, f := range fs {
			if !strings.Contains(f[1], "Verif") && !strings.HasPrefix(f[1], "mm") && f[1] != "init" &&
				!strings.Contains(f[1], "yaccParseAny.func") {
				site := f[1]
				if i := strings.Index(site, "(0x"); i > 0 {
					site = site[:i] // the arguments of the frame are not part of the site
				}
				return "panic in " + site
			}
		}
		return "panic"
	case "hang":
		return "hang"
	default:
		t := o.Text
		if i := strings.IndexAny(t, "\n'"); i > 0 {
			t = t[:i]
		}
		return "no position: " + t
	}
}

// RunCases checks the oracle on every case, in parallel.
func RunCases(cases []Case, deadline time.Duration) (viols []Violation, counts map[string]int, maxDur time.Duration) {
	counts = map[string]int{}
	var mu sync.Mutex
	var wg sync.WaitGroup
	ch := make(chan Case, 256)
	for w := 0; w < 16; w++ {
		wg.Add(1)
		go func() {
			defer wg.Done()
			for c := range ch {
				hangMu.Lock()
				h := hangs
				hangMu.Unlock()
				if h > 24 {
					continue // spinning goroutines: stop feeding
				}
				o := Call(c.Entry, []byte(c.Src), deadline)
				mu.Lock()
				counts[c.Entry+":"+o.Kind]++
				if o.Dur > maxDur {
					maxDur = o.Dur
				}
				if o.Kind == "panic" || o.Kind == "hang" || o.Kind == "noposition" {
					viols = append(viols, Violation{Id: c.Id, Entry: c.Entry, Kind: o.Kind, Text: o.Text,
						SrcQ: fmt.Sprintf("%q", c.Src), Class: classify(o)})
				}
				mu.Unlock()
			}
		}()
	}
	for _, c := range cases {
		ch <- c
	}
	close(ch)
	wg.Wait()
	sort.Slice(viols, func(i, j int) bool { return viols[i].Id < viols[j].Id })
	return
}

var templates = []struct{ name, entry, text string }{
	{"raw", "valexp", "%s"},
	{"raw", "unchecked", "%s"},
	{"bind", "unchecked", "call S(\n    x = %s,\n)\n"},
	{"res", "compile", "stage S(\n    in  int x,\n    src py \"s\",\n) using (\n    threads = %s,\n    mem_gb  = %s,\n)\n"},
	{"arr", "valexp", "[%s, {\"k\": %s}]"},
}

// LexReplay: rows of Lex.tla -> real scanner (token boundaries) and the
// totality oracle in several contexts.
func LexReplay(args []string) int {
	rowsPath, outPath := args[0], args[1]
	f, err := os.Open(rowsPath)
	if err != nil {
		fmt.Fprintln(os.Stderr, err)
		return 2
	}
	defer f.Close()
	sc := bufio.NewScanner(f)
	sc.Buffer(make([]byte, 1<<20), 1<<26)
	var cases []Case
	nrows, drift := 0, 0
	var driftEx []string
	for sc.Scan() {
		var r row
		if err := json.Unmarshal(sc.Bytes(), &r); err != nil {
			fmt.Fprintln(os.Stderr, "row:", err)
			return 2
		}
		nrows++
		src := concretise(r.S)
		// token boundaries: model against real scanner
		real := syntax.VerifTokenize(src)
		same := len(real) == len(r.Toks)
		if same {
			for i := range real {
				rn := real[i].Name
				if real[i].Name == "INVALID" || real[i].Len == 0 {
					rn = "INVALID"
				}
				if rn != r.Toks[i].K || (rn != "INVALID" && real[i].Len != r.Toks[i].N) {
					same = false
				}
			}
		}
		if !same {
			drift++
			if len(driftEx) < 5 {
				driftEx = append(driftEx, fmt.Sprintf("%q model %v real %v", src, r.Toks, real))
			}
		}
		id := strings.Join(r.S, "")
		for _, t := range templates {
			n := strings.Count(t.text, "%s")
			a := make([]interface{}, n)
			for i := range a {
				a[i] = string(src)
			}
			cases = append(cases, Case{Id: t.name + ":" + id, Entry: t.entry, Src: fmt.Sprintf(t.text, a...)})
		}
	}
	viols, counts, maxDur := RunCases(cases, 5*time.Second)
	rep := map[string]interface{}{"rows": nrows, "cases": len(cases), "drift": drift, "drift_examples": driftEx,
		"violations": viols, "counts": counts, "max_ms": maxDur.Milliseconds()}
	b, _ := json.Marshal(rep)
	os.WriteFile(outPath, b, 0644)
	return 0
}

type b64Case struct {
	Id    string `json:"id"`
	Entry string `json:"entry"`
	B64   string `json:"b64"`
	Src   string `json:"src"`
	// Expect: "" (only the totality oracle) | "tree" | "error"
	Expect string `json:"expect"`
	// ScaleOf: id of a smaller case of the same family; the time of this one must
	// stay in proportion
	Bytes int `json:"bytes"`
}

// ParseCases: concrete inputs (boundary numerals, strings, nesting) through
// the entry points.  in: ndjson of b64Case, out: report.
func ParseCases(args []string) int {
	f, err := os.Open(args[0])
	if err != nil {
		fmt.Fprintln(os.Stderr, err)
		return 2
	}
	defer f.Close()
	sc := bufio.NewScanner(f)
	sc.Buffer(make([]byte, 1<<20), 1<<28)
	var cases []Case
	expect := map[string]string{}
	for sc.Scan() {
		var c b64Case
		if err := json.Unmarshal(sc.Bytes(), &c); err != nil {
			fmt.Fprintln(os.Stderr, "case:", err)
			return 2
		}
		src := c.Src
		if c.B64 != "" {
			b, err := base64Decode(c.B64)
			if err != nil {
				fmt.Fprintln(os.Stderr, "b64:", err)
				return 2
			}
			src = string(b)
		}
		cases = append(cases, Case{Id: c.Id, Entry: c.Entry, Src: src})
		if c.Expect != "" {
			expect[c.Id+"|"+c.Entry] = c.Expect
		}
	}
	deadline := 10 * time.Second
	viols, counts, maxDur := RunCases(cases, deadline)
	// expectations (generator-valid inputs are accepted)
	var wrong []Violation
	if len(expect) > 0 {
		for _, c := range cases {
			if want, ok := expect[c.Id+"|"+c.Entry]; ok {
				o := Call(c.Entry, []byte(c.Src), deadline)
				if o.Kind != want && (o.Kind == "tree" || o.Kind == "error") {
					wrong = append(wrong, Violation{Id: c.Id, Entry: c.Entry, Kind: "expected-" + want, Text: o.Text,
						SrcQ: fmt.Sprintf("%.300q", c.Src), Class: "expected " + want + " got " + o.Kind})
				}
			}
		}
	}
	// timing: per-byte cost of every case
	type tm struct {
		Id    string  `json:"id"`
		Bytes int     `json:"bytes"`
		Ms    float64 `json:"ms"`
	}
	var times []tm
	for _, c := range cases {
		if len(c.Src) >= 20000 {
			t0 := time.Now()
			o := Call(c.Entry, []byte(c.Src), 60*time.Second)
			times = append(times, tm{c.Id + "|" + c.Entry + "|" + o.Kind, len(c.Src), float64(time.Since(t0).Microseconds()) / 1000})
		}
	}
	rep := map[string]interface{}{"cases": len(cases), "violations": viols, "wrong": wrong, "counts": counts,
		"max_ms": maxDur.Milliseconds(), "times": times}
	b, _ := json.Marshal(rep)
	os.WriteFile(args[1], b, 0644)
	return 0
}

func base64Decode(s string) ([]byte, error) { return base64.StdEncoding.DecodeString(s) }

var keywords = []string{"as", "bool", "call", "comp", "default", "disabled", "exec", "false", "filetype", "float", "in",
	"int", "local", "map", "mem_gb", "null", "out", "path", "pipeline", "preflight", "py", "retain", "return", "self",
	"special", "split", "src", "stage", "strict", "string", "struct", "threads", "true", "using", "volatile", "vmem_gb"}

var substitutes = []string{"(", ")", "{", "}", "[", "]", ",", ".", "=", ":", ";", "<", ">", "*", "x", "1", "1.5", "\"s\"", "\"\"",
	"null", "self", "split", "-", "@include", "#c\n"}

// TokenEdits: valid programs -> all single-token edits (delete, duplicate,
// substitute, keyword in identifier position, truncate) -> oracle.
// in: ndjson {id, src}, out: report.  args[2] = "full" for every substitution.
func TokenEdits(args []string) int {
	f, err := os.Open(args[0])
	if err != nil {
		fmt.Fprintln(os.Stderr, err)
		return 2
	}
	defer f.Close()
	full := len(args) > 2 && args[2] == "full"
	sc := bufio.NewScanner(f)
	sc.Buffer(make([]byte, 1<<20), 1<<26)
	var cases []Case
	var invalidOriginals []string
	nprog := 0
	for sc.Scan() {
		var c b64Case
		if err := json.Unmarshal(sc.Bytes(), &c); err != nil {
			fmt.Fprintln(os.Stderr, "case:", err)
			return 2
		}
		nprog++
		src := []byte(c.Src)
		// the original must be accepted
		if o := Call("unchecked", src, 10*time.Second); o.Kind != "tree" {
			invalidOriginals = append(invalidOriginals, c.Id+": "+o.Text)
			continue
		}
		toks := syntax.VerifTokenize(src)
		type span struct {
			a, b int
			name string
		}
		var spans []span
		pos := 0
		for _, t := range toks {
			if t.Len == 0 {
				break
			}
			if t.Name != "SKIP" && t.Name != "COMMENT" {
				spans = append(spans, span{pos, pos + t.Len, t.Name})
			}
			pos += t.Len
		}
		add := func(kind string, i int, text []byte) {
			for _, e := range []string{"unchecked", "compile", "format"} {
				if e != "unchecked" && !full && kind != "kw" && kind != "del" {
					continue
				}
				cases = append(cases, Case{Id: fmt.Sprintf("%s:%s@%d", c.Id, kind, i), Entry: e, Src: string(text)})
			}
		}
		splice := func(a, b int, mid string) []byte {
			out := append([]byte{}, src[:a]...)
			out = append(out, mid...)
			return append(out, src[b:]...)
		}
		for i, s := range spans {
			add("del", i, splice(s.a, s.b, ""))
			add("dup", i, splice(s.b, s.b, " "+string(src[s.a:s.b])))
			add("trunc", i, src[:s.a])
			if i+1 < len(spans) {
				n := spans[i+1]
				add("swap", i, splice(s.a, n.b, string(src[n.a:n.b])+" "+string(src[s.a:s.b])))
			}
			if s.name == "ID" {
				for _, k := range keywords {
					add("kw", i, splice(s.a, s.b, k))
				}
			}
			subs := substitutes
			if !full {
				subs = substitutes[:0]
				for j := range substitutes {
					if (i+j)%5 == 0 {
						subs = append(subs, substitutes[j])
					}
				}
			}
			for _, sub := range subs {
				add("sub", i, splice(s.a, s.b, sub))
			}
		}
		// truncation inside tokens (strings, numbers)
		for i, s := range spans {
			if s.name == "LITSTRING" || s.name == "NUM_FLOAT" || s.name == "NUM_INT" {
				for cut := s.a + 1; cut < s.b; cut++ {
					add("cut", i*1000+cut-s.a, src[:cut])
				}
			}
		}
	}
	viols, counts, maxDur := RunCases(cases, 10*time.Second)
	rep := map[string]interface{}{"programs": nprog, "cases": len(cases), "violations": viols, "counts": counts,
		"max_ms": maxDur.Milliseconds(), "invalid_originals": invalidOriginals}
	b, _ := json.Marshal(rep)
	os.WriteFile(args[1], b, 0644)
	return 0
}
